(** The learner models instantiated with exact rationals [Qc] (axiom free,
    Leibniz equality) - the carrier the harness executes.  Every IEEE double
    is a dyadic rational, so the implementation's inputs are represented
    exactly. *)
From Coq Require Import ZArith List Bool QArith Qcanon.
From PV Require Import Flat Bytes BinFmt Store RWSpec RWExec.
Import ListNotations.
Open Scope Z_scope.

Definition qc_of (num den : Z) : Qc := Q2Qc (num # Z.to_pos den).
Definition qc_num (q : Qc) : Z := Qnum (this q).
Definition qc_den (q : Qc) : Z := Zpos (Qden (this q)).
Definition wr_qc (q : Qc) : list Z := [qc_num q; qc_den q].

Definition rd_qc (l : list Z) : option (Qc * list Z) :=
  match l with n :: d :: r => Some (qc_of n d, r) | _ => None end.

Definition Qparams := params Qc.
Definition q_dict_run := dict_run Qc 0%Qc Qcplus Qcmult Qcminus.
Definition q_dget := dget Qc 0%Qc.
Definition q_kget := kget Qc 0%Qc.
Definition q_k_files := k_files Qc 0%Qc Qcplus Qcmult Qcminus.

(** (key, value) tables *)
Definition rd_cell (l : list Z) : option ((Z * Z * Qc) * list Z) :=
  match l with o :: c :: n :: d :: r => Some ((o, c, qc_of n d), r) | _ => None end.
Definition rd_kv (l : list Z) : option ((Z * Qc) * list Z) :=
  match l with k :: n :: d :: r => Some ((k, qc_of n d), r) | _ => None end.

Definition lookup_alpha (dflt : Qc) (tbl : list (Z * Qc)) (c : Z) : Qc :=
  match find (fun kv => Z.eqb (fst kv) c) tbl with Some kv => snd kv | None => dflt end.

(** 201 dict_ndl.
    input: alpha_default(2) ; per-cue alphas (seq of k,n,d) ; beta1(2) beta2(2) lam(2) ; pol ;
           events ; initial cells (seq of o,c,n,d) ; rows (list) ; cols (list)
    output: [0] ++ rows x cols values (n,d)   |  [-1;3] ValueError (duplicates) *)
Definition m_dict (inp : list Z) : list Z :=
  match rd_qc inp with
  | Some (adef, r0) =>
  match rd_seq rd_kv r0 with
  | Some (atbl, r1) =>
  match rd_qc r1 with | Some (b1, r2) =>
  match rd_qc r2 with | Some (b2, r3) =>
  match rd_qc r3 with | Some (la, po :: r4) =>
  match rd_events r4 with | Some (es, r5) =>
  match rd_seq rd_cell r5 with | Some (cells, r6) =>
  match rd_list r6 with | Some (rows, r7) =>
  match rd_list r7 with | Some (cols, _) =>
    let p := {| alpha := lookup_alpha adef atbl; beta1 := b1; beta2 := b2; lam := la |} in
    let s0 := fold_left (fun s x => match x with (o, c, v) => mset s o c v end) cells (ZZM.empty Qc) in
    let all0 := fold_left (fun all x => match x with (o, _, _) => if mem_z o all then all else all ++ [o] end)
                          cells [] in
    match q_dict_run p (match po with 0 => PNone | 1 => PTrue | _ => PFalse end) es (all0, s0) with
    | None => flat_err 3
    | Some (_, s) => 0 :: flat_map (fun o => flat_map (fun c => wr_qc (q_dget s o c)) cols) rows
    end
  | None => bad_case end | None => bad_case end | None => bad_case end | None => bad_case end
  | _ => bad_case end | None => bad_case end | None => bad_case end | None => bad_case end
  | None => bad_case
  end.

(** 202 binary-to-binary kernel over a list of chunk files.
    input: alpha(2) beta1(2) beta2(2) lam(2) ; n_cues ; all_outcomes (list) ; start ; stop ;
           files (seq of byte lists) ; initial cells (seq of o,c,n,d) ; rows ; cols
    output: [err] ++ rows x cols values *)
Definition m_kernel (inp : list Z) : list Z :=
  match rd_qc inp with | Some (al, r0) =>
  match rd_qc r0 with | Some (b1, r1) =>
  match rd_qc r1 with | Some (b2, r2) =>
  match rd_qc r2 with | Some (la, n_cues :: r3) =>
  match rd_list r3 with | Some (allo, start :: stop :: r4) =>
  match rd_seq rd_list r4 with | Some (files, r5) =>
  match rd_seq rd_cell r5 with | Some (cells, r6) =>
  match rd_list r6 with | Some (rows, r7) =>
  match rd_list r7 with | Some (cols, _) =>
    let p := kparams Qc al b1 b2 la in
    let m0 := fold_left (fun m x => match x with (o, c, v) => kset Qc n_cues m o c v end)
                        cells (ZM.empty Qc) in
    let (err, m) := q_k_files p n_cues allo start stop files m0 in
    err :: flat_map (fun o => flat_map (fun c => wr_qc (q_kget n_cues m o c)) cols) rows
  | None => bad_case end | None => bad_case end | None => bad_case end | None => bad_case end
  | _ => bad_case end | _ => bad_case end | None => bad_case end | None => bad_case end
  | None => bad_case
  end.
