(** The parallel learner end to end at the level of ids: text events -> duplicate
    policy -> chunk files written by conversion jobs -> files parsed by the kernel
    in numeric order -> learning under any schedule.  Composition of the chunking
    (C04), codec (C06) and learning (C01/C02) theorems. *)
From Coq Require Import ZArith List Bool Arith Lia Ring.
From PV Require Import Lists Bytes BinFmt BinFmtProofs Store RWSpec RWExec RWProofs Sched SchedProofs
     RWMain Proto ProtoProofs.
Import ListNotations.

Lemma forallb_firstn {A} (f : A -> bool) n l : forallb f l = true -> forallb f (firstn n l) = true.
Proof.
  revert l. induction n as [|n IH]; intros [|x r] H; cbn in *; try reflexivity.
  apply andb_true_iff in H as [H1 H2]. now rewrite H1, IH.
Qed.

Lemma forallb_skipn {A} (f : A -> bool) n l : forallb f l = true -> forallb f (skipn n l) = true.
Proof.
  revert l. induction n as [|n IH]; intros [|x r] H; cbn in *; try reflexivity; try exact H.
  apply andb_true_iff in H as [H1 H2]. now apply IH.
Qed.

Definition chunk (per : nat) (es : list event) (k : nat) : list event := firstn per (skipn (k * per) es).

(** every chunk file that exists is parsed by the kernel as exactly its events *)
Theorem chunk_file_parsed es es' per po k :
  prep_all po es = Some es' -> events_ok es' = true -> (1 <= per)%nat ->
  match job_file es per po k with
  | Some f => chunk per es' k <> [] /\ k_parse f = KOk (chunk per es' k)
  | None => chunk per es' k = []
  end.
Proof.
  intros Hp Hok Hper. pose proof (job_file_spec es es' per po k Hp Hper) as E. cbv zeta in E.
  fold (chunk per es' k) in E. rewrite E.
  destruct (Nat.eqb_spec (length (chunk per es' k)) 0) as [H0|H0].
  - now apply length_zero_iff_nil.
  - split; [intro Hn; rewrite Hn in H0; now apply H0|].
    change (encode_n (Z.of_nat (length (chunk per es' k))) (chunk per es' k)) with (encode (chunk per es' k)).
    apply k_parse_encode. unfold events_ok in *. apply andb_true_iff in Hok as [H1 H2].
    apply andb_true_iff. split.
    + unfold chunk. now apply forallb_firstn, forallb_skipn.
    + apply fits32_spec. apply fits32_spec in H2. unfold chunk.
      rewrite firstn_length, skipn_length. unfold two32 in *. lia.
Qed.

Section Pipeline.
  Variable R : Type.
  Variables (rO rI : R) (radd rmul rsub : R -> R -> R) (ropp : R -> R).
  Hypothesis Rth : ring_theory rO rI radd rmul rsub ropp (@eq R).

  (** ndl.ndl(method='openmp') at the level of ids: whatever the chunk size, the
      partition of the outcomes into parts and the interleaving inside every chunk
      file, the weights are the Rescorla-Wagner weights of the prepared events *)
  Theorem ndl_openmp_pipeline p n_cues all parts es es' per po m trs mem o c :
    prep_all po es = Some es' -> (1 <= per)%nat -> (length es <= m * per)%nat ->
    (0 <= n_cues < two32)%Z -> NoDup all -> Forall oko32 all -> concat parts = all ->
    cues_ok (okc_n n_cues) es' ->
    files_interleaved parts (map (chunk per es') (seq 0 m)) trs ->
    oko32 o -> okc_n n_cues c ->
    kget R rO n_cues
         (run_files R rO radd rmul rsub (kstore R) (kget R rO n_cues) (kset R n_cues) p parts
                    (map (chunk per es') (seq 0 m)) trs mem) o c =
    if mem_z o all then learn R rO rI radd rmul rsub p es' (kget R rO n_cues mem) o c
    else kget R rO n_cues mem o c.
  Proof.
    intros Hp Hper Hm Hn Hnd Hall Hcat Hcues Hint Ho Hc.
    pose proof (prep_all_length _ _ _ Hp) as Hl.
    rewrite (openmp_any_schedule R rO rI radd rmul rsub ropp Rth p n_cues all parts
                                 (map (chunk per es') (seq 0 m)) trs mem o c); try assumption.
    - unfold chunk. rewrite chunks_concat by lia. reflexivity.
    - apply Forall_forall. intros f Hf. apply in_map_iff in Hf as [k [<- _]].
      unfold chunk, cues_ok in *. rewrite Forall_forall in *. intros e He.
      apply Hcues. apply In_firstn', In_skipn' in He. exact He.
  Qed.
End Pipeline.
