(** Finite stores with default: weight tables of the executable models.
    [ZM]: keyed by an integer (flat memory of the C kernels);
    [ZZM]: keyed by (outcome, cue) (the dict of dicts of [dict_ndl]). *)
From Coq Require Import ZArith List FMapAVL FMapFacts OrderedTypeEx.
Import ListNotations.

Module ZM := FMapAVL.Make Z_as_OT.
Module ZMF := FMapFacts.WFacts_fun Z_as_OT ZM.
Module ZZ := PairOrderedType Z_as_OT Z_as_OT.
Module ZZM := FMapAVL.Make ZZ.
Module ZZMF := FMapFacts.WFacts_fun ZZ ZZM.

Section Store.
  Context {R : Type} (dflt : R).

  Definition fget (m : ZM.t R) (k : Z) : R :=
    match ZM.find k m with Some x => x | None => dflt end.
  Definition fset (m : ZM.t R) (k : Z) (v : R) : ZM.t R := ZM.add k v m.

  Lemma fget_fset_same m k v : fget (fset m k v) k = v.
  Proof. unfold fget, fset. now rewrite ZMF.add_eq_o. Qed.

  Lemma fget_fset_other m k k' v : k <> k' -> fget (fset m k v) k' = fget m k'.
  Proof. intros H. unfold fget, fset. now rewrite ZMF.add_neq_o. Qed.

  Lemma fget_empty k : fget (ZM.empty R) k = dflt.
  Proof. unfold fget. now rewrite ZMF.empty_o. Qed.

  Definition mget (m : ZZM.t R) (o c : Z) : R :=
    match ZZM.find (o, c) m with Some x => x | None => dflt end.
  Definition mset (m : ZZM.t R) (o c : Z) (v : R) : ZZM.t R := ZZM.add (o, c) v m.

  Lemma mget_mset_same m o c v : mget (mset m o c v) o c = v.
  Proof. unfold mget, mset. rewrite ZZMF.add_eq_o; [reflexivity|]. split; reflexivity. Qed.

  Lemma mget_mset_other m o c o' c' v :
    (o, c) <> (o', c') -> mget (mset m o c v) o' c' = mget m o' c'.
  Proof.
    intros H. unfold mget, mset. rewrite ZZMF.add_neq_o; [reflexivity|].
    intros [H1 H2]. cbn in H1, H2. apply H. now subst.
  Qed.

  Lemma mget_empty o c : mget (ZZM.empty R) o c = dflt.
  Proof. unfold mget. now rewrite ZZMF.empty_o. Qed.
End Store.
