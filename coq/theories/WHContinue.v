(** Continuation of the Widrow-Hoff learners through the weights argument (C03): the delta-rule maps of the
    three flavours, and the kernel models, of a concatenation are the compositions; any k-way split chained
    through the weights equals one pass.  The statement is about the SAME vector tables in every part:
    a continued call that is handed the same labelled vectors in another row or column order is the same
    table after renaming (the alignment by dimension NAME is what the correspondence run exercises). *)
From Coq Require Import ZArith List Bool.
From Coq Require Import Ring.
From PV Require Import Bytes BinFmt Store RWSpec RWExec RWProofs WHSpec WHExec RowWise WHMain.
Import ListNotations.

Section WHContinue.
  Variable R : Type.
  Variables (rO rI : R) (radd rmul rsub : R -> R -> R).
  Notation wfun := (wfun R).

  Lemma r2r_learn_app eta cv ov cdims es1 es2 (W : wfun) :
    r2r_learn R rO radd rmul rsub eta cv ov cdims (es1 ++ es2) W =
    r2r_learn R rO radd rmul rsub eta cv ov cdims es2 (r2r_learn R rO radd rmul rsub eta cv ov cdims es1 W).
  Proof. unfold r2r_learn. apply fold_left_app. Qed.

  Lemma r2b_learn_app b1 b2 la cv cdims es1 es2 (W : wfun) :
    r2b_learn R rO radd rmul rsub b1 b2 la cv cdims (es1 ++ es2) W =
    r2b_learn R rO radd rmul rsub b1 b2 la cv cdims es2 (r2b_learn R rO radd rmul rsub b1 b2 la cv cdims es1 W).
  Proof. unfold r2b_learn. apply fold_left_app. Qed.

  Lemma b2r_learn_app eta ov es1 es2 (W : wfun) :
    b2r_learn R rO rI radd rmul rsub eta ov (es1 ++ es2) W =
    b2r_learn R rO rI radd rmul rsub eta ov es2 (b2r_learn R rO rI radd rmul rsub eta ov es1 W).
  Proof. unfold b2r_learn. apply fold_left_app. Qed.

  (** chains: every part learned from the weights the previous call returned *)
  Definition chain (f : list event -> wfun -> wfun) (parts : list (list event)) (W : wfun) : wfun :=
    fold_left (fun W es => f es W) parts W.

  Lemma chain_concat (f : list event -> wfun -> wfun) :
    (forall W, f [] W = W) -> (forall es1 es2 W, f (es1 ++ es2) W = f es2 (f es1 W)) ->
    forall parts W, chain f parts W = f (concat parts) W.
  Proof.
    intros Hnil Happ parts. induction parts as [|es r IH]; intros W; cbn [chain fold_left concat].
    - now rewrite Hnil.
    - rewrite Happ. apply IH.
  Qed.

  Theorem r2r_chain eta cv ov cdims parts W :
    chain (r2r_learn R rO radd rmul rsub eta cv ov cdims) parts W =
    r2r_learn R rO radd rmul rsub eta cv ov cdims (concat parts) W.
  Proof. apply chain_concat; [reflexivity|intros; apply r2r_learn_app]. Qed.

  Theorem r2b_chain b1 b2 la cv cdims parts W :
    chain (r2b_learn R rO radd rmul rsub b1 b2 la cv cdims) parts W =
    r2b_learn R rO radd rmul rsub b1 b2 la cv cdims (concat parts) W.
  Proof. apply chain_concat; [reflexivity|intros; apply r2b_learn_app]. Qed.

  Theorem b2r_chain eta ov parts W :
    chain (b2r_learn R rO rI radd rmul rsub eta ov) parts W =
    b2r_learn R rO rI radd rmul rsub eta ov (concat parts) W.
  Proof. apply chain_concat; [reflexivity|intros; apply b2r_learn_app]. Qed.

  (** the kernel models: a second kernel run on the memory the first one left is one run over all events *)
  Section Mx.
    Variable S : Type.
    Variable g : S -> Z -> Z -> R.
    Variable st : S -> Z -> Z -> R -> S.

    Lemma r2r_events_app eta cv ov cdims rows es1 es2 s :
      r2r_events R rO radd rmul rsub S g st eta cv ov cdims rows (es1 ++ es2) s =
      r2r_events R rO radd rmul rsub S g st eta cv ov cdims rows es2
                 (r2r_events R rO radd rmul rsub S g st eta cv ov cdims rows es1 s).
    Proof. unfold r2r_events. apply fold_left_app. Qed.

    Lemma r2b_events_app b1 b2 la cv cdims rows es1 es2 s :
      r2b_events R rO radd rmul rsub S g st b1 b2 la cv cdims rows (es1 ++ es2) s =
      r2b_events R rO radd rmul rsub S g st b1 b2 la cv cdims rows es2
                 (r2b_events R rO radd rmul rsub S g st b1 b2 la cv cdims rows es1 s).
    Proof. unfold r2b_events. apply fold_left_app. Qed.

    Lemma b2r_events_app eta ov rows es1 es2 s :
      b2r_events R rO rI radd rmul rsub S g st eta ov rows (es1 ++ es2) s =
      b2r_events R rO rI radd rmul rsub S g st eta ov rows es2
                 (b2r_events R rO rI radd rmul rsub S g st eta ov rows es1 s).
    Proof. unfold b2r_events. apply fold_left_app. Qed.
  End Mx.
End WHContinue.

(** continued kernel runs on flat memory: the second run starts from the memory the first one left; the result is
    the delta rule over all events, for the trained rows, and nothing else changes *)

Lemma r2r_kernel_continue :
  forall (R : Type) (rO rI : R) (radd rmul rsub : R -> R -> R) (ropp : R -> R),
    ring_theory rO rI radd rmul rsub ropp (@eq R) ->
  forall eta cv ov n rows es1 es2 m r k,
    (0 <= n < two32)%Z -> NoDup rows -> Forall oko32 rows -> oko32 r -> (0 <= k < n)%Z ->
    kget R rO n (r2r_events R rO radd rmul rsub (kstore R) (kget R rO n) (kset R n) eta cv ov (zrange 0 n) rows es2
                   (r2r_events R rO radd rmul rsub (kstore R) (kget R rO n) (kset R n) eta cv ov (zrange 0 n) rows es1 m)) r k =
    if mem_z r rows
    then r2r_learn R rO radd rmul rsub eta cv ov (zrange 0 n) (es1 ++ es2) (kget R rO n m) r k
    else kget R rO n m r k.
Proof.
  intros. rewrite <- r2r_events_app. eapply r2r_kernel_refines; eauto.
Qed.

Lemma r2b_kernel_continue :
  forall (R : Type) (rO rI : R) (radd rmul rsub : R -> R -> R) (ropp : R -> R),
    ring_theory rO rI radd rmul rsub ropp (@eq R) ->
  forall b1 b2 la cv n rows es1 es2 m r k,
    (0 <= n < two32)%Z -> NoDup rows -> Forall oko32 rows -> oko32 r -> (0 <= k < n)%Z ->
    kget R rO n (r2b_events R rO radd rmul rsub (kstore R) (kget R rO n) (kset R n) b1 b2 la cv (zrange 0 n) rows es2
                   (r2b_events R rO radd rmul rsub (kstore R) (kget R rO n) (kset R n) b1 b2 la cv (zrange 0 n) rows es1 m)) r k =
    if mem_z r rows
    then r2b_learn R rO radd rmul rsub b1 b2 la cv (zrange 0 n) (es1 ++ es2) (kget R rO n m) r k
    else kget R rO n m r k.
Proof.
  intros. rewrite <- r2b_events_app. eapply r2b_kernel_refines; eauto.
Qed.

Lemma b2r_kernel_continue :
  forall (R : Type) (rO rI : R) (radd rmul rsub : R -> R -> R) (ropp : R -> R),
    ring_theory rO rI radd rmul rsub ropp (@eq R) ->
  forall eta ov n rows es1 es2 m d c,
    (0 <= n < two32)%Z -> NoDup rows -> Forall oko32 rows -> cues_ok (okc_n n) (es1 ++ es2) ->
    oko32 d -> okc_n n c ->
    kget R rO n (b2r_events R rO rI radd rmul rsub (kstore R) (kget R rO n) (kset R n) eta ov rows es2
                   (b2r_events R rO rI radd rmul rsub (kstore R) (kget R rO n) (kset R n) eta ov rows es1 m)) d c =
    if mem_z d rows
    then b2r_learn R rO rI radd rmul rsub eta ov (es1 ++ es2) (kget R rO n m) d c
    else kget R rO n m d c.
Proof.
  intros. rewrite <- b2r_events_app. eapply b2r_kernel_refines; eauto.
Qed.
