(** Executable model of pyndl/correlation_openmp.pyx ([correlation], the
    prange over events) and of the wrapper pyndl/correlation.py
    ([correlation]: column statistics, degenerate-input decision), over the
    exact rationals [Qc].  Every IEEE double is a dyadic rational, so the
    kernel model runs on the very numbers handed to the implementation.
    Definitions only; proofs are in CorrProofs.v. *)
From Coq Require Import ZArith List Bool Arith QArith Qcanon.
From PV Require Import Sched.
Import ListNotations.
Open Scope Qc_scope.

(** matrices are indexed logically: entry [k][j] = row (vector dimension) k,
    column j - the memory layout (C, Fortran, strided) is invisible here *)
Definition matrix := list (list Qc).
Definition getm (m : matrix) (k j : nat) : Qc := nth j (nth k m []) 0.
Definition column (m : matrix) (n j : nat) : list Qc := map (fun k => getm m k j) (seq 0 n).

(** [<dtype_t> n_vec_dims] *)
Fixpoint qn (n : nat) : Qc := match n with O => 0 | S k => qn k + 1 end.

(** * the kernel cell, as the Cython function computes it from GIVEN means
      and deviations:
        scalar_prod = 0; for kk: scalar_prod += semantics[kk,jj]*activations[kk,ii]
        nominator   = scalar_prod - n * semantics_means[jj] * activations_means[ii]
        denominator = (n - 1) * semantics_stds[jj] * activations_stds[ii]
        correlations[jj,ii] = nominator / denominator
    ([cdivision]: a zero denominator gives inf/nan in C; [Qcdiv] gives 0 - the
    finite model is only compared where the denominator is not 0, the wrapper
    model below says what happens otherwise) *)
Definition dot (xs ys : list Qc) : Qc :=
  fold_left (fun acc p => acc + fst p * snd p) (combine xs ys) 0.

Definition cell_cols (n : nat) (xs ys : list Qc) (mx sx my sy : Qc) : Qc :=
  let nominator := dot xs ys - qn n * mx * my in
  let denominator := (qn n - 1) * sx * sy in
  nominator / denominator.

Definition scalar_prod (sem act : matrix) (n j i : nat) : Qc :=
  fold_left (fun acc k => acc + getm sem k j * getm act k i) (seq 0 n) 0.

Record stats := { s_means : list Qc; s_stds : list Qc; a_means : list Qc; a_stds : list Qc }.

Definition cell (sem act : matrix) (n : nat) (st : stats) (j i : nat) : Qc :=
  let nominator := scalar_prod sem act n j i - qn n * nth j (s_means st) 0 * nth i (a_means st) 0 in
  let denominator := (qn n - 1) * nth j (s_stds st) 0 * nth i (a_stds st) 0 in
  nominator / denominator.

(** * the result matrix and the prange over events *)
Definition store := nat -> nat -> Qc.
Definition zeros : store := fun _ _ => 0.                       (* np.zeros((n_outcomes, n_events)) *)
Definition write (s : store) (j i : nat) (v : Qc) : store :=
  fun j' i' => if (j' =? j)%nat && (i' =? i)%nat then v else s j' i'.

(** a write is identified by the cell it goes to *)
Definition wr := (nat * nat)%type.
Definition do_write (cellf : nat -> nat -> Qc) (s : store) (w : wr) : store :=
  write s (fst w) (snd w) (cellf (fst w) (snd w)).
Definition run_writes (cellf : nat -> nat -> Qc) (tr : list wr) (s : store) : store :=
  fold_left (do_write cellf) tr s.

(** one iteration [ii] of the prange: for jj in range(n_outcomes) *)
Definition iter_writes (n_out : nat) (i : nat) : list wr := map (fun j => (j, i)) (seq 0 n_out).
(** a thread runs the iterations it was handed one after the other *)
Definition thread_writes (n_out : nat) (iters : list nat) : list wr := flat_map (iter_writes n_out) iters.

(** [schedule="dynamic", chunksize=c]: the iteration space [0, n_events) is cut
    into consecutive chunks of c iterations (the last may be shorter); chunks
    are handed to whichever thread asks next *)
Definition omp_chunks (n_events chunksize : nat) : list (list nat) := slice_list (seq 0 n_events) chunksize.

(** an assignment gives every thread the list of chunk numbers it executes,
    in the order it executes them *)
Definition thread_iters (chunks : list (list nat)) (mine : list nat) : list nat :=
  flat_map (fun c => nth c chunks []) mine.
Definition thread_seqs (n_out : nat) (chunks : list (list nat)) (asg : list (list nat)) : list (list wr) :=
  map (fun mine => thread_writes n_out (thread_iters chunks mine)) asg.

(** all writes of the loop nest in sequential order *)
Definition all_writes (n_out n_events : nat) : list wr := thread_writes n_out (seq 0 n_events).

(** the kernel executed chunk after chunk by one thread *)
Definition kernel_chunked (cellf : nat -> nat -> Qc) (n_out n_events chunksize : nat) : store :=
  run_writes cellf (thread_writes n_out (concat (omp_chunks n_events chunksize))) zeros.

Definition read_out (s : store) (n_out n_events : nat) : list Qc :=
  flat_map (fun j => map (fun i => s j i) (seq 0 n_events)) (seq 0 n_out).

(** * Pearson's r without square roots *)
Definition qsum (l : list Qc) : Qc := fold_right Qcplus 0 l.
Definition mean (xs : list Qc) : Qc := qsum xs / qn (length xs).
Definition devs (m : Qc) (xs : list Qc) : list Qc := map (fun x => x - m) xs.
(** sum of squared deviations and of deviation products *)
Definition ssd (m : Qc) (xs : list Qc) : Qc := qsum (map (fun x => (x - m) * (x - m)) xs).
Definition sdp (mx my : Qc) (xs ys : list Qc) : Qc :=
  qsum (map (fun p => (fst p - mx) * (snd p - my)) (combine xs ys)).
Definition cov_of (xs ys : list Qc) : Qc := sdp (mean xs) (mean ys) xs ys.
Definition pearson_r2 (xs ys : list Qc) : Qc :=
  (cov_of xs ys * cov_of xs ys) / (ssd (mean xs) xs * ssd (mean ys) ys).
Definition sgn (q : Qc) : Z :=
  match Qccompare q 0%Qc with Lt => (-1)%Z | Eq => 0%Z | Gt => 1%Z end.

(** * the wrapper: statistics per column and the degenerate-input decision.
    A matrix entry is a finite double or NaN (explicit flag). *)
Inductive fval := Fin (q : Qc) | NaN.
Definition fmatrix := list (list fval).
Definition getf (m : fmatrix) (k j : nat) : fval := nth j (nth k m []) NaN.
Definition fcolumn (m : fmatrix) (n j : nat) : list fval := map (fun k => getf m k j) (seq 0 n).
Definition is_nan (v : fval) : bool := match v with NaN => true | Fin _ => false end.
Definition fin_of (v : fval) : Qc := match v with Fin q => q | NaN => 0 end.

(** what [np.std(col, ddof=1)] is, as far as the wrapper looks at it: NaN when
    the column holds a NaN or has a single entry (0/0), zero exactly when the
    variance is zero, positive otherwise *)
Inductive dev_class := DNaN | DZero | DPos.
Definition qc_is_zero (q : Qc) : bool := match Qccompare q 0%Qc with Eq => true | _ => false end.
Definition col_dev (col : list fval) : dev_class :=
  if existsb is_nan col || (length col <=? 1)%nat then DNaN
  else let xs := map fin_of col in
       if qc_is_zero (ssd (mean xs) xs) then DZero else DPos.

(** [np.any(stds == 0) or np.any(np.isnan(stds))] *)
Definition dev_bad (d : dev_class) : bool := match d with DPos => false | _ => true end.

Inductive wres :=
| WErrSemantics            (* ValueError('Standard deviations of semantics ...') *)
| WErrActivations          (* ValueError('Standard deviations of activations ...') *)
| WCall.                   (* the kernel is called *)

Definition wrapper_decide (allow_nan : bool) (sdevs adevs : list dev_class) : wres :=
  if allow_nan then WCall
  else if existsb dev_bad sdevs then WErrSemantics
  else if existsb dev_bad adevs then WErrActivations
  else WCall.

Definition col_devs (m : fmatrix) (n cols : nat) : list dev_class :=
  map (fun j => col_dev (fcolumn m n j)) (seq 0 cols).

(** a cell of the wrapper's result: not finite (NaN; +-inf when rounding makes
    the numerator of a constant column non-zero), or Pearson's r given by its
    square and its sign *)
Inductive wcell := CNotFinite | CR (r2 : Qc) (sign : Z).

Definition wrapper_cell (sem act : fmatrix) (n j i : nat) : wcell :=
  let xs := fcolumn sem n j in
  let ys := fcolumn act n i in
  if dev_bad (col_dev xs) || dev_bad (col_dev ys) then CNotFinite
  else let x := map fin_of xs in let y := map fin_of ys in
       CR (pearson_r2 x y) (sgn (cov_of x y)).

Definition wrapper (allow_nan : bool) (sem act : fmatrix) (n n_out n_ev : nat)
  : wres * list wcell :=
  match wrapper_decide allow_nan (col_devs sem n n_out) (col_devs act n n_ev) with
  | WCall => (WCall, flat_map (fun j => map (fun i => wrapper_cell sem act n j i) (seq 0 n_ev)) (seq 0 n_out))
  | e => (e, [])
  end.
