(** Unfolding equations of the MiniPy interpreter and facts about its sequence
    primitives.  (The interpreter recurses on fuel outside and on the statement
    inside, so [exec fuel s en] does not reduce while [fuel] is a variable: the
    equations below are what proofs about translated programs rewrite with.) *)
From Coq Require Import ZArith List Bool Lia Arith.
From PV Require Import MiniPy.
Import ListNotations.
Open Scope Z_scope.

Lemma exec_skip fuel en : exec fuel SSkip en = ONormal en.
Proof. destruct fuel; reflexivity. Qed.

Lemma exec_seq fuel a b en :
  exec fuel (SSeq a b) en = match exec fuel a en with ONormal en' => exec fuel b en' | o => o end.
Proof. destruct fuel; reflexivity. Qed.

Lemma exec_if fuel c t f en :
  exec fuel (SIf c t f) en =
  match eval en c with
  | Ok v => if truthy v then exec fuel t en else exec fuel f en
  | Err e => ORaise e
  end.
Proof. destruct fuel; reflexivity. Qed.

Lemma exec_while fuel c body en :
  exec fuel (SWhile c body) en =
  match eval en c with
  | Ok v =>
    if truthy v then
      match fuel with
      | O => OFuel
      | S f => match exec (S f) body en with
               | ONormal en' => exec f (SWhile c body) en'
               | o => o
               end
      end
    else ONormal en
  | Err e => ORaise e
  end.
Proof. destruct fuel; reflexivity. Qed.

Lemma exec_assign fuel x e en : exec fuel (SAssign x e) en = step_simple (SAssign x e) en.
Proof. destruct fuel; reflexivity. Qed.
Lemma exec_aug fuel x op e en : exec fuel (SAug x op e) en = step_simple (SAug x op e) en.
Proof. destruct fuel; reflexivity. Qed.
Lemma exec_unpack2 fuel x y e en : exec fuel (SUnpack2 x y e) en = step_simple (SUnpack2 x y e) en.
Proof. destruct fuel; reflexivity. Qed.
Lemma exec_append fuel x e en : exec fuel (SAppend x e) en = step_simple (SAppend x e) en.
Proof. destruct fuel; reflexivity. Qed.
Lemma exec_del fuel x e en : exec fuel (SDel x e) en = step_simple (SDel x e) en.
Proof. destruct fuel; reflexivity. Qed.
Lemma exec_return fuel e en : exec fuel (SReturn e) en = step_simple (SReturn e) en.
Proof. destruct fuel; reflexivity. Qed.
Lemma exec_raise fuel e en : exec fuel (SRaise e) en = ORaise e.
Proof. destruct fuel; reflexivity. Qed.
Lemma exec_assert fuel c en : exec fuel (SAssert c) en = step_simple (SAssert c) en.
Proof. destruct fuel; reflexivity. Qed.

Ltac exec_norm :=
  repeat first
    [ rewrite exec_seq | rewrite exec_skip | rewrite exec_if | rewrite exec_assign | rewrite exec_aug
    | rewrite exec_unpack2 | rewrite exec_append | rewrite exec_del | rewrite exec_return | rewrite exec_raise
    | rewrite exec_assert ].

Lemma upd_same en x v : upd en x v x = Some v.
Proof. unfold upd. now rewrite Nat.eqb_refl. Qed.
Lemma upd_other en x v y : y <> x -> upd en x v y = en y.
Proof. intros H. unfold upd. destruct (Nat.eqb y x) eqn:E; [apply Nat.eqb_eq in E; contradiction|reflexivity]. Qed.

(** ** slices *)
Lemma firstn_min_length {A} (l : list A) n : firstn (Nat.min (length l) n) l = firstn n l.
Proof.
  destruct (Nat.le_ge_cases n (length l)) as [H|H].
  - now rewrite Nat.min_r.
  - rewrite Nat.min_l by assumption. rewrite firstn_all. symmetry. now apply firstn_all2.
Qed.

(** [l[d : d+n]] for 0 <= d and 0 <= n is "drop d, take n" *)
Lemma slice_drop_take {A} (l : list A) (d : nat) (n : Z) : 0 <= n ->
  slice l (Z.of_nat d) (Z.of_nat d + n) = firstn (Z.to_nat n) (skipn d l).
Proof.
  intros Hn. unfold slice, clip.
  set (len := Z.of_nat (length l)).
  assert (Hd : (Z.of_nat d <? 0) = false) by (apply Z.ltb_ge; lia).
  assert (Hdn : (Z.of_nat d + n <? 0) = false) by (apply Z.ltb_ge; lia).
  rewrite Hd, Hdn.
  destruct (Z_le_gt_dec (Z.of_nat d) len) as [Hle|Hgt].
  - replace (Z.max 0 (Z.min len (Z.of_nat d))) with (Z.of_nat d) by lia.
    rewrite Nat2Z.id.
    replace (Z.to_nat (Z.max 0 (Z.min len (Z.of_nat d + n)) - Z.of_nat d))
      with (Nat.min (length (skipn d l)) (Z.to_nat n)).
    + apply firstn_min_length.
    + rewrite skipn_length. subst len. lia.
  - replace (Z.max 0 (Z.min len (Z.of_nat d))) with len by lia.
    replace (Z.max 0 (Z.min len (Z.of_nat d + n)) - len) with 0 by lia.
    subst len. rewrite Nat2Z.id. cbn [Z.to_nat firstn].
    rewrite (skipn_all2 l) by lia. now rewrite firstn_nil.
Qed.

Lemma norm_index_in_range len (i : nat) : (Z.of_nat i < len) -> norm_index len (Z.of_nat i) = Some i.
Proof.
  intros H. unfold norm_index.
  assert (E : (Z.of_nat i <? 0) = false) by (apply Z.ltb_ge; lia). rewrite E.
  assert (E1 : (0 <=? Z.of_nat i) = true) by (apply Z.leb_le; lia).
  assert (E2 : (Z.of_nat i <? len) = true) by (apply Z.ltb_lt; lia).
  rewrite E1, E2. cbn. now rewrite Nat2Z.id.
Qed.

Lemma skipn_add {A} (a b : nat) (l : list A) : skipn a (skipn b l) = skipn (b + a) l.
Proof.
  revert l. induction b as [|b IH]; intros l.
  - reflexivity.
  - destruct l as [|x l]; [now rewrite !skipn_nil|]. cbn [skipn Nat.add]. apply IH.
Qed.
