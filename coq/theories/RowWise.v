(** Generic theory of row-local learning kernels: every event transforms every
    trained row by a function of that row alone.  Sequential refinement and
    schedule independence are proved once here and instantiated by the three
    Widrow-Hoff kernels (the Rescorla-Wagner kernel has its own, older copy in
    RWProofs/SchedProofs). *)
From Coq Require Import ZArith List Bool Arith Lia.
From PV Require Import Lists BinFmt RWProofs Sched SchedProofs.
Import ListNotations.

Definition gitem_actions {E} (part : list Z) (es : list E) : list (Z * E) :=
  flat_map (fun e => map (fun o => (o, e)) part) es.

Lemma gfilter_row_proj {E} (own : Z -> nat) (tr : list (nat * (Z * E))) r :
  Forall (fun x => own (fst (snd x)) = fst x) tr ->
  filter (fun a => Z.eqb (fst a) r) (map snd tr) =
  filter (fun a => Z.eqb (fst a) r) (proj (own r) tr).
Proof.
  intros H. unfold proj. rewrite !filter_map_snd. f_equal.
  symmetry. apply filter_filter_impl.
  intros x Hx Hr. rewrite Forall_forall in H. specialize (H x Hx).
  apply Z.eqb_eq in Hr. apply Nat.eqb_eq. now rewrite <- H, Hr.
Qed.

Lemma gitem_actions_in {E} part (es : list E) a :
  In a (gitem_actions part es) -> In (fst a) part /\ In (snd a) es.
Proof.
  unfold gitem_actions. rewrite in_flat_map. intros [e [He Ha]].
  apply in_map_iff in Ha as [o [<- Ho]]. now split.
Qed.

Lemma gitem_actions_nil {E} (es : list E) : gitem_actions [] es = [].
Proof. unfold gitem_actions. induction es; [reflexivity|]. cbn. exact IHes. Qed.

Section RowWise.
  Variables (R S E : Type).
  Variable g : S -> Z -> Z -> R.
  Variables (oko okc : Z -> Prop).
  Variable X : E -> S -> Z -> S.
  Variable F : E -> (Z -> Z -> R) -> (Z -> Z -> R).
  Variable evalid : E -> Prop.
  Hypothesis X_same : forall e s r k, evalid e -> oko r -> okc k -> g (X e s r) r k = F e (g s) r k.
  Hypothesis X_other : forall e s r r' k, evalid e -> oko r -> oko r' -> okc k -> r' <> r ->
      g (X e s r) r' k = g s r' k.
  Hypothesis F_local : forall e W W' r, evalid e -> (forall k, okc k -> W r k = W' r k) ->
      forall k, okc k -> F e W r k = F e W' r k.

  Definition run_event (rows : list Z) (s : S) (e : E) : S := fold_left (X e) rows s.
  Definition run_events (rows : list Z) (es : list E) (s : S) : S := fold_left (run_event rows) es s.
  Definition spec (es : list E) (W : Z -> Z -> R) : Z -> Z -> R := fold_left (fun W e => F e W) es W.

  Lemma spec_local es W W' r :
    Forall evalid es -> (forall k, okc k -> W r k = W' r k) -> forall k, okc k -> spec es W r k = spec es W' r k.
  Proof.
    intros Hes. revert W W'. induction Hes as [|e t He Ht IH]; intros W W' H k Hk; [now apply H|].
    unfold spec in *. cbn [fold_left]. apply IH; [|exact Hk]. intros k' Hk'. now apply F_local.
  Qed.

  Lemma event_spec rows s e r k :
    NoDup rows -> Forall oko rows -> evalid e -> oko r -> okc k ->
    g (run_event rows s e) r k = if mem_z r rows then F e (g s) r k else g s r k.
  Proof.
    intros Hnd Hrows He Hr Hk. revert s.
    induction rows as [|x t IH]; intros s; [reflexivity|].
    inversion Hnd as [|? ? Hx Ht]; subst. inversion Hrows as [|? ? Hox Hot]; subst.
    unfold run_event in *. cbn [fold_left mem_z]. rewrite (IH Ht Hot).
    destruct (Z.eqb_spec r x) as [->|Hne]; cbn [orb].
    - apply mem_z_not_In in Hx. rewrite Hx. now apply X_same.
    - destruct (mem_z r t).
      + apply F_local; [exact He| |exact Hk]. intros k' Hk'. now apply X_other.
      + now apply X_other.
  Qed.

  Theorem events_spec rows es s r k :
    NoDup rows -> Forall oko rows -> Forall evalid es -> oko r -> okc k ->
    g (run_events rows es s) r k = if mem_z r rows then spec es (g s) r k else g s r k.
  Proof.
    intros Hnd Hrows Hes Hr Hk. revert s.
    induction Hes as [|e t He Ht IH]; intros s.
    - cbn. now destruct (mem_z r rows).
    - unfold run_events, spec in *. cbn [fold_left]. rewrite IH.
      destruct (mem_z r rows) eqn:Hm.
      + apply (spec_local t); [exact Ht| |exact Hk].
        intros k' Hk'. rewrite event_spec by assumption. now rewrite Hm.
      + rewrite event_spec by assumption. now rewrite Hm.
  Qed.

  (** ** interleavings of work items *)
  Definition app (s : S) (a : Z * E) : S := X (snd a) s (fst a).
  Definition run_tr (tr : list (nat * (Z * E))) (s : S) : S := fold_left app (map snd tr) s.
  Definition roweq (s s' : S) (r : Z) : Prop := forall k, okc k -> g s r k = g s' r k.
  Definition avalid (a : Z * E) : Prop := oko (fst a) /\ evalid (snd a).

  Lemma roweq_refl s r : roweq s s r. Proof. intros k _. reflexivity. Qed.
  Lemma roweq_sym s s' r : roweq s s' r -> roweq s' s r.
  Proof. intros H k Hk. symmetry. now apply H. Qed.
  Lemma roweq_trans s1 s2 s3 r : roweq s1 s2 r -> roweq s2 s3 r -> roweq s1 s3 r.
  Proof. intros H1 H2 k Hk. rewrite H1 by exact Hk. now apply H2. Qed.

  Lemma app_frame s a r : avalid a -> oko r -> fst a <> r -> roweq (app s a) s r.
  Proof. intros [Ho He] Hr Hne k Hk. unfold app. apply X_other; auto. Qed.

  Lemma app_local s s' a : avalid a -> roweq s s' (fst a) -> roweq (app s a) (app s' a) (fst a).
  Proof.
    intros [Ho He] Heq k Hk. unfold app. rewrite !X_same by assumption. now apply F_local.
  Qed.

  Lemma fold_proj tr s s' r :
    Forall avalid tr -> oko r -> roweq s s' r ->
    roweq (fold_left app tr s) (fold_left app (filter (fun a => Z.eqb (fst a) r) tr) s') r.
  Proof.
    intros Hv Hr. revert s s'. induction Hv as [|a tr Ha Htr IH]; intros s s' Heq; [exact Heq|].
    cbn [fold_left filter]. destruct (Z.eqb_spec (fst a) r) as [Er|Er].
    - cbn [fold_left]. apply IH. rewrite <- Er in *. now apply app_local.
    - apply IH. eapply roweq_trans; [|exact Heq]. now apply app_frame.
  Qed.

  Theorem interleaving_row_local (own : Z -> nat) seqs tr s r :
    interleaving seqs tr ->
    Forall (fun x => own (fst (snd x)) = fst x) tr ->
    Forall avalid (map snd tr) -> oko r ->
    roweq (run_tr tr s) (fold_left app (nth (own r) seqs []) s) r.
  Proof.
    intros Hint Htag Hv Hr. unfold run_tr.
    eapply roweq_trans; [apply (fold_proj _ s s r Hv Hr (roweq_refl s r))|].
    rewrite (gfilter_row_proj own tr r Htag), (Hint (own r)).
    apply roweq_sym. apply fold_proj; [|exact Hr|apply roweq_refl].
    rewrite <- (Hint (own r)). unfold proj. rewrite Forall_forall in *. intros a Ha.
    apply Hv. apply in_map_iff in Ha as [x [<- Hx]]. apply in_map. now apply filter_In in Hx as [Hx _].
  Qed.

  Lemma item_run part es s : fold_left app (gitem_actions part es) s = run_events part es s.
  Proof.
    unfold gitem_actions, run_events. rewrite fold_left_flat_map.
    revert s. induction es as [|e t IH]; intros s; [reflexivity|]. cbn [fold_left].
    rewrite IH. f_equal. unfold run_event. now rewrite fold_left_map.
  Qed.

  (** every interleaving of the items' atomic row updates (items = parts of the
      row list, each item = all events) leaves in every trained row the
      sequential result, and every other row untouched *)
  Theorem items_schedule_independent parts es tr s r k :
    NoDup (concat parts) -> Forall oko (concat parts) -> Forall evalid es ->
    interleaving (map (fun part => gitem_actions part es) parts) tr ->
    oko r -> okc k ->
    g (run_tr tr s) r k = if mem_z r (concat parts) then spec es (g s) r k else g s r k.
  Proof.
    intros Hnd Hoko Hes Hint Hr Hk.
    set (seqs := map (fun part => gitem_actions part es) parts) in *.
    assert (Hnth : forall i, nth i seqs [] = gitem_actions (nth i parts []) es).
    { intros i. unfold seqs.
      rewrite <- (map_nth (fun part => gitem_actions part es) parts [] i).
      f_equal. symmetry. apply gitem_actions_nil. }
    assert (Hin_tr : forall x, In x tr -> In (fst (snd x)) (nth (fst x) parts []) /\ In (snd (snd x)) es).
    { intros [i a] Hx. cbn [fst snd].
      assert (Ha : In a (proj i tr)).
      { unfold proj. apply in_map_iff. exists (i, a). split; [reflexivity|].
        apply filter_In. split; [exact Hx|]. cbn. apply Nat.eqb_refl. }
      rewrite (Hint i), Hnth in Ha. now apply gitem_actions_in in Ha. }
    assert (Htag : Forall (fun x => owner parts (fst (snd x)) = fst x) tr).
    { apply Forall_forall. intros x Hx. apply owner_nth; [exact Hnd|]. now apply Hin_tr. }
    assert (Hv : Forall avalid (map snd tr)).
    { apply Forall_forall. intros a Ha. apply in_map_iff in Ha as [x [<- Hx]].
      destruct (Hin_tr x Hx) as [H1 H2]. split.
      - rewrite Forall_forall in Hoko. apply Hoko. apply in_concat.
        exists (nth (fst x) parts []). split; [|exact H1].
        apply nth_In. destruct (Nat.lt_ge_cases (fst x) (length parts)) as [Hlt|Hge]; [exact Hlt|].
        rewrite nth_overflow in H1 by exact Hge. destruct H1.
      - rewrite Forall_forall in Hes. now apply Hes. }
    rewrite (interleaving_row_local (owner parts) seqs tr s r Hint Htag Hv Hr k Hk).
    rewrite Hnth, item_run.
    set (part := nth (owner parts r) parts []).
    assert (Hpart_sub : forall x, In x part -> In x (concat parts)).
    { intros x Hx. apply in_concat. exists part. split; [|exact Hx].
      apply nth_In. destruct (Nat.lt_ge_cases (owner parts r) (length parts)) as [Hlt|Hge]; [exact Hlt|].
      unfold part in Hx. rewrite nth_overflow in Hx by exact Hge. destruct Hx. }
    rewrite (events_spec part es s r k); try assumption.
    - destruct (mem_z r (concat parts)) eqn:Hm.
      + apply mem_z_In in Hm. apply owner_in in Hm. fold part in Hm.
        apply mem_z_In in Hm. now rewrite Hm.
      + destruct (mem_z r part) eqn:Hp; [|reflexivity].
        apply mem_z_In, Hpart_sub, mem_z_In in Hp. congruence.
    - clear - Hnd. unfold part. generalize (owner parts r). intros j. revert j.
      induction parts as [|q rest IH]; intros [|j]; cbn [nth]; try constructor.
      + cbn in Hnd. now apply NoDup_app_remove_r in Hnd.
      + cbn in Hnd. apply IH. now apply NoDup_app_remove_l in Hnd.
    - apply Forall_forall. intros x Hx. rewrite Forall_forall in Hoko. now apply Hoko, Hpart_sub.
  Qed.
End RowWise.
