(** Flat entry points of the text event file model (C07).  Decoding glue only.
    701: text, start, step          -> events read by [events_from_file]  (or error 1 = ValueError)
    702: compatible, container      -> text written by [events_to_file]
    Strings are length-prefixed code point lists; a token list is a
    length-prefixed sequence of strings. *)
From Coq Require Import ZArith List Bool.
From PV Require Import Flat TextFmt.
Import ListNotations.
Open Scope Z_scope.

Definition rd_strs := rd_seq rd_list.

Definition wr_strs (ws : list str) : list Z := Z.of_nat (length ws) :: flat_map wr_list ws.
Definition wr_sevent (e : event) : list Z := wr_strs (fst e) ++ wr_strs (snd e).
Definition wr_sevents (es : list event) : list Z := Z.of_nat (length es) :: flat_map wr_sevent es.

(** a column: [0; token list] or [1; string] *)
Definition rd_field (l : list Z) : option (field * list Z) :=
  match l with
  | tag :: r =>
    if tag =? 0 then match rd_strs r with Some (ws, r') => Some (FList ws, r') | None => None end
    else match rd_list r with Some (s, r') => Some (FStr s, r') | None => None end
  | [] => None
  end.

Definition m_read_events (inp : list Z) : list Z :=
  match rd_list inp with
  | Some (text, start :: step :: _) =>
    if (0 <=? start) && (1 <=? step) then
      match read_events text (Z.to_nat start) (Z.to_nat step) with
      | Some es => 0 :: wr_sevents es
      | None => flat_err 1
      end
    else bad_case
  | _ => bad_case
  end.

Definition m_events_to_file (inp : list Z) : list Z :=
  match inp with
  | c :: r =>
    match rd_seq (rd_pair rd_field rd_field) r with
    | Some (l, _) => 0 :: events_to_file (negb (c =? 0)) l
    | None => bad_case
    end
  | [] => bad_case
  end.

Definition run_c07 (id : Z) (inp : list Z) : option (list Z) :=
  if id =? 701 then Some (m_read_events inp)
  else if id =? 702 then Some (m_events_to_file inp)
  else None.
