(** The work queue of method='threading' (Sched.qstep): with the lock, for EVERY
    schedule, no thread ever blocks in get(), every item is taken exactly once,
    and all threads finish after a bounded number of steps. *)
From Coq Require Import List Arith Lia Bool Permutation.
From PV Require Import Sched.
Import ListNotations.

(** ** set_pc *)
Lemma nth_error_split {A} (l : list A) t p :
  nth_error l t = Some p -> l = firstn t l ++ p :: skipn (S t) l /\ length (firstn t l) = t.
Proof.
  revert l. induction t as [|t IH]; intros [|x r] H; cbn in H; try discriminate.
  - inversion H; subst. cbn. auto.
  - destruct (IH r H) as [E L]. cbn [firstn skipn app length]. split; [f_equal; exact E|now rewrite L].
Qed.

Lemma set_pc_same l t v p : nth_error l t = Some p -> nth_error (set_pc l t v) t = Some v.
Proof.
  intros H. destruct (nth_error_split l t p H) as [_ L]. unfold set_pc.
  rewrite nth_error_app2 by lia. now rewrite L, Nat.sub_diag.
Qed.

Lemma set_pc_other l t v p t' :
  nth_error l t = Some p -> t <> t' -> nth_error (set_pc l t v) t' = nth_error l t'.
Proof.
  intros H Hne. destruct (nth_error_split l t p H) as [E L]. unfold set_pc.
  rewrite E at 3.
  destruct (Nat.lt_ge_cases t' t) as [Hlt|Hge].
  - rewrite !nth_error_app1 by lia. reflexivity.
  - rewrite !nth_error_app2 by lia. rewrite L.
    destruct (t' - t) as [|k] eqn:Hk; [lia|]. reflexivity.
Qed.

Lemma set_pc_length l t v p : nth_error l t = Some p -> length (set_pc l t v) = length l.
Proof.
  intros H. destruct (nth_error_split l t p H) as [E L]. unfold set_pc.
  rewrite E at 3. rewrite !app_length. cbn. lia.
Qed.

(** sums and flat_maps over a list with one position replaced *)
Lemma flat_map_set_pc {B} (f : pc -> list B) l t v p :
  nth_error l t = Some p ->
  exists A C, flat_map f l = A ++ f p ++ C /\ flat_map f (set_pc l t v) = A ++ f v ++ C.
Proof.
  intros H. destruct (nth_error_split l t p H) as [E _].
  exists (flat_map f (firstn t l)), (flat_map f (skipn (S t) l)). split.
  - rewrite E at 1. rewrite flat_map_app. reflexivity.
  - unfold set_pc. rewrite flat_map_app. reflexivity.
Qed.

(** ** invariant *)
Definition locked_pc (p : pc) : bool :=
  match p with PLocked | PNonEmpty | PGot _ => true | _ => false end.
Definition held (p : pc) : list nat := match p with PGot i | PWork i => [i] | _ => [] end.
Definition holding (s : qstate) : list nat := flat_map held (pcs s).

Record Inv (items : list nat) (s : qstate) : Prop := {
  inv_lock1 : forall t p, nth_error (pcs s) t = Some p -> locked_pc p = true -> lock s = Some t;
  inv_lock2 : forall t, lock s = Some t -> exists p, nth_error (pcs s) t = Some p /\ locked_pc p = true;
  inv_noblock : forall t, nth_error (pcs s) t <> Some PBlocked;
  inv_nonempty : forall t, nth_error (pcs s) t = Some PNonEmpty -> queue s <> [];
  inv_done : forall t, nth_error (pcs s) t = Some PDone -> queue s = [];
  inv_items : Permutation (queue s ++ holding s ++ finished s) items
}.

Lemma nth_error_repeat {A} (x : A) n t p : nth_error (repeat x n) t = Some p -> p = x.
Proof.
  revert t. induction n as [|n IH]; intros [|t] H; cbn in H; try discriminate.
  - now inversion H.
  - now apply IH in H.
Qed.

Lemma inv_init items n : Inv items (qinit items n).
Proof.
  constructor; cbn.
  - intros t p H Hp. apply nth_error_repeat in H. subst. discriminate.
  - discriminate.
  - intros t H. apply nth_error_repeat in H. discriminate.
  - intros t H. apply nth_error_repeat in H. discriminate.
  - intros t H. apply nth_error_repeat in H. discriminate.
  - unfold holding. cbn. replace (flat_map held (repeat PStart n)) with (@nil nat).
    + now rewrite app_nil_r.
    + induction n; [reflexivity|]. cbn. exact IHn.
Qed.

Lemma perm_norm (q A h C F : list nat) :
  Permutation (q ++ (A ++ h ++ C) ++ F) (h ++ (q ++ A ++ C ++ F)).
Proof.
  rewrite <- !app_assoc.
  transitivity (q ++ h ++ A ++ C ++ F).
  - apply Permutation_app_head. rewrite !app_assoc. do 2 apply Permutation_app_tail.
    apply Permutation_app_comm.
  - rewrite !app_assoc. do 3 apply Permutation_app_tail. apply Permutation_app_comm.
Qed.

Ltac pcs_cases Hq t t' :=
  destruct (Nat.eq_dec t t') as [<-|Hne];
  [ erewrite set_pc_same in Hq by eassumption; inversion Hq; subst; clear Hq
  | erewrite set_pc_other in Hq by eassumption ].

Lemma inv_step items s t : Inv items s -> Inv items (qstep true s t).
Proof.
  intros I. unfold qstep. destruct (nth_error (pcs s) t) as [p|] eqn:Hp; [|exact I].
  destruct I as [L1 L2 NB NE DN IT].
  destruct p; cbv beta iota.
  - (* PStart *)
    destruct (lock s) as [h|] eqn:Hl; [rewrite <- Hl in L1, L2; exact (Build_Inv _ _ L1 L2 NB NE DN IT)|].
    constructor; cbn [queue lock pcs finished].
    + intros t' p' Hq Hlk. pcs_cases Hq t t'; [reflexivity|].
      specialize (L1 _ _ Hq Hlk). congruence.
    + intros t' E. inversion E; subst. exists PLocked. split; [|reflexivity].
      eapply set_pc_same; eassumption.
    + intros t' Hq. pcs_cases Hq t t'. now apply (NB t').
    + intros t' Hq. pcs_cases Hq t t'. now apply (NE t').
    + intros t' Hq. pcs_cases Hq t t'. now apply (DN t').
    + unfold holding in *. cbn [pcs].
      destruct (flat_map_set_pc held (pcs s) t PLocked PStart Hp) as (A & C & E1 & E2).
      rewrite E2. rewrite E1 in IT. exact IT.
  - (* PLocked *)
    assert (Hlk : lock s = Some t) by (eapply L1; [eassumption|reflexivity]).
    destruct (queue s) as [|i r] eqn:Hq0.
    + constructor; cbn [queue lock pcs finished].
      * intros t' p' Hq Hl. pcs_cases Hq t t'; [discriminate|].
        specialize (L1 _ _ Hq Hl). congruence.
      * discriminate.
      * intros t' Hq. pcs_cases Hq t t'. now apply (NB t').
      * intros t' Hq. pcs_cases Hq t t'. specialize (NE _ Hq). congruence.
      * reflexivity.
      * unfold holding in *. cbn [pcs].
        destruct (flat_map_set_pc held (pcs s) t PDone PLocked Hp) as (A & C & E1 & E2).
        rewrite E2. rewrite E1 in IT. exact IT.
    + constructor; cbn [queue lock pcs finished].
      * intros t' p' Hq Hl. pcs_cases Hq t t'; [exact Hlk|]. eapply L1; eassumption.
      * intros t' E. rewrite Hlk in E. inversion E; subst. exists PNonEmpty. split; [|reflexivity].
        eapply set_pc_same; eassumption.
      * intros t' Hq. pcs_cases Hq t t'. now apply (NB t').
      * intros t' Hq. discriminate.
      * intros t' Hq. pcs_cases Hq t t'. specialize (DN _ Hq). congruence.
      * unfold holding in *. cbn [pcs].
        destruct (flat_map_set_pc held (pcs s) t PNonEmpty PLocked Hp) as (A & C & E1 & E2).
        rewrite E2. rewrite E1 in IT. exact IT.
  - (* PNonEmpty *)
    assert (Hlk : lock s = Some t) by (eapply L1; [eassumption|reflexivity]).
    destruct (queue s) as [|i r] eqn:Hq0; [exfalso; now apply (NE t Hp)|].
    constructor; cbn [queue lock pcs finished].
    + intros t' p' Hq Hl. pcs_cases Hq t t'; [exact Hlk|]. eapply L1; eassumption.
    + intros t' E. rewrite Hlk in E. inversion E; subst. exists (PGot i). split; [|reflexivity].
      eapply set_pc_same; eassumption.
    + intros t' Hq. pcs_cases Hq t t'. now apply (NB t').
    + intros t' Hq. pcs_cases Hq t t'. specialize (L1 _ _ Hq eq_refl). congruence.
    + intros t' Hq. pcs_cases Hq t t'. specialize (DN _ Hq). congruence.
    + unfold holding in *. cbn [pcs].
      destruct (flat_map_set_pc held (pcs s) t (PGot i) PNonEmpty Hp) as (A & C & E1 & E2).
      rewrite E2. rewrite E1 in IT. cbn [held] in *.
      rewrite <- IT. rewrite (perm_norm r A [i] C), (perm_norm (i :: r) A [] C). reflexivity.
  - (* PGot *)
    assert (Hlk : lock s = Some t) by (eapply L1; [eassumption|reflexivity]).
    constructor; cbn [queue lock pcs finished].
    + intros t' p' Hq Hl. pcs_cases Hq t t'; [discriminate|].
      specialize (L1 _ _ Hq Hl). congruence.
    + discriminate.
    + intros t' Hq. pcs_cases Hq t t'. now apply (NB t').
    + intros t' Hq. pcs_cases Hq t t'. now apply (NE t').
    + intros t' Hq. pcs_cases Hq t t'. now apply (DN t').
    + unfold holding in *. cbn [pcs].
      destruct (flat_map_set_pc held (pcs s) t (PWork item) (PGot item) Hp) as (A & C & E1 & E2).
      rewrite E2. rewrite E1 in IT. exact IT.
  - (* PWork *)
    constructor; cbn [queue lock pcs finished].
    + intros t' p' Hq Hl. pcs_cases Hq t t'; [discriminate|]. eapply L1; eassumption.
    + intros t' E. destruct (L2 _ E) as (p' & Hq & Hl). exists p'. split; [|exact Hl].
      destruct (Nat.eq_dec t t') as [<-|Hne]; [rewrite Hp in Hq; inversion Hq; subst; discriminate|].
      erewrite set_pc_other by eassumption. exact Hq.
    + intros t' Hq. pcs_cases Hq t t'. now apply (NB t').
    + intros t' Hq. pcs_cases Hq t t'. now apply (NE t').
    + intros t' Hq. pcs_cases Hq t t'. now apply (DN t').
    + unfold holding in *. cbn [pcs].
      destruct (flat_map_set_pc held (pcs s) t PStart (PWork item) Hp) as (A & C & E1 & E2).
      rewrite E2. rewrite E1 in IT. cbn [held] in *.
      rewrite <- IT. rewrite (perm_norm (queue s) A [] C), (perm_norm (queue s) A [item] C).
      cbn [app]. rewrite !app_assoc. symmetry. apply Permutation_cons_append.
  - exact (Build_Inv _ _ L1 L2 NB NE DN IT).
  - exact (Build_Inv _ _ L1 L2 NB NE DN IT).
Qed.

Theorem inv_reachable items n sched : Inv items (qrun true sched (qinit items n)).
Proof.
  unfold qrun. generalize (inv_init items n). generalize (qinit items n).
  induction sched as [|t r IH]; intros s I; [exact I|]. cbn [fold_left]. apply IH. now apply inv_step.
Qed.

(** ** no thread ever blocks in get(): check and get are one critical section *)
Theorem queue_never_blocks items n sched :
  some_blocked (qrun true sched (qinit items n)) = false.
Proof.
  pose proof (inv_reachable items n sched) as I. unfold some_blocked.
  destruct (existsb _ _) eqn:E; [|reflexivity]. exfalso.
  apply existsb_exists in E as (p & Hin & Hp). destruct p; try discriminate.
  apply In_nth_error in Hin as [t Ht]. exact (inv_noblock _ _ I t Ht).
Qed.

(** ** every item is taken exactly once: nothing lost, nothing duplicated, at
    every reachable state; when all threads are done every item was worked on
    exactly once *)
Theorem queue_exactly_once items n sched :
  let s := qrun true sched (qinit items n) in
  Permutation (queue s ++ holding s ++ finished s) items.
Proof. exact (inv_items _ _ (inv_reachable items n sched)). Qed.

Lemma all_done_spec s : all_done s = true -> forall t p, nth_error (pcs s) t = Some p -> p = PDone.
Proof.
  unfold all_done. rewrite forallb_forall. intros H t p Hp.
  specialize (H p (nth_error_In _ _ Hp)). destruct p; try discriminate. reflexivity.
Qed.

Lemma qstep_length s t : length (pcs (qstep true s t)) = length (pcs s).
Proof.
  unfold qstep. destruct (nth_error (pcs s) t) as [p|] eqn:Hp; [|reflexivity].
  destruct p; try reflexivity; cbn;
    repeat match goal with
           | |- context [match ?x with _ => _ end] => destruct x
           end; cbn; try reflexivity; eapply set_pc_length; eassumption.
Qed.

Lemma qrun_length sched s : length (pcs (qrun true sched s)) = length (pcs s).
Proof.
  unfold qrun. revert s. induction sched as [|t r IH]; intros s; [reflexivity|].
  cbn [fold_left]. now rewrite IH, qstep_length.
Qed.

Lemma inv_all_done_all_items items s :
  Inv items s -> (1 <= length (pcs s))%nat -> all_done s = true -> Permutation (finished s) items.
Proof.
  intros I Hlen Hd. pose proof (all_done_spec s Hd) as Hall.
  assert (Hq : queue s = []).
  { destruct (nth_error (pcs s) 0) as [p|] eqn:H0.
    - apply (inv_done _ _ I 0). now rewrite (Hall 0 p H0) in H0.
    - apply nth_error_None in H0. lia. }
  assert (Hh : holding s = []).
  { unfold holding. clear - Hall. induction (pcs s) as [|p r IH]; [reflexivity|].
    cbn. rewrite (Hall 0 p eq_refl). cbn. apply IH. intros t q Hq. exact (Hall (S t) q Hq). }
  pose proof (inv_items _ _ I) as P. now rewrite Hq, Hh in P.
Qed.

Theorem queue_all_done_all_items items n sched :
  (1 <= n)%nat ->
  let s := qrun true sched (qinit items n) in
  all_done s = true -> Permutation (finished s) items.
Proof.
  intros Hn s Hd. pose proof (inv_reachable items n sched) as I. fold s in I.
  pose proof (all_done_spec s Hd) as Hall.
  assert (Hlen : length (pcs s) = n).
  { unfold s. rewrite qrun_length. cbn. apply repeat_length. }
  assert (Hq : queue s = []).
  { destruct (nth_error (pcs s) 0) as [p|] eqn:H0.
    - apply (inv_done _ _ I 0). now rewrite (Hall 0 p H0) in H0.
    - apply nth_error_None in H0. lia. }
  assert (Hh : holding s = []).
  { unfold holding. clear - Hall. induction (pcs s) as [|p r IH]; [reflexivity|].
    cbn. rewrite (Hall 0 p eq_refl). cbn. apply IH. intros t q Hq. exact (Hall (S t) q Hq). }
  pose proof (inv_items _ _ I) as P. now rewrite Hq, Hh in P.
Qed.

(** ** termination: a measure that every effective step decreases, and
    progress (some thread can move) while not all threads are done *)
Definition w (p : pc) : nat :=
  match p with
  | PStart => 3 | PLocked => 2 | PNonEmpty => 1 | PGot _ => 5 | PWork _ => 4 | PDone => 0 | PBlocked => 0
  end.
Definition wl (p : pc) : list unit := repeat tt (w p).
Definition mu (s : qstate) : nat := 5 * length (queue s) + length (flat_map wl (pcs s)).

Lemma mu_set_pc s t v p q' l' f' :
  nth_error (pcs s) t = Some p ->
  mu {| queue := q'; lock := l'; pcs := set_pc (pcs s) t v; finished := f' |} + w p + 5 * length (queue s)
  = mu s + w v + 5 * length q'.
Proof.
  intros Hp. unfold mu. cbn [queue pcs].
  destruct (flat_map_set_pc wl (pcs s) t v p Hp) as (A & C & E1 & E2).
  rewrite E1, E2, !app_length. unfold wl. rewrite !repeat_length. lia.
Qed.

Theorem qstep_decreases s t : qstep true s t = s \/ (mu (qstep true s t) < mu s)%nat.
Proof.
  unfold qstep. destruct (nth_error (pcs s) t) as [p|] eqn:Hp; [|now left].
  destruct p.
  - destruct (lock s); [now left|]. right.
    pose proof (mu_set_pc s t PLocked PStart (queue s) (Some t) (finished s) Hp). cbn [w] in *. lia.
  - right. destruct (queue s) as [|i r] eqn:Hq.
    + pose proof (mu_set_pc s t PDone PLocked [] None (finished s) Hp). rewrite Hq in *. cbn [w length] in *. lia.
    + pose proof (mu_set_pc s t PNonEmpty PLocked (i :: r) (lock s) (finished s) Hp).
      rewrite Hq in *. cbn [w] in *. lia.
  - right. destruct (queue s) as [|i r] eqn:Hq.
    + pose proof (mu_set_pc s t PBlocked PNonEmpty [] (lock s) (finished s) Hp). rewrite Hq in *. cbn [w length] in *. lia.
    + pose proof (mu_set_pc s t (PGot i) PNonEmpty r (lock s) (finished s) Hp).
      rewrite Hq in *. cbn [w length] in *. lia.
  - right. pose proof (mu_set_pc s t (PWork item) (PGot item) (queue s) None (finished s) Hp). cbn [w] in *. lia.
  - right. pose proof (mu_set_pc s t PStart (PWork item) (queue s) (lock s) (finished s ++ [item]) Hp).
    cbn [w] in *. lia.
  - now left.
  - now left.
Qed.

(** number of steps of a schedule that change the state *)
Fixpoint effective (sched : list nat) (s : qstate) : nat :=
  match sched with
  | [] => 0
  | t :: r => (if Nat.eqb (mu (qstep true s t)) (mu s) then 0 else 1) + effective r (qstep true s t)
  end.

Theorem queue_bounded_work sched s : (effective sched s + mu (qrun true sched s) <= mu s)%nat.
Proof.
  unfold qrun. revert s. induction sched as [|t r IH]; intros s; cbn [effective fold_left]; [lia|].
  specialize (IH (qstep true s t)).
  destruct (qstep_decreases s t) as [E|L].
  - rewrite E in *. rewrite Nat.eqb_refl. lia.
  - destruct (Nat.eqb_spec (mu (qstep true s t)) (mu s)); lia.
Qed.

Lemma mu_init items n : mu (qinit items n) = (5 * length items + 3 * n)%nat.
Proof.
  unfold mu. cbn. f_equal. induction n as [|n IH]; [reflexivity|]. cbn. rewrite IH. lia.
Qed.

Lemma not_all_done_exists s :
  all_done s = false -> exists t p, nth_error (pcs s) t = Some p /\ p <> PDone.
Proof.
  unfold all_done. intros H.
  assert (E : existsb (fun p => negb match p with PDone => true | _ => false end) (pcs s) = true).
  { clear - H. induction (pcs s) as [|p r IH]; [discriminate|]. cbn in *.
    destruct p; cbn in *; try reflexivity. now apply IH. }
  apply existsb_exists in E as (p & Hin & Hp). apply In_nth_error in Hin as [t Ht].
  exists t, p. split; [exact Ht|]. intros ->. discriminate.
Qed.

(** which thread can move: the lock holder if there is one, else every thread that is not done *)
Theorem queue_progress_strong items s : Inv items s ->
  (forall h, lock s = Some h -> (mu (qstep true s h) < mu s)%nat) /\
  (lock s = None -> forall t p, nth_error (pcs s) t = Some p -> p <> PDone -> (mu (qstep true s t) < mu s)%nat).
Proof.
  intros I. split.
  - intros h Hl. destruct (inv_lock2 _ _ I h Hl) as (p & Hp & Hlk).
    destruct (qstep_decreases s h) as [E|L]; [|exact L]. exfalso.
    unfold qstep in E. rewrite Hp in E. destruct p; try discriminate.
    + destruct (queue s); apply (f_equal pcs) in E; cbn in E;
        apply (f_equal (fun l => nth_error l h)) in E; erewrite set_pc_same in E by eassumption; congruence.
    + destruct (queue s); apply (f_equal pcs) in E; cbn in E;
        apply (f_equal (fun l => nth_error l h)) in E; erewrite set_pc_same in E by eassumption; congruence.
    + apply (f_equal pcs) in E; cbn in E;
        apply (f_equal (fun l => nth_error l h)) in E; erewrite set_pc_same in E by eassumption; congruence.
  - intros Hl t p Hp Hne.
    destruct (qstep_decreases s t) as [E|L]; [|exact L]. exfalso.
    unfold qstep in E. rewrite Hp, ?Hl in E.
    destruct p; try congruence;
      try (pose proof (inv_lock1 _ _ I t _ Hp eq_refl); congruence);
      try (exact (inv_noblock _ _ I t Hp)).
    + apply (f_equal pcs) in E; cbn in E;
        apply (f_equal (fun l => nth_error l t)) in E; erewrite set_pc_same in E by eassumption; congruence.
    + apply (f_equal pcs) in E; cbn in E;
        apply (f_equal (fun l => nth_error l t)) in E; erewrite set_pc_same in E by eassumption; congruence.
Qed.

Theorem queue_progress items s :
  Inv items s -> all_done s = false -> exists t, (mu (qstep true s t) < mu s)%nat.
Proof.
  intros I Hnd. destruct (lock s) as [h|] eqn:Hl.
  - (* the lock holder can always move *)
    destruct (inv_lock2 _ _ I h Hl) as (p & Hp & Hlk). exists h.
    destruct (qstep_decreases s h) as [E|L]; [|exact L]. exfalso.
    unfold qstep in E. rewrite Hp in E. destruct p; try discriminate.
    + destruct (queue s); apply (f_equal pcs) in E; cbn in E;
        apply (f_equal (fun l => nth_error l h)) in E; erewrite set_pc_same in E by eassumption; congruence.
    + destruct (queue s); apply (f_equal pcs) in E; cbn in E;
        apply (f_equal (fun l => nth_error l h)) in E; erewrite set_pc_same in E by eassumption; congruence.
    + apply (f_equal pcs) in E; cbn in E;
        apply (f_equal (fun l => nth_error l h)) in E; erewrite set_pc_same in E by eassumption; congruence.
  - (* lock free: any thread that is not done is in Start or Work and can move *)
    destruct (not_all_done_exists s Hnd) as (t & p & Hp & Hne). exists t.
    destruct (qstep_decreases s t) as [E|L]; [|exact L]. exfalso.
    unfold qstep in E. rewrite Hp, ?Hl in E.
    destruct p; try congruence;
      try (pose proof (inv_lock1 _ _ I t _ Hp eq_refl); congruence);
      try (exact (inv_noblock _ _ I t Hp)).
    + apply (f_equal pcs) in E; cbn in E;
        apply (f_equal (fun l => nth_error l t)) in E; erewrite set_pc_same in E by eassumption; congruence.
    + apply (f_equal pcs) in E; cbn in E;
        apply (f_equal (fun l => nth_error l t)) in E; erewrite set_pc_same in E by eassumption; congruence.
Qed.

(** every schedule: while some thread is not done some thread can move, and
    at most 5*items + 3*threads moves are possible in total - so every run in
    which enabled threads keep being scheduled ends with all threads done *)
Theorem queue_terminates items n sched :
  let s := qrun true sched (qinit items n) in
  (effective sched (qinit items n) <= 5 * length items + 3 * n)%nat /\
  (all_done s = false -> exists t, (mu (qstep true s t) < mu s)%nat).
Proof.
  intros s. split.
  - pose proof (queue_bounded_work sched (qinit items n)) as H. rewrite mu_init in H. lia.
  - apply (queue_progress items). apply inv_reachable.
Qed.

(** ** contrast: without the lock two threads and one item can block for ever *)
Theorem unlocked_queue_blocks_refuted :
  exists items n sched, some_blocked (qrun false sched (qinit items n)) = true.
Proof. exists [7], 2, [0; 1; 0; 1; 0; 1]. vm_compute. reflexivity. Qed.
