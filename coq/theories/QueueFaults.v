(** method='threading' with failing work: the worker threads of QueueTrace when an
    atomic action may raise ([fails i k]: the k-th action of item i raises, e.g. the
    typed kernel rejects alpha='0.1' on its first use).  As in ndl.ndl after the
    repair of finding F3, the thread that meets the exception appends it to
    [worker_errors] and ends (its item is neither finished nor given back); the
    other threads go on; after the join the call raises the first recorded error.

    For EVERY schedule: the call never blocks (bounded number of effective steps,
    progress while a thread is alive and not done), and when all threads have ended
    it returns normally only if every action of every item was performed and none
    of them raises - so if any action of any item raises, the call raises. *)
From Coq Require Import List Arith Lia Bool Permutation.
From PV Require Import Lists Sched QueueProofs QueueTrace.
Import ListNotations.

Section FWorkers.
  Context {A : Type}.
  Variable seqs : list (list A).
  Variable fails : nat -> nat -> bool.

  Record fstate := { ws : @wstate A; dead : list nat; errs : list nat }.

  Definition is_dead (s : fstate) (t : nat) : bool := existsb (Nat.eqb t) (dead s).

  Definition fstep (s : fstate) (t : nat) : fstate :=
    if is_dead s t then s else
    match nth_error (pcs (qs (ws s))) t with
    | Some (PWork i) =>
      match nth_error (nth i seqs []) (prog (ws s) t) with
      | Some _ =>
        if fails i (prog (ws s) t)
        then {| ws := ws s; dead := t :: dead s; errs := errs s ++ [i] |}        (* except: record, end *)
        else {| ws := wstep seqs (ws s) t; dead := dead s; errs := errs s |}
      | None => {| ws := wstep seqs (ws s) t; dead := dead s; errs := errs s |}
      end
    | _ => {| ws := wstep seqs (ws s) t; dead := dead s; errs := errs s |}
    end.

  Definition finit (items : list nat) (n_threads : nat) : fstate :=
    {| ws := winit items n_threads; dead := []; errs := [] |}.
  Definition frun (sched : list nat) (s : fstate) : fstate := fold_left fstep sched s.

  (** every thread has ended: left the loop through the empty queue, or died *)
  Definition ended (s : fstate) (t : nat) : bool :=
    is_dead s t || match nth_error (pcs (qs (ws s))) t with Some PDone => true | _ => false end.
  Definition f_all_done (s : fstate) : bool := forallb (ended s) (seq 0 (length (pcs (qs (ws s))))).
  (** [if worker_errors: raise worker_errors[0]] *)
  Definition call_raises (s : fstate) : option nat := hd_error (errs s).

  Definition fphi (items : list nat) (n : nat) (s : fstate) : nat :=
    phi seqs items (ws s) + (n - length (dead s)).
  Fixpoint feffective (items : list nat) (n : nat) (sched : list nat) (s : fstate) : nat :=
    match sched with
    | [] => 0
    | t :: r => (if Nat.eqb (fphi items n (fstep s t)) (fphi items n s) then 0 else 1)
                + feffective items n r (fstep s t)
    end.
End FWorkers.

Lemma existsb_eqb_In t l : existsb (Nat.eqb t) l = true <-> In t l.
Proof.
  rewrite existsb_exists. split.
  - intros (x & Hx & E). apply Nat.eqb_eq in E. now subst.
  - intros H. exists t. split; [exact H|apply Nat.eqb_refl].
Qed.

Section FWorkersProofs.
  Context {A : Type}.
  Variable seqs : list (list A).
  Variable fails : nat -> nat -> bool.
  Notation fstate := (@fstate A).
  Notation fstep := (fstep seqs fails).
  Notation frun := (frun seqs fails).

  Record FInv (items : list nat) (s : fstate) : Prop := {
    f_w : WInv seqs items (ws s);
    f_dead_work : forall t, In t (dead s) -> exists i, nth_error (pcs (qs (ws s))) t = Some (PWork i);
    f_nodup : NoDup (dead s);
    f_errs : length (errs s) = length (dead s);
    f_nofail : forall i k, k < length (proj i (wtrace (ws s))) -> fails i k = false
  }.

  Lemma finv_init items n : FInv items (finit items n).
  Proof.
    constructor; cbn.
    - apply winv_init.
    - intros t [].
    - constructor.
    - reflexivity.
    - intros i k H. inversion H.
  Qed.

  Lemma wstep_other_pc (s : @wstate A) t t' :
    t <> t' -> nth_error (pcs (qs (wstep seqs s t))) t' = nth_error (pcs (qs s)) t'.
  Proof.
    intros Hne. destruct (wstep_qs seqs s t) as [E|E]; rewrite E; [reflexivity|now apply qstep_other].
  Qed.

  Lemma wstep_trace (s : @wstate A) t :
    wtrace (wstep seqs s t) =
    match nth_error (pcs (qs s)) t with
    | Some (PWork i) => match nth_error (nth i seqs []) (prog s t) with
                        | Some a => wtrace s ++ [(i, a)]
                        | None => wtrace s
                        end
    | _ => wtrace s
    end.
  Proof.
    unfold wstep. destruct (nth_error (pcs (qs s)) t) as [p|]; [|reflexivity].
    destruct p; try reflexivity. destruct (nth_error _ _); reflexivity.
  Qed.

  (** a step of a live thread that is an ordinary worker step *)
  Lemma finv_wstep items s t : NoDup items -> FInv items s -> is_dead s t = false ->
    (forall i a, nth_error (pcs (qs (ws s))) t = Some (PWork i) ->
                 nth_error (nth i seqs []) (prog (ws s) t) = Some a -> fails i (prog (ws s) t) = false) ->
    FInv items {| ws := wstep seqs (ws s) t; dead := dead s; errs := errs s |}.
  Proof.
    intros Hnd F Halive Hok.
    assert (Hnot : ~ In t (dead s)).
    { intros H. apply existsb_eqb_In in H. unfold is_dead in Halive. congruence. }
    constructor; cbn [ws dead errs].
    - apply winv_step; [exact Hnd|apply (f_w _ _ F)].
    - intros t' Ht'. destruct (f_dead_work _ _ F t' Ht') as [i Hi]. exists i.
      rewrite wstep_other_pc; [exact Hi|]. intros ->. contradiction.
    - apply (f_nodup _ _ F).
    - apply (f_errs _ _ F).
    - intros i k. rewrite wstep_trace.
      destruct (nth_error (pcs (qs (ws s))) t) as [p|] eqn:Hp; [|apply (f_nofail _ _ F)].
      destruct p; try apply (f_nofail _ _ F).
      destruct (nth_error (nth item seqs []) (prog (ws s) t)) as [a|] eqn:Ha; [|apply (f_nofail _ _ F)].
      rewrite proj_snoc. destruct (Nat.eqb_spec item i) as [->|_]; [|apply (f_nofail _ _ F)].
      rewrite app_length. cbn [length]. intros Hk.
      pose proof (w_work _ _ _ (f_w _ _ F) t i Hp) as Hw.
      assert (Hlen : length (proj i (wtrace (ws s))) = prog (ws s) t).
      { rewrite Hw, firstn_length. apply Nat.min_l.
        assert (prog (ws s) t < length (nth i seqs [])) by (apply nth_error_Some; congruence). lia. }
      destruct (Nat.eq_dec k (prog (ws s) t)) as [->|Hne].
      + exact (Hok i a eq_refl Ha).
      + apply (f_nofail _ _ F). lia.
  Qed.

  Lemma finv_step items s t : NoDup items -> FInv items s -> FInv items (fstep s t).
  Proof.
    intros Hnd F. unfold QueueFaults.fstep. destruct (is_dead s t) eqn:Hd; [exact F|].
    destruct (nth_error (pcs (qs (ws s))) t) as [p|] eqn:Hp.
    2: { apply finv_wstep; try assumption. intros; congruence. }
    destruct p; try (apply finv_wstep; try assumption; intros; congruence).
    destruct (nth_error (nth item seqs []) (prog (ws s) t)) as [a|] eqn:Ha.
    2: { apply finv_wstep; try assumption. intros; congruence. }
    destruct (fails item (prog (ws s) t)) eqn:Hf.
    - (* the action raises: the thread records the error and ends *)
      constructor; cbn [ws dead errs].
      + apply (f_w _ _ F).
      + intros t' [<-|Ht']; [now exists item|now apply (f_dead_work _ _ F)].
      + constructor; [|apply (f_nodup _ _ F)]. intros H. apply existsb_eqb_In in H.
        unfold is_dead in Hd. congruence.
      + rewrite app_length. cbn. rewrite (f_errs _ _ F). lia.
      + apply (f_nofail _ _ F).
    - apply finv_wstep; try assumption. intros i a' Hi _. congruence.
  Qed.

  Theorem finv_reachable items n sched : NoDup items -> FInv items (frun sched (finit items n)).
  Proof.
    intros Hnd. unfold QueueFaults.frun. generalize (finv_init items n). generalize (finit items n : fstate).
    induction sched as [|t r IH]; intros s F; [exact F|]. cbn [fold_left]. apply IH. now apply finv_step.
  Qed.

  Lemma fstep_length s t : length (pcs (qs (ws (fstep s t)))) = length (pcs (qs (ws s))).
  Proof.
    unfold QueueFaults.fstep. destruct (is_dead s t); [reflexivity|].
    destruct (nth_error (pcs (qs (ws s))) t) as [p|]; [|apply wstep_length].
    destruct p; try apply wstep_length.
    destruct (nth_error _ _); [|apply wstep_length]. destruct (fails _ _); [reflexivity|apply wstep_length].
  Qed.

  Lemma frun_length sched s : length (pcs (qs (ws (frun sched s)))) = length (pcs (qs (ws s))).
  Proof.
    unfold QueueFaults.frun. revert s. induction sched as [|t r IH]; intros s; [reflexivity|].
    cbn [fold_left]. now rewrite IH, fstep_length.
  Qed.

  (** ** the call returns normally only if all work was done and nothing in it raises *)
  Lemma no_errors_all_done (s : fstate) : dead s = [] -> f_all_done s = true -> all_done (qs (ws s)) = true.
  Proof.
    unfold f_all_done, all_done, ended, is_dead. intros Hd H. rewrite Hd in H. cbn [existsb orb] in H.
    rewrite forallb_forall in *. intros p Hp. apply In_nth_error in Hp as [t Ht].
    assert (Hlt : t < length (pcs (qs (ws s)))) by (apply nth_error_Some; congruence).
    specialize (H t). rewrite Ht in H. destruct p; try reflexivity; apply H; apply in_seq; lia.
  Qed.

  Theorem returns_only_if_no_failure n sched : 1 <= n ->
    let s := frun sched (finit (seq 0 (length seqs)) n) in
    f_all_done s = true -> call_raises s = None ->
    interleaving seqs (wtrace (ws s)) /\
    (forall i k, i < length seqs -> k < length (nth i seqs []) -> fails i k = false).
  Proof.
    intros Hn s Hd Hr.
    pose proof (finv_reachable (seq 0 (length seqs)) n sched (seq_NoDup _ _)) as F. fold s in F.
    assert (He : errs s = []) by (unfold call_raises in Hr; destruct (errs s); [reflexivity|discriminate]).
    assert (Hdead : dead s = []).
    { pose proof (f_errs _ _ F) as L. rewrite He in L. destruct (dead s); [reflexivity|discriminate]. }
    assert (Hlen : length (pcs (qs (ws s))) = n).
    { unfold s. rewrite frun_length. cbn. apply repeat_length. }
    assert (Hint : interleaving seqs (wtrace (ws s))).
    { apply winv_interleaving; [apply (f_w _ _ F)|lia|now apply no_errors_all_done]. }
    split; [exact Hint|]. intros i k Hi Hk. apply (f_nofail _ _ F i k). now rewrite (Hint i).
  Qed.

  (** contrapositive: if any action of any item raises, then for every schedule the finished call raises *)
  Theorem failure_raises n sched i k : 1 <= n ->
    i < length seqs -> k < length (nth i seqs []) -> fails i k = true ->
    let s := frun sched (finit (seq 0 (length seqs)) n) in
    f_all_done s = true -> exists j, call_raises s = Some j.
  Proof.
    intros Hn Hi Hk Hf s Hd. destruct (call_raises s) as [j|] eqn:Hr; [now exists j|]. exfalso.
    destruct (returns_only_if_no_failure n sched Hn Hd Hr) as [_ H]. specialize (H i k Hi Hk). congruence.
  Qed.

  (** ** it never blocks: bounded work and progress *)
  Lemma dead_bound items s : FInv items s -> length (dead s) <= length (pcs (qs (ws s))).
  Proof.
    intros F. rewrite <- (seq_length (length (pcs (qs (ws s)))) 0).
    apply NoDup_incl_length; [apply (f_nodup _ _ F)|].
    intros t Ht. destruct (f_dead_work _ _ F t Ht) as [i Hi]. apply in_seq.
    assert (t < length (pcs (qs (ws s)))) by (apply nth_error_Some; congruence). lia.
  Qed.

  Lemma fstep_phi items n s t : NoDup items -> FInv items s -> length (pcs (qs (ws s))) = n ->
    fphi seqs items n (fstep s t) <= fphi seqs items n s /\
    (is_dead s t = false -> mu (qstep true (qs (ws s)) t) < mu (qs (ws s)) ->
     fphi seqs items n (fstep s t) < fphi seqs items n s).
  Proof.
    intros Hnd F Hlen. pose proof (finv_step items s t Hnd F) as F'.
    pose proof (dead_bound items _ F') as B'. rewrite fstep_length, Hlen in B'.
    destruct (wstep_phi seqs items (ws s) t Hnd (f_w _ _ F)) as [Wle Wlt].
    revert F' B'. unfold fphi, QueueFaults.fstep.
    destruct (is_dead s t); [intros _ _; split; [lia|discriminate]|].
    destruct (nth_error (pcs (qs (ws s))) t) as [p|]; [|intros _ _; cbn [ws dead]; split; [lia|intros _ H; specialize (Wlt H); lia]].
    destruct p; try (intros _ _; cbn [ws dead]; split; [lia|intros _ H; specialize (Wlt H); lia]).
    destruct (nth_error _ _); [|intros _ _; cbn [ws dead]; split; [lia|intros _ H; specialize (Wlt H); lia]].
    destruct (fails _ _); [|intros _ _; cbn [ws dead]; split; [lia|intros _ H; specialize (Wlt H); lia]].
    intros _ B'. cbn [ws dead length] in *. split; [lia|intros _ _; lia].
  Qed.

  Theorem fworker_bounded_work items n sched s : NoDup items -> FInv items s -> length (pcs (qs (ws s))) = n ->
    feffective seqs fails items n sched s + fphi seqs items n (frun sched s) <= fphi seqs items n s.
  Proof.
    intros Hnd. unfold QueueFaults.frun. revert s.
    induction sched as [|t r IH]; intros s F Hlen; cbn [feffective fold_left]; [lia|].
    assert (Hlen' : length (pcs (qs (ws (fstep s t)))) = n) by now rewrite fstep_length.
    specialize (IH (fstep s t) (finv_step items s t Hnd F) Hlen').
    destruct (fstep_phi items n s t Hnd F Hlen) as [Hle _].
    destruct (Nat.eqb_spec (fphi seqs items n (fstep s t)) (fphi seqs items n s)); lia.
  Qed.

  Lemma not_f_all_done (s : fstate) : f_all_done s = false ->
    exists t p, is_dead s t = false /\ nth_error (pcs (qs (ws s))) t = Some p /\ p <> PDone.
  Proof.
    unfold f_all_done. intros H.
    assert (E : existsb (fun t => negb (ended s t)) (seq 0 (length (pcs (qs (ws s))))) = true).
    { revert H. generalize (seq 0 (length (pcs (qs (ws s))))). intros l.
      induction l as [|x r IH]; [discriminate|]. cbn. destruct (ended s x); cbn; [exact IH|reflexivity]. }
    apply existsb_exists in E as (t & Hin & Ht). apply in_seq in Hin.
    unfold ended in Ht. apply negb_true_iff, orb_false_iff in Ht as [Hd Hp].
    destruct (nth_error (pcs (qs (ws s))) t) as [p|] eqn:Hnth.
    - exists t, p. split; [exact Hd|split; [exact Hnth|]]. intros ->. discriminate.
    - apply nth_error_None in Hnth. lia.
  Qed.

  Theorem fworker_progress items n s : NoDup items -> FInv items s -> length (pcs (qs (ws s))) = n ->
    f_all_done s = false -> exists t, fphi seqs items n (fstep s t) < fphi seqs items n s.
  Proof.
    intros Hnd F Hlen Hd.
    pose proof (w_inv _ _ _ (f_w _ _ F)) as I.
    destruct (queue_progress_strong items (qs (ws s)) I) as [Hheld Hfree].
    destruct (lock (qs (ws s))) as [h|] eqn:Hl.
    - (* the lock holder is alive (a thread that died was working, without the lock) and can move *)
      exists h. apply (fstep_phi items n s h Hnd F Hlen); [|now apply Hheld].
      destruct (is_dead s h) eqn:Hdh; [|reflexivity]. exfalso.
      apply existsb_eqb_In in Hdh. destruct (f_dead_work _ _ F h Hdh) as [i Hi].
      destruct (inv_lock2 _ _ I h Hl) as (p & Hp & Hlk). rewrite Hi in Hp. inversion Hp; subst. discriminate.
    - destruct (not_f_all_done s Hd) as (t & p & Halive & Hp & Hne).
      exists t. apply (fstep_phi items n s t Hnd F Hlen); [exact Halive|]. now apply (Hfree eq_refl t p).
  Qed.

  (** every schedule: at most 5*items + 4*threads + (number of actions) effective steps, and while a thread
      has not ended some live thread can make an effective step - the join always returns *)
  Theorem fworker_terminates items n sched : NoDup items ->
    let s := frun sched (finit items n) in
    feffective seqs fails items n sched (finit items n) <= 5 * length items + 4 * n + total seqs items /\
    (f_all_done s = false -> exists t, fphi seqs items n (fstep s t) < fphi seqs items n s).
  Proof.
    intros Hnd s.
    assert (Hlen0 : length (pcs (qs (ws (finit items n : fstate)))) = n) by (cbn; apply repeat_length).
    split.
    - pose proof (fworker_bounded_work items n sched (finit items n) Hnd (finv_init items n) Hlen0) as H.
      unfold fphi at 2, phi in H. cbn [ws finit qs winit wtrace dead length] in H. rewrite mu_init in H. lia.
    - apply fworker_progress; [exact Hnd|apply finv_reachable; exact Hnd|].
      unfold s. now rewrite frun_length.
  Qed.
End FWorkersProofs.
