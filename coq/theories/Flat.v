(** Flat integer encodings of test cases.  Every executable model exposes a
    function [list Z -> list Z]; the harness encodes a case as a flat list of
    integers (length-prefixed lists) and decodes the result the same way.
    These readers are glue (trusted base: "case decoding"), kept tiny. *)
From Coq Require Import ZArith List.
Import ListNotations.
Open Scope Z_scope.

Fixpoint take_n {A} (n : nat) (l : list A) : option (list A * list A) :=
  match n with
  | O => Some ([], l)
  | S k => match l with
           | [] => None
           | x :: r => match take_n k r with
                       | Some (a, b) => Some (x :: a, b)
                       | None => None
                       end
           end
  end.

(** [n; x1 .. xn; rest]  ->  ([x1..xn], rest) *)
Definition rd_list (l : list Z) : option (list Z * list Z) :=
  match l with
  | [] => None
  | n :: r => take_n (Z.to_nat n) r
  end.

Definition rd_int (l : list Z) : option (Z * list Z) :=
  match l with [] => None | n :: r => Some (n, r) end.

(** read [n] items with reader [rd] *)
Fixpoint rd_many {A} (rd : list Z -> option (A * list Z)) (n : nat) (l : list Z)
  : option (list A * list Z) :=
  match n with
  | O => Some ([], l)
  | S k => match rd l with
           | None => None
           | Some (x, r) => match rd_many rd k r with
                            | None => None
                            | Some (xs, r') => Some (x :: xs, r')
                            end
           end
  end.

(** [n; item1 .. itemn; rest] with items read by [rd] *)
Definition rd_seq {A} (rd : list Z -> option (A * list Z)) (l : list Z)
  : option (list A * list Z) :=
  match l with
  | [] => None
  | n :: r => rd_many rd (Z.to_nat n) r
  end.

Definition rd_pair {A B} (ra : list Z -> option (A * list Z))
           (rb : list Z -> option (B * list Z)) (l : list Z)
  : option ((A * B) * list Z) :=
  match ra l with
  | None => None
  | Some (a, r) => match rb r with
                   | None => None
                   | Some (b, r') => Some ((a, b), r')
                   end
  end.

(** an event = list of cue ids, list of outcome ids *)
Definition rd_event := rd_pair rd_list rd_list.
Definition rd_events := rd_seq rd_event.

Definition wr_list (l : list Z) : list Z := Z.of_nat (length l) :: l.
Definition wr_event (e : list Z * list Z) : list Z := wr_list (fst e) ++ wr_list (snd e).
Definition wr_events (es : list (list Z * list Z)) : list Z :=
  Z.of_nat (length es) :: flat_map wr_event es.

(** the error marker of a result: a result list that starts with [-1] *)
Definition flat_err (code : Z) : list Z := [-1; code].
Definition bad_case : list Z := [-2].
