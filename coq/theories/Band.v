(** Executable models of [pyndl.preprocess.bandsample] and of
    [pyndl.count.save_counter] / [load_counter].  Definitions only
    (proofs: BandProofs.v).

    bandsample(population, sample_size, cutoff=..):
      population = [(word, freq) for word, freq in population.items() if freq >= cutoff]
      rand.shuffle(population)                 -- the permutation is an input of the model
      population.sort(key=lambda x: x[1])      -- stable
      step = sum(freq ...) / sample_size       -- exact rational here, a double in Python
      accumulator = 0; index = 0; sample = []
      while 0 <= index < len(population): ...  -- [band_loop], explicit fuel
    Words are opaque (any type [W]); the dict comprehension at the end cannot
    merge entries because the words of a dict are distinct (BandProofs: NoDup). *)
From Coq Require Import ZArith List Bool QArith Qcanon.
From PV Require Import PyText.
Import ListNotations.
Open Scope Z_scope.

Definition qc_of_Z (z : Z) : Qc := Q2Qc (inject_Z z).
Definition qc_leb (a b : Qc) : bool := Qle_bool (this a) (this b).

Section Band.
Context {W : Type}.
Definition entry : Type := (W * Z)%type.

(** [x[:] = [x[i] for i in perm]] - what the pinned [shuffle] does *)
Definition apply_perm (p : list nat) (l : list entry) : list entry :=
  flat_map (fun i => match nth_error l i with Some x => [x] | None => [] end) p.

(** stable sort, lowest frequency first *)
Fixpoint insert_by_freq (x : entry) (l : list entry) : list entry :=
  match l with
  | [] => [x]
  | y :: r => if snd x <=? snd y then x :: l else y :: insert_by_freq x r
  end.
Fixpoint sort_by_freq (l : list entry) : list entry :=
  match l with
  | [] => []
  | x :: r => insert_by_freq x (sort_by_freq r)
  end.

(** [del population[i]] *)
Fixpoint remove_at (i : nat) (l : list entry) : list entry :=
  match l with
  | [] => []
  | x :: r => match i with O => r | S j => x :: remove_at j r end
  end.

Definition sum_freq (l : list entry) : Z := fold_right (fun e s => snd e + s) 0 l.

Definition band_state : Type := (list entry * nat * Qc * list entry)%type.

(** [while accumulator >= step and index >= 1:
       index -= 1; sample.append(population[index]); accumulator -= step; del population[index]] *)
Fixpoint back_walk (step : Qc) (pop : list entry) (index : nat) (acc : Qc) (sample : list entry)
  : band_state :=
  match index with
  | O => (pop, index, acc, sample)
  | S i =>
    if qc_leb step acc then
      match nth_error pop i with
      | Some e => back_walk step (remove_at i pop) i (acc - step)%Qc (sample ++ [e])
      | None => (pop, index, acc, sample)        (* IndexError; unreachable, index <= len *)
      end
    else (pop, index, acc, sample)
  end.

(** the outer [while 0 <= index < len(population)]; [None] = out of fuel *)
Fixpoint band_loop (fuel : nat) (step : Qc) (pop : list entry) (index : nat) (acc : Qc)
         (sample : list entry) : option (list entry) :=
  match fuel with
  | O => None
  | S f =>
    match nth_error pop index with
    | None => Some sample                          (* index = len(population) *)
    | Some e =>
      let acc1 := (acc + qc_of_Z (snd e))%Qc in
      if qc_leb step acc1 then
        match back_walk step (remove_at index pop) index (acc1 - step)%Qc (sample ++ [e]) with
        | (pop', index', acc', sample') => band_loop f step pop' index' acc' sample'
        end
      else band_loop f step pop (S index) acc1 sample
    end
  end.

Inductive band_result :=
| BOk (sample : list entry)        (* Counter(dict(sample)), in insertion order *)
| BZeroDivision                    (* sample_size = 0 *)
| BOutOfFuel.                      (* unreachable: band_fuel_sufficient *)

Definition band_prepare (population : list entry) (cutoff : Z) (perm : list nat) : list entry :=
  sort_by_freq (apply_perm perm (filter (fun e => cutoff <=? snd e) population)).

Definition band_step (pop : list entry) (sample_size : Z) : Qc :=
  (qc_of_Z (sum_freq pop) / qc_of_Z sample_size)%Qc.

Definition bandsample (population : list entry) (sample_size cutoff : Z) (perm : list nat)
  : band_result :=
  let pop := band_prepare population cutoff perm in
  if sample_size =? 0 then BZeroDivision
  else match band_loop (2 * length pop + 1) (band_step pop sample_size) pop 0 0%Qc [] with
       | Some s => BOk s
       | None => BOutOfFuel
       end.

(** what the caller holds after the call: line 1 of the function rebinds the
    local name [population] to a new list, the dict passed in is only read *)
Definition band_argument_after (population : list entry) (sample_size cutoff : Z) (perm : list nat)
  : list entry := population.
End Band.

(** * Counters on disk *)
(** a Counter as its items in insertion order (keys distinct) *)
Definition counter : Type := list (str * Z).

(** [str(n)] for an int *)
Fixpoint dec_digits (fuel : nat) (n : Z) (acc : str) : str :=
  match fuel with
  | O => acc
  | S f => let acc' := (48 + n mod 10) :: acc in
           if n <? 10 then acc' else dec_digits f (n / 10) acc'
  end.
Definition dec_nonneg (n : Z) : str := dec_digits (S (Z.to_nat (Z.log2 n))) n [].
Definition dec_Z (z : Z) : str := if z <? 0 then 45 :: dec_nonneg (- z) else dec_nonneg z.

(** [int(s)] on the spellings [-]digits / [+]digits (ASCII digits).  CPython's
    int() also accepts surrounding whitespace, '_' between digits and other
    Unicode digits; those spellings are outside this model (they are never
    produced by save_counter). *)
Fixpoint parse_digits (a : Z) (ds : str) : option Z :=
  match ds with
  | [] => Some a
  | d :: r => if (48 <=? d) && (d <=? 57) then parse_digits (10 * a + (d - 48)) r else None
  end.
Definition py_int (s : str) : option Z :=
  match s with
  | [] => None
  | c :: r =>
    if c =? 45 then (if is_nil r then None else option_map Z.opp (parse_digits 0 r))
    else if c =? 43 then (if is_nil r then None else parse_digits 0 r)
    else parse_digits 0 s
  end.

(** [Counter.most_common()] = sorted(items, key=count, reverse=True): stable, highest first *)
Fixpoint insert_desc (x : str * Z) (l : counter) : counter :=
  match l with
  | [] => [x]
  | y :: r => if snd y <=? snd x then x :: l else y :: insert_desc x r
  end.
Fixpoint most_common (c : counter) : counter :=
  match c with
  | [] => []
  | x :: r => insert_desc x (most_common r)
  end.

Definition counter_line (kv : str * Z) : str := fst kv ++ TAB :: dec_Z (snd kv) ++ [LF].

(** decoded content of the file written by [save_counter(counter, filename, header=header)] *)
Definition save_counter (header : str) (c : counter) : str :=
  header ++ concat (map counter_line (most_common c)).

Definition has_key (k : str) (c : counter) : bool := existsb (fun kv => str_eqb (fst kv) k) c.

(** the loop of [load_counter]; [None] = ValueError (not two fields, repeated key, int()) *)
Fixpoint load_lines (ls : list str) (acc : counter) : option counter :=
  match ls with
  | [] => Some acc
  | l :: r =>
    match split_on TAB (rstrip_c LF l) with
    | [k; cnt] =>
      if has_key k acc then None
      else match py_int cnt with
           | Some n => load_lines r (acc ++ [(k, n)])
           | None => None
           end
    | _ => None
    end
  end.

(** [load_counter]: text mode (universal newlines), the first line is skipped *)
Definition load_counter (text : str) : option counter :=
  load_lines (tl (file_lines text)) [].

Fixpoint lookup_key (k : str) (c : counter) : option Z :=
  match c with
  | [] => None
  | (k', n) :: r => if str_eqb k' k then Some n else lookup_key k r
  end.

(** * Vocabulary of the specification (used in the statements of Props/C20.v) *)
Definition clean_key (k : str) : Prop := ~ In TAB k /\ ~ In LF k /\ ~ In CR k.

Definition default_header : str := [107; 101; 121; 9; 102; 114; 101; 113; 10].   (* "key\tfreq\n" *)

