(** Flat entry point of the worker-thread machine (C02 / C05).  Decoding glue only.
    205: n_threads, n_items, failing items, schedule -> the run of QueueFaults.fstep with one
         atomic action per item (the kernel call on the item), started from the full queue:
         [all ended?; some thread blocked?; errs; dead; finished; items in the order their action ran]
    206: the same input and output for the lock-free protocol QueueNowait.nstep (get_nowait until queue.Empty:
         taking an item, or finding the queue empty, is one step) *)
From Coq Require Import ZArith List Bool.
From PV Require Import Flat Sched QueueProofs QueueTrace QueueFaults QueueNowait.
Import ListNotations.
Open Scope Z_scope.

Definition wr_nats (l : list nat) : list Z := wr_list (map Z.of_nat l).

Definition m_threads (nowait : bool) (inp : list Z) : list Z :=
  match inp with
  | nt :: ni :: r =>
    match rd_list r with
    | Some (fl, r') =>
      match rd_list r' with
      | Some (sched, _) =>
        let n_items := Z.to_nat ni in
        let seqs := repeat [tt] n_items in
        let failing := map Z.to_nat fl in
        let fails := fun (i k : nat) => existsb (Nat.eqb i) failing in
        let s := (if nowait then nrun seqs fails else frun seqs fails) (map Z.to_nat sched) (finit (seq 0 n_items) (Z.to_nat nt)) in
        (if f_all_done s then 1 else 0) :: (if some_blocked (qs (ws s)) then 1 else 0)
          :: wr_nats (errs s) ++ wr_nats (dead s) ++ wr_nats (finished (qs (ws s)))
          ++ wr_nats (map fst (wtrace (ws s)))
      | None => bad_case
      end
    | None => bad_case
    end
  | _ => bad_case
  end.

Definition run_c02 (id : Z) (inp : list Z) : option (list Z) :=
  if id =? 205 then Some (m_threads false inp) else if id =? 206 then Some (m_threads true inp) else None.
