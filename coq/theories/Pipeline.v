(** Composition vocabulary of property C15: "every stage's output is valid
    input for the next stage".  Definitions only (proofs: PipelineProofs.v).

    Nothing is re-modelled here.  The stages are the existing models

      creation   WindowSpec.spec_lines / Preproc.create_event_file   (C09)
      filter     Filter.filter_text_pool                             (C10)
      writer     TextFmt.events_to_file / write_file                 (C07)
      reader     TextFmt.parse_file                                  (C07)
      counting   Count.cues_outcomes                                 (C11)
      learners   RWSpec.learn through RWExec.dict_run / the kernels  (C01)

    and this file only says what a *well-formed event line* is, which token
    lists the creation model writes ([spec_events]: the same case analysis as
    [WindowSpec.spec_line], before the tokens are joined), which events a
    written line denotes ([denote]: an empty outcome field is the single
    outcome ''), and how the stage models are plugged together
    ([pipeline_text], [pipeline_events]).

    The three text models use three copies of [join]/[split] (WindowSpec,
    PyText, TextFmt) and two representations of a file (list of lines
    without terminator; decoded text).  PipelineProofs.v proves the bridges. *)
From Coq Require Import ZArith List Bool Permutation.
From PV Require Import BinFmt WindowSpec Preproc PyText Filter TextFmt.
Import ListNotations.
Open Scope Z_scope.

(** an event at the level of names: cue tokens, outcome tokens *)
Definition tevent := TextFmt.event.

(** * Well-formed tokens, events, lines *)

(** a token that survives the file format: not empty, no tab, LF, CR, underscore *)
Definition tok_okb (t : str) : bool :=
  match t with [] => false | _ => TextFmt.clean_token t end.

(** the token lists a producer hands to the line format: at least one cue, all
    tokens fine; the outcome list may be empty, or (what the reader returns for
    an empty outcome field, and what the filter therefore passes on) [['']] *)
Definition wf_eventb (e : tevent) : bool :=
  match fst e with [] => false | cs => forallb tok_okb cs end &&
  match snd e with [[]] => true | os => forallb tok_okb os end.
Definition wf_event (e : tevent) : Prop := wf_eventb e = true.

(** the events the reader returns for the line of [e]: ''.split('_') == [''] *)
Definition denote (e : tevent) : tevent :=
  (fst e, match snd e with [] => [[]] | os => os end).

(** "cues TAB outcomes" without the line terminator *)
Definition event_line (e : tevent) : str :=
  TextFmt.join TextFmt.US (fst e) ++ TextFmt.TAB :: TextFmt.join TextFmt.US (snd e).

(** the file a list of lines denotes: every line is terminated by LF *)
Definition text_of_lines (ls : list str) : str := flat_map (fun l => l ++ [TextFmt.LF]) ls.

(** the same on the text, with the reader's own operations: exactly one tab,
    a non-empty cue field whose '_'-pieces are all fine, an outcome field that
    is empty or whose '_'-pieces are all fine *)
Definition field_okb (f : str) : bool := forallb tok_okb (TextFmt.split TextFmt.US f).
Definition wf_lineb (l : str) : bool :=
  match TextFmt.split TextFmt.TAB l with
  | [cf; of] => field_okb cf && match of with [] => true | _ => field_okb of end
  | _ => false
  end.
Definition wf_line (l : str) : Prop := wf_lineb l = true.

(** a whole file: a header line and only well-formed lines after it, the last one terminated *)
Definition wf_textb (text : str) : bool :=
  match TextFmt.lines (TextFmt.unl text) with
  | [] => false
  | _ :: body => forallb (fun l => wf_lineb (TextFmt.strip_lf l) &&
                                   match rev l with c :: _ => c =? TextFmt.LF | [] => false end) body
  end.

(** * The token lists written by the creation model *)

(** [WindowSpec.spec_line] before joining: the n-grams of "#w1#...#wk#" (or the
    cue words) and the words, de-duplicated when requested; nothing for an empty occurrence *)
Definition spec_event (o : opts) (occ : list str * list str) : list tevent :=
  let (cues, outs) := occ in
  let ng n :=
      let toks := cues ++ outs in
      match toks with
      | [] => []
      | _ => [(dd (o_dedup o) (ngrams n (HASH :: WindowSpec.join HASH toks ++ [HASH])),
               dd (o_dedup o) toks)]
      end in
  match o_cue o with
  | CueTrigrams => ng 3%nat
  | CueBigrams => ng 2%nat
  | CueW2W => match cues with
              | [] => []
              | _ => [(dd (o_dedup o) cues, dd (o_dedup o) outs)]
              end
  end.

Definition context_events (o : opts) (ws : list str) : list tevent :=
  flat_map (spec_event o) (spec_occurrences o ws).

Section Create.
Variable lower : Z -> list Z.
Variable is_space : Z -> bool.
Variable allowed : Z -> bool.

Definition spec_events (o : opts) (corpus : list str) : list tevent :=
  flat_map (context_events o) (contexts lower is_space allowed o corpus).
End Create.

(** * What the creation stage needs from its inputs *)

(** no line break inside a string *)
Definition no_brkb (s : str) : bool :=
  forallb (fun c => negb ((c =? TextFmt.LF) || (c =? TextFmt.CR))) s.
Definition no_brk (s : str) : Prop := ~ In TextFmt.LF s /\ ~ In TextFmt.CR s.

(** the lines a text-mode reader yields (stripped or not) contain neither LF nor CR *)
Definition corpus_okb (corpus : list str) : bool := forallb no_brkb corpus.
Definition corpus_ok (corpus : list str) : Prop := forall l, In l corpus -> no_brk l.

(** [str.lower] does not create a line break *)
Definition lower_ok (lower : Z -> list Z) : Prop :=
  forall c, c <> TextFmt.LF -> c <> TextFmt.CR -> no_brk (lower c).

(** the same for the table the harness passes (RunC09.lookup_lower: characters
    without an entry lower to themselves) *)
Definition lower_tab_okb (tab : list (Z * list Z)) : bool :=
  forallb (fun kv => (fst kv =? TextFmt.LF) || (fst kv =? TextFmt.CR) || no_brkb (snd kv)) tab.

(** * What the filter stage needs from its rules: a rename rule must not
    introduce a separator (values may be '', such tokens are dropped) *)
Definition rule_okb (r : rule) : bool :=
  match r with
  | RMap m => forallb (fun kv => TextFmt.clean_token (snd kv)) m
  | _ => true
  end.
Definition rule_ok (r : rule) : Prop := rule_okb r = true.

(** the filter on token lists: read (hence [denote]), apply the rules, drop
    the event iff no cue is left *)
Definition filter_events (rc ro : rule) (es : list tevent) : list tevent :=
  filter_map (job_event rc ro) (map denote es).

(** * The stages plugged together (executable: models 1501..1503 of RunC15.v) *)
Section Pipeline.
Variable lower : Z -> list Z.
Variable is_space : Z -> bool.
Variable allowed : Z -> bool.

(** creation, then the filter on the created file *)
Definition pipeline_text (o : opts) (corpus : list str) (rc ro : rule) (k : nat) : option str :=
  match create_event_file lower is_space allowed o false corpus with
  | RFile lines => filter_text_pool rc ro k (text_of_lines lines)
  | _ => None
  end.

(** ... then the reader *)
Definition pipeline_events (o : opts) (corpus : list str) (rc ro : rule) (k : nat)
  : option (list tevent) :=
  match pipeline_text o corpus rc ro k with
  | Some text => TextFmt.parse_file text
  | None => None
  end.
End Pipeline.

(** * Names to numbers: what the harness does before it calls the id-level learner models *)
Definition number_event (fc fo : str -> Z) (e : tevent) : BinFmt.event :=
  (map fc (fst e), map fo (snd e)).
Definition injective {A B} (f : A -> B) : Prop := forall a b, f a = f b -> a = b.

(** the same tokens in another order (what [set] does under remove_duplicates=True) *)
Definition tperm (e e' : tevent) : Prop := Permutation (fst e) (fst e') /\ Permutation (snd e) (snd e').
