(** The Widrow-Hoff kernel models compute the delta rule (WHSpec), for every
    commutative ring, every store satisfying the get/set laws, every chunking
    of the row range and every interleaving. *)
From Coq Require Import ZArith List Bool Arith Lia Ring.
From PV Require Import Lists Bytes BinFmt BinFmtProofs Store RWSpec RWExec RWProofs Sched SchedProofs
     WHSpec WHExec RowWise.
Import ListNotations.

Lemma zrange_In start stop k : In k (zrange start stop) <-> (start <= k < stop)%Z.
Proof.
  unfold zrange. rewrite in_map_iff. split.
  - intros [i [<- Hi]]. apply in_seq in Hi. lia.
  - intros H. exists (Z.to_nat (k - start)). split; [lia|]. apply in_seq. lia.
Qed.

Lemma zrange_NoDup start stop : NoDup (zrange start stop).
Proof.
  unfold zrange. generalize (seq_NoDup (Z.to_nat (stop - start)) 0).
  induction (seq 0 (Z.to_nat (stop - start))) as [|a l IH]; intros H; cbn; [constructor|].
  inversion H as [|? ? Ha Hl]; subst. constructor; [|now apply IH].
  rewrite in_map_iff. intros [b [E Hb]]. assert (a = b) by lia. subst. contradiction.
Qed.

Section WHProofs.
  Variable R : Type.
  Variables (rO rI : R) (radd rmul rsub : R -> R -> R) (ropp : R -> R).
  Hypothesis Rth : ring_theory rO rI radd rmul rsub ropp (@eq R).
  Add Ring RringW : Rth.

  Notation wfun := (wfun R).
  Notation sum_over := (sum_over R rO radd).
  Notation of_nat := (of_nat R rO rI radd).
  Notation vstep := (vstep R rO radd rmul).
  Notation dotv := (dotv R rO radd rmul).
  Local Infix "+r" := radd (at level 50, left associativity).
  Local Infix "*r" := rmul (at level 40, left associativity).
  Local Infix "-r" := rsub (at level 50, left associativity).

  Variable S : Type.
  Variable g : S -> Z -> Z -> R.
  Variable st : S -> Z -> Z -> R -> S.
  Variables (oko vkc : Z -> Prop).
  Hypothesis gss : forall s o c v, oko o -> vkc c -> g (st s o c v) o c = v.
  Hypothesis gso : forall s o c v o' c', oko o -> vkc c -> oko o' -> vkc c' ->
      (o, c) <> (o', c') -> g (st s o c v) o' c' = g s o' c'.

  Notation vx_row := (vx_row R rO radd rmul S g st).
  Notation bx_row := (bx_row R rO rI radd rmul S g st).

  (** ** the write loop of the real-cue kernels *)
  Lemma write_loop u (x : Z -> R) r cols s :
    oko r -> Forall vkc cols -> NoDup cols ->
    (forall k, In k cols ->
       g (fold_left (fun s k => st s r k (g s r k +r u *r x k)) cols s) r k = g s r k +r u *r x k) /\
    (forall r' k', oko r' -> vkc k' -> (r' <> r \/ ~ In k' cols) ->
       g (fold_left (fun s k => st s r k (g s r k +r u *r x k)) cols s) r' k' = g s r' k').
  Proof.
    intros Hr Hv Hnd. revert s. induction cols as [|c t IH]; intros s.
    - split; [intros k []|reflexivity].
    - inversion Hv as [|? ? Hc Ht]; subst. inversion Hnd as [|? ? Hnc Hndt]; subst.
      cbn [fold_left]. destruct (IH Ht Hndt (st s r c (g s r c +r u *r x c))) as [I1 I2]. split.
      + intros k [<-|Hk].
        * rewrite I2 by (auto). now rewrite gss.
        * rewrite (I1 k Hk). rewrite gso; auto.
          -- rewrite Forall_forall in Ht. now apply Ht.
          -- intros E. inversion E; subst. contradiction.
      + intros r' k' Hr' Hk' Hcond. rewrite I2; auto.
        * apply gso; auto. destruct Hcond as [H|H]; [congruence|]. intros E. inversion E; subst. apply H. now left.
        * destruct Hcond as [H|H]; [now left|right]. intro Hin. apply H. now right.
  Qed.

  Lemma vx_row_same cols x uf s r k :
    oko r -> Forall vkc cols -> NoDup cols -> In k cols ->
    g (vx_row cols x uf s r) r k = vstep cols x uf (g s) r k.
  Proof.
    intros Hr Hv Hnd Hk. unfold WHExec.vx_row.
    destruct (write_loop (uf r (fold_left (fun a k0 => a +r x k0 *r g s r k0) cols rO)) x r cols s Hr Hv Hnd) as [I1 _].
    rewrite (I1 k Hk). reflexivity.
  Qed.

  Lemma vx_row_other cols x uf s r r' k' :
    oko r -> Forall vkc cols -> NoDup cols -> oko r' -> vkc k' -> r' <> r ->
    g (vx_row cols x uf s r) r' k' = g s r' k'.
  Proof.
    intros Hr Hv Hnd Hr' Hk' Hne. unfold WHExec.vx_row.
    destruct (write_loop (uf r (fold_left (fun a k0 => a +r x k0 *r g s r k0) cols rO)) x r cols s Hr Hv Hnd) as [_ I2].
    apply I2; auto.
  Qed.

  Lemma vstep_local cols x uf (W W' : wfun) r :
    (forall k, In k cols -> W r k = W' r k) -> forall k, In k cols -> vstep cols x uf W r k = vstep cols x uf W' r k.
  Proof.
    intros H k Hk. unfold WHSpec.vstep, WHSpec.dotv. rewrite (H k Hk).
    rewrite (sum_over_ext R rO rI radd rmul rsub ropp Rth (fun k0 => x k0 *r W r k0) (fun k0 => x k0 *r W' r k0));
      [reflexivity|]. intros c Hc. now rewrite (H c Hc).
  Qed.

  (** ** real cues: both flavours are instances of the generic row-wise theory
      with columns = the cue vector dimensions *)
  Section RealCues.
    Variable cdims : list Z.
    Hypothesis Hcd : Forall vkc cdims.
    Hypothesis Hnd : NoDup cdims.
    Variable xof : event -> Z -> R.               (* summed cue vector of the event *)
    Variable ufof : event -> Z -> R -> R.         (* update as a function of row and (W x)_row *)

    Let X (e : event) (s : S) (r : Z) : S := vx_row cdims (xof e) (ufof e) s r.
    Let F (e : event) (W : wfun) : wfun := vstep cdims (xof e) (ufof e) W.
    Let okc (k : Z) : Prop := In k cdims.

    Lemma real_X_same e s r k : True -> oko r -> okc k -> g (X e s r) r k = F e (g s) r k.
    Proof. intros _ Hr Hk. now apply vx_row_same. Qed.
    Lemma real_X_other e s r r' k : True -> oko r -> oko r' -> okc k -> r' <> r -> g (X e s r) r' k = g s r' k.
    Proof.
      intros _ Hr Hr' Hk Hne. apply vx_row_other; auto. unfold okc in Hk. rewrite Forall_forall in Hcd. now apply Hcd.
    Qed.
    Lemma real_F_local e (W W' : wfun) r : True -> (forall k, okc k -> W r k = W' r k) ->
      forall k, okc k -> F e W r k = F e W' r k.
    Proof. intros _ H k Hk. now apply vstep_local. Qed.

    Theorem real_events_spec rows es s r k :
      NoDup rows -> Forall oko rows -> oko r -> In k cdims ->
      g (run_events S event X rows es s) r k =
      if mem_z r rows then spec R event F es (g s) r k else g s r k.
    Proof.
      intros. eapply (events_spec R S event g oko okc X F (fun _ => True)); eauto.
      - apply real_X_same. - apply real_X_other. - apply real_F_local.
      - apply Forall_forall. auto.
    Qed.

    Theorem real_any_schedule parts es tr s r k :
      NoDup (concat parts) -> Forall oko (concat parts) ->
      interleaving (map (fun part => gitem_actions part es) parts) tr ->
      oko r -> In k cdims ->
      g (run_tr S event X tr s) r k =
      if mem_z r (concat parts) then spec R event F es (g s) r k else g s r k.
    Proof.
      intros. eapply (items_schedule_independent R S event g oko okc X F (fun _ => True)); eauto.
      - apply real_X_same. - apply real_X_other. - apply real_F_local.
      - apply Forall_forall. auto.
    Qed.
  End RealCues.

  (** ** binary cues -> real outcomes (per cue occurrence, as the RW kernel) *)
  Section BinaryCues.
    Variable eta : R.
    Variable ov : Z -> Z -> R.
    Let uf (e : event) (d : Z) (a : R) : R := eta *r (tvec R rO radd ov (snd e) d -r a).
    Let X (e : event) (s : S) (d : Z) : S := bx_row (uf e) (fst e) s d.
    Let F (e : event) (W : wfun) : wfun := b2r_step R rO rI radd rmul rsub eta ov e W.
    Let evalid (e : event) : Prop := Forall vkc (fst e).

    Lemma bin_X_same e s d c : evalid e -> oko d -> vkc c -> g (X e s d) d c = F e (g s) d c.
    Proof.
      intros He Hd Hc. unfold X, WHExec.bx_row.
      rewrite (bump_same R rO rI radd rmul rsub ropp Rth S g st oko vkc gss gso) by assumption.
      unfold F, WHSpec.b2r_step, uf, RWSpec.act, RWSpec.sum_over. ring.
    Qed.
    Lemma bin_X_other e s d d' c : evalid e -> oko d -> oko d' -> vkc c -> d' <> d -> g (X e s d) d' c = g s d' c.
    Proof.
      intros He Hd Hd' Hc Hne. unfold X, WHExec.bx_row.
      eapply bump_other with (oko := oko) (okc := vkc); eauto.
    Qed.
    Lemma bin_F_local e (W W' : wfun) d : evalid e -> (forall c, vkc c -> W d c = W' d c) ->
      forall c, vkc c -> F e W d c = F e W' d c.
    Proof.
      intros He H c Hc. unfold F, WHSpec.b2r_step, RWSpec.act. rewrite (H c Hc).
      rewrite (sum_over_ext R rO rI radd rmul rsub ropp Rth (W d) (W' d)); [reflexivity|].
      intros c' Hc'. apply H. unfold evalid in He. rewrite Forall_forall in He. now apply He.
    Qed.

    Theorem bin_events_spec rows es s d c :
      NoDup rows -> Forall oko rows -> Forall evalid es -> oko d -> vkc c ->
      g (run_events S event X rows es s) d c =
      if mem_z d rows then spec R event F es (g s) d c else g s d c.
    Proof.
      intros. eapply (events_spec R S event g oko vkc X F evalid); eauto.
      - apply bin_X_same. - apply bin_X_other. - apply bin_F_local.
    Qed.

    Theorem bin_any_schedule parts es tr s d c :
      NoDup (concat parts) -> Forall oko (concat parts) -> Forall evalid es ->
      interleaving (map (fun part => gitem_actions part es) parts) tr ->
      oko d -> vkc c ->
      g (run_tr S event X tr s) d c =
      if mem_z d (concat parts) then spec R event F es (g s) d c else g s d c.
    Proof.
      intros. eapply (items_schedule_independent R S event g oko vkc X F evalid); eauto.
      - apply bin_X_same. - apply bin_X_other. - apply bin_F_local.
    Qed.
  End BinaryCues.
End WHProofs.
