(** Schedule independence of the parallel learners. *)
From Coq Require Import ZArith List Bool Arith Lia Ring.
From PV Require Import Lists Bytes BinFmt Store RWSpec RWExec RWProofs Sched.
Import ListNotations.

(** * slice_list is a partition into non-empty parts of at most n elements *)
Lemma chunks_fuel_concat {A} fuel n (l : list A) :
  (1 <= n)%nat -> (length l <= fuel)%nat -> concat (chunks_fuel fuel n l) = l.
Proof.
  revert l. induction fuel as [|f IH]; intros l Hn Hl.
  - destruct l; [reflexivity|cbn in Hl; lia].
  - cbn [chunks_fuel]. destruct l as [|x r]; [reflexivity|].
    cbn [concat]. rewrite IH; [apply firstn_skipn|exact Hn|].
    rewrite skipn_length. cbn [length] in *. lia.
Qed.

Theorem slice_list_concat {A} (l : list A) n : (1 <= n)%nat -> concat (slice_list l n) = l.
Proof. intros. now apply chunks_fuel_concat. Qed.

Lemma chunks_fuel_parts {A} fuel n (l : list A) part :
  (1 <= n)%nat -> In part (chunks_fuel fuel n l) -> part <> [] /\ (length part <= n)%nat.
Proof.
  revert l. induction fuel as [|f IH]; intros l Hn Hin; [destruct Hin|].
  cbn [chunks_fuel] in Hin. destruct l as [|x r]; [destruct Hin|].
  destruct Hin as [<-|Hin].
  - split.
    + destruct n; [lia|]. cbn. discriminate.
    + rewrite firstn_length. lia.
  - now apply (IH _ Hn Hin).
Qed.

Theorem slice_list_parts {A} (l : list A) n part :
  (1 <= n)%nat -> In part (slice_list l n) -> part <> [] /\ (length part <= n)%nat.
Proof. intros. eapply chunks_fuel_parts; eassumption. Qed.

(** * generic facts on projections of tagged traces *)
Lemma filter_filter_impl {A} (P Q : A -> bool) l :
  (forall x, In x l -> P x = true -> Q x = true) ->
  filter P (filter Q l) = filter P l.
Proof.
  induction l as [|x r IH]; intros H; [reflexivity|]. cbn [filter].
  destruct (Q x) eqn:HQ; cbn [filter].
  - rewrite IH; [reflexivity|]. intros y Hy. apply H. now right.
  - destruct (P x) eqn:HP.
    + rewrite (H x (or_introl eq_refl) HP) in HQ. discriminate.
    + apply IH. intros y Hy. apply H. now right.
Qed.

Lemma filter_map_snd {A} (P : A -> bool) (tr : list (nat * A)) :
  filter P (map snd tr) = map snd (filter (fun x => P (snd x)) tr).
Proof.
  induction tr as [|x r IH]; [reflexivity|]. cbn [map filter].
  destruct (P (snd x)); cbn [map]; now rewrite IH.
Qed.

Lemma filter_comm {A} (P Q : A -> bool) l : filter P (filter Q l) = filter Q (filter P l).
Proof.
  induction l as [|x r IH]; [reflexivity|]. cbn [filter].
  destruct (P x) eqn:HP, (Q x) eqn:HQ; cbn [filter]; rewrite ?HP, ?HQ, IH; reflexivity.
Qed.

(** rows trained through tagged trace [tr] when every action is tagged with
    the owner of its row *)
Lemma filter_row_proj (own : Z -> nat) (tr : list (nat * action)) r :
  Forall (fun x => own (arow (snd x)) = fst x) tr ->
  filter (fun a => Z.eqb (arow a) r) (map snd tr) =
  filter (fun a => Z.eqb (arow a) r) (proj (own r) tr).
Proof.
  intros H. unfold proj. rewrite !filter_map_snd. f_equal.
  symmetry. apply filter_filter_impl.
  intros x Hx Hr. rewrite Forall_forall in H. specialize (H x Hx).
  apply Z.eqb_eq in Hr. apply Nat.eqb_eq. now rewrite <- H, Hr.
Qed.

Lemma owner_nth parts r i :
  NoDup (concat parts) -> In r (nth i parts []) -> owner parts r = i.
Proof.
  revert i. induction parts as [|p rest IH]; intros i Hnd Hin.
  - destruct i; destruct Hin.
  - cbn [concat] in Hnd. cbn [owner].
    destruct i as [|i]; cbn [nth] in Hin.
    + apply mem_z_In in Hin. now rewrite Hin.
    + destruct (mem_z r p) eqn:Hm.
      * apply mem_z_In in Hm. exfalso.
        assert (Hc : In r (concat rest)).
        { apply in_concat. exists (nth i rest []). split; [|exact Hin].
          apply nth_In. destruct (Nat.lt_ge_cases i (length rest)) as [Hlt|Hge]; [exact Hlt|].
          rewrite nth_overflow in Hin by exact Hge. destruct Hin. }
        revert Hnd Hm Hc. clear. intros Hnd Hm Hc.
        induction p as [|y q IHq]; [destruct Hm|].
        cbn in Hnd. inversion Hnd as [|? ? Hy Hq]; subst.
        destruct Hm as [->|Hm]; [apply Hy; rewrite in_app_iff; now right|now apply IHq].
      * f_equal. apply IH; [|exact Hin]. now apply NoDup_app_remove_l in Hnd.
Qed.

Lemma owner_in parts r : In r (concat parts) -> In r (nth (owner parts r) parts []).
Proof.
  induction parts as [|p rest IH]; intros Hin; [destruct Hin|].
  cbn [concat] in Hin. cbn [owner]. destruct (mem_z r p) eqn:Hm.
  - now apply mem_z_In.
  - cbn [nth]. apply IH. apply in_app_iff in Hin as [Hin|Hin]; [|exact Hin].
    apply mem_z_In in Hin. congruence.
Qed.

Lemma fold_left_flat_map {A B C} (f : A -> B -> A) (h : C -> list B) l s :
  fold_left f (flat_map h l) s = fold_left (fun s x => fold_left f (h x) s) l s.
Proof.
  revert s. induction l as [|x r IH]; intros s; [reflexivity|].
  cbn [flat_map fold_left]. now rewrite fold_left_app, IH.
Qed.

Lemma fold_left_map {A B C} (f : A -> B -> A) (h : C -> B) l s :
  fold_left f (map h l) s = fold_left (fun s x => f s (h x)) l s.
Proof. revert s. induction l as [|x r IH]; intros s; [reflexivity|]. cbn. apply IH. Qed.

Section Interleave.
  Variable R : Type.
  Variables (rO rI : R) (radd rmul rsub : R -> R -> R) (ropp : R -> R).
  Hypothesis Rth : ring_theory rO rI radd rmul rsub ropp (@eq R).

  Notation params := (params R).
  Notation step := (step R rO rI radd rmul rsub).
  Notation learn := (learn R rO rI radd rmul rsub).

  Variable S : Type.
  Variable g : S -> Z -> Z -> R.
  Variable st : S -> Z -> Z -> R -> S.
  Variables (oko okc : Z -> Prop).
  Hypothesis gss : forall s o c v, oko o -> okc c -> g (st s o c v) o c = v.
  Hypothesis gso : forall s o c v o' c', oko o -> okc c -> oko o' -> okc c' ->
      (o, c) <> (o', c') -> g (st s o c v) o' c' = g s o' c'.

  Notation apply_action := (apply_action R rO radd rmul rsub S g st).
  Notation run_trace := (run_trace R rO radd rmul rsub S g st).
  Notation mx_events := (mx_events R rO radd rmul rsub S g st).
  Notation mx_event := (mx_event R rO radd rmul rsub S g st).

  Notation mx_outcome := (mx_outcome R rO radd rmul rsub S g st).

  (* the lemmas of RWProofs at this store *)
  Lemma L_outcome_other p e s o o' c' :
    oko o -> Forall okc (fst e) -> oko o' -> okc c' -> o' <> o ->
    g (mx_outcome p e s o) o' c' = g s o' c'.
  Proof. intros. eapply outcome_other with (oko := oko) (okc := okc); eauto. Qed.
  Lemma L_outcome_same p e s o c :
    oko o -> Forall okc (fst e) -> okc c -> g (mx_outcome p e s o) o c = step p e (g s) o c.
  Proof. intros. eapply outcome_same with (oko := oko) (okc := okc); eauto. Qed.
  Lemma L_events_spec p outs es s o c :
    NoDup outs -> Forall oko outs -> cues_ok okc es -> oko o -> okc c ->
    g (mx_events p outs es s) o c = if mem_z o outs then learn p es (g s) o c else g s o c.
  Proof. intros. eapply events_spec with (oko := oko) (okc := okc); eauto. Qed.
  Lemma L_step_row_ext p e W W' o c :
    (forall c', In c' (fst e) \/ c' = c -> W o c' = W' o c') -> step p e W o c = step p e W' o c.
  Proof. intros. eapply step_row_ext; eauto. Qed.
  Lemma L_learn_row_ext p es W W' o :
    cues_ok okc es -> (forall c, okc c -> W o c = W' o c) ->
    forall c, okc c -> learn p es W o c = learn p es W' o c.
  Proof. intros. eapply learn_row_ext with (okc := okc); eauto. Qed.

  Definition roweq (s s' : S) (r : Z) : Prop := forall c, okc c -> g s r c = g s' r c.
  Definition avalid (a : action) : Prop := oko (fst a) /\ Forall okc (fst (snd a)).

  Lemma roweq_refl s r : roweq s s r. Proof. intros c _. reflexivity. Qed.
  Lemma roweq_sym s s' r : roweq s s' r -> roweq s' s r.
  Proof. intros H c Hc. symmetry. now apply H. Qed.
  Lemma roweq_trans s1 s2 s3 r : roweq s1 s2 r -> roweq s2 s3 r -> roweq s1 s3 r.
  Proof. intros H1 H2 c Hc. rewrite H1 by exact Hc. now apply H2. Qed.

  Lemma apply_frame p s a r : avalid a -> oko r -> arow a <> r -> roweq (apply_action p s a) s r.
  Proof.
    intros [Ho Hc] Hr Hne c Hcc. unfold Sched.apply_action.
    apply L_outcome_other; auto.
  Qed.

  Lemma apply_local p s s' a :
    avalid a -> roweq s s' (arow a) -> roweq (apply_action p s a) (apply_action p s' a) (arow a).
  Proof.
    intros [Ho Hc] Heq c Hcc. unfold Sched.apply_action, arow in *.
    rewrite !L_outcome_same by assumption.
    apply L_step_row_ext. intros c' [Hin| ->]; apply Heq; [|exact Hcc].
    rewrite Forall_forall in Hc. now apply Hc.
  Qed.

  (** only the actions on row r matter for row r *)
  Lemma fold_proj p tr s s' r :
    Forall avalid tr -> oko r -> roweq s s' r ->
    roweq (fold_left (apply_action p) tr s)
          (fold_left (apply_action p) (filter (fun a => Z.eqb (arow a) r) tr) s') r.
  Proof.
    intros Hv Hr. revert s s'. induction Hv as [|a tr Ha Htr IH]; intros s s' Heq; [exact Heq|].
    cbn [fold_left filter]. destruct (Z.eqb_spec (arow a) r) as [E|E].
    - cbn [fold_left]. apply IH. rewrite <- E in *. now apply apply_local.
    - apply IH. eapply roweq_trans; [|exact Heq]. now apply apply_frame.
  Qed.

  (** ** any interleaving of the work items leaves in row r what the owner of
      r computes alone, in its own program order *)
  Theorem interleaving_row_local p (own : Z -> nat) seqs tr s r :
    interleaving seqs tr ->
    Forall (fun x => own (arow (snd x)) = fst x) tr ->
    Forall avalid (map snd tr) -> oko r ->
    roweq (run_trace p tr s) (fold_left (apply_action p) (nth (own r) seqs []) s) r.
  Proof.
    intros Hint Htag Hv Hr. unfold Sched.run_trace.
    eapply roweq_trans; [apply (fold_proj p _ s s r Hv Hr (roweq_refl s r))|].
    rewrite (filter_row_proj own tr r Htag), (Hint (own r)).
    apply roweq_sym. apply fold_proj; [|exact Hr|apply roweq_refl].
    rewrite <- (Hint (own r)). unfold proj. rewrite Forall_forall in *. intros a Ha.
    apply Hv. apply in_map_iff in Ha as [x [<- Hx]]. apply in_map. now apply filter_In in Hx as [Hx _].
  Qed.

  Lemma item_actions_run p part es s :
    fold_left (apply_action p) (item_actions part es) s = mx_events p part es s.
  Proof.
    unfold item_actions, RWExec.mx_events. rewrite fold_left_flat_map.
    revert s. induction es as [|e r IH]; intros s; [reflexivity|]. cbn [fold_left].
    rewrite IH. f_equal. unfold RWExec.mx_event. now rewrite fold_left_map.
  Qed.

  Lemma item_actions_in part es a : In a (item_actions part es) -> In (fst a) part /\ In (snd a) es.
  Proof.
    unfold item_actions. rewrite in_flat_map. intros [e [He Ha]].
    apply in_map_iff in Ha as [o [<- Ho]]. now split.
  Qed.

  (** ** method='threading': work items = parts of the outcome list, each item
      = all events.  For EVERY interleaving of the items' atomic row updates
      the trained rows hold the sequential Rescorla-Wagner result and every
      other row is untouched. *)
  Theorem items_schedule_independent p parts es tr s r c :
    NoDup (concat parts) -> Forall oko (concat parts) -> cues_ok okc es ->
    interleaving (map (fun part => item_actions part es) parts) tr ->
    oko r -> okc c ->
    g (run_trace p tr s) r c =
    if mem_z r (concat parts) then learn p es (g s) r c else g s r c.
  Proof.
    intros Hnd Hoko Hes Hint Hr Hc.
    set (seqs := map (fun part => item_actions part es) parts) in *.
    assert (Hnth : forall i, nth i seqs [] = item_actions (nth i parts []) es).
    { intros i. unfold seqs.
      rewrite <- (map_nth (fun part => item_actions part es) parts [] i).
      f_equal. unfold item_actions. clear. induction es; [reflexivity|]. cbn. exact IHes. }
    assert (Hin_tr : forall x, In x tr -> In (arow (snd x)) (nth (fst x) parts []) /\ In (snd (snd x)) es).
    { intros [i a] Hx. cbn [fst snd].
      assert (Ha : In a (proj i tr)).
      { unfold proj. apply in_map_iff. exists (i, a). split; [reflexivity|].
        apply filter_In. split; [exact Hx|]. cbn. apply Nat.eqb_refl. }
      rewrite (Hint i), Hnth in Ha. now apply item_actions_in in Ha. }
    assert (Htag : Forall (fun x => owner parts (arow (snd x)) = fst x) tr).
    { apply Forall_forall. intros x Hx. apply owner_nth; [exact Hnd|]. now apply Hin_tr. }
    assert (Hv : Forall avalid (map snd tr)).
    { apply Forall_forall. intros a Ha. apply in_map_iff in Ha as [x [<- Hx]].
      destruct (Hin_tr x Hx) as [H1 H2]. split.
      - rewrite Forall_forall in Hoko. apply Hoko. apply in_concat.
        exists (nth (fst x) parts []). split; [|exact H1].
        apply nth_In. destruct (Nat.lt_ge_cases (fst x) (length parts)) as [Hlt|Hge]; [exact Hlt|].
        rewrite nth_overflow in H1 by exact Hge. destruct H1.
      - unfold cues_ok in Hes. rewrite Forall_forall in Hes. now apply Hes. }
    rewrite (interleaving_row_local p (owner parts) seqs tr s r Hint Htag Hv Hr c Hc).
    rewrite Hnth, item_actions_run.
    set (part := nth (owner parts r) parts []).
    assert (Hpart_sub : forall x, In x part -> In x (concat parts)).
    { intros x Hx. apply in_concat. exists part. split; [|exact Hx].
      apply nth_In. destruct (Nat.lt_ge_cases (owner parts r) (length parts)) as [Hlt|Hge]; [exact Hlt|].
      unfold part in Hx. rewrite nth_overflow in Hx by exact Hge. destruct Hx. }
    rewrite (L_events_spec p part es s r c); try assumption.
    - destruct (mem_z r (concat parts)) eqn:Hm.
      + apply mem_z_In in Hm. apply owner_in in Hm. fold part in Hm.
        apply mem_z_In in Hm. now rewrite Hm.
      + destruct (mem_z r part) eqn:Hp; [|reflexivity].
        apply mem_z_In, Hpart_sub, mem_z_In in Hp. congruence.
    - (* NoDup part *)
      clear - Hnd. unfold part. generalize (owner parts r). intros k. revert k.
      induction parts as [|q rest IH]; intros [|k]; cbn [nth]; try constructor.
      + cbn in Hnd. now apply NoDup_app_remove_r in Hnd.
      + cbn in Hnd. apply IH. now apply NoDup_app_remove_l in Hnd.
    - apply Forall_forall. intros x Hx. rewrite Forall_forall in Hoko. now apply Hoko, Hpart_sub.
  Qed.

  (** ** OpenMP: a barrier after every chunk file; within a file any
      interleaving of the parts. *)
  Fixpoint run_files p (parts : list (list Z)) (files : list (list event))
           (trs : list (list (nat * action))) (s : S) : S :=
    match files, trs with
    | es :: fr, tr :: tr' => run_files p parts fr tr' (run_trace p tr s)
    | _, _ => s
    end.

  Fixpoint files_interleaved (parts : list (list Z)) (files : list (list event))
           (trs : list (list (nat * action))) : Prop :=
    match files, trs with
    | [], [] => True
    | es :: fr, tr :: tr' =>
      interleaving (map (fun part => item_actions part es) parts) tr /\ files_interleaved parts fr tr'
    | _, _ => False
    end.

  Theorem files_schedule_independent p parts files trs s r c :
    NoDup (concat parts) -> Forall oko (concat parts) -> Forall (cues_ok okc) files ->
    files_interleaved parts files trs ->
    oko r -> okc c ->
    g (run_files p parts files trs s) r c =
    if mem_z r (concat parts) then learn p (concat files) (g s) r c else g s r c.
  Proof.
    intros Hnd Hoko Hfiles Hint Hr Hc. revert trs s Hint.
    induction Hfiles as [|es fr Hes Hfr IH]; intros trs s Hint.
    - destruct trs; [|destruct Hint]. cbn. now destruct (mem_z r (concat parts)).
    - destruct trs as [|tr tr']; [destruct Hint|]. destruct Hint as [H1 H2].
      cbn [run_files concat]. rewrite (IH tr' _ H2).
      rewrite (learn_app R rO rI radd rmul rsub).
      destruct (mem_z r (concat parts)) eqn:Hm.
      + apply L_learn_row_ext.
        * clear - Hfr. unfold cues_ok in *. induction Hfr; cbn; [constructor|].
          apply Forall_app. now split.
        * intros c' Hc'. rewrite (items_schedule_independent p parts es tr s r c') by assumption.
          now rewrite Hm.
        * exact Hc.
      + rewrite (items_schedule_independent p parts es tr s r c) by assumption. now rewrite Hm.
  Qed.
End Interleave.

(** * the OpenMP parts tile the outcome list (no 32-bit wrap when len + chunk <= 2^32) *)
Lemma firstn_add {A} a b (l : list A) : firstn (a + b) l = firstn a l ++ firstn b (skipn a l).
Proof.
  revert l. induction a as [|a IH]; intros l; [reflexivity|].
  destruct l as [|x r]; cbn; [now rewrite firstn_nil|]. now rewrite IH.
Qed.

Lemma concat_blocks {A} n m (l : list A) :
  concat (map (fun k => firstn n (skipn (k * n) l)) (seq 0 m)) = firstn (m * n) l.
Proof.
  induction m as [|m IH]; [reflexivity|].
  rewrite seq_S, map_app, concat_app, IH. cbn [map concat plus]. rewrite app_nil_r.
  replace (S m * n)%nat with (m * n + n)%nat by lia. now rewrite firstn_add.
Qed.

Lemma firstn_min_length {A} a (l : list A) : firstn (Nat.min a (length l)) l = firstn a l.
Proof.
  destruct (Nat.le_ge_cases a (length l)) as [H|H].
  - now rewrite Nat.min_l.
  - rewrite Nat.min_r by exact H. now rewrite !firstn_all2 by lia.
Qed.

Theorem omp_parts_concat (all : list Z) (chunk : Z) :
  (1 <= chunk)%Z -> (Z.of_nat (length all) + chunk <= two32)%Z ->
  concat (omp_parts all chunk) = all.
Proof.
  intros Hc Hw. unfold omp_parts, omp_ranges. rewrite map_map.
  set (len := Z.of_nat (length all)) in *.
  set (m := Z.to_nat (omp_number_parts len chunk)).
  set (n := Z.to_nat chunk).
  assert (Hm : (len <= Z.of_nat m * chunk)%Z /\ (Z.of_nat m * chunk < len + chunk)%Z).
  { unfold m, omp_number_parts. rewrite Z2Nat.id by (apply Z.div_pos; lia).
    pose proof (Z.div_mod (len + chunk - 1) chunk) as D.
    pose proof (Z.mod_pos_bound (len + chunk - 1) chunk) as B. nia. }
  rewrite (map_ext_in _ (fun k => firstn n (skipn (k * n) all))).
  - rewrite concat_blocks. apply firstn_all2. unfold n. nia.
  - intros k Hk. apply in_seq in Hk. cbn in Hk.
    unfold omp_range, slice, u32. cbn [fst snd].
    assert (Hk1 : (Z.of_nat k * chunk <= len - 1)%Z) by nia.
    unfold two32 in *.
    rewrite (Z.mod_small (Z.of_nat k * chunk)) by nia.
    rewrite (Z.mod_small (Z.of_nat k * chunk + chunk)) by nia.
    replace (Z.to_nat (Z.of_nat k * chunk)) with (k * n)%nat by (unfold n; nia).
    rewrite <- (firstn_min_length n). rewrite skipn_length. f_equal.
    unfold n, len in *. nia.
Qed.
