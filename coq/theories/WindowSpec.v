(** The DOCUMENTED windowing model of [pyndl.preprocess.create_event_file]
    (property C09).  Definitions only.

    Strings are lists of Unicode code points.  Three functions are taken from
    CPython and are Section variables (oracles): [lower c] is [chr(c).lower()]
    (it may have a different length), [is_space c] is the whitespace set of
    [str.strip()], [allowed c] says whether the character survives the
    [allowed_symbols] filter ('all': constantly true; regex class / callable:
    the table computed by CPython).

    The first part of the file ("Python primitives") is shared with the
    loop-faithful model [Preproc.v]; the second part is the declarative
    specification. *)
From Coq Require Import ZArith List Bool Arith.
Import ListNotations.
Open Scope Z_scope.

Definition str := list Z.

Definition SP : Z := 32.
Definition US : Z := 95.     (* _ *)
Definition HASH : Z := 35.   (* # *)
Definition TAB : Z := 9.
Definition NL : Z := 10.
Definition DOT : Z := 46.

(** * Python primitives on code point lists *)

Fixpoint str_eqb (a b : str) : bool :=
  match a, b with
  | [], [] => true
  | x :: a', y :: b' => (x =? y) && str_eqb a' b'
  | _, _ => false
  end.

Definition nonempty {A} (s : list A) : bool := match s with [] => false | _ => true end.

(** [d.join(ws)] for a one-character separator *)
Fixpoint join (d : Z) (ws : list str) : str :=
  match ws with
  | [] => []
  | w :: r => match r with [] => w | _ => w ++ d :: join d r end
  end.

(** [s.split(d)] for a one-character separator: never the empty list *)
Fixpoint split_on (d : Z) (s : str) : list str :=
  match s with
  | [] => [[]]
  | c :: r => if c =? d then [] :: split_on d r
              else match split_on d r with
                   | p :: ps => (c :: p) :: ps
                   | [] => [[c]]
                   end
  end.

(** first occurrences, in order.  Python's [set] order is unspecified: the
    harness compares such lines token-wise as sorted lists. *)
Fixpoint mem_str (x : str) (l : list str) : bool :=
  match l with [] => false | y :: r => str_eqb x y || mem_str x r end.
Fixpoint dedup_go (seen : list str) (l : list str) : list str :=
  match l with
  | [] => []
  | x :: r => if mem_str x seen then dedup_go seen r else x :: dedup_go (x :: seen) r
  end.
Definition dedup_str (l : list str) : list str := dedup_go [] l.

(** [l[a:b]] for [0 <= a], [0 <= b] (indices beyond the end are clipped) *)
Definition slice {A} (l : list A) (a b : nat) : list A := firstn (b - a) (skipn a l).

(** the marker regex [---end.of.document---|---END.OF.DOCUMENT---]; [.] is
    any character except a line feed; both alternatives are 21 characters *)
Definition marker_lo : str :=
  [45;45;45;101;110;100;46;111;102;46;100;111;99;117;109;101;110;116;45;45;45].
Definition marker_up : str :=
  [45;45;45;69;78;68;46;79;70;46;68;79;67;85;77;69;78;84;45;45;45].
Definition MLEN : nat := 21.

Fixpoint pat_match (pat s : str) : bool :=
  match pat with
  | [] => true
  | p :: pr => match s with
               | [] => false
               | c :: sr => (if p =? DOT then negb (c =? NL) else c =? p) && pat_match pr sr
               end
  end.

(** does a marker start at the beginning of [s]? *)
Definition marker_at (s : str) : bool := pat_match marker_lo s || pat_match marker_up s.

Section Oracles.
Variable lower : Z -> list Z.
Variable is_space : Z -> bool.
Variable allowed : Z -> bool.

Fixpoint lstrip (s : str) : str :=
  match s with
  | [] => []
  | c :: r => if is_space c then lstrip r else s
  end.
Definition rstrip (s : str) : str := rev (lstrip (rev s)).
Definition strip (s : str) : str := rstrip (lstrip s).

Definition is_special (c : Z) : bool := (c =? HASH) || (c =? US) || (c =? TAB).
Definition lower_str (s : str) : str := flat_map lower s.
Definition remove_special (s : str) : str := map (fun c => if is_special c then SP else c) s.
Definition filter_symbols (s : str) : str := map (fun c => if allowed c then c else SP) s.

(** cleaning: optional lower-casing, THEN the special symbols, THEN the not-allowed symbols *)
Definition clean (lc : bool) (s : str) : str :=
  filter_symbols (remove_special (if lc then lower_str s else s)).

(** words: the non-empty pieces between ASCII spaces, each stripped (Unicode whitespace) *)
Definition gen_words (s : str) : list str :=
  filter nonempty (map strip (split_on SP s)).

(** * The documented model *)

(** a line is cut at every (leftmost, non-overlapping) marker match; the
    result are the pieces between the markers: k markers give k+1 pieces *)
Fixpoint cut_go (skip : nat) (s : str) : list str :=
  match s with
  | [] => [[]]
  | c :: r =>
    match skip with
    | S k => cut_go k r                       (* inside a matched marker *)
    | O => if marker_at s then [] :: cut_go 20 r
           else match cut_go 0 r with
                | p :: ps => (c :: p) :: ps
                | [] => [[c]]
                end
    end
  end.
Definition cut (s : str) : list str := cut_go 0 s.

Inductive ctx_t := CtxDocument | CtxLine.
Inductive ev_t := EvConsecutive (n : Z) | EvW2W (before after : Z) | EvLine.
Inductive cue_t := CueTrigrams | CueBigrams | CueW2W.
Record opts := { o_ctx : ctx_t; o_ev : ev_t; o_cue : cue_t; o_lower : bool; o_dedup : bool }.

(** the words of a piece of text (marker detection has happened before:
    cleaning and lower-casing never see a marker of the 'document' context) *)
Definition piece_words (lc : bool) (p : str) : list str := gen_words (clean lc (strip p)).

(** a stripped line as a sequence of items: word lists separated by [None] = marker *)
Fixpoint intersperse_none {A} (l : list A) : list (option A) :=
  match l with
  | [] => []
  | x :: r => match r with [] => [Some x] | _ => Some x :: None :: intersperse_none r end
  end.
Definition items_of_line (lc : bool) (l : str) : list (option (list str)) :=
  intersperse_none (map (piece_words lc) (cut (strip l))).

(** split an item sequence at every [None]; never the empty list *)
Fixpoint split_none {A} (l : list (option A)) : list (list A) :=
  match l with
  | [] => [[]]
  | None :: r => [] :: split_none r
  | Some x :: r => match split_none r with
                   | p :: ps => (x :: p) :: ps
                   | [] => [[x]]
                   end
  end.

(** documents: the concatenated word lists between two markers, over line
    breaks; with context 'line' every line is its own context (and a marker is
    not looked for) *)
Definition documents (lc : bool) (corpus : list str) : list (list str) :=
  map (@concat str) (split_none (flat_map (items_of_line lc) corpus)).
Definition contexts (o : opts) (corpus : list str) : list (list str) :=
  match o_ctx o with
  | CtxDocument => documents (o_lower o) corpus
  | CtxLine => map (piece_words (o_lower o)) corpus
  end.

(** windows of consecutive words: for ii in range(1-L, len), L = min(n,len):
    words[max(ii,0) : min(ii+L,len)]   (j = ii - (1-L)) *)
Definition windows_consecutive (n : nat) (ws : list str) : list (list str) :=
  let len := length ws in
  let L := Nat.min n len in
  map (fun j => slice ws (j + 1 - L) (Nat.min (j + 1) len)) (seq 0 (len + L - 1)).

(** word_to_word: cues = up to [before] words before and up to [after] words after, outcome = the word *)
Definition windows_w2w (before after : nat) (ws : list str) : list (list str * list str) :=
  let len := length ws in
  map (fun i => (slice ws (i - before) i ++ slice ws (i + 1) (Nat.min len (i + 1 + after)),
                 [nth i ws []])) (seq 0 len).

(** an occurrence: cue words and outcome words *)
Definition spec_occurrences (o : opts) (ws : list str) : list (list str * list str) :=
  match o_ev o with
  | EvConsecutive n => map (fun w => (w, [])) (windows_consecutive (Z.to_nat n) ws)
  | EvW2W b a => windows_w2w (Z.to_nat b) (Z.to_nat a) ws
  | EvLine => match o_cue o with
              | CueW2W => [(ws, ws)]
              | _ => [(ws, [])]
              end
  end.

(** all contiguous substrings of length n, left to right *)
Fixpoint ngrams (n : nat) (s : str) : list str :=
  match s with
  | [] => match n with O => [[]] | _ => [] end
  | _ :: r => if (n <=? length s)%nat then firstn n s :: ngrams n r else []
  end.

Definition dd (b : bool) (l : list str) : list str := if b then dedup_str l else l.

(** the text line of one occurrence (none when the occurrence is empty) *)
Definition spec_line (o : opts) (occ : list str * list str) : list str :=
  let (cues, outs) := occ in
  let ng n :=
      let toks := cues ++ outs in
      match toks with
      | [] => []
      | _ => [join US (dd (o_dedup o) (ngrams n (HASH :: join HASH toks ++ [HASH])))
              ++ TAB :: join US (dd (o_dedup o) toks)]
      end in
  match o_cue o with
  | CueTrigrams => ng 3%nat
  | CueBigrams => ng 2%nat
  | CueW2W => match cues with
              | [] => []
              | _ => [join US (dd (o_dedup o) cues) ++ TAB :: join US (dd (o_dedup o) outs)]
              end
  end.

Definition context_lines (o : opts) (ws : list str) : list str :=
  flat_map (spec_line o) (spec_occurrences o ws).

Definition spec_lines (o : opts) (corpus : list str) : list str :=
  flat_map (context_lines o) (contexts o corpus).

End Oracles.

(** "cues\toutcomes" *)
Definition header_line : str := [99;117;101;115;9;111;117;116;99;111;109;101;115].

(** the minimal file-system view: does the target exist? *)
Inductive result :=
| ROSError                       (* target exists: nothing is written *)
| RFile (lines : list str)       (* the lines of the new gzip file *)
| RCrash.                        (* an uncaught IndexError (unreachable, see PreprocProofs) *)

Definition spec_create lower is_space allowed (o : opts) (target_exists : bool) (corpus : list str) : result :=
  if target_exists then ROSError
  else RFile (header_line :: spec_lines lower is_space allowed o corpus).
