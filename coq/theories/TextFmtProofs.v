(** Proofs about the text event file model ([TextFmt.v]). *)
From Coq Require Import ZArith List Bool Lia.
From PV Require Import TextFmt.
Import ListNotations.
Open Scope Z_scope.

(** * split / join *)
Lemma split_nonnil sep s : split sep s <> [].
Proof.
  destruct s as [|c r]; cbn; [discriminate|].
  destruct (c =? sep); [discriminate|]. destruct (split sep r); discriminate.
Qed.

Lemma split_clean sep w : ~ In sep w -> split sep w = [w].
Proof.
  induction w as [|c r IH]; intros H; [reflexivity|]. cbn.
  destruct (Z.eqb_spec c sep) as [->|_]; [exfalso; apply H; now left|].
  rewrite IH; [reflexivity|]. intro. apply H. now right.
Qed.

Lemma split_app sep w r : ~ In sep w -> split sep (w ++ sep :: r) = w :: split sep r.
Proof.
  induction w as [|c w IH]; intros H; cbn.
  - now rewrite Z.eqb_refl.
  - destruct (Z.eqb_spec c sep) as [->|_]; [exfalso; apply H; now left|].
    rewrite IH; [reflexivity|]. intro. apply H. now right.
Qed.

Lemma split_join sep ws :
  ws <> [] -> (forall w, In w ws -> ~ In sep w) -> split sep (join sep ws) = ws.
Proof.
  induction ws as [|w r IH]; intros Hne H; [congruence|].
  destruct r as [|w2 r2].
  - cbn. apply split_clean. apply H. now left.
  - change (join sep (w :: w2 :: r2)) with (w ++ sep :: join sep (w2 :: r2)).
    rewrite split_app by (apply H; now left).
    f_equal. apply IH; [discriminate|]. intros x Hx. apply H. now right.
Qed.

Lemma join_nil_is_empty_name sep : split sep (join sep []) = [[]].
Proof. reflexivity. Qed.

(** joining what [split] returned gives the string back, for every string *)
Lemma join_split sep s : join sep (split sep s) = s.
Proof.
  induction s as [|c r IH]; [reflexivity|]. cbn [split].
  destruct (Z.eqb_spec c sep) as [->|_].
  - pose proof (split_nonnil sep r) as Hn.
    destruct (split sep r) as [|w ws] eqn:E; [congruence|].
    change (join sep ([] :: w :: ws)) with ([] ++ sep :: join sep (w :: ws)).
    now rewrite IH.
  - pose proof (split_nonnil sep r) as Hn.
    destruct (split sep r) as [|w ws] eqn:E; [congruence|].
    destruct ws as [|w2 ws2]; cbn in *; now rewrite <- IH.
Qed.

Lemma in_join sep ws c :
  In c (join sep ws) -> c = sep \/ exists w, In w ws /\ In c w.
Proof.
  induction ws as [|w r IH]; [intros []|].
  destruct r as [|w2 r2].
  - cbn. intros H. right. exists w. split; [now left|exact H].
  - change (join sep (w :: w2 :: r2)) with (w ++ sep :: join sep (w2 :: r2)).
    rewrite in_app_iff. cbn [In]. intros [H|[H|H]].
    + right. exists w. split; [now left|exact H].
    + now left.
    + destruct (IH H) as [E|[x [Hx Hc]]]; [now left|].
      right. exists x. split; [now right|exact Hc].
Qed.

(** * clean tokens *)
Lemma clean_char_spec c :
  clean_char c = true <-> c <> TAB /\ c <> LF /\ c <> CR /\ c <> US.
Proof.
  unfold clean_char. rewrite negb_true_iff, !orb_false_iff, !Z.eqb_neq. tauto.
Qed.

Lemma clean_token_spec w : clean_token w = true <-> forall c, In c w -> clean_char c = true.
Proof. unfold clean_token. apply forallb_forall. Qed.

Lemma clean_tokens_spec ws :
  clean_tokens ws = true <-> ws <> [] /\ forall w, In w ws -> clean_token w = true.
Proof.
  destruct ws as [|w r].
  - cbn. split; [discriminate|intros [H _]; congruence].
  - unfold clean_tokens. rewrite forallb_forall. split.
    + intros H. split; [discriminate|exact H].
    + intros [_ H]. exact H.
Qed.

Lemma clean_tokens_no c ws :
  clean_tokens ws = true -> c = TAB \/ c = LF \/ c = CR \/ c = US ->
  forall w, In w ws -> ~ In c w.
Proof.
  intros H Hc w Hw Hin. apply clean_tokens_spec in H as [_ H].
  specialize (H w Hw). rewrite clean_token_spec in H. specialize (H c Hin).
  apply clean_char_spec in H. intuition congruence.
Qed.

(** the joined field contains no tab, LF, CR *)
Lemma join_clean c ws :
  clean_tokens ws = true -> c = TAB \/ c = LF \/ c = CR -> ~ In c (join US ws).
Proof.
  intros H Hc Hin. apply in_join in Hin as [E|[w [Hw Hin]]].
  - unfold TAB, LF, CR, US in *. lia.
  - revert Hin. apply (clean_tokens_no c ws H); [tauto|exact Hw].
Qed.

Lemma split_join_clean ws : clean_tokens ws = true -> split US (join US ws) = ws.
Proof.
  intros H. apply split_join.
  - now apply clean_tokens_spec in H.
  - apply (clean_tokens_no US ws H). tauto.
Qed.

(** * lines *)
Lemma unl_id s : ~ In CR s -> unl s = s.
Proof.
  induction s as [|c r IH]; intros H; [reflexivity|]. cbn [unl].
  destruct (Z.eqb_spec c CR) as [->|_]; [exfalso; apply H; now left|].
  rewrite IH; [reflexivity|]. intro. apply H. now right.
Qed.

Lemma lines_app body rest :
  ~ In LF body -> lines (body ++ LF :: rest) = (body ++ [LF]) :: lines rest.
Proof.
  induction body as [|c b IH]; intros H; cbn.
  - reflexivity.
  - destruct (Z.eqb_spec c LF) as [->|_]; [exfalso; apply H; now left|].
    rewrite IH; [reflexivity|]. intro. apply H. now right.
Qed.

Lemma lstrip_lf_id s : ~ In LF s -> lstrip_lf s = s.
Proof.
  destruct s as [|c r]; intros H; [reflexivity|]. cbn.
  destruct (Z.eqb_spec c LF) as [->|_]; [exfalso; apply H; now left|reflexivity].
Qed.

Lemma strip_lf_line body : ~ In LF body -> strip_lf (body ++ [LF]) = body.
Proof.
  intros H. unfold strip_lf.
  destruct body as [|c r].
  - reflexivity.
  - assert (Hc : c <> LF) by (intro; subst; apply H; now left).
    change ((c :: r) ++ [LF]) with (c :: r ++ [LF]). cbn [lstrip_lf].
    destruct (Z.eqb_spec c LF); [congruence|].
    change (c :: r ++ [LF]) with ((c :: r) ++ [LF]).
    rewrite rev_app_distr. cbn [rev app]. cbn [lstrip_lf]. rewrite Z.eqb_refl.
    change (rev r ++ [c]) with (rev (c :: r)).
    rewrite lstrip_lf_id; [apply rev_involutive|].
    intro Hin. apply in_rev in Hin. now apply H.
Qed.

(** * numbers *)
Lemma is_digit_spec c : is_digit c = true <-> 48 <= c <= 57.
Proof. unfold is_digit, DIGIT0. rewrite andb_true_iff, !Z.leb_le. lia. Qed.

Lemma digits_value_digits a s v : digits_value a s = Some v -> forall c, In c s -> is_digit c = true.
Proof.
  revert a. induction s as [|d r IH]; intros a H c Hc; [destruct Hc|].
  cbn in H. destruct (is_digit d) eqn:E; [|discriminate].
  destruct Hc as [<-|Hc]; [exact E|]. eapply IH; eauto.
Qed.

(** a string that [int()] accepts (in the model) has no tab, LF or CR *)
Lemma int_of_str_chars f k c : int_of_str f = Some k -> In c f -> c = MINUS \/ c = PLUS \/ is_digit c = true.
Proof.
  unfold int_of_str. destruct f as [|d r]; [discriminate|].
  destruct (Z.eqb_spec d MINUS) as [->|_].
  - destruct r as [|d2 r2]; [discriminate|]. intros H [<-|Hc]; [now left|].
    destruct (digits_value 0 (d2 :: r2)) as [v|] eqn:E; [|discriminate].
    right. right. eapply digits_value_digits; eauto.
  - destruct (Z.eqb_spec d PLUS) as [->|_].
    + destruct r as [|d2 r2]; [discriminate|]. intros H [<-|Hc]; [tauto|].
      right. right. eapply digits_value_digits; eauto.
    + intros H Hc. right. right. eapply digits_value_digits; eauto.
Qed.

Lemma int_of_str_clean f k c :
  int_of_str f = Some k -> c = TAB \/ c = LF \/ c = CR -> ~ In c f.
Proof.
  intros H Hc Hin. destruct (int_of_str_chars f k c H Hin) as [E|[E|E]].
  - unfold TAB, LF, CR, MINUS in *. lia.
  - unfold TAB, LF, CR, PLUS in *. lia.
  - apply is_digit_spec in E. unfold TAB, LF, CR in *. lia.
Qed.

(** * one line *)
Lemma clean_event_spec e : clean_event e = true <-> clean_tokens (fst e) = true /\ clean_tokens (snd e) = true.
Proof. unfold clean_event. apply andb_true_iff. Qed.

Lemma clean_row_spec r :
  clean_row r = true <-> clean_event (fst r) = true /\ exists k, row_freq r = Some k.
Proof.
  unfold clean_row. rewrite andb_true_iff. destruct (row_freq r) as [k|].
  - split; intros [H _]; split; eauto.
  - split; [intros [_ H]; discriminate|intros [_ [k H]]; discriminate].
Qed.

(** the text of a row before its terminator *)
Definition row_body (r : row) : str :=
  join US (fst (fst r)) ++ TAB :: join US (snd (fst r)) ++
  match snd r with None => [] | Some f => TAB :: f end.

Lemma write_row_body r : write_row r = row_body r ++ [LF].
Proof.
  destruct r as [[cs os] [f|]]; unfold write_row, row_body, write_line_freq, write_line; cbn [fst snd].
  - rewrite <- !app_assoc. cbn. rewrite <- app_assoc. reflexivity.
  - rewrite <- !app_assoc. cbn. now rewrite app_nil_r.
Qed.

Lemma row_body_clean r c : clean_row r = true -> c = LF \/ c = CR -> ~ In c (row_body r).
Proof.
  intros H Hc. apply clean_row_spec in H as [He [k Hk]].
  apply clean_event_spec in He as [H1 H2].
  unfold row_body. rewrite in_app_iff. cbn [In]. rewrite in_app_iff.
  intros [Hin|[Hin|[Hin|Hin]]].
  - revert Hin. apply join_clean; tauto.
  - unfold TAB, LF, CR in *. lia.
  - revert Hin. apply join_clean; tauto.
  - unfold row_freq in Hk. destruct (snd r) as [f|]; [|destruct Hin].
    destruct Hin as [Hin|Hin]; [unfold TAB, LF, CR in *; lia|].
    revert Hin. eapply int_of_str_clean; eauto; tauto.
Qed.

Lemma parse_row r :
  clean_row r = true ->
  parse_line (write_row r) = option_map (fun k => (fst r, k)) (row_freq r).
Proof.
  intros H. unfold parse_line. rewrite write_row_body.
  rewrite strip_lf_line by (apply row_body_clean; [exact H|tauto]).
  apply clean_row_spec in H as [He [k Hk]].
  apply clean_event_spec in He as [H1 H2].
  destruct r as [[cs os] fo]. cbn [fst snd] in *. unfold row_body. cbn [fst snd].
  rewrite split_app by (apply join_clean; tauto).
  unfold row_freq in *. cbn [snd] in *. destruct fo as [f|].
  - rewrite split_app by (apply join_clean; tauto).
    rewrite split_clean by (eapply int_of_str_clean; eauto).
    rewrite Hk. cbn. now rewrite !split_join_clean.
  - rewrite app_nil_r. rewrite split_clean by (apply join_clean; tauto).
    cbn. now rewrite !split_join_clean.
Qed.

(** * slices *)
Lemma islice_aux_map {A B} (f : A -> B) l skip step :
  islice_aux (map f l) skip step = map f (islice_aux l skip step).
Proof.
  revert skip. induction l as [|x r IH]; intros skip; [reflexivity|].
  cbn. destruct skip; [cbn; f_equal|]; apply IH.
Qed.

Lemma islice_map {A B} (f : A -> B) l start step :
  islice (map f l) start step = map f (islice l start step).
Proof. apply islice_aux_map. Qed.

Lemma islice_all {A} (l : list A) : islice l 0 1 = l.
Proof. unfold islice. induction l as [|x r IH]; [reflexivity|]. cbn. now rewrite IH. Qed.

(** * whole files *)
Lemma expand_rows rows :
  forallb clean_row rows = true ->
  expand_lines (map write_row rows) = Some (flat_map row_copies rows).
Proof.
  induction rows as [|r rows IH]; intros H; [reflexivity|].
  cbn [forallb] in H. apply andb_true_iff in H as [Hr Hrows].
  cbn [map expand_lines flat_map]. rewrite parse_row by exact Hr.
  apply clean_row_spec in Hr as [_ [k Hk]]. unfold row_copies at 1. rewrite Hk. cbn [option_map].
  now rewrite IH.
Qed.

Lemma lines_rows rows :
  forallb clean_row rows = true -> lines (flat_map write_row rows) = map write_row rows.
Proof.
  induction rows as [|r rows IH]; intros H; [reflexivity|].
  cbn [forallb] in H. apply andb_true_iff in H as [Hr Hrows].
  cbn [flat_map map]. rewrite write_row_body at 1. rewrite <- app_assoc. cbn [app].
  rewrite lines_app by (apply row_body_clean; [exact Hr|tauto]).
  rewrite IH by exact Hrows. now rewrite write_row_body.
Qed.

Lemma rows_no_cr rows : forallb clean_row rows = true -> ~ In CR (flat_map write_row rows).
Proof.
  induction rows as [|r rows IH]; intros H; [intros []|].
  cbn [forallb] in H. apply andb_true_iff in H as [Hr Hrows].
  cbn [flat_map]. rewrite in_app_iff, write_row_body, in_app_iff. intros [[Hin|Hin]|Hin].
  - revert Hin. apply row_body_clean; [exact Hr|tauto].
  - destruct Hin as [E|[]]. discriminate E.
  - now apply IH.
Qed.

(** reading a hand-written file: slice the rows, then expand the frequencies *)
Lemma read_rows hdr rows start step :
  ~ In LF hdr -> ~ In CR hdr -> forallb clean_row rows = true ->
  read_events (rows_file hdr rows) start step = Some (flat_map row_copies (islice rows start step)).
Proof.
  intros Hl Hc H. unfold read_events, rows_file.
  rewrite unl_id.
  2:{ rewrite in_app_iff. cbn [In]. intros [Hin|[E|Hin]]; [auto|discriminate E|].
      revert Hin. now apply rows_no_cr. }
  rewrite lines_app by exact Hl. rewrite lines_rows by exact H.
  rewrite islice_map. apply expand_rows.
  apply forallb_forall. intros r Hr. rewrite forallb_forall in H. apply H.
  clear - Hr. unfold islice in Hr. revert start Hr.
  induction rows as [|x rows IH]; intros skip Hr; [destruct Hr|].
  cbn in Hr. destruct skip as [|k].
  - destruct Hr as [<-|Hr]; [now left|]. right. eapply IH; eauto.
  - right. eapply IH; eauto.
Qed.

Lemma header_clean c : ~ In LF (header c) /\ ~ In CR (header c).
Proof.
  destruct c; cbn; unfold TAB, LF, CR; split; intro H;
    repeat (destruct H as [H|H]; [discriminate H|]); exact H.
Qed.

Definition row_of (compatible : bool) (e : event) : row :=
  (e, if compatible then Some [DIGIT1] else None).

Lemma write_line_row c e : write_line c e = write_row (row_of c e).
Proof.
  destruct c; unfold write_row, row_of, write_line_freq, write_line; cbn [fst snd]; reflexivity.
Qed.

Lemma write_file_rows c es : write_file c es = rows_file (header c) (map (row_of c) es).
Proof.
  unfold write_file, rows_file. do 2 f_equal.
  induction es as [|e es IH]; [reflexivity|]. cbn [flat_map map]. now rewrite IH, write_line_row.
Qed.

Lemma read_write compatible es :
  forallb clean_event es = true -> parse_file (write_file compatible es) = Some es.
Proof.
  intros H. unfold parse_file. rewrite write_file_rows.
  destruct (header_clean compatible) as [Hl Hc].
  rewrite read_rows; [|exact Hl|exact Hc|].
  - rewrite islice_all. f_equal. clear H.
    induction es as [|e es IH]; [reflexivity|]. cbn [map flat_map]. rewrite IH.
    destruct compatible; reflexivity.
  - rewrite forallb_forall in *. intros r Hr. apply in_map_iff in Hr as [e [<- He]].
    apply clean_row_spec. split; [cbn; now apply H|].
    destruct compatible; cbn; eauto.
Qed.

(** sliced reading of a written file: the slice of the events *)
Lemma read_write_slice compatible es start step :
  forallb clean_event es = true ->
  read_events (write_file compatible es) start step = Some (islice es start step).
Proof.
  intros H. rewrite write_file_rows.
  destruct (header_clean compatible) as [Hl Hc].
  rewrite read_rows; [|exact Hl|exact Hc|].
  - rewrite islice_map. f_equal.
    induction (islice es start step) as [|e l IH]; [reflexivity|]. cbn [map flat_map]. rewrite IH.
    destruct compatible; reflexivity.
  - rewrite forallb_forall in *. intros r Hr. apply in_map_iff in Hr as [e [<- He]].
    apply clean_row_spec. split; [cbn; now apply H|].
    destruct compatible; cbn; eauto.
Qed.

(** * containers *)
Lemma field_tokens_repr f ws :
  clean_tokens ws = true -> f = FList ws \/ f = FStr (join US ws) -> field_tokens f = ws.
Proof. intros H [->| ->]; cbn; [reflexivity|now apply split_join_clean]. Qed.

Lemma events_from_list_repr l es :
  forallb clean_event es = true -> Forall2 represents l es -> events_from_list l = es.
Proof.
  intros H F. induction F as [|cf e l es [R1 R2] F IH]; [reflexivity|].
  cbn [forallb] in H. apply andb_true_iff in H as [He Hes].
  apply clean_event_spec in He as [H1 H2].
  cbn [events_from_list map]. fold (events_from_list l). rewrite IH by exact Hes.
  rewrite (field_tokens_repr _ _ H1 R1), (field_tokens_repr _ _ H2 R2). now destruct e.
Qed.

(** * frequency and counting *)
Lemma count_occ_flat_repeat {A B} (dec : forall x y : B, {x = y} + {x <> y}) (g : A -> list B) e n t :
  count_occ dec (flat_map g (repeat e n)) t = (n * count_occ dec (g e) t)%nat.
Proof.
  induction n as [|n IH]; [reflexivity|]. cbn [repeat flat_map]. rewrite count_occ_app, IH. lia.
Qed.

Lemma count_rows (g : event -> list str) rows t :
  count_occ str_eq_dec (flat_map g (flat_map row_copies rows)) t = weighted_count g rows t.
Proof.
  induction rows as [|r rows IH]; [reflexivity|].
  cbn [flat_map weighted_count]. rewrite flat_map_app, count_occ_app, IH. f_equal.
  unfold row_copies. destruct (row_freq r) as [k|]; [|reflexivity].
  unfold copies. cbn [fst snd]. apply count_occ_flat_repeat.
Qed.

(** * decimal numerals: every frequency [k >= 0] has a field that denotes it *)
Lemma digits_fuel_app fuel k acc : digits_fuel fuel k acc = digits_fuel fuel k [] ++ acc.
Proof.
  revert k acc. induction fuel as [|f IH]; intros k acc; [reflexivity|].
  cbn [digits_fuel]. destruct (k <? 10); [reflexivity|].
  rewrite IH. rewrite (IH (k / 10) [_]). now rewrite <- app_assoc.
Qed.

Lemma digits_value_snoc a s d :
  is_digit d = true ->
  digits_value a (s ++ [d]) = option_map (fun v => 10 * v + (d - DIGIT0)) (digits_value a s).
Proof.
  intros Hd. revert a. induction s as [|c r IH]; intros a; cbn.
  - now rewrite Hd.
  - destruct (is_digit c); [apply IH|reflexivity].
Qed.

Lemma digits_fuel_value fuel k :
  0 <= k < 2 ^ Z.of_nat fuel -> digits_value 0 (digits_fuel fuel k []) = Some k.
Proof.
  revert k. induction fuel as [|f IH]; intros k Hk.
  - cbn in *. f_equal. lia.
  - cbn [digits_fuel]. destruct (Z.ltb_spec k 10) as [Hlt|Hge].
    + assert (E : is_digit (DIGIT0 + k) = true) by (apply is_digit_spec; unfold DIGIT0; lia).
      cbn [digits_value]. rewrite E. f_equal. unfold DIGIT0. lia.
    + rewrite digits_fuel_app.
      assert (Hd : is_digit (DIGIT0 + k mod 10) = true).
      { apply is_digit_spec. unfold DIGIT0. pose proof (Z.mod_pos_bound k 10). lia. }
      rewrite digits_value_snoc by exact Hd.
      rewrite IH.
      * cbn [option_map]. f_equal. unfold DIGIT0. pose proof (Z.div_mod k 10). lia.
      * rewrite Nat2Z.inj_succ, Z.pow_succ_r in Hk by lia.
        split; [apply Z.div_pos; lia|]. apply Z.div_lt_upper_bound; lia.
Qed.

Lemma digits_fuel_S f k acc :
  digits_fuel (S f) k acc =
  if k <? 10 then (DIGIT0 + k) :: acc else digits_fuel f (k / 10) ((DIGIT0 + k mod 10) :: acc).
Proof. reflexivity. Qed.

Lemma digits_fuel_head fuel k :
  0 <= k -> exists d r, digits_fuel (S fuel) k [] = d :: r /\ is_digit d = true.
Proof.
  revert k. induction fuel as [|f IH]; intros k Hk.
  - cbn [digits_fuel]. destruct (Z.ltb_spec k 10).
    + eexists _, _. split; [reflexivity|]. apply is_digit_spec. unfold DIGIT0. lia.
    + eexists _, _. split; [reflexivity|]. apply is_digit_spec. unfold DIGIT0.
      pose proof (Z.mod_pos_bound k 10). lia.
  - rewrite digits_fuel_S. destruct (Z.ltb_spec k 10).
    + eexists _, _. split; [reflexivity|]. apply is_digit_spec. unfold DIGIT0. lia.
    + rewrite digits_fuel_app.
      destruct (IH (k / 10)) as [d [r [E Hd]]]; [apply Z.div_pos; lia|].
      rewrite E. eexists _, _. split; [reflexivity|exact Hd].
Qed.

Lemma int_of_str_digits k : 0 <= k -> int_of_str (digits k) = Some k.
Proof.
  intros Hk. unfold digits.
  destruct (digits_fuel_head (Z.to_nat (Z.log2 k)) k Hk) as [d [r [E Hd]]].
  assert (V : digits_value 0 (digits_fuel (S (Z.to_nat (Z.log2 k))) k []) = Some k).
  { apply digits_fuel_value. rewrite Nat2Z.inj_succ, Z2Nat.id by apply Z.log2_nonneg.
    split; [exact Hk|].
    destruct (Z.eq_dec k 0) as [->|Hn]; [reflexivity|].
    apply Z.log2_spec. lia. }
  rewrite E in *. unfold int_of_str.
  apply is_digit_spec in Hd.
  destruct (Z.eqb_spec d MINUS); [unfold MINUS in *; lia|].
  destruct (Z.eqb_spec d PLUS); [unfold PLUS in *; lia|].
  exact V.
Qed.

(** * statements used by Props/C07.v *)
Lemma row_copies_spec r k : row_freq r = Some k -> row_copies r = repeat (fst r) (Z.to_nat k).
Proof. unfold row_copies, copies. now intros ->. Qed.

Lemma row_copies_zero r k : row_freq r = Some k -> k <= 0 -> row_copies r = [].
Proof.
  intros H Hk. rewrite (row_copies_spec r k H).
  replace (Z.to_nat k) with 0%nat by lia. reflexivity.
Qed.

Lemma read_write_container compatible l es :
  forallb clean_event es = true -> Forall2 represents l es ->
  parse_file (events_to_file compatible l) = Some es.
Proof.
  intros H F. unfold events_to_file. rewrite (events_from_list_repr l es H F).
  now apply read_write.
Qed.

Lemma frequency_counts hdr rows :
  ~ In LF hdr -> ~ In CR hdr -> forallb clean_row rows = true ->
  exists es, parse_file (rows_file hdr rows) = Some es /\
             es = flat_map row_copies rows /\
             (forall t, cue_count es t = weighted_count fst rows t) /\
             (forall t, outcome_count es t = weighted_count snd rows t).
Proof.
  intros Hl Hc H. exists (flat_map row_copies rows). unfold parse_file.
  rewrite read_rows by assumption. rewrite islice_all.
  repeat split; intros t; apply count_rows.
Qed.

Lemma input_form (W : Type) (learn : list event -> W) compatible l es :
  forallb clean_event es = true -> Forall2 represents l es ->
  option_map learn (parse_file (events_to_file compatible l)) = Some (learn es).
Proof. intros H F. now rewrite (read_write_container compatible l es H F). Qed.
