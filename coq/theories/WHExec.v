(** Executable, loop-faithful models of the three Widrow-Hoff kernels of
    ndl_parallel.pyx (learn_inplace_{binary_to_real,real_to_binary,real_to_real}_ptr)
    over an abstract matrix store and on flat 64-bit indexed memory.  Definitions only. *)
From Coq Require Import ZArith List Bool.
From PV Require Import Bytes BinFmt Store RWSpec RWExec WHSpec.
Import ListNotations.

Section WHExec.
  Variable R : Type.
  Variables (rO rI : R) (radd rmul rsub : R -> R -> R).

  Section Mx.
    Variable S : Type.
    Variable g : S -> Z -> Z -> R.
    Variable st : S -> Z -> Z -> R -> S.

    (** the loops of the real-cue kernels for one row r: the summed cue vector
        value x_k is recomputed for every k, first for W x, then for the update *)
    Definition vx_row (cols : list Z) (x : Z -> R) (uf : Z -> R -> R) (s : S) (r : Z) : S :=
      let a := fold_left (fun a k => radd a (rmul (x k) (g s r k))) cols rO in
      let u := uf r a in
      fold_left (fun s k => st s r k (radd (g s r k) (rmul u (x k)))) cols s.

    (** the loops of the binary-cue kernel for one row d: per cue OCCURRENCE *)
    Definition bx_row (uf : Z -> R -> R) (cues : list Z) (s : S) (d : Z) : S :=
      let a := fold_left (fun a c => radd a (g s d c)) cues rO in
      mx_bump R radd rmul S g st (fun _ => rI) (uf d a) d cues s.

    Definition summed (tbl : Z -> Z -> R) (ids : list Z) (k : Z) : R :=
      fold_left (fun a i => radd a (tbl i k)) ids rO.

    Definition r2r_event (eta : R) (cv ov : Z -> Z -> R) (cdims rows : list Z) (s : S) (e : event) : S :=
      fold_left (vx_row cdims (summed cv (fst e)) (fun d a => rmul eta (rsub (summed ov (snd e) d) a))) rows s.
    Definition r2b_event (b1 b2 la : R) (cv : Z -> Z -> R) (cdims rows : list Z) (s : S) (e : event) : S :=
      fold_left (vx_row cdims (summed cv (fst e))
                        (fun o a => if mem_z o (snd e) then rmul b1 (rsub la a) else rmul b2 (rsub rO a))) rows s.
    Definition b2r_event (eta : R) (ov : Z -> Z -> R) (rows : list Z) (s : S) (e : event) : S :=
      fold_left (bx_row (fun d a => rmul eta (rsub (summed ov (snd e) d) a)) (fst e)) rows s.

    Definition r2r_events eta cv ov cdims rows es s := fold_left (r2r_event eta cv ov cdims rows) es s.
    Definition r2b_events b1 b2 la cv cdims rows es s := fold_left (r2b_event b1 b2 la cv cdims rows) es s.
    Definition b2r_events eta ov rows es s := fold_left (b2r_event eta ov rows) es s.
  End Mx.

  (** rows start..end-1 as the kernels iterate them (dimension / outcome indices) *)
  Definition zrange (start stop : Z) : list Z :=
    map (fun i => (start + Z.of_nat i)%Z) (seq 0 (Z.to_nat (stop - start))).

  (** vector tables in flat row-major memory: table[id * n_dims + k] *)
  Definition tget (tbl : ZM.t R) (n_dims : Z) (id k : Z) : R := fget rO tbl ((n_dims * id + k) mod two64)%Z.

  Inductive wh_flavour := B2R | R2B | R2R.

  (** one chunk file through one kernel on rows [start, stop) *)
  Definition wh_file (fl : wh_flavour) (eta b1 b2 la : R) (cvt ovt : ZM.t R)
             (n_cols n_cdims n_odims : Z) (start stop : Z) (bytes : list Z) (m : kstore R) : Z * kstore R :=
    match k_parse bytes with
    | KOk es =>
      let rows := zrange start stop in
      let g := kget R rO n_cols in
      let st := kset R n_cols in
      (0%Z, match fl with
            | B2R => b2r_events (kstore R) g st eta (tget ovt n_odims) rows es m
            | R2B => r2b_events (kstore R) g st b1 b2 la (tget cvt n_cdims) (zrange 0 n_cdims) rows es m
            | R2R => r2r_events (kstore R) g st eta (tget cvt n_cdims) (tget ovt n_odims) (zrange 0 n_cdims) rows es m
            end)
    | KMagic => (1%Z, m)
    | KVersion => (2%Z, m)
    | KOverflow => (9%Z, m)
    end.

  (** the OpenMP entry points: files in order; per file the parts of the row
      range (any order: rows are independent); first header error ends the call *)
  Fixpoint wh_files (fl : wh_flavour) (eta b1 b2 la : R) (cvt ovt : ZM.t R)
           (n_cols n_cdims n_odims n_rows : Z) (files : list (list Z)) (m : kstore R) : Z * kstore R :=
    match files with
    | [] => (0%Z, m)
    | f :: r =>
      let (err, m') := wh_file fl eta b1 b2 la cvt ovt n_cols n_cdims n_odims 0 n_rows f m in
      if Z.eqb err 0 then wh_files fl eta b1 b2 la cvt ovt n_cols n_cdims n_odims n_rows r m'
      else (err, m')
    end.
End WHExec.
