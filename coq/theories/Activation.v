(** Executable model of pyndl/activation.py ([activation], [_activation_matrix],
    [_init_mp_activation_matrix], [_run_mp_activation_matrix]) over an arbitrary
    carrier with ring operations.  Definitions only; the theorems are in
    ActivationProofs.v and Props/C12.v.

    Events are lists of cue ids (the code drops the outcomes in its first line
    [events = (cues for cues, outcomes in events)]).  Everything the code does
    lazily (generators) is consumed by one [list(...)] call, event after event:
    the first event that fails decides the exception. *)
From Coq Require Import ZArith List Bool Permutation.
From PV Require Import BinFmt RWSpec.
Import ListNotations.
Open Scope Z_scope.

Inductive aerr :=
| EDup        (* ValueError('cues needs to be unique ...'), remove_duplicates=None *)
| EShape      (* ValueError('dimensions of weights are wrong ...') *)
| EKey        (* KeyError(cue) *)
| EAssert.    (* AssertionError (n_jobs) *)

Inductive res (A : Type) :=
| Ok (a : A)
| Err (e : aerr).
Arguments Ok {A}. Arguments Err {A}.

Definition zlen {A} (l : list A) : Z := Z.of_nat (length l).

(** [range(n)] *)
Definition zrange (n : Z) : list Z := map Z.of_nat (seq 0 (Z.to_nat n)).

(** [enumerate(l)] starting at [k] *)
Fixpoint enum_from {A} (k : Z) (l : list A) : list (Z * A) :=
  match l with
  | [] => []
  | x :: r => (k, x) :: enum_from (k + 1) r
  end.

(** activation.py:72-81.  None: [len(cues) != len(set(cues))] raises, otherwise
    [set(cues)]; True: [set(cues)]; False: the list as it is.  A set is
    represented by the list of its elements ([dedup]: one occurrence of each,
    Python's iteration order is unspecified - sums do not depend on it,
    C12_set_order). *)
Definition prep_cues (p : pol) (cs : list Z) : option (list Z) :=
  match p with
  | PNone => if Nat.eqb (length cs) (length (dedup cs)) then Some (dedup cs) else None
  | PTrue => Some (dedup cs)
  | PFalse => Some cs
  end.

(** [cue_map = OrderedDict((cue, ii) for ii, cue in enumerate(cues))] read at
    [c]: a label that occurs twice keeps its LAST index *)
Fixpoint cue_map (cues : list Z) (ii : Z) (c : Z) : option Z :=
  match cues with
  | [] => None
  | x :: r => match cue_map r (ii + 1) c with
              | Some k => Some k
              | None => if c =? x then Some ii else None
              end
  end.

(** [tuple(cue_map[cue] for cue in event_cues if cue in cues)]  (ignore) /
    [tuple(cue_map[cue] for cue in event_cues)]; [None] is the KeyError *)
Fixpoint event_indices (ignore : bool) (cues : list Z) (ecs : list Z) : option (list Z) :=
  match ecs with
  | [] => Some []
  | c :: r =>
    if ignore && negb (mem_z c cues) then event_indices ignore cues r
    else match cue_map cues 0 c with
         | None => None
         | Some k => match event_indices ignore cues r with
                     | Some l => Some (k :: l)
                     | None => None
                     end
         end
  end.

(** [list(event_cue_indices_list)]: the generators are pulled event by event -
    duplicate check, then index lookup - so the first bad event raises *)
Fixpoint indices_list (p : pol) (ignore : bool) (cues : list Z) (evs : list (list Z))
  : res (list (list Z)) :=
  match evs with
  | [] => Ok []
  | e :: r =>
    match prep_cues p e with
    | None => Err EDup
    | Some cs =>
      match event_indices ignore cues cs with
      | None => Err EKey
      | Some ix => match indices_list p ignore cues r with
                   | Ok l => Ok (ix :: l)
                   | Err x => Err x
                   end
      end
    end
  end.

(** the spec-level reading of the same pipeline: the cues of an event that are
    summed *)
Definition known (cues : list Z) (ignore : bool) (cs : list Z) : list Z :=
  if ignore then filter (fun c => mem_z c cues) cs else cs.

Definition prep_list (p : pol) (cs : list Z) : list Z :=
  match p with PFalse => cs | _ => dedup cs end.

Section Activation.
  Variable R : Type.
  Variables (rO : R) (radd : R -> R -> R).
  Notation sum_over := (sum_over R rO radd).

  (** a labelled matrix as the code sees it: the two coordinate lists and
      [weights.values] with its shape; nothing in the code looks at the names
      of the dimensions *)
  Record matrix := {
    m_outcomes : list Z;          (* weights.coords["outcomes"].values.tolist() *)
    m_cues : list Z;              (* weights.coords["cues"].values.tolist() *)
    m_rows : Z;                   (* weights.values.shape[0] *)
    m_cols : Z;                   (* weights.values.shape[1] *)
    m_val : Z -> Z -> R           (* weights.values[i, k] *)
  }.

  Definition shape_ok (M : matrix) : bool :=
    (m_rows M =? zlen (m_outcomes M)) && (m_cols M =? zlen (m_cues M)).

  (** the weight of the cue LABELLED [c] in row [i] (what the labels say) *)
  Definition Wlab (M : matrix) (i c : Z) : R :=
    match cue_map (m_cues M) 0 c with
    | Some k => m_val M i k
    | None => rO
    end.

  (** [weights[i, cue_indices].sum()] *)
  Definition row_sum (w : Z -> Z -> R) (i : Z) (ix : list Z) : R := sum_over (w i) ix.

  (** ** n_jobs == 1: [activations = np.empty(dim)] (arbitrary content [junk]),
      [activations[:, row] = weights[:, event_cues].sum(axis=1)] *)
  Definition buf2 := Z -> Z -> R.

  Definition set_col (b : buf2) (e : Z) (col : Z -> R) : buf2 :=
    fun i e' => if e' =? e then col i else b i e'.

  Definition single (w : Z -> Z -> R) (ixs : list (list Z)) (junk : buf2) : buf2 :=
    fold_left (fun b t => set_col b (fst t) (fun i => row_sum w i (snd t))) (enum_from 0 ixs) junk.

  (** ** n_jobs > 1.  The weights go C-contiguous into a flat shared array
      ([np.ascontiguousarray], [sharedctypes.copy]); every worker re-shapes
      that buffer ([weights.shape = weights_shape_]).  The activations are a
      flat zero-initialised [RawArray] re-shaped to (n_outcomes, n_events) in
      the workers and in the parent. *)
  Definition flat_of (cols : Z) (w : Z -> Z -> R) : Z -> R := fun k => w (k / cols) (k mod cols).
  Definition unflat (cols : Z) (f : Z -> R) : Z -> Z -> R := fun i j => f (i * cols + j).

  Definition upd (f : Z -> R) (k : Z) (v : R) : Z -> R := fun x => if x =? k then v else f x.

  (** a task of [pool.starmap(_run_mp_activation_matrix, enumerate(indices_list))] *)
  Definition task := (Z * list Z)%type.

  (** [activations[:, event_index] = weights[:, cue_indices].sum(axis=1)] in a worker *)
  Definition mp_task (n_out n_ev cols : Z) (fw : Z -> R) (b : Z -> R) (t : task) : Z -> R :=
    fold_left (fun b i => upd b (i * n_ev + fst t) (row_sum (unflat cols fw) i (snd t)))
              (zrange n_out) b.

  (** a run of the pool: the tasks in the order in which they complete, each
      tagged with the worker that ran it (every worker holds the same buffer) *)
  Definition mp_run (n_out n_ev cols : Z) (fw : Z -> R) (tr : list (nat * task)) : Z -> R :=
    fold_left (fun b wt => mp_task n_out n_ev cols fw b (snd wt)) tr (fun _ => rO).

  (** what [starmap] guarantees: every task of [enumerate(indices_list)] is run
      exactly once, by some worker, in some order *)
  Definition pool_trace (ixs : list (list Z)) (tr : list (nat * task)) : Prop :=
    Permutation (map snd tr) (enum_from 0 ixs).

  (** the returned DataArray: coords outcomes, dims (outcomes, events) *)
  Record atable := { a_outcomes : list Z; a_events : Z; a_val : Z -> Z -> R }.

  (** activation.py:83-102 and 140-178 *)
  Definition activation_matrix (M : matrix) (p : pol) (ignore : bool) (n_jobs : Z)
             (junk : buf2) (tr : list (nat * task)) (evs : list (list Z)) : res atable :=
    if shape_ok M then
      match indices_list p ignore (m_cues M) evs with
      | Err e => Err e
      | Ok ixs =>
        if n_jobs <? 1 then Err EAssert
        else
          let n_ev := zlen ixs in
          Ok {| a_outcomes := m_outcomes M;
                a_events := n_ev;
                a_val := if n_jobs =? 1 then single (m_val M) ixs junk
                         else unflat n_ev (mp_run (m_rows M) n_ev (m_cols M)
                                                  (flat_of (m_cols M) (m_val M)) tr) |}
      end
    else Err EShape.

  (** ** the dictionary path, activation.py:103-112.  A row [weights[outcome]]
      is a plain dict ([d_default = false]: a missing cue is a KeyError) or a
      defaultdict(float) / WeightDict row ([d_default = true]: a missing cue
      yields 0.0 and is INSERTED into the row).  [ignore_missing_cues] is not
      looked at on this path. *)
  Record drow := { d_keys : list Z; d_get : Z -> R; d_default : bool }.
  Definition dict := list (Z * drow).        (* weights.items(), in order *)

  (** [cue_dict[cue]] *)
  Definition d_lookup (r : drow) (c : Z) : option (R * drow) :=
    if mem_z c (d_keys r) then Some (d_get r c, r)
    else if d_default r
         then Some (rO, {| d_keys := d_keys r ++ [c];
                           d_get := fun x => if x =? c then rO else d_get r x;
                           d_default := true |})
         else None.

  (** [for cue in cues: _activations[row] += cue_dict[cue]] *)
  Fixpoint d_event (r : drow) (cs : list Z) (acc : R) : option (R * drow) :=
    match cs with
    | [] => Some (acc, r)
    | c :: cs' => match d_lookup r c with
                  | None => None
                  | Some (v, r') => d_event r' cs' (radd acc v)
                  end
    end.

  (** [for row, cues in enumerate(events)] on [np.zeros(len(events))] *)
  Fixpoint d_row (r : drow) (evs : list (list Z)) : option (list R * drow) :=
    match evs with
    | [] => Some ([], r)
    | cs :: rest => match d_event r cs rO with
                    | None => None
                    | Some (v, r') => match d_row r' rest with
                                      | None => None
                                      | Some (vs, r'') => Some (v :: vs, r'')
                                      end
                    end
    end.

  (** [for outcome, cue_dict in weights.items()]; the result keeps that order *)
  Fixpoint d_rows (D : dict) (evs : list (list Z)) : option (list (Z * list R) * dict) :=
    match D with
    | [] => Some ([], [])
    | (o, r) :: rest => match d_row r evs with
                        | None => None
                        | Some (vs, r') => match d_rows rest evs with
                                           | None => None
                                           | Some (t, D') => Some ((o, vs) :: t, (o, r') :: D')
                                           end
                        end
    end.

  (** [events = list(events)]: all duplicate checks happen here, before any row
      is read *)
  Fixpoint prep_events (p : pol) (evs : list (list Z)) : option (list (list Z)) :=
    match evs with
    | [] => Some []
    | e :: r => match prep_cues p e with
                | None => None
                | Some cs => match prep_events p r with
                             | None => None
                             | Some l => Some (cs :: l)
                             end
                end
    end.

  (** result: the activation rows by outcome, and the weights as the call
      leaves them (rows of defaulting dicts have grown) *)
  Definition activation_dict (D : dict) (p : pol) (n_jobs : Z) (evs : list (list Z))
    : res (list (Z * list R) * dict) :=
    if n_jobs =? 1 then
      match prep_events p evs with
      | None => Err EDup
      | Some pes => match d_rows D pes with
                    | None => Err EKey
                    | Some x => Ok x
                    end
      end
    else Err EAssert.

  (** the value a row yields for a cue when the lookup succeeds *)
  Definition row_fun (r : drow) (c : Z) : R := if mem_z c (d_keys r) then d_get r c else rO.
End Activation.

Arguments m_outcomes {R}. Arguments m_cues {R}. Arguments m_rows {R}. Arguments m_cols {R}.
Arguments m_val {R}. Arguments a_outcomes {R}. Arguments a_events {R}. Arguments a_val {R}.
Arguments d_keys {R}. Arguments d_get {R}. Arguments d_default {R}.

(** * Vocabulary of the theorem statements (C12) *)
Section Statements.
  Variable R : Type.
  Variable rO : R.

  (** what the library guarantees about a call: n_jobs >= 1, and for
      n_jobs > 1 the pool runs every task exactly once (any worker, any order) *)
  Definition valid_run (M : matrix R) (p : pol) (ignore : bool) (n_jobs : Z)
             (tr : list (nat * task)) (evs : list (list Z)) : Prop :=
    1 <= n_jobs /\
    (1 < n_jobs -> forall ixs, indices_list p ignore (m_cues M) evs = Ok ixs -> pool_trace ixs tr).

  Definition same_table (A B : atable R) : Prop :=
    a_outcomes A = a_outcomes B /\ a_events A = a_events B /\
    forall i e, 0 <= i < zlen (a_outcomes A) -> 0 <= e < a_events A -> a_val A i e = a_val B i e.

  (** same table, or both raise the same exception *)
  Definition same_res (x y : res (atable R)) : Prop :=
    match x, y with
    | Ok A, Ok B => same_table A B
    | Err a, Err b => a = b
    | _, _ => False
    end.

  (** same table, or both raise (a KeyError or the duplicate ValueError: the
      dictionary path checks all events for duplicates before it reads a row,
      the matrix path goes event by event) *)
  Definition same_res_upto_error (x y : res (atable R)) : Prop :=
    match x, y with
    | Ok A, Ok B => same_table A B
    | Err a, Err b => (a = EDup \/ a = EKey) /\ (b = EDup \/ b = EKey)
    | _, _ => False
    end.

  (** the dictionary result {outcome: array} read as a table *)
  Definition dict_table (L : list (Z * list R)) (n_ev : Z) : atable R :=
    {| a_outcomes := map fst L; a_events := n_ev;
       a_val := fun i e => nth (Z.to_nat e) (snd (nth (Z.to_nat i) L (0, []))) rO |}.

  Definition dict_res (n_ev : Z) (r : res (list (Z * list R) * dict R)) : res (atable R) :=
    match r with
    | Ok (L, _) => Ok (dict_table L n_ev)
    | Err e => Err e
    end.

  (** the dict of dicts holds the weights of the labelled matrix: same outcomes
      in the same order, and row i yields the weight labelled c for every c
      (0 for a cue the matrix does not know) *)
  Definition represents (D : dict R) (M : matrix R) : Prop :=
    map fst D = m_outcomes M /\
    forall n o r, nth_error D n = Some (o, r) ->
                  forall c, row_fun R rO r c = Wlab R rO M (Z.of_nat n) c.

  (** all rows are plain dicts over exactly the cue labels of the matrix *)
  Definition plain_rows (D : dict R) (M : matrix R) : Prop :=
    forall o r, In (o, r) D -> d_default r = false /\ forall c, In c (d_keys r) <-> In c (m_cues M).

  (** all rows are defaultdict(float) / WeightDict rows *)
  Definition default_rows (D : dict R) : Prop :=
    forall o r, In (o, r) D -> d_default r = true.

  (** an event the matrix path accepts *)
  Definition event_ok (p : pol) (ignore : bool) (cues : list Z) (e : list Z) : Prop :=
    (p = PNone -> NoDup e) /\ (ignore = false -> forall c, In c e -> In c cues).
End Statements.
