(** Flat entry points of the C09 models (decoding glue only).
    input:  ctx ev a b cue lower dedup exists all_allowed
            lower table   n, then n times (c, len, chars)
            whitespace    len, chars
            allowed       len, chars     (ignored when all_allowed = 1)
            corpus        n, then n times (len, chars)
    output: 0 n (len chars)*   |  -1 1 (OSError)  |  -1 2 (IndexError)
    901: the loop-faithful model Preproc.create_event_file
    902: the documented model WindowSpec.spec_create *)
From Coq Require Import ZArith List Bool.
From PV Require Import Flat WindowSpec Preproc.
Import ListNotations.
Open Scope Z_scope.

Fixpoint mem_z9 (x : Z) (l : list Z) : bool :=
  match l with [] => false | y :: r => (x =? y) || mem_z9 x r end.

Fixpoint lookup_lower (tab : list (Z * list Z)) (c : Z) : list Z :=
  match tab with
  | [] => [c]
  | (k, v) :: r => if k =? c then v else lookup_lower r c
  end.

Definition out_result (r : result) : list Z :=
  match r with
  | ROSError => flat_err 1
  | RCrash => flat_err 2
  | RFile lines => 0 :: Z.of_nat (length lines) :: flat_map wr_list lines
  end.

Definition dec_opts (ctx ev a b cue lc dd : Z) : opts :=
  {| o_ctx := if ctx =? 0 then CtxDocument else CtxLine;
     o_ev := if ev =? 0 then EvConsecutive a else if ev =? 1 then EvW2W a b else EvLine;
     o_cue := if cue =? 0 then CueTrigrams else if cue =? 1 then CueBigrams else CueW2W;
     o_lower := negb (lc =? 0);
     o_dedup := negb (dd =? 0) |}.

Definition m_c09 (spec : bool) (inp : list Z) : list Z :=
  match inp with
  | ctx :: ev :: a :: b :: cue :: lc :: dd :: ex :: alla :: r0 =>
    match rd_seq (rd_pair rd_int rd_list) r0 with
    | Some (ltab, r1) =>
      match rd_list r1 with
      | Some (spaces, r2) =>
        match rd_list r2 with
        | Some (allow, r3) =>
          match rd_seq rd_list r3 with
          | Some (corpus, _) =>
            let lower := lookup_lower ltab in
            let is_space := fun c => mem_z9 c spaces in
            let allowed := fun c => if alla =? 0 then mem_z9 c allow else true in
            let o := dec_opts ctx ev a b cue lc dd in
            out_result (if spec
                        then spec_create lower is_space allowed o (negb (ex =? 0)) corpus
                        else create_event_file lower is_space allowed o (negb (ex =? 0)) corpus)
          | None => bad_case
          end
        | None => bad_case
        end
      | None => bad_case
      end
    | None => bad_case
    end
  | _ => bad_case
  end.

Definition run_c09 (id : Z) (inp : list Z) : option (list Z) :=
  if id =? 901 then Some (m_c09 false inp)
  else if id =? 902 then Some (m_c09 true inp)
  else None.
