(** Executable model of the binary event format of pyndl/preprocess.py
    ([write_events], [read_binary_file]) and of the parser shared by the four
    compiled kernels of pyndl/ndl_parallel.pyx.  Definitions only. *)
From Coq Require Import ZArith List Bool.
From PV Require Import Bytes.
Import ListNotations.
Open Scope Z_scope.

Definition MAGIC : Z := 14159265.
Definition VERSION : Z := 2263.            (* 2048 + 215 *)

Definition event := (list Z * list Z)%type.  (* cue ids, outcome ids *)

(** * Writer *)
Definition enc_ids (ids : list Z) : list Z :=
  to_bytes (Z.of_nat (length ids)) ++ flat_map to_bytes ids.
Definition enc_event (e : event) : list Z := enc_ids (fst e) ++ enc_ids (snd e).
Definition header : list Z := to_bytes MAGIC ++ to_bytes VERSION.
Definition enc_body (es : list event) : list Z := flat_map enc_event es.
Definition encode_n (n : Z) (es : list event) : list Z := header ++ to_bytes n ++ enc_body es.
Definition encode (es : list event) : list Z := encode_n (Z.of_nat (length es)) es.

(** what [to_bytes] accepts without OverflowError *)
Definition ids_ok (ids : list Z) : bool :=
  forallb fits32 ids && fits32 (Z.of_nat (length ids)).
Definition event_ok (e : event) : bool := ids_ok (fst e) && ids_ok (snd e).
Definition events_ok (es : list event) : bool :=
  forallb event_ok es && fits32 (Z.of_nat (length es)).

(** * Python reader: [read(4)] returns what is left, [from_bytes(b'')] is 0 *)
Definition read4 (l : list Z) : Z * list Z := (to_integer (firstn 4 l), skipn 4 l).

Fixpoint read_ids (k : nat) (l : list Z) : list Z * list Z :=
  match k with
  | O => ([], l)
  | S k' => let (x, r) := read4 l in
            let (xs, r') := read_ids k' r in (x :: xs, r')
  end.

Definition read_event (l : list Z) : event * list Z :=
  let (nc, r) := read4 l in
  let (cs, r1) := read_ids (Z.to_nat nc) r in
  let (no, r2) := read4 r1 in
  let (os, r3) := read_ids (Z.to_nat no) r2 in
  ((cs, os), r3).

Fixpoint read_events (n : nat) (l : list Z) : list event :=
  match n with
  | O => []
  | S n' => let (e, r) := read_event l in e :: read_events n' r
  end.

Inductive rd_result :=
| RdOk (es : list event)
| RdBadMagic
| RdBadVersion.

Definition py_read (l : list Z) : rd_result :=
  let (m, r) := read4 l in
  if m =? MAGIC then
    let (v, r1) := read4 r in
    if v =? VERSION then
      let (n, r2) := read4 r1 in RdOk (read_events (Z.to_nat n) r2)
    else RdBadVersion
  else RdBadMagic.

(** * Kernel parser (C): id buffers of capacity 1024 that are *replaced* by a
    larger one when an event needs more; reading more ids than the buffer holds
    is the explicit result [KOverflow] (memory corruption in C). *)
Inductive k_result :=
| KOk (es : list event)
| KMagic
| KVersion
| KOverflow.

Definition INITIAL_CAP : Z := 1024.

Definition k_read_ids (cap : Z) (l : list Z) : Z * option (list Z) * list Z :=
  let (n, r) := read4 l in
  let cap' := if cap <? n then n else cap in
  let (ids, r') := read_ids (Z.to_nat n) r in
  (cap', if n <=? cap' then Some ids else None, r').

Fixpoint k_events (n : nat) (capc capo : Z) (l : list Z) : option (list event) :=
  match n with
  | O => Some []
  | S n' =>
    match k_read_ids capc l with
    | (capc', Some cs, r1) =>
      match k_read_ids capo r1 with
      | (capo', Some os, r2) =>
        match k_events n' capc' capo' r2 with
        | Some es => Some ((cs, os) :: es)
        | None => None
        end
      | (_, None, _) => None
      end
    | (_, None, _) => None
    end
  end.

Definition k_parse (l : list Z) : k_result :=
  let (m, r) := read4 l in
  if m =? MAGIC then
    let (v, r1) := read4 r in
    if v =? VERSION then
      let (n, r2) := read4 r1 in
      match k_events (Z.to_nat n) INITIAL_CAP INITIAL_CAP r2 with
      | Some es => KOk es
      | None => KOverflow
      end
    else KVersion
  else KMagic.

(** * Lists of chunk files as seen by a learner entry point.
    [entry_first_error]: the behaviour of every entry point of the current
    tree - files are consumed in list order and the first header error ends
    the call with an I/O error.  [entry_last_error]: the logic of the four
    OpenMP entry points before the repair (finding F4): the error code of a
    file is overwritten by the next file, only the last one decides. *)
Definition hdr_error (l : list Z) : Z :=      (* error_codes.pxd *)
  match k_parse l with KMagic => 1 | KVersion => 2 | _ => 0 end.

Fixpoint entry_first_error (files : list (list Z)) : Z :=
  match files with
  | [] => 3                                   (* INITIAL_ERROR_CODE *)
  | f :: r => if hdr_error f =? 0
              then (match r with [] => 0 | _ => entry_first_error r end)
              else hdr_error f
  end.

Definition entry_last_error (files : list (list Z)) : Z :=
  fold_left (fun _ f => hdr_error f) files 3.

(** * Flat index of a weight cell, computed in [unsigned long long] *)
Definition flat_index (n_cues o c : Z) : Z := (n_cues * o + c) mod two64.
Definition flat_index_u32 (n_cues o c : Z) : Z := (n_cues * o + c) mod two32.

(** * [write_events] with its window and duplicate policy *)
Inductive pol := PNone | PTrue | PFalse.

Fixpoint mem_z (x : Z) (l : list Z) : bool :=
  match l with [] => false | y :: r => (x =? y) || mem_z x r end.

(** first occurrences, in order (Python's [set] order is unspecified: the
    harness compares such events as sets) *)
Fixpoint dedup (l : list Z) : list Z :=
  match l with
  | [] => []
  | x :: r => if mem_z x r then dedup r else x :: dedup r
  end.

Fixpoint nodup_b (l : list Z) : bool :=
  match l with [] => true | x :: r => negb (mem_z x r) && nodup_b r end.

Definition prep (p : pol) (e : event) : option event :=
  match p with
  | PNone => if nodup_b (fst e) && nodup_b (snd e) then Some e else None
  | PTrue => Some (dedup (fst e), dedup (snd e))
  | PFalse => Some e
  end.

Fixpoint prep_all (p : pol) (es : list event) : option (list event) :=
  match es with
  | [] => Some []
  | e :: r => match prep p e with
              | None => None
              | Some e' => match prep_all p r with
                           | None => None
                           | Some r' => Some (e' :: r')
                           end
              end
  end.

(** events start <= ii < stop; the bounds are clipped to the length of the list
    first so that the default stop = 4294967295 does not become a unary number *)
Definition window (es : list event) (start stop : Z) : list event :=
  let len := Z.of_nat (length es) in
  firstn (Z.to_nat (Z.min (stop - start) len)) (skipn (Z.to_nat (Z.min start len)) es).

Inductive w_result :=
| WReturn (n : Z) (file : option (list Z))   (* file removed when n = 0 *)
| WStop (n : Z) (file : list Z)              (* StopIteration((msg, n)) *)
| WValueError.                               (* duplicate under PNone *)

Definition write_events (es : list event) (start stop : Z) (p : pol) : w_result :=
  let w := window es start stop in
  match prep_all p w with
  | None => WValueError
  | Some w' =>
    let n := Z.of_nat (length w') in
    if n =? 0 then WReturn 0 None
    else if n =? stop - start then WReturn n (Some (encode_n n w'))
    else WStop n (encode_n n w')
  end.
