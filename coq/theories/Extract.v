(** Extraction of the executable models to OCaml.  Only [ExtrOcamlBasic];
    [Z], [positive], [nat], [Q], [Qc] stay the extracted Coq datatypes. *)
From Coq Require Import ExtrOcamlBasic.
From PV Require Import Run.
Extraction "models.ml" run_model.
