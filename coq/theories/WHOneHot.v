(** C14: with one-hot cue and/or outcome vectors the Widrow-Hoff rule is the
    Rescorla-Wagner rule with alpha = 1, beta1 = beta2 = eta, lambda = 1, after
    renaming vector dimensions to cue / outcome names. *)
From Coq Require Import ZArith List Bool Arith Lia Ring.
From PV Require Import Lists BinFmt RWSpec RWProofs RWLaws WHSpec.
Import ListNotations.

Section OneHot.
  Variable R : Type.
  Variables (rO rI : R) (radd rmul rsub : R -> R -> R) (ropp : R -> R).
  Hypothesis Rth : ring_theory rO rI radd rmul rsub ropp (@eq R).
  Add Ring RringH : Rth.

  Notation wfun := (wfun R).
  Notation sum_over := (sum_over R rO radd).
  Notation of_nat := (of_nat R rO rI radd).
  Notation learn := (learn R rO rI radd rmul rsub).
  Notation step := (step R rO rI radd rmul rsub).
  Local Infix "+r" := radd (at level 50, left associativity).
  Local Infix "*r" := rmul (at level 40, left associativity).
  Local Infix "-r" := rsub (at level 50, left associativity).

  Definition ind (a b : Z) : R := if Z.eqb a b then rI else rO.
  (** the one-hot table of an (injective) map name -> dimension *)
  Definition onehot (h : Z -> Z) : vtable R := fun name k => ind k (h name).

  Local Lemma so_cons f x r : sum_over f (x :: r) = f x +r sum_over f r.
  Proof. eapply sum_over_cons with (ropp := ropp); eauto. Qed.
  Local Lemma so_ext f g cs : (forall c, In c cs -> f c = g c) -> sum_over f cs = sum_over g cs.
  Proof. eapply sum_over_ext with (ropp := ropp); eauto. Qed.
  Local Lemma so_nil f : sum_over f [] = rO. Proof. reflexivity. Qed.

  Lemma so_add f g l : sum_over (fun c => f c +r g c) l = sum_over f l +r sum_over g l.
  Proof. induction l as [|x r IH]; [rewrite !so_nil; ring|]. rewrite !so_cons, IH. ring. Qed.

  Lemma so_zero_mul f l : sum_over (fun k => rO *r f k) l = rO.
  Proof. induction l as [|x r IH]; [reflexivity|]. rewrite so_cons, IH. ring. Qed.

  Lemma ind_sum_out (f : Z -> R) j cols : ~ In j cols -> sum_over (fun k => ind k j *r f k) cols = rO.
  Proof.
    induction cols as [|x r IH]; intros H; [reflexivity|]. rewrite so_cons, IH by (intro; apply H; now right).
    unfold ind. destruct (Z.eqb_spec x j) as [->|_]; [exfalso; apply H; now left|]. ring.
  Qed.

  Lemma ind_sum (f : Z -> R) j cols : NoDup cols -> In j cols -> sum_over (fun k => ind k j *r f k) cols = f j.
  Proof.
    induction cols as [|x r IH]; intros Hnd Hin; [destruct Hin|].
    inversion Hnd as [|? ? Hx Hr]; subst. rewrite so_cons. destruct Hin as [->|Hin].
    - rewrite ind_sum_out by exact Hx. unfold ind. rewrite Z.eqb_refl. ring.
    - rewrite IH by assumption. unfold ind. destruct (Z.eqb_spec x j) as [->|_]; [contradiction|]. ring.
  Qed.

  (** (W x)_row for x = sum of one-hot cue vectors is the sum of the cues' weights *)
  Lemma onehot_dot (h : Z -> Z) (f : Z -> R) cols cs :
    NoDup cols -> (forall c, In c cs -> In (h c) cols) ->
    sum_over (fun k => xvec R rO radd (onehot h) cs k *r f k) cols = sum_over (fun c => f (h c)) cs.
  Proof.
    intros Hnd. induction cs as [|c t IH]; intros Hin.
    - unfold xvec. rewrite so_nil. apply so_zero_mul.
    - unfold xvec in *. rewrite so_cons.
      rewrite (so_ext _ (fun k => ind k (h c) *r f k +r sum_over (fun c0 => onehot h c0 k) t *r f k)).
      + rewrite so_add. rewrite ind_sum; [|exact Hnd|apply Hin; now left].
        rewrite IH; [reflexivity|]. intros c' Hc'. apply Hin. now right.
      + intros k _. rewrite so_cons. unfold onehot. ring.
  Qed.

  (** x_(h c) counts the occurrences of c *)
  Lemma onehot_count (h : Z -> Z) c cs :
    (forall a b, h a = h b -> a = b) ->
    xvec R rO radd (onehot h) cs (h c) = of_nat (countz c cs).
  Proof.
    intros Hinj. unfold xvec. induction cs as [|x t IH]; [reflexivity|].
    rewrite so_cons, IH. cbn [countz]. unfold onehot, ind.
    destruct (Z.eqb_spec c x) as [->|Hne].
    - rewrite Z.eqb_refl. cbn [RWSpec.of_nat]. ring.
    - destruct (Z.eqb_spec (h c) (h x)) as [E|_]; [exfalso; apply Hne; now apply Hinj|]. ring.
  Qed.

  (** t_(h o) = 1 if o is present, 0 otherwise (outcomes unique within the event) *)
  Lemma onehot_target (h : Z -> Z) o outs :
    (forall a b, h a = h b -> a = b) -> NoDup outs ->
    tvec R rO radd (onehot h) outs (h o) = if mem_z o outs then rI else rO.
  Proof.
    intros Hinj Hnd. unfold tvec. induction outs as [|x t IH]; [reflexivity|].
    inversion Hnd as [|? ? Hx Ht]; subst. rewrite so_cons, (IH Ht). cbn [mem_z]. unfold onehot, ind.
    destruct (Z.eqb_spec o x) as [->|Hne]; cbn [orb].
    - rewrite Z.eqb_refl. apply mem_z_not_In in Hx. rewrite Hx. ring.
    - destruct (Z.eqb_spec (h o) (h x)) as [E|_]; [exfalso; apply Hne; now apply Hinj|].
      destruct (mem_z o t); ring.
  Qed.

  (** the Rescorla-Wagner parameters that Widrow-Hoff with unit vectors reproduces *)
  Definition rw_params (eta : R) : params R :=
    {| alpha := fun _ => rI; beta1 := eta; beta2 := eta; lam := rI |}.

  Definition outs_unique (es : list event) : Prop := Forall (fun e => NoDup (snd e)) es.

  (** ** binary cues, one-hot outcome vectors *)
  Theorem b2r_onehot (ho : Z -> Z) eta es (W W' : wfun) :
    (forall a b, ho a = ho b -> a = b) -> outs_unique es ->
    (forall o c, W' (ho o) c = W o c) ->
    forall o c, b2r_learn R rO rI radd rmul rsub eta (onehot ho) es W' (ho o) c = learn (rw_params eta) es W o c.
  Proof.
    intros Hinj Hu. revert W W'. induction Hu as [|e t He Ht IH]; intros W W' HW o c; [apply HW|].
    unfold b2r_learn in *. cbn [fold_left]. rewrite learn_cons. apply IH. intros o' c'.
    unfold b2r_step, RWSpec.step, RWSpec.delta, RWSpec.act, rw_params. cbn [alpha beta1 beta2 lam].
    rewrite onehot_target by assumption. rewrite HW.
    rewrite (so_ext (W' (ho o')) (W o')) by (intros; apply HW).
    destruct (mem_z o' (snd e)); ring.
  Qed.

  (** ** one-hot cue vectors, binary outcomes *)
  Definition cues_in (hc : Z -> Z) (cdims : list Z) (es : list event) : Prop :=
    Forall (fun e => forall c, In c (fst e) -> In (hc c) cdims) es.

  Theorem r2b_onehot (hc : Z -> Z) eta cdims es (W W' : wfun) :
    (forall a b, hc a = hc b -> a = b) -> NoDup cdims -> cues_in hc cdims es ->
    (forall o c, W' o (hc c) = W o c) ->
    forall o c, r2b_learn R rO radd rmul rsub eta eta rI (onehot hc) cdims es W' o (hc c) =
                learn (rw_params eta) es W o c.
  Proof.
    intros Hinj Hnd Hin. revert W W'. induction Hin as [|e t He Ht IH]; intros W W' HW o c; [apply HW|].
    unfold r2b_learn in *. cbn [fold_left]. rewrite learn_cons. apply IH. intros o' c'.
    unfold r2b_step, vstep, dotv, RWSpec.step, RWSpec.delta, RWSpec.act, rw_params. cbn [alpha beta1 beta2 lam].
    rewrite (onehot_dot hc (W' o') cdims (fst e) Hnd He), onehot_count by exact Hinj.
    rewrite HW. rewrite (so_ext (fun c0 => W' o' (hc c0)) (W o')) by (intros; apply HW).
    destruct (mem_z o' (snd e)); ring.
  Qed.

  (** ** one-hot cue vectors and one-hot outcome vectors *)
  Theorem r2r_onehot (hc ho : Z -> Z) eta cdims es (W W' : wfun) :
    (forall a b, hc a = hc b -> a = b) -> (forall a b, ho a = ho b -> a = b) ->
    NoDup cdims -> cues_in hc cdims es -> outs_unique es ->
    (forall o c, W' (ho o) (hc c) = W o c) ->
    forall o c, r2r_learn R rO radd rmul rsub eta (onehot hc) (onehot ho) cdims es W' (ho o) (hc c) =
                learn (rw_params eta) es W o c.
  Proof.
    intros Hic Hio Hnd Hin Hu. revert W W'.
    induction es as [|e t IH]; intros W W' HW o c; [apply HW|].
    inversion Hin as [|? ? He Ht]; subst. inversion Hu as [|? ? Hue Hut]; subst.
    unfold r2r_learn in *. cbn [fold_left]. rewrite learn_cons. apply (IH Ht Hut). intros o' c'.
    unfold r2r_step, vstep, dotv, RWSpec.step, RWSpec.delta, RWSpec.act, rw_params. cbn [alpha beta1 beta2 lam].
    rewrite (onehot_target ho o' (snd e) Hio Hue).
    rewrite (onehot_dot hc (W' (ho o')) cdims (fst e) Hnd He), (onehot_count hc c' (fst e) Hic).
    rewrite HW. rewrite (so_ext (fun c0 => W' (ho o') (hc c0)) (W o')) by (intros; apply HW).
    destruct (mem_z o' (snd e)); ring.
  Qed.
  (** ** the same, relative to sets of valid outcome / cue ids: all that is needed of the initial weights is that
      they agree on valid positions (flat kernel memories alias out-of-range positions) *)
  Definition cues_sat (Pc : Z -> Prop) (es : list event) : Prop := Forall (fun e => Forall Pc (fst e)) es.

  Theorem b2r_onehot_on (Po Pc : Z -> Prop) (ho : Z -> Z) eta es (W W' : wfun) :
    (forall a b, ho a = ho b -> a = b) -> outs_unique es -> cues_sat Pc es ->
    (forall o c, Po o -> Pc c -> W' (ho o) c = W o c) ->
    forall o c, Po o -> Pc c ->
      b2r_learn R rO rI radd rmul rsub eta (onehot ho) es W' (ho o) c = learn (rw_params eta) es W o c.
  Proof.
    intros Hinj Hu Hc. revert W W'.
    induction es as [|e t IH]; intros W W' HW o c Ho Hcc; [now apply HW|].
    inversion Hu as [|? ? Hue Hut]; subst. inversion Hc as [|? ? Hce Hct]; subst.
    unfold b2r_learn in *. cbn [fold_left]. rewrite learn_cons. apply (IH Hut Hct); [|assumption|assumption].
    intros o' c' Ho' Hc'.
    unfold b2r_step, RWSpec.step, RWSpec.delta, RWSpec.act, rw_params. cbn [alpha beta1 beta2 lam].
    rewrite onehot_target by assumption. rewrite HW by assumption.
    rewrite (so_ext (W' (ho o')) (W o')).
    - destruct (mem_z o' (snd e)); ring.
    - intros c0 Hc0. apply HW; [assumption|]. rewrite Forall_forall in Hce. now apply Hce.
  Qed.

  Theorem r2b_onehot_on (Po Pc : Z -> Prop) (hc : Z -> Z) eta cdims es (W W' : wfun) :
    (forall a b, hc a = hc b -> a = b) -> NoDup cdims -> cues_in hc cdims es -> cues_sat Pc es ->
    (forall o c, Po o -> Pc c -> W' o (hc c) = W o c) ->
    forall o c, Po o -> Pc c ->
      r2b_learn R rO radd rmul rsub eta eta rI (onehot hc) cdims es W' o (hc c) = learn (rw_params eta) es W o c.
  Proof.
    intros Hinj Hnd Hin Hc. revert W W'.
    induction es as [|e t IH]; intros W W' HW o c Ho Hcc; [now apply HW|].
    inversion Hin as [|? ? He Ht]; subst. inversion Hc as [|? ? Hce Hct]; subst.
    unfold r2b_learn in *. cbn [fold_left]. rewrite learn_cons. apply (IH Ht Hct); [|assumption|assumption].
    intros o' c' Ho' Hc'.
    unfold r2b_step, vstep, dotv, RWSpec.step, RWSpec.delta, RWSpec.act, rw_params. cbn [alpha beta1 beta2 lam].
    rewrite (onehot_dot hc (W' o') cdims (fst e) Hnd He), onehot_count by exact Hinj.
    rewrite HW by assumption. rewrite (so_ext (fun c0 => W' o' (hc c0)) (W o')).
    - destruct (mem_z o' (snd e)); ring.
    - intros c0 Hc0. apply HW; [assumption|]. rewrite Forall_forall in Hce. now apply Hce.
  Qed.

  Theorem r2r_onehot_on (Po Pc : Z -> Prop) (hc ho : Z -> Z) eta cdims es (W W' : wfun) :
    (forall a b, hc a = hc b -> a = b) -> (forall a b, ho a = ho b -> a = b) ->
    NoDup cdims -> cues_in hc cdims es -> outs_unique es -> cues_sat Pc es ->
    (forall o c, Po o -> Pc c -> W' (ho o) (hc c) = W o c) ->
    forall o c, Po o -> Pc c ->
      r2r_learn R rO radd rmul rsub eta (onehot hc) (onehot ho) cdims es W' (ho o) (hc c) =
      learn (rw_params eta) es W o c.
  Proof.
    intros Hic Hio Hnd Hin Hu Hc. revert W W'.
    induction es as [|e t IH]; intros W W' HW o c Ho Hcc; [now apply HW|].
    inversion Hin as [|? ? He Ht]; subst. inversion Hu as [|? ? Hue Hut]; subst.
    inversion Hc as [|? ? Hce Hct]; subst.
    unfold r2r_learn in *. cbn [fold_left]. rewrite learn_cons. apply (IH Ht Hut Hct); [|assumption|assumption].
    intros o' c' Ho' Hc'.
    unfold r2r_step, vstep, dotv, RWSpec.step, RWSpec.delta, RWSpec.act, rw_params. cbn [alpha beta1 beta2 lam].
    rewrite (onehot_target ho o' (snd e) Hio Hue).
    rewrite (onehot_dot hc (W' (ho o')) cdims (fst e) Hnd He), (onehot_count hc c' (fst e) Hic).
    rewrite HW by assumption. rewrite (so_ext (fun c0 => W' (ho o') (hc c0)) (W o')).
    - destruct (mem_z o' (snd e)); ring.
    - intros c0 Hc0. apply HW; [assumption|]. rewrite Forall_forall in Hce. now apply Hce.
  Qed.
End OneHot.
