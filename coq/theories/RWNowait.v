(** End to end for the lock-free worker protocol (get_nowait until queue.Empty): whatever the schedule of the
    threads' steps and whichever kernel calls would fail, if all threads have ended and no error was recorded the
    memory holds the sequential Rescorla-Wagner result for the call's outcomes and is untouched elsewhere. *)
From Coq Require Import ZArith List Bool Lia Ring_theory.
From PV Require Import Bytes BinFmt Store RWSpec RWExec RWProofs Sched SchedProofs QueueTrace QueueFaults QueueNowait
     QueueNowaitProofs RWMain.
Import ListNotations.

Theorem threading_nowait_workers_any_schedule :
  forall (R : Type) (rO rI : R) (radd rmul rsub : R -> R -> R) (ropp : R -> R),
    ring_theory rO rI radd rmul rsub ropp (@eq R) ->
  forall p n_cues all n es n_threads (fails : nat -> nat -> bool) sched m o c,
    (0 <= n_cues < two32)%Z -> NoDup all -> Forall oko32 all ->
    cues_ok (okc_n n_cues) es -> (1 <= n)%nat -> (1 <= n_threads)%nat ->
    let seqs := map (fun part => item_actions part es) (slice_list all n) in
    let s := nrun seqs fails sched (finit (seq 0 (length seqs)) n_threads) in
    f_all_done s = true -> call_raises s = None ->
    oko32 o -> okc_n n_cues c ->
    kget R rO n_cues (run_trace R rO radd rmul rsub (kstore R) (kget R rO n_cues) (kset R n_cues) p (wtrace (ws s)) m) o c =
    if mem_z o all then learn R rO rI radd rmul rsub p es (kget R rO n_cues m) o c
    else kget R rO n_cues m o c.
Proof.
  intros R rO rI radd rmul rsub ropp Rth p n_cues all n es n_threads fails sched m o c
         Hn Hnd Hall Hes Hn1 Hnt seqs s Hd Hnone Ho Hc.
  apply (threading_any_schedule R rO rI radd rmul rsub ropp Rth) with (n := n); try assumption.
  exact (proj1 (nowait_returns_only_if_no_failure seqs fails n_threads sched Hnt Hd Hnone)).
Qed.
