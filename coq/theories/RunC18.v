(** Flat entry points of the correlation models (C18).  Decoding glue only.
    1801: the kernel with given means/deviations, executed chunk after chunk.
          input : n n_out n_ev chunksize ; semantics (n rows of n_out num/den pairs) ;
                  activations (n rows of n_ev pairs) ; s_means s_stds (n_out pairs each) ;
                  a_means a_stds (n_ev pairs each)
          output: 0 :: cells [j][i] as num den
    1802: the wrapper on matrices whose entries are finite or NaN.
          input : allow_nan n n_out n_ev ; semantics, activations (entries: flag num den, flag 1 = NaN)
          output: [-1;1] ValueError (semantics) | [-1;2] ValueError (activations)
                  | 0 :: per cell [j][i]: kind (0 finite, 1 not finite) r2_num r2_den sign *)
From Coq Require Import ZArith List Bool QArith Qcanon.
From PV Require Import Flat RWQc Corr.
Import ListNotations.
Open Scope Z_scope.

Definition rd_row (cols : nat) : list Z -> option (list Qc * list Z) := rd_many rd_qc cols.
Definition rd_matrix (rows cols : nat) : list Z -> option (matrix * list Z) := rd_many (rd_row cols) rows.

Definition rd_fval (l : list Z) : option (fval * list Z) :=
  match l with f :: n :: d :: r => Some ((if f =? 1 then NaN else Fin (qc_of n d)), r) | _ => None end.
Definition rd_fmatrix (rows cols : nat) : list Z -> option (fmatrix * list Z) :=
  rd_many (rd_many rd_fval cols) rows.

Definition m_corr_kernel (inp : list Z) : list Z :=
  match inp with
  | zn :: zo :: ze :: zc :: r0 =>
    let n := Z.to_nat zn in let n_out := Z.to_nat zo in let n_ev := Z.to_nat ze in
    match rd_matrix n n_out r0 with | Some (sem, r1) =>
    match rd_matrix n n_ev r1 with | Some (act, r2) =>
    match rd_row n_out r2 with | Some (sm, r3) =>
    match rd_row n_out r3 with | Some (ss, r4) =>
    match rd_row n_ev r4 with | Some (am, r5) =>
    match rd_row n_ev r5 with | Some (as_, _) =>
      let st := {| s_means := sm; s_stds := ss; a_means := am; a_stds := as_ |} in
      let s := kernel_chunked (cell sem act n st) n_out n_ev (Z.to_nat zc) in
      0 :: flat_map wr_qc (read_out s n_out n_ev)
    | None => bad_case end | None => bad_case end | None => bad_case end
    | None => bad_case end | None => bad_case end | None => bad_case end
  | _ => bad_case
  end.

Definition wr_wcell (c : wcell) : list Z :=
  match c with
  | CNotFinite => [1; 0; 1; 0]
  | CR r2 s => [0; qc_num r2; qc_den r2; s]
  end.

Definition m_corr_wrapper (inp : list Z) : list Z :=
  match inp with
  | al :: zn :: zo :: ze :: r0 =>
    let n := Z.to_nat zn in let n_out := Z.to_nat zo in let n_ev := Z.to_nat ze in
    match rd_fmatrix n n_out r0 with | Some (sem, r1) =>
    match rd_fmatrix n n_ev r1 with | Some (act, _) =>
      match wrapper (al =? 1) sem act n n_out n_ev with
      | (WErrSemantics, _) => flat_err 1
      | (WErrActivations, _) => flat_err 2
      | (WCall, cells) => 0 :: flat_map wr_wcell cells
      end
    | None => bad_case end | None => bad_case end
  | _ => bad_case
  end.

Definition run_c18 (id : Z) (inp : list Z) : option (list Z) :=
  if id =? 1801 then Some (m_corr_kernel inp)
  else if id =? 1802 then Some (m_corr_wrapper inp)
  else None.
