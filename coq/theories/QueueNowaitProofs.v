(** The lock-free worker protocol (QueueNowait.v) inherits the theorems of the lock protocol. *)
From Coq Require Import List Arith Bool Lia.
From PV Require Import Lists Sched QueueProofs QueueTrace QueueFaults QueueNowait.
Import ListNotations.

Section NowaitProofs.
  Context {A : Type}.
  Variable seqs : list (list A).
  Variable fails : nat -> nat -> bool.
  Notation fstate := (@fstate A).
  Notation nrun := (nrun seqs fails).
  Notation nstep := (nstep seqs fails).
  Notation frun := (frun seqs fails).

  (** every run is a run of the lock machine *)
  Theorem nrun_is_frun : forall sched (s : fstate), nrun sched s = frun (expand seqs fails s sched) s.
  Proof.
    induction sched as [|t r IH]; intros s; [reflexivity|].
    cbn [QueueNowait.nrun fold_left expand]. fold (nrun r (nstep s t)). rewrite IH.
    unfold QueueFaults.frun at 2. rewrite fold_left_app. reflexivity.
  Qed.

  (** a call returns normally only if every action of every item ran and none raises *)
  Theorem nowait_returns_only_if_no_failure : forall n sched, 1 <= n ->
    let s := nrun sched (finit (seq 0 (length seqs)) n) in
    f_all_done s = true -> call_raises s = None ->
    interleaving seqs (wtrace (ws s)) /\
    (forall i k, i < length seqs -> k < length (nth i seqs []) -> fails i k = false).
  Proof.
    intros n sched Hn. cbv zeta. rewrite nrun_is_frun. apply (returns_only_if_no_failure seqs fails n _ Hn).
  Qed.

  Theorem nowait_failure_raises : forall n sched i k, 1 <= n ->
    i < length seqs -> k < length (nth i seqs []) -> fails i k = true ->
    let s := nrun sched (finit (seq 0 (length seqs)) n) in
    f_all_done s = true -> exists j, call_raises s = Some j.
  Proof.
    intros n sched i k Hn Hi Hk Hf. cbv zeta. rewrite nrun_is_frun.
    apply (failure_raises seqs fails n _ i k Hn Hi Hk Hf).
  Qed.

  (** bounded work: the stretched schedule has at most 5*items + 4*threads + #actions effective moves, and while a
      thread has neither left the loop nor died some thread can make one *)
  Theorem nowait_terminates : forall items n sched, NoDup items ->
    let s := nrun sched (finit items n) in
    feffective seqs fails items n (expand seqs fails (finit items n) sched) (finit items n)
      <= 5 * length items + 4 * n + QueueTrace.total seqs items /\
    (f_all_done s = false -> exists t, fphi seqs items n (fstep seqs fails s t) < fphi seqs items n s).
  Proof.
    intros items n sched Hnd. cbv zeta. rewrite nrun_is_frun. apply (fworker_terminates seqs fails items n _ Hnd).
  Qed.
End NowaitProofs.

(** * Faithfulness: a step of a thread that asks for work IS one atomic queue operation
      (the lock is free whenever nobody is in the middle of a stretched step) *)
Lemma set_pc_set_pc l t a b p : nth_error l t = Some p -> set_pc (set_pc l t a) t b = set_pc l t b.
Proof.
  intros H. unfold set_pc.
  assert (Hlt : t < length l) by (apply nth_error_Some; rewrite H; discriminate).
  assert (Hf : length (firstn t l) = t) by (rewrite firstn_length; lia).
  rewrite firstn_app, Hf, Nat.sub_diag, firstn_O, app_nil_r, firstn_firstn, Nat.min_id.
  f_equal. f_equal.
  replace (S t) with (length (firstn t l) + 1) at 1 by lia.
  rewrite skipn_app, Hf. replace (t + 1 - t) with 1 by lia. cbn [skipn].
  rewrite (skipn_all2 (firstn t l)) by lia. reflexivity.
Qed.

Section Take.
  Context {A : Type}.
  Variable seqs : list (list A).
  Variable fails : nat -> nat -> bool.
  Notation fstate := (@fstate A).
  Notation nstep := (nstep seqs fails).

  Theorem nstep_take_item (s : fstate) t i r :
    lock (qs (ws s)) = None -> at_start s t = true -> queue (qs (ws s)) = i :: r ->
    nstep s t =
    {| ws := {| qs := {| queue := r; lock := None; pcs := set_pc (pcs (qs (ws s))) t (PWork i);
                         finished := finished (qs (ws s)) |};
                prog := QueueTrace.upd (prog (ws s)) t 0; wtrace := wtrace (ws s) |};
       dead := dead s; errs := errs s |}.
  Proof.
    intros Hlock Hst Hq. unfold at_start in Hst. apply andb_true_iff in Hst. destruct Hst as [Hal Hpc].
    apply negb_true_iff in Hal.
    destruct (nth_error (pcs (qs (ws s))) t) as [p|] eqn:Hn; [|discriminate]. destruct p; try discriminate.
    unfold QueueNowait.nstep, moves, at_start. rewrite Hal, Hn. cbn [negb andb].
    destruct s as [[q pr tr] dd ee]. cbn [ws qs dead errs QueueTrace.qs QueueTrace.prog QueueTrace.wtrace] in *.
    destruct q as [qu lk pc fin]. cbn [queue lock pcs finished] in *. subst lk qu.
    unfold is_dead in Hal. cbn [dead] in Hal.
    unfold frun. cbn [fold_left].
    (* acquire *)
    unfold fstep at 4. unfold is_dead at 1. cbn [dead ws]. rewrite Hal.
    cbn [ws QueueTrace.qs pcs]. rewrite Hn. unfold wstep at 1. cbn [QueueTrace.qs pcs]. rewrite Hn.
    unfold qstep at 1. cbn [pcs lock queue finished]. rewrite Hn.
    (* empty() *)
    pose proof (set_pc_same pc t PLocked PStart Hn) as H1.
    unfold fstep at 3. unfold is_dead at 1. cbn [dead ws]. rewrite Hal.
    cbn [ws QueueTrace.qs pcs]. rewrite H1. unfold wstep at 1. cbn [QueueTrace.qs pcs]. rewrite H1.
    unfold qstep at 1. cbn [pcs lock queue finished]. rewrite H1.
    (* get() *)
    pose proof (set_pc_same (set_pc pc t PLocked) t PNonEmpty PLocked H1) as H2.
    unfold fstep at 2. unfold is_dead at 1. cbn [dead ws]. rewrite Hal.
    cbn [ws QueueTrace.qs pcs]. rewrite H2. unfold wstep at 1. cbn [QueueTrace.qs pcs]. rewrite H2.
    unfold qstep at 1. cbn [pcs lock queue finished]. rewrite H2.
    (* release *)
    pose proof (set_pc_same (set_pc (set_pc pc t PLocked) t PNonEmpty) t (PGot i) PNonEmpty H2) as H3.
    unfold fstep at 1. unfold is_dead at 1. cbn [dead ws]. rewrite Hal.
    cbn [ws QueueTrace.qs pcs]. rewrite H3. unfold wstep at 1. cbn [QueueTrace.qs pcs]. rewrite H3.
    unfold qstep at 1. cbn [pcs lock queue finished]. rewrite H3.
    cbn [ws QueueTrace.qs QueueTrace.prog QueueTrace.wtrace dead errs].
    rewrite (set_pc_set_pc _ t (PGot i) (PWork i) PNonEmpty H2).
    rewrite (set_pc_set_pc _ t PNonEmpty (PWork i) PLocked H1).
    rewrite (set_pc_set_pc _ t PLocked (PWork i) PStart Hn).
    reflexivity.
  Qed.
  Theorem nstep_take_empty (s : fstate) t :
    lock (qs (ws s)) = None -> at_start s t = true -> queue (qs (ws s)) = [] ->
    nstep s t =
    {| ws := {| qs := {| queue := []; lock := None; pcs := set_pc (pcs (qs (ws s))) t PDone;
                         finished := finished (qs (ws s)) |};
                prog := prog (ws s); wtrace := wtrace (ws s) |};
       dead := dead s; errs := errs s |}.
  Proof.
    intros Hlock Hst Hq. unfold at_start in Hst. apply andb_true_iff in Hst. destruct Hst as [Hal Hpc].
    apply negb_true_iff in Hal.
    destruct (nth_error (pcs (qs (ws s))) t) as [p|] eqn:Hn; [|discriminate]. destruct p; try discriminate.
    unfold QueueNowait.nstep, moves, at_start. rewrite Hal, Hn. cbn [negb andb].
    destruct s as [[q pr tr] dd ee]. cbn [ws qs dead errs QueueTrace.qs QueueTrace.prog QueueTrace.wtrace] in *.
    destruct q as [qu lk pc fin]. cbn [queue lock pcs finished] in *. subst lk qu.
    unfold is_dead in Hal. cbn [dead] in Hal.
    unfold frun. cbn [fold_left].
    (* acquire *)
    unfold fstep at 4. unfold is_dead at 1. cbn [dead ws]. rewrite Hal.
    cbn [ws QueueTrace.qs pcs]. rewrite Hn. unfold wstep at 1. cbn [QueueTrace.qs pcs]. rewrite Hn.
    unfold qstep at 1. cbn [pcs lock queue finished]. rewrite Hn.
    (* empty(): the queue is empty, the thread leaves the loop *)
    pose proof (set_pc_same pc t PLocked PStart Hn) as H1.
    unfold fstep at 3. unfold is_dead at 1. cbn [dead ws]. rewrite Hal.
    cbn [ws QueueTrace.qs pcs]. rewrite H1. unfold wstep at 1. cbn [QueueTrace.qs pcs]. rewrite H1.
    unfold qstep at 1. cbn [pcs lock queue finished]. rewrite H1.
    rewrite (set_pc_set_pc _ t PLocked PDone PStart Hn).
    (* two more moves of a thread that is done change nothing *)
    pose proof (set_pc_same pc t PDone PStart Hn) as H2.
    unfold fstep at 2. unfold is_dead at 1. cbn [dead ws]. rewrite Hal.
    cbn [ws QueueTrace.qs pcs]. rewrite H2. unfold wstep at 1. cbn [QueueTrace.qs pcs]. rewrite H2.
    unfold qstep at 1. cbn [pcs lock queue finished]. rewrite H2.
    unfold fstep at 1. unfold is_dead at 1. cbn [dead ws]. rewrite Hal.
    cbn [ws QueueTrace.qs pcs QueueTrace.prog QueueTrace.wtrace]. rewrite H2. unfold wstep at 1.
    cbn [QueueTrace.qs pcs QueueTrace.prog QueueTrace.wtrace]. rewrite H2.
    unfold qstep at 1. cbn [pcs lock queue finished]. rewrite H2.
    reflexivity.
  Qed.
  (** nobody is ever in the middle of the lock protocol between two steps of this machine *)
  Definition quiet (s : fstate) : Prop :=
    lock (qs (ws s)) = None /\
    forall t p, nth_error (pcs (qs (ws s))) t = Some p -> p = PStart \/ p = PDone \/ exists i, p = PWork i.

  Lemma quiet_set_pc (s : fstate) l t v p0 :
    (forall t' p, nth_error l t' = Some p -> p = PStart \/ p = PDone \/ exists i, p = PWork i) ->
    nth_error l t = Some p0 -> (v = PStart \/ v = PDone \/ exists i, v = PWork i) ->
    forall t' p, nth_error (set_pc l t v) t' = Some p -> p = PStart \/ p = PDone \/ exists i, p = PWork i.
  Proof.
    intros Hall Hn Hv t' p Hp. destruct (Nat.eq_dec t' t) as [->|Hne].
    - rewrite (set_pc_same l t v p0 Hn) in Hp. injection Hp as <-. exact Hv.
    - rewrite (set_pc_other l t v p0 t' Hn (not_eq_sym Hne)) in Hp. eapply Hall; eauto.
  Qed.

  Theorem quiet_nstep (s : fstate) t : quiet s -> quiet (nstep s t).
  Proof.
    intros [Hlock Hpcs]. destruct (at_start s t) eqn:Hst.
    - assert (Hn : nth_error (pcs (qs (ws s))) t = Some PStart).
      { unfold at_start in Hst. apply andb_true_iff in Hst. destruct Hst as [_ H].
        destruct (nth_error (pcs (qs (ws s))) t) as [[]|]; try discriminate. reflexivity. }
      destruct (queue (qs (ws s))) as [|i r] eqn:Hq.
      + rewrite (nstep_take_empty s t Hlock Hst Hq). split; [reflexivity|]. cbn [ws QueueTrace.qs pcs].
        eapply quiet_set_pc; eauto.
      + rewrite (nstep_take_item s t i r Hlock Hst Hq). split; [reflexivity|]. cbn [ws QueueTrace.qs pcs].
        eapply quiet_set_pc; eauto.
    - unfold QueueNowait.nstep, moves. rewrite Hst. unfold frun. cbn [fold_left].
      unfold fstep. destruct (is_dead s t) eqn:Hd; [split; assumption|].
      destruct (nth_error (pcs (qs (ws s))) t) as [p|] eqn:Hn.
      2:{ cbn [ws]. unfold wstep. rewrite Hn. cbn [QueueTrace.qs]. unfold qstep. rewrite Hn. split; assumption. }
      destruct (Hpcs t p Hn) as [->|[->|[i ->]]].
      + unfold at_start in Hst. rewrite Hd, Hn in Hst. discriminate.
      + cbn [ws]. unfold wstep. rewrite Hn. cbn [QueueTrace.qs]. unfold qstep. rewrite Hn. split; assumption.
      + destruct (nth_error (nth i seqs []) (prog (ws s) t)) as [a|] eqn:Ha.
        * destruct (fails i (prog (ws s) t)); [split; assumption|].
          cbn [ws]. unfold wstep. rewrite Hn, Ha. cbn [QueueTrace.qs]. split; assumption.
        * cbn [ws]. unfold wstep. rewrite Hn, Ha. cbn [QueueTrace.qs]. unfold qstep. rewrite Hn.
          cbn [lock pcs]. split; [exact Hlock|]. eapply quiet_set_pc; eauto.
  Qed.

  Theorem quiet_reachable items n sched : quiet (nrun seqs fails sched (finit items n)).
  Proof.
    assert (H0 : quiet (@finit A items n)).
    { split; [reflexivity|]. intros t p Hp. cbn in Hp. left. eapply nth_error_repeat; eauto. }
    revert H0. generalize (@finit A items n). induction sched as [|t r IH]; intros s Hs; [exact Hs|].
    cbn [QueueNowait.nrun fold_left]. apply IH. now apply quiet_nstep.
  Qed.
End Take.
