(** Flat entry point of the Widrow-Hoff kernel models (exact rationals).
    801: flavour (0 b2r, 1 r2b, 2 r2r) ; eta(2) b1(2) b2(2) lambda(2) ; n_cols n_cdims n_odims n_rows ;
         cue table (seq of id k num den) ; outcome table (seq of id k num den) ;
         files (seq of byte lists) ; initial cells (seq of row col num den) ; rows (list) ; cols (list)
    out: [err] ++ rows x cols values (num den) *)
From Coq Require Import ZArith List Bool QArith Qcanon.
From PV Require Import Flat Bytes BinFmt Store RWSpec RWExec RWQc WHSpec WHExec.
Import ListNotations.
Open Scope Z_scope.

Definition rd_tcell (l : list Z) : option ((Z * Z * Qc) * list Z) :=
  match l with i :: k :: n :: d :: r => Some ((i, k, qc_of n d), r) | _ => None end.

Definition build_table (n_dims : Z) (cells : list (Z * Z * Qc)) : ZM.t Qc :=
  fold_left (fun t x => match x with (i, k, v) => fset t ((n_dims * i + k) mod two64) v end) cells (ZM.empty Qc).

Definition m_wh (inp : list Z) : list Z :=
  match inp with
  | fl :: r0 =>
  match rd_qc r0 with | Some (eta, r1) =>
  match rd_qc r1 with | Some (b1, r2) =>
  match rd_qc r2 with | Some (b2, r3) =>
  match rd_qc r3 with | Some (la, n_cols :: n_cdims :: n_odims :: n_rows :: r4) =>
  match rd_seq rd_tcell r4 with | Some (ccells, r5) =>
  match rd_seq rd_tcell r5 with | Some (ocells, r6) =>
  match rd_seq rd_list r6 with | Some (files, r7) =>
  match rd_seq rd_cell r7 with | Some (cells, r8) =>
  match rd_list r8 with | Some (rows, r9) =>
  match rd_list r9 with | Some (cols, _) =>
    let flavour := if fl =? 0 then B2R else if fl =? 1 then R2B else R2R in
    let m0 := fold_left (fun m x => match x with (o, c, v) => kset Qc n_cols m o c v end) cells (ZM.empty Qc) in
    let (err, m) := wh_files Qc 0%Qc 1%Qc Qcplus Qcmult Qcminus flavour eta b1 b2 la
                             (build_table n_cdims ccells) (build_table n_odims ocells)
                             n_cols n_cdims n_odims n_rows files m0 in
    err :: flat_map (fun o => flat_map (fun c => wr_qc (q_kget n_cols m o c)) cols) rows
  | None => bad_case end | None => bad_case end | None => bad_case end | None => bad_case end
  | None => bad_case end | None => bad_case end | _ => bad_case end | None => bad_case end
  | None => bad_case end | None => bad_case end
  | [] => bad_case
  end.

Definition run_c08 (id : Z) (inp : list Z) : option (list Z) :=
  if id =? 801 then Some (m_wh inp) else None.
