(** Work distribution of the parallel learners (pyndl/ndl.py, ndl_openmp.pyx):
    [slice_list], the OpenMP part arithmetic in 32-bit words, work items as
    sequences of atomic row updates, interleavings.  Definitions only. *)
From Coq Require Import ZArith List Bool Arith.
From PV Require Import Bytes BinFmt Store RWSpec RWExec.
Import ListNotations.

(** * [ndl.slice_list]:  while ii < len(l): append(l[ii:ii+n]); ii += n *)
Fixpoint chunks_fuel {A} (fuel n : nat) (l : list A) : list (list A) :=
  match fuel with
  | O => []
  | S f => match l with
           | [] => []
           | _ => firstn n l :: chunks_fuel f n (skipn n l)
           end
  end.
Definition slice_list {A} (l : list A) (n : nat) : list (list A) := chunks_fuel (length l) n l.

(** * OpenMP parts: number_parts = ceil(len/chunk); start = ii*chunk;
      end = min(start+chunk, len), all in [unsigned int] *)
Open Scope Z_scope.
Definition u32 (x : Z) : Z := x mod two32.
Definition omp_number_parts (len chunk : Z) : Z := (len + chunk - 1) / chunk.
Definition omp_range (len chunk ii : Z) : Z * Z :=
  let start := u32 (ii * chunk) in
  (start, Z.min (u32 (start + chunk)) len).
Definition omp_ranges (len chunk : Z) : list (Z * Z) :=
  map (fun k => omp_range len chunk (Z.of_nat k)) (seq 0 (Z.to_nat (omp_number_parts len chunk))).
Definition omp_parts (all : list Z) (chunk : Z) : list (list Z) :=
  map (fun r => slice all (fst r) (snd r)) (omp_ranges (Z.of_nat (length all)) chunk).
Close Scope Z_scope.

(** * atomic actions: one outcome row trained on one event *)
Definition action := (Z * event)%type.
Definition arow (a : action) : Z := fst a.

(** the actions of one work item, in program order: for every event, for
    every outcome of the part *)
Definition item_actions (part : list Z) (es : list event) : list action :=
  flat_map (fun e => map (fun o => (o, e)) part) es.

(** a trace of tagged actions is an interleaving of the work items' sequences
    when its projection on every item is that item's sequence *)
Definition proj {A} (i : nat) (tr : list (nat * A)) : list A :=
  map snd (filter (fun x => Nat.eqb (fst x) i) tr).
Definition interleaving {A} (seqs : list (list A)) (tr : list (nat * A)) : Prop :=
  forall i, proj i tr = nth i seqs [].

(** index of the first part that contains the row *)
Fixpoint owner (parts : list (list Z)) (r : Z) : nat :=
  match parts with
  | [] => O
  | p :: rest => if mem_z r p then O else S (owner rest r)
  end.

Section Apply.
  Variable R : Type.
  Variables (rO : R) (radd rmul rsub : R -> R -> R).
  Variable S : Type.
  Variable g : S -> Z -> Z -> R.
  Variable st : S -> Z -> Z -> R -> S.
  Definition apply_action (p : params R) (s : S) (a : action) : S :=
    mx_outcome R rO radd rmul rsub S g st p (snd a) s (fst a).
  Definition run_trace (p : params R) (tr : list (nat * action)) (s : S) : S :=
    fold_left (apply_action p) (map snd tr) s.
End Apply.

(** * the work queue of method='threading' as a transition system.
    Threads run:  while True: { lock; if queue.empty(): unlock; break;
                                item = queue.get(); unlock; work(item) }  *)
Inductive pc :=
| PStart                (* about to acquire the lock *)
| PLocked               (* holds the lock, about to test empty() *)
| PNonEmpty             (* holds the lock, saw a non-empty queue, about to get() *)
| PGot (item : nat)     (* holds the lock and an item, about to release *)
| PWork (item : nat)    (* works on the item without the lock *)
| PDone
| PBlocked.             (* get() on an empty queue: blocks for ever *)

Record qstate := {
  queue : list nat;          (* items still in the queue *)
  lock : option nat;         (* thread holding the lock *)
  pcs : list pc;             (* control state per thread *)
  finished : list nat        (* items whose work is complete, in completion order *)
}.

Definition set_pc (l : list pc) (t : nat) (v : pc) : list pc :=
  firstn t l ++ v :: skipn (S t) l.

Definition qstep (use_lock : bool) (s : qstate) (t : nat) : qstate :=
  match nth_error (pcs s) t with
  | None => s
  | Some PStart =>
    if use_lock then
      match lock s with
      | None => {| queue := queue s; lock := Some t; pcs := set_pc (pcs s) t PLocked; finished := finished s |}
      | Some _ => s                 (* not enabled: waits for the lock *)
      end
    else {| queue := queue s; lock := lock s; pcs := set_pc (pcs s) t PLocked; finished := finished s |}
  | Some PLocked =>
    match queue s with
    | [] => {| queue := []; lock := (if use_lock then None else lock s);
               pcs := set_pc (pcs s) t PDone; finished := finished s |}
    | _ => {| queue := queue s; lock := lock s; pcs := set_pc (pcs s) t PNonEmpty; finished := finished s |}
    end
  | Some PNonEmpty =>
    match queue s with
    | [] => {| queue := []; lock := lock s; pcs := set_pc (pcs s) t PBlocked; finished := finished s |}
    | i :: r => {| queue := r; lock := lock s; pcs := set_pc (pcs s) t (PGot i); finished := finished s |}
    end
  | Some (PGot i) =>
    {| queue := queue s; lock := (if use_lock then None else lock s);
       pcs := set_pc (pcs s) t (PWork i); finished := finished s |}
  | Some (PWork i) =>
    {| queue := queue s; lock := lock s; pcs := set_pc (pcs s) t PStart; finished := finished s ++ [i] |}
  | Some PDone => s
  | Some PBlocked => s
  end.

Definition qinit (items : list nat) (n_threads : nat) : qstate :=
  {| queue := items; lock := None; pcs := repeat PStart n_threads; finished := [] |}.

Definition qrun (use_lock : bool) (sched : list nat) (s : qstate) : qstate :=
  fold_left (qstep use_lock) sched s.

Definition all_done (s : qstate) : bool :=
  forallb (fun p => match p with PDone => true | _ => false end) (pcs s).
Definition some_blocked (s : qstate) : bool :=
  existsb (fun p => match p with PBlocked => true | _ => false end) (pcs s).
