(** Flat entry points of the activation models (C12), instantiated with exact
    rationals.  Decoding glue only.
    error codes: [-1;3] ValueError (repeated cue), [-1;4] ValueError (shape),
                 [-1;5] KeyError, [-1;6] AssertionError
    1201: labelled-matrix path.
          input : pol ignore n_jobs n_rows n_cols ; outcome labels (list) ; cue labels (list) ;
                  values, n_rows*n_cols (num den) pairs in row-major order ; junk (num den) ;
                  completion order (seq of worker, event index) ; events (seq of lists)
          output: 0 :: outcome labels (list) ++ [n_events] ++ cells [i][e] as num den
    1202: dictionary path.
          input : pol n_jobs ; rows (seq of: outcome, default flag, keys (list), one num den per key) ;
                  events (seq of lists)
          output: 0 :: n_rows :: per row (outcome, values as a list of 2*n_events ints)
                    ++ per row the keys after the call (list)
    1203: one Rescorla-Wagner step next to the activation.
          input : alpha beta1 beta2 lam (num den each) ; cues (list) ; outcomes (list) of the event ;
                  rows (list) ; cols (list) ; W, |rows|*|cols| (num den) pairs
          output: 0 :: per row: activation (num den), then per col: step - W (num den) *)
From Coq Require Import ZArith List Bool QArith Qcanon.
From PV Require Import Flat BinFmt RWSpec RWQc Activation.
Import ListNotations.
Open Scope Z_scope.

Definition c12_pol (z : Z) : pol := if z =? 0 then PNone else if z =? 1 then PTrue else PFalse.

Definition c12_err (e : aerr) : list Z :=
  flat_err (match e with EDup => 3 | EShape => 4 | EKey => 5 | EAssert => 6 end).

Definition rd_pair_z (l : list Z) : option ((Z * Z) * list Z) :=
  match l with a :: b :: r => Some ((a, b), r) | _ => None end.

Definition q_nth (vals : list Qc) (k : Z) : Qc := nth (Z.to_nat k) vals 0%Qc.

Definition q_activation_matrix := activation_matrix Qc 0%Qc Qcplus.
Definition q_activation_dict := activation_dict Qc 0%Qc Qcplus.

Definition m_act_matrix (inp : list Z) : list Z :=
  match inp with
  | po :: ig :: n_jobs :: n_rows :: n_cols :: r0 =>
    match rd_list r0 with | Some (outs, r1) =>
    match rd_list r1 with | Some (cues, r2) =>
    match rd_many rd_qc (Z.to_nat (n_rows * n_cols)) r2 with | Some (vals, r3) =>
    match rd_qc r3 with | Some (junk, r4) =>
    match rd_seq rd_pair_z r4 with | Some (order, r5) =>
    match rd_seq rd_list r5 with | Some (evs, _) =>
      let M := {| m_outcomes := outs; m_cues := cues; m_rows := n_rows; m_cols := n_cols;
                  m_val := fun i k => q_nth vals (i * n_cols + k) |} in
      let p := c12_pol po in
      let ign := ig =? 1 in
      let tr := match indices_list p ign cues evs with
                | Ok ixs => map (fun we => (Z.to_nat (fst we), (snd we, nth (Z.to_nat (snd we)) ixs []))) order
                | Err _ => []
                end in
      match q_activation_matrix M p ign n_jobs (fun _ _ => junk) tr evs with
      | Err e => c12_err e
      | Ok A => 0 :: wr_list (a_outcomes A) ++ [a_events A]
                  ++ flat_map (fun i => flat_map (fun e => wr_qc (a_val A i e)) (zrange (a_events A)))
                              (zrange (zlen (a_outcomes A)))
      end
    | None => bad_case end | None => bad_case end | None => bad_case end
    | None => bad_case end | None => bad_case end | None => bad_case end
  | _ => bad_case
  end.

Fixpoint assoc_q (ks : list Z) (vs : list Qc) (c : Z) : Qc :=
  match ks, vs with
  | k :: ks', v :: vs' => if c =? k then v else assoc_q ks' vs' c
  | _, _ => 0%Qc
  end.

Definition rd_drow (l : list Z) : option ((Z * drow Qc) * list Z) :=
  match l with
  | o :: dflt :: r0 =>
    match rd_list r0 with
    | Some (keys, r1) =>
      match rd_many rd_qc (length keys) r1 with
      | Some (vals, r2) =>
        Some ((o, {| d_keys := keys; d_get := assoc_q keys vals; d_default := dflt =? 1 |}), r2)
      | None => None
      end
    | None => None
    end
  | _ => None
  end.

Definition m_act_dict (inp : list Z) : list Z :=
  match inp with
  | po :: n_jobs :: r0 =>
    match rd_seq rd_drow r0 with | Some (D, r1) =>
    match rd_seq rd_list r1 with | Some (evs, _) =>
      match q_activation_dict D (c12_pol po) n_jobs evs with
      | Err e => c12_err e
      | Ok (L, D') =>
        0 :: zlen L :: flat_map (fun ov => fst ov :: wr_list (flat_map wr_qc (snd ov))) L
          ++ flat_map (fun orow => wr_list (d_keys (snd orow))) D'
      end
    | None => bad_case end | None => bad_case end
  | _ => bad_case
  end.

Fixpoint index_of (x : Z) (l : list Z) (k : Z) : option Z :=
  match l with
  | [] => None
  | y :: r => if x =? y then Some k else index_of x r (k + 1)
  end.

Definition m_one_step (inp : list Z) : list Z :=
  match rd_qc inp with | Some (al, r0) =>
  match rd_qc r0 with | Some (b1, r1) =>
  match rd_qc r1 with | Some (b2, r2) =>
  match rd_qc r2 with | Some (la, r3) =>
  match rd_list r3 with | Some (cs, r4) =>
  match rd_list r4 with | Some (os, r5) =>
  match rd_list r5 with | Some (rows, r6) =>
  match rd_list r6 with | Some (cols, r7) =>
  match rd_many rd_qc (length rows * length cols) r7 with | Some (vals, _) =>
    let W : wfun Qc := fun o c =>
      match index_of o rows 0, index_of c cols 0 with
      | Some i, Some k => q_nth vals (i * zlen cols + k)
      | _, _ => 0%Qc
      end in
    let p := {| alpha := fun _ => al; beta1 := b1; beta2 := b2; lam := la |} in
    let e : event := (cs, os) in
    0 :: flat_map (fun o =>
           wr_qc (act Qc 0%Qc Qcplus W o cs)
           ++ flat_map (fun c => wr_qc (Qcminus (step Qc 0%Qc 1%Qc Qcplus Qcmult Qcminus p e W o c) (W o c))) cols)
         rows
  | None => bad_case end | None => bad_case end | None => bad_case end | None => bad_case end
  | None => bad_case end | None => bad_case end | None => bad_case end | None => bad_case end
  | None => bad_case
  end.

Definition run_c12 (id : Z) (inp : list Z) : option (list Z) :=
  if id =? 1201 then Some (m_act_matrix inp)
  else if id =? 1202 then Some (m_act_dict inp)
  else if id =? 1203 then Some (m_one_step inp)
  else None.
