(** Proofs about the activation model (property C12), for every commutative ring. *)
From Coq Require Import ZArith List Bool Lia Ring Permutation Arith.
From PV Require Import Lists BinFmt RWSpec RWProofs RWLaws RWMain Activation.
Import ListNotations.
Open Scope Z_scope.

(** * duplicate policy *)
Lemma dedup_length_le l : (length (dedup l) <= length l)%nat.
Proof.
  induction l as [|x r IH]; cbn; [lia|]. destruct (mem_z x r); cbn; lia.
Qed.

Lemma dedup_nodup_id l : NoDup l -> dedup l = l.
Proof.
  induction 1 as [|x r Hx _ IH]; [reflexivity|]. cbn.
  apply mem_z_not_In in Hx. now rewrite Hx, IH.
Qed.

Lemma dedup_length_eq l : length l = length (dedup l) <-> NoDup l.
Proof.
  induction l as [|x r IH]; cbn.
  - split; [constructor|reflexivity].
  - destruct (mem_z x r) eqn:Hm.
    + pose proof (dedup_length_le r). split; [lia|].
      intros H'. inversion H'; subst. apply mem_z_In in Hm. contradiction.
    + cbn. split.
      * intros E. constructor; [now apply mem_z_not_In|]. apply IH. lia.
      * intros H'. inversion H'; subst. f_equal. now apply IH.
Qed.

(** None raises exactly on a repeated cue, and otherwise passes the cues on unchanged *)
Lemma prep_cues_none cs : prep_cues PNone cs = None <-> ~ NoDup cs.
Proof.
  unfold prep_cues. destruct (Nat.eqb_spec (length cs) (length (dedup cs))) as [E|E].
  - apply dedup_length_eq in E. split; [discriminate|contradiction].
  - rewrite <- dedup_length_eq. tauto.
Qed.

Lemma prep_cues_some p cs cs' :
  prep_cues p cs = Some cs' -> cs' = prep_list p cs /\ (p = PNone -> NoDup cs /\ cs' = cs).
Proof.
  destruct p; cbn.
  - destruct (Nat.eqb_spec (length cs) (length (dedup cs))) as [E|E]; [|discriminate].
    intros [= <-]. split; [reflexivity|]. intros _. apply dedup_length_eq in E.
    split; [exact E|now apply dedup_nodup_id].
  - intros [= <-]. split; [reflexivity|discriminate].
  - intros [= <-]. split; [reflexivity|discriminate].
Qed.

Lemma prep_cues_total p cs : p <> PNone \/ NoDup cs -> prep_cues p cs = Some (prep_list p cs).
Proof.
  destruct p; cbn; try reflexivity. intros [H|H]; [congruence|].
  apply dedup_length_eq in H. apply Nat.eqb_eq in H. now rewrite H.
Qed.

(** what the three policies hand on *)
Lemma prep_list_spec p cs :
  (p <> PFalse -> NoDup (prep_list p cs) /\ forall c, In c (prep_list p cs) <-> In c cs) /\
  (p = PFalse -> prep_list p cs = cs).
Proof.
  destruct p; cbn; split; intros H; try congruence;
    (split; [apply dedup_NoDup|intros c; apply dedup_In]).
Qed.

Lemma prep_list_In p cs c : In c (prep_list p cs) <-> In c cs.
Proof. destruct p; cbn; try apply dedup_In; tauto. Qed.

(** * the label -> index map *)
Lemma cue_map_none cues ii c : cue_map cues ii c = None <-> ~ In c cues.
Proof.
  revert ii. induction cues as [|x r IH]; intros ii; cbn; [tauto|].
  destruct (cue_map r (ii + 1) c) eqn:E.
  - split; [discriminate|]. intros H. exfalso.
    assert (cue_map r (ii + 1) c = None) as E' by (apply IH; tauto). congruence.
  - apply IH in E. destruct (Z.eqb_spec c x) as [->|Hne].
    + split; [discriminate|]. intros H. exfalso. apply H. now left.
    + split; [|reflexivity]. intros _ [H|H]; [congruence|contradiction].
Qed.

Lemma cue_map_some cues ii c k :
  cue_map cues ii c = Some k ->
  ii <= k < ii + zlen cues /\ nth (Z.to_nat (k - ii)) cues (c + 1) = c.
Proof.
  revert ii. induction cues as [|x r IH]; intros ii; cbn [cue_map]; [discriminate|].
  unfold zlen. cbn [length]. destruct (cue_map r (ii + 1) c) eqn:E.
  - intros [= ->]. apply IH in E. unfold zlen in E. destruct E as [E1 E2]. split; [lia|].
    replace (Z.to_nat (k - ii)) with (S (Z.to_nat (k - (ii + 1)))) by lia. exact E2.
  - destruct (Z.eqb_spec c x) as [->|Hne]; [|discriminate].
    intros [= ->]. split; [lia|]. now rewrite Z.sub_diag.
Qed.

(** a label that occurs once is mapped to its position *)
Lemma cue_map_mem cues c : mem_z c cues = true <-> cue_map cues 0 c <> None.
Proof. rewrite mem_z_In, cue_map_none. destruct (In_dec Z.eq_dec c cues); tauto. Qed.

(** * enumerate *)
Lemma enum_from_fst {A} k (l : list A) : map fst (enum_from k l) = map (fun n => k + Z.of_nat n) (seq 0 (length l)).
Proof.
  revert k. induction l as [|x r IH]; intros k; [reflexivity|]. cbn. f_equal; [lia|].
  rewrite IH, <- seq_shift, map_map. apply map_ext. intros n. lia.
Qed.

Lemma enum_from_snd {A} k (l : list A) : map snd (enum_from k l) = l.
Proof. revert k. induction l as [|x r IH]; intros k; [reflexivity|]. cbn. now rewrite IH. Qed.

Lemma enum_from_in {A} k (l : list A) e x :
  In (e, x) (enum_from k l) -> k <= e < k + zlen l /\ nth_error l (Z.to_nat (e - k)) = Some x.
Proof.
  revert k. induction l as [|y r IH]; intros k; cbn; [tauto|]. unfold zlen. cbn [length].
  intros [[= <- <-]|H].
  - split; [lia|]. now rewrite Z.sub_diag.
  - apply IH in H. unfold zlen in H. destruct H as [H1 H2]. split; [lia|].
    replace (Z.to_nat (e - k)) with (S (Z.to_nat (e - (k + 1)))) by lia. exact H2.
Qed.

Lemma enum_from_nodup {A} k (l : list A) : NoDup (map fst (enum_from k l)).
Proof.
  revert k. induction l as [|y r IH]; intros k; cbn; [constructor|]. constructor; [|apply IH].
  intros H. apply in_map_iff in H. destruct H as [[e x] [E H]]. cbn in E. subst e.
  apply enum_from_in in H. lia.
Qed.

Lemma enum_from_nth {A} k (l : list A) n x :
  nth_error l n = Some x -> In (k + Z.of_nat n, x) (enum_from k l).
Proof.
  revert k n. induction l as [|y r IH]; intros k [|n]; cbn; try discriminate.
  - intros [= ->]. left. f_equal. lia.
  - intros H. right. replace (k + Z.pos (Pos.of_succ_nat n)) with ((k + 1) + Z.of_nat n) by lia.
    now apply IH.
Qed.

Lemma zrange_in n i : In i (zrange n) <-> 0 <= i < n.
Proof.
  unfold zrange. rewrite in_map_iff. split.
  - intros [k [<- H]]. apply in_seq in H. lia.
  - intros H. exists (Z.to_nat i). split; [lia|]. apply in_seq. lia.
Qed.

Lemma zrange_nodup n : NoDup (zrange n).
Proof.
  unfold zrange. apply FinFun.Injective_map_NoDup; [|apply seq_NoDup].
  intros a b H. lia.
Qed.

Lemma mem_z_app x a b : mem_z x (a ++ b) = mem_z x a || mem_z x b.
Proof. induction a as [|y r IH]; [reflexivity|]. cbn. now rewrite IH, orb_assoc. Qed.

Lemma Forall2_nth_error {A B} (P : A -> B -> Prop) l l' n a :
  Forall2 P l l' -> nth_error l n = Some a -> exists b, nth_error l' n = Some b /\ P a b.
Proof.
  intros H. revert n. induction H as [|x y l l' Hxy _ IH]; intros [|n]; cbn; try discriminate.
  - intros [= ->]. eauto.
  - apply IH.
Qed.

Lemma Forall2_length' {A B} (P : A -> B -> Prop) l l' : Forall2 P l l' -> length l = length l'.
Proof. induction 1; cbn; congruence. Qed.

Lemma nth_map_default {A B} (f : A -> B) l n d d' : f d' = d -> nth n (map f l) d = f (nth n l d').
Proof. intros <-. apply map_nth. Qed.

Lemma flat_index_inj n i e i' e' :
  0 <= e < n -> 0 <= e' < n -> i * n + e = i' * n + e' -> i = i' /\ e = e'.
Proof.
  intros He He' E. assert (i = i') as -> by nia. split; [reflexivity|lia].
Qed.

Section ActProofs.
  Variable R : Type.
  Variables (rO rI : R) (radd rmul rsub : R -> R -> R) (ropp : R -> R).
  Hypothesis Rth : ring_theory rO rI radd rmul rsub ropp (@eq R).
  Add Ring RringA : Rth.

  Notation sum_over := (sum_over R rO radd).
  Notation act := (act R rO radd).
  Notation matrix := (matrix R).
  Notation atable := (atable R).
  Notation Wlab := (Wlab R rO).
  Notation row_sum := (row_sum R rO radd).
  Notation single := (single R rO radd).
  Notation mp_task := (mp_task R rO radd).
  Notation mp_run := (mp_run R rO radd).
  Notation activation_matrix := (activation_matrix R rO radd).
  Notation activation_dict := (activation_dict R rO radd).
  Notation row_fun := (row_fun R rO).
  Notation d_lookup := (d_lookup R rO).
  Notation d_event := (d_event R rO radd).
  Notation d_row := (d_row R rO radd).
  Notation d_rows := (d_rows R rO radd).
  Local Infix "+r" := radd (at level 50, left associativity).
  Local Infix "*r" := rmul (at level 40, left associativity).
  Local Infix "-r" := rsub (at level 50, left associativity).

  Local Lemma so_cons f x r : sum_over f (x :: r) = f x +r sum_over f r.
  Proof. eapply sum_over_cons with (ropp := ropp); eauto. Qed.
  Local Lemma so_ext f g cs : (forall c, In c cs -> f c = g c) -> sum_over f cs = sum_over g cs.
  Proof. eapply sum_over_ext with (ropp := ropp); eauto. Qed.
  Local Lemma so_nil f : sum_over f [] = rO.
  Proof. reflexivity. Qed.

  (** cues that are filtered out contribute nothing when their weight is 0 *)
  Lemma sum_over_filter_zero f keep l :
    (forall c, In c l -> keep c = false -> f c = rO) ->
    sum_over f (filter keep l) = sum_over f l.
  Proof.
    induction l as [|x r IH]; intros H; [reflexivity|]. cbn [filter].
    assert (sum_over f (filter keep r) = sum_over f r) as IH'.
    { apply IH. intros c Hc. apply H. now right. }
    destruct (keep x) eqn:E.
    - now rewrite !so_cons, IH'.
    - rewrite so_cons, IH', (H x) by (auto; now left). ring.
  Qed.

  (** ** one event: the index tuple sums the labelled weights of the kept cues *)
  Definition lab (cues : list Z) (w : Z -> R) (c : Z) : R :=
    match cue_map cues 0 c with Some k => w k | None => rO end.

  Lemma event_indices_some (w : Z -> R) ign cues ecs ix :
    event_indices ign cues ecs = Some ix ->
    sum_over w ix = sum_over (lab cues w) (known cues ign ecs) /\
    Forall (fun k => 0 <= k < zlen cues) ix /\
    (ign = false -> forall c, In c ecs -> In c cues).
  Proof.
    revert ix. induction ecs as [|c r IH]; intros ix; cbn [event_indices].
    - intros [= <-]. repeat split; [destruct ign; reflexivity|constructor|intros _ c []].
    - destruct (ign && negb (mem_z c cues)) eqn:E.
      + apply andb_true_iff in E. destruct E as [-> E]. apply negb_true_iff in E.
        intros H. apply IH in H. destruct H as (H1 & H2 & _).
        repeat split; [|exact H2|discriminate].
        rewrite H1. cbn [known filter]. now rewrite E.
      + destruct (cue_map cues 0 c) as [k|] eqn:Ek; [|discriminate].
        destruct (event_indices ign cues r) as [l|] eqn:El; [|discriminate].
        intros [= <-]. destruct (IH l eq_refl) as (H1 & H2 & H3).
        assert (In c cues) as Hin.
        { destruct (In_dec Z.eq_dec c cues) as [i|n]; [exact i|].
          apply cue_map_none with (ii := 0) in n. congruence. }
        repeat split.
        * rewrite so_cons, H1.
          assert (known cues ign (c :: r) = c :: known cues ign r) as ->.
          { unfold known. destruct ign; [|reflexivity]. cbn [filter].
            apply mem_z_In in Hin. now rewrite Hin. }
          rewrite so_cons. unfold lab at 2. now rewrite Ek.
        * constructor; [|exact H2]. apply cue_map_some in Ek. lia.
        * intros Hi x [<-|Hx]; [exact Hin|now apply H3].
  Qed.

  Lemma event_indices_none ign cues ecs :
    event_indices ign cues ecs = None <-> ign = false /\ exists c, In c ecs /\ ~ In c cues.
  Proof.
    induction ecs as [|c r IH]; cbn [event_indices].
    - split; [discriminate|]. intros [_ [c [[] _]]].
    - destruct (ign && negb (mem_z c cues)) eqn:E.
      + apply andb_true_iff in E. destruct E as [-> E]. rewrite IH.
        split; intros [H _]; discriminate.
      + destruct (cue_map cues 0 c) as [k|] eqn:Ek.
        * assert (In c cues) as Hin.
          { destruct (In_dec Z.eq_dec c cues) as [i|n]; [exact i|].
            apply cue_map_none with (ii := 0) in n. congruence. }
          destruct (event_indices ign cues r) as [l|] eqn:El.
          -- split; [discriminate|]. intros [Hi [x [[<-|Hx] Hn]]]; [contradiction|].
             destruct IH as [_ IH].
             assert (Some l = None) as H0 by (apply IH; split; [exact Hi|now exists x]).
             discriminate H0.
          -- split; [|reflexivity]. intros _. destruct IH as [IH _].
             destruct (IH eq_refl) as [Hi [x [Hx Hn]]]. split; [exact Hi|]. exists x. split; [now right|exact Hn].
        * apply cue_map_none in Ek. split; [|reflexivity]. intros _.
          split.
          -- destruct ign; [|reflexivity]. cbn in E. apply negb_false_iff in E.
             apply mem_z_In in E. contradiction.
          -- exists c. split; [now left|exact Ek].
  Qed.

  (** ** the event pipeline *)
  Lemma indices_list_ok p ign cues evs ixs :
    indices_list p ign cues evs = Ok ixs ->
    Forall2 (fun e ix => event_ok p ign cues e /\
                         event_indices ign cues (prep_list p e) = Some ix) evs ixs.
  Proof.
    revert ixs. induction evs as [|e r IH]; intros ixs; cbn [indices_list].
    - intros [= <-]. constructor.
    - destruct (prep_cues p e) as [cs|] eqn:Ep; [|discriminate].
      destruct (event_indices ign cues cs) as [ix|] eqn:Ei; [|discriminate].
      destruct (indices_list p ign cues r) as [l|x] eqn:El; [|discriminate].
      intros [= <-]. constructor; [|now apply IH].
      apply prep_cues_some in Ep. destruct Ep as [-> Hn]. split; [|exact Ei].
      split; [intros Hp; now apply Hn|].
      intros Hi c Hc. pose proof (event_indices_some (fun _ => rO) _ _ _ _ Ei) as (_ & _ & H3).
      apply (H3 Hi). now apply prep_list_In.
  Qed.

  Lemma event_ok_indices p ign cues e :
    event_ok p ign cues e ->
    prep_cues p e = Some (prep_list p e) /\ exists ix, event_indices ign cues (prep_list p e) = Some ix.
  Proof.
    intros [H1 H2]. split.
    - apply prep_cues_total. destruct p; try (left; discriminate). right. now apply H1.
    - destruct (event_indices ign cues (prep_list p e)) as [ix|] eqn:E; [eauto|].
      apply event_indices_none in E. destruct E as [Hi [c [Hc Hn]]]. exfalso. apply Hn.
      apply (H2 Hi). now apply prep_list_In in Hc.
  Qed.

  (** the pipeline succeeds iff every event is acceptable *)
  Lemma indices_list_ok_iff p ign cues evs :
    (exists ixs, indices_list p ign cues evs = Ok ixs) <-> Forall (event_ok p ign cues) evs.
  Proof.
    split.
    - intros [ixs H]. apply indices_list_ok in H. induction H as [|e ix r l [He _] _ IH]; constructor; auto.
    - induction 1 as [|e r He _ [l IH]]; [now exists []|]. cbn [indices_list].
      destruct (event_ok_indices _ _ _ _ He) as [-> [ix ->]]. rewrite IH. eauto.
  Qed.

  (** ... and otherwise the FIRST event that is not acceptable decides the
      exception: a repeated cue under None is the ValueError, an unknown cue
      (without ignore_missing_cues) the KeyError *)
  Lemma indices_list_err p ign cues evs x :
    indices_list p ign cues evs = Err x <->
    exists good bad rest, evs = good ++ bad :: rest /\ Forall (event_ok p ign cues) good /\
      ((x = EDup /\ p = PNone /\ ~ NoDup bad) \/
       (x = EKey /\ (p = PNone -> NoDup bad) /\ ign = false /\ exists c, In c bad /\ ~ In c cues)).
  Proof.
    split.
    - revert x. induction evs as [|e r IH]; intros x; cbn [indices_list]; [discriminate|].
      destruct (prep_cues p e) as [cs|] eqn:Ep.
      + pose proof Ep as Ep'. apply prep_cues_some in Ep'. destruct Ep' as [-> Hn].
        destruct (event_indices ign cues (prep_list p e)) as [ix|] eqn:Ei.
        * destruct (indices_list p ign cues r) as [l|y] eqn:El; [discriminate|].
          intros [= <-]. destruct (IH y eq_refl) as (good & bad & rest & -> & Hg & Hb).
          exists (e :: good), bad, rest. repeat split; [|exact Hb].
          constructor; [|exact Hg]. split; [intros Hp; now apply Hn|].
          intros Hi c Hc. pose proof (event_indices_some (fun _ => rO) _ _ _ _ Ei) as (_ & _ & H3).
          apply (H3 Hi). now apply prep_list_In.
        * intros [= <-]. exists [], e, r. repeat split; [constructor|]. right.
          apply event_indices_none in Ei. destruct Ei as [Hi [c [Hc Hnc]]].
          repeat split; [intros Hp; now apply Hn|exact Hi|]. exists c. split; [|exact Hnc].
          now apply prep_list_In in Hc.
      + intros [= <-]. exists [], e, r. repeat split; [constructor|]. left.
        destruct p; try discriminate. apply prep_cues_none in Ep. auto.
    - intros (good & bad & rest & -> & Hg & Hb). induction Hg as [|e g He _ IH]; cbn [app indices_list].
      + destruct Hb as [(-> & -> & Hb)|(-> & H1 & -> & c & Hc & Hn)].
        * apply prep_cues_none in Hb. now rewrite Hb.
        * rewrite prep_cues_total by (destruct p; try (left; discriminate); right; now apply H1).
          assert (event_indices false cues (prep_list p bad) = None) as ->; [|reflexivity].
          apply event_indices_none. split; [reflexivity|]. exists c. split; [|exact Hn].
          now apply prep_list_In.
      + destruct (event_ok_indices _ _ _ _ He) as [-> [ix ->]]. now rewrite IH.
  Qed.

  Lemma indices_list_length p ign cues evs ixs :
    indices_list p ign cues evs = Ok ixs -> length ixs = length evs.
  Proof. intros H. apply indices_list_ok in H. symmetry. eapply Forall2_length'; eauto. Qed.

  (** ** n_jobs = 1: after the loop column e holds the row sums of event e,
      whatever np.empty contained *)
  Lemma single_from w l k (b : buf2 R) i e :
    fold_left (fun b t => set_col R b (fst t) (fun i => row_sum w i (snd t))) (enum_from k l) b i e =
    if (k <=? e) && (e <? k + zlen l) then row_sum w i (nth (Z.to_nat (e - k)) l []) else b i e.
  Proof.
    revert k b. induction l as [|x r IH]; intros k b.
    - cbn. unfold zlen. cbn. destruct (k <=? e) eqn:E1, (e <? k + 0) eqn:E2; try reflexivity. lia.
    - cbn [enum_from fold_left fst snd]. rewrite IH. unfold zlen. cbn [length].
      unfold set_col.
      destruct (Z.eqb_spec e k) as [->|Hne].
      + destruct (Z.leb_spec (k + 1) k), (Z.leb_spec k k), (Z.ltb_spec k (k + Z.of_nat (S (length r))));
          cbn [andb]; try lia. now rewrite Z.sub_diag.
      + destruct (Z.leb_spec (k + 1) e), (Z.ltb_spec e (k + 1 + Z.of_nat (length r))),
                 (Z.leb_spec k e), (Z.ltb_spec e (k + Z.of_nat (S (length r)))); cbn [andb]; try lia;
          try reflexivity.
        replace (Z.to_nat (e - k)) with (S (Z.to_nat (e - (k + 1)))) by lia. reflexivity.
  Qed.

  Lemma single_spec w ixs junk i e :
    0 <= e < zlen ixs -> single w ixs junk i e = row_sum w i (nth (Z.to_nat e) ixs []).
  Proof.
    intros He. unfold Activation.single. rewrite single_from.
    destruct (Z.leb_spec 0 e), (Z.ltb_spec e (0 + zlen ixs)); cbn [andb]; try lia.
    now rewrite Z.sub_0_r.
  Qed.

  (** ** n_jobs > 1 *)
  Lemma flat_roundtrip cols (w : Z -> Z -> R) i j :
    0 <= j < cols -> unflat R cols (flat_of R cols w) i j = w i j.
  Proof.
    intros Hj. unfold unflat, flat_of. f_equal.
    - rewrite Z.div_add_l by lia. rewrite Z.div_small by lia. lia.
    - rewrite Z.add_comm, Z.mod_add by lia. now apply Z.mod_small.
  Qed.

  Lemma row_sum_ext w w' i ix :
    (forall k, In k ix -> w i k = w' i k) -> row_sum w i ix = row_sum w' i ix.
  Proof. intros H. unfold Activation.row_sum. now apply so_ext. Qed.

  Lemma fold_upd_notin (g : Z -> Z) (v : Z -> R) l b k :
    (forall i, In i l -> g i <> k) ->
    fold_left (fun b i => upd R b (g i) (v i)) l b k = b k.
  Proof.
    revert b. induction l as [|x r IH]; intros b H; [reflexivity|]. cbn [fold_left].
    rewrite IH by (intros i Hi; apply H; now right). unfold upd.
    destruct (Z.eqb_spec k (g x)) as [E|]; [|reflexivity]. exfalso. apply (H x); [now left|auto].
  Qed.

  Lemma fold_upd_in (g : Z -> Z) (v : Z -> R) l b i :
    NoDup l -> (forall a a', In a l -> In a' l -> g a = g a' -> a = a') -> In i l ->
    fold_left (fun b i => upd R b (g i) (v i)) l b (g i) = v i.
  Proof.
    revert b. induction l as [|x r IH]; intros b Hnd Hinj Hi; [destruct Hi|]. cbn [fold_left].
    inversion Hnd as [|? ? Hx Hr]; subst. destruct Hi as [->|Hi].
    - rewrite fold_upd_notin.
      + unfold upd. now rewrite Z.eqb_refl.
      + intros a Ha E. apply Hx. rewrite <- (Hinj a i); auto; [now right|now left].
    - apply IH; auto. intros a a' Ha Ha'. apply Hinj; now right.
  Qed.

  Lemma mp_task_same n_out n_ev cols fw b (t : task) i :
    0 <= fst t < n_ev -> 0 <= i < n_out ->
    mp_task n_out n_ev cols fw b t (i * n_ev + fst t) = row_sum (unflat R cols fw) i (snd t).
  Proof.
    intros He Hi. unfold Activation.mp_task.
    apply (fold_upd_in (fun i => i * n_ev + fst t) (fun i => row_sum (unflat R cols fw) i (snd t))).
    - apply zrange_nodup.
    - intros a a' _ _ E. apply (flat_index_inj n_ev a (fst t) a' (fst t)); auto.
    - now apply zrange_in.
  Qed.

  Lemma mp_task_other n_out n_ev cols fw b (t : task) i e :
    0 <= fst t < n_ev -> 0 <= e < n_ev -> e <> fst t ->
    mp_task n_out n_ev cols fw b t (i * n_ev + e) = b (i * n_ev + e).
  Proof.
    intros Ht He Hne. unfold Activation.mp_task.
    apply (fold_upd_notin (fun i => i * n_ev + fst t)).
    intros a _ E. apply flat_index_inj in E; auto. destruct E as [_ E]. congruence.
  Qed.

  Lemma mp_frame n_out n_ev cols fw (tr : list (nat * task)) b i e :
    0 <= e < n_ev ->
    (forall t, In t (map snd tr) -> 0 <= fst t < n_ev /\ fst t <> e) ->
    fold_left (fun b wt => mp_task n_out n_ev cols fw b (snd wt)) tr b (i * n_ev + e) = b (i * n_ev + e).
  Proof.
    intros He. revert b. induction tr as [|[w t] r IH]; intros b H; [reflexivity|]. cbn [fold_left snd].
    rewrite IH by (intros t' Ht'; apply H; now right).
    destruct (H t) as [H1 H2]; [now left|]. apply mp_task_other; auto.
  Qed.

  Lemma mp_fold_spec n_out n_ev cols fw (tr : list (nat * task)) b i e ix :
    NoDup (map fst (map snd tr)) ->
    (forall t, In t (map snd tr) -> 0 <= fst t < n_ev) ->
    In (e, ix) (map snd tr) -> 0 <= i < n_out ->
    fold_left (fun b wt => mp_task n_out n_ev cols fw b (snd wt)) tr b (i * n_ev + e) =
    row_sum (unflat R cols fw) i ix.
  Proof.
    revert b. induction tr as [|[w t] r IH]; intros b Hnd Hrange Hin Hi; [destruct Hin|].
    cbn [map snd fst] in *. cbn [fold_left snd].
    inversion Hnd as [|? ? Hx Hr]; subst.
    destruct (Hrange (e, ix)) as [He1 He2]; [exact Hin|]. cbn [fst] in He1, He2.
    assert (In (e, ix) (map snd r) \/ (t = (e, ix) /\ ~ In e (map fst (map snd r)))) as [Hr'|[-> Hne]].
    { destruct Hin as [->|Hin]; [right; split; [reflexivity|exact Hx]|now left]. }
    - apply IH; auto. intros t' Ht'. apply Hrange. now right.
    - rewrite mp_frame.
      + apply (mp_task_same n_out n_ev cols fw b (e, ix)); cbn [fst]; auto.
      + lia.
      + intros t' Ht'. split; [apply Hrange; now right|].
        intros E. apply Hne. rewrite <- E. now apply in_map.
  Qed.

  (** every run of the pool leaves the row sums of event e in column e *)
  Lemma mp_run_spec n_out cols (w : Z -> Z -> R) ixs tr i e :
    pool_trace ixs tr -> Forall (Forall (fun k => 0 <= k < cols)) ixs ->
    0 <= i < n_out -> 0 <= e < zlen ixs ->
    unflat R (zlen ixs) (mp_run n_out (zlen ixs) cols (flat_of R cols w) tr) i e =
    row_sum w i (nth (Z.to_nat e) ixs []).
  Proof.
    intros Hp Hix Hi He. unfold pool_trace in Hp. unfold unflat at 1, Activation.mp_run.
    assert (nth_error ixs (Z.to_nat e) = Some (nth (Z.to_nat e) ixs [])) as Hn.
    { apply nth_error_nth'. unfold zlen in He. lia. }
    rewrite (mp_fold_spec n_out (zlen ixs) cols _ tr _ i e (nth (Z.to_nat e) ixs [])).
    - apply row_sum_ext. intros k Hk. apply flat_roundtrip.
      apply nth_error_In in Hn. rewrite Forall_forall in Hix. specialize (Hix _ Hn).
      rewrite Forall_forall in Hix. now apply Hix.
    - apply (Permutation_NoDup (l := map fst (enum_from 0 ixs))); [|apply enum_from_nodup].
      apply Permutation_map. now apply Permutation_sym.
    - intros [e' x] Ht. apply (Permutation_in _ Hp) in Ht. apply enum_from_in in Ht. cbn [fst]. lia.
    - apply (Permutation_in _ (Permutation_sym Hp)).
      pose proof (enum_from_nth 0 ixs _ _ Hn) as H. replace (0 + Z.of_nat (Z.to_nat e)) with e in H by lia.
      exact H.
    - exact Hi.
  Qed.

  Lemma Forall2_nth' {A B} (P : A -> B -> Prop) l l' n d d' :
    Forall2 P l l' -> (n < length l)%nat -> P (nth n l d) (nth n l' d').
  Proof.
    intros H. revert n. induction H as [|x y l l' Hxy _ IH]; intros [|n]; cbn; try lia; auto.
    intros Hn. apply IH. lia.
  Qed.

  (** ** the matrix path as a whole *)
  Lemma shape_ok_dims (M : matrix) :
    shape_ok R M = true -> m_rows M = zlen (m_outcomes M) /\ m_cols M = zlen (m_cues M).
  Proof. unfold shape_ok. rewrite andb_true_iff, !Z.eqb_eq. tauto. Qed.

  (** both ways of filling the table put the row sum of event e into cell (i, e) *)
  Lemma act_cell (M : matrix) p ign n_jobs junk tr evs ixs i e :
    shape_ok R M = true -> valid_run R M p ign n_jobs tr evs ->
    indices_list p ign (m_cues M) evs = Ok ixs ->
    0 <= i < zlen (m_outcomes M) -> 0 <= e < zlen ixs ->
    (if n_jobs =? 1 then single (m_val M) ixs junk
     else unflat R (zlen ixs) (mp_run (m_rows M) (zlen ixs) (m_cols M)
                                      (flat_of R (m_cols M) (m_val M)) tr)) i e =
    row_sum (m_val M) i (nth (Z.to_nat e) ixs []).
  Proof.
    intros Hs [Hj Htr] Hix Hi He. destruct (shape_ok_dims M Hs) as [Hr Hc].
    destruct (Z.eqb_spec n_jobs 1) as [->|Hne].
    - now apply single_spec.
    - apply mp_run_spec; auto; [apply Htr; [lia|exact Hix]| |lia].
      apply indices_list_ok in Hix. rewrite Hc. clear - Hix Rth.
      induction Hix as [|ev ix r l [_ H] _ IH]; constructor; [|exact IH].
      now pose proof (event_indices_some (fun _ => rO) _ _ _ _ H) as (_ & H2 & _).
  Qed.

  Lemma row_sum_labelled (M : matrix) p ign evs ixs i e :
    indices_list p ign (m_cues M) evs = Ok ixs -> 0 <= e < zlen evs ->
    row_sum (m_val M) i (nth (Z.to_nat e) ixs []) =
    act (Wlab M) i (known (m_cues M) ign (prep_list p (nth (Z.to_nat e) evs []))).
  Proof.
    intros Hix He. apply indices_list_ok in Hix.
    pose proof (Forall2_nth' _ _ _ (Z.to_nat e) [] [] Hix) as H.
    destruct H as [_ H]; [unfold zlen in He; lia|].
    pose proof (event_indices_some (m_val M i) _ _ _ _ H) as (H1 & _ & _).
    unfold Activation.row_sum. rewrite H1. reflexivity.
  Qed.

  (** C12_matrix: every cell of the returned table is the sum of the labelled
      weights of row i over the prepared cues of event e *)
  Theorem act_matrix_spec (M : matrix) p ign n_jobs junk tr evs :
    shape_ok R M = true -> valid_run R M p ign n_jobs tr evs ->
    match activation_matrix M p ign n_jobs junk tr evs with
    | Ok A =>
      Forall (event_ok p ign (m_cues M)) evs /\
      a_outcomes A = m_outcomes M /\ a_events A = zlen evs /\
      forall i e, 0 <= i < zlen (m_outcomes M) -> 0 <= e < zlen evs ->
        a_val A i e = act (Wlab M) i (known (m_cues M) ign (prep_list p (nth (Z.to_nat e) evs [])))
    | Err x => (x = EDup \/ x = EKey) /\ ~ Forall (event_ok p ign (m_cues M)) evs
    end.
  Proof.
    intros Hs Hv. unfold Activation.activation_matrix. rewrite Hs.
    destruct (indices_list p ign (m_cues M) evs) as [ixs|x] eqn:Hix.
    - destruct Hv as [Hj Htr]. destruct (Z.ltb_spec n_jobs 1); [lia|].
      pose proof (indices_list_length _ _ _ _ _ Hix) as Hl.
      assert (zlen ixs = zlen evs) as Hz by (unfold zlen; now rewrite Hl).
      repeat split.
      + apply indices_list_ok_iff. eauto.
      + cbn. exact Hz.
      + intros i e Hi He. cbn [a_val].
        transitivity (row_sum (m_val M) i (nth (Z.to_nat e) ixs [])).
        * apply (act_cell M p ign n_jobs junk tr evs ixs i e); auto; [now split|lia].
        * now apply row_sum_labelled.
    - split.
      + apply indices_list_err in Hix. destruct Hix as (_ & _ & _ & _ & _ & [(-> & _)|(-> & _)]); auto.
      + intros HF. apply indices_list_ok_iff in HF. destruct HF as [ixs HF]. congruence.
  Qed.

  (** C12_paths_agree (matrix part): one process with any buffer content and
      every run of the pool give the same result *)
  Theorem act_paths_agree (M : matrix) p ign nj1 junk1 tr1 nj2 junk2 tr2 evs :
    shape_ok R M = true ->
    valid_run R M p ign nj1 tr1 evs -> valid_run R M p ign nj2 tr2 evs ->
    same_res R (activation_matrix M p ign nj1 junk1 tr1 evs)
               (activation_matrix M p ign nj2 junk2 tr2 evs).
  Proof.
    intros Hs Hv1 Hv2. unfold Activation.activation_matrix. rewrite Hs.
    destruct (indices_list p ign (m_cues M) evs) as [ixs|x] eqn:Hix; [|reflexivity].
    destruct (Z.ltb_spec nj1 1); [destruct Hv1; lia|].
    destruct (Z.ltb_spec nj2 1); [destruct Hv2; lia|].
    cbn [same_res]. repeat split. cbn [a_outcomes a_events a_val]. intros i e Hi He.
    transitivity (row_sum (m_val M) i (nth (Z.to_nat e) ixs [])).
    - apply (act_cell M p ign nj1 junk1 tr1 evs ixs i e); auto.
    - symmetry. apply (act_cell M p ign nj2 junk2 tr2 evs ixs i e); auto.
  Qed.

  (** which exception: the first event that is not acceptable decides *)
  Theorem act_errors (M : matrix) p ign n_jobs junk tr evs x :
    shape_ok R M = true -> 1 <= n_jobs ->
    (activation_matrix M p ign n_jobs junk tr evs = Err x <->
     exists good bad rest, evs = good ++ bad :: rest /\ Forall (event_ok p ign (m_cues M)) good /\
       ((x = EDup /\ p = PNone /\ ~ NoDup bad) \/
        (x = EKey /\ (p = PNone -> NoDup bad) /\ ign = false /\
         exists c, In c bad /\ ~ In c (m_cues M)))).
  Proof.
    intros Hs Hj. rewrite <- indices_list_err. unfold Activation.activation_matrix. rewrite Hs.
    destruct (indices_list p ign (m_cues M) evs) as [ixs|y]; [|split; intros [= ->]; reflexivity].
    destruct (Z.ltb_spec n_jobs 1); [lia|]. split; discriminate.
  Qed.

  Lemma Wlab_unknown (M : matrix) i c : ~ In c (m_cues M) -> Wlab M i c = rO.
  Proof. intros H. unfold Activation.Wlab. apply cue_map_none with (ii := 0) in H. now rewrite H. Qed.

  (** C12_missing_cue *)
  Theorem act_missing_cue (M : matrix) p ign n_jobs junk tr evs :
    shape_ok R M = true -> valid_run R M p ign n_jobs tr evs ->
    (p = PNone -> Forall (@NoDup Z) evs) ->
    (activation_matrix M p ign n_jobs junk tr evs = Err EKey <->
     ign = false /\ exists e c, In e evs /\ In c e /\ ~ In c (m_cues M)) /\
    (ign = true ->
     exists A, activation_matrix M p ign n_jobs junk tr evs = Ok A /\
       forall i e, 0 <= i < zlen (m_outcomes M) -> 0 <= e < zlen evs ->
         a_val A i e = act (Wlab M) i (prep_list p (nth (Z.to_nat e) evs []))) /\
    (forall i c, ~ In c (m_cues M) -> Wlab M i c = rO).
  Proof.
    intros Hs Hv Hnd. split; [|split].
    - rewrite (act_errors M p ign n_jobs junk tr evs EKey Hs (proj1 Hv)). split.
      + intros (good & bad & rest & -> & _ & [(E & _)|(_ & _ & -> & c & Hc & Hn)]); [discriminate|].
        split; [reflexivity|]. exists bad, c. repeat split; auto. apply in_app_iff. right. now left.
      + intros (-> & e & c & He & Hc & Hn).
        (* the first event with an unknown cue *)
        assert (exists good bad rest, evs = good ++ bad :: rest /\
                  Forall (event_ok p false (m_cues M)) good /\ (p = PNone -> NoDup bad) /\
                  exists c, In c bad /\ ~ In c (m_cues M)) as H.
        { clear Hv. induction evs as [|e0 r IH]; [destruct He|].
          assert (p = PNone -> NoDup e0) as Hnd0 by (intros Hp; specialize (Hnd Hp); now inversion Hnd).
          destruct (forallb (fun c => mem_z c (m_cues M)) e0) eqn:Eall.
          - destruct He as [->|He].
            + rewrite forallb_forall in Eall. apply Eall in Hc. apply mem_z_In in Hc. contradiction.
            + destruct IH as (good & bad & rest & -> & Hg & Hb); auto.
              { intros Hp. specialize (Hnd Hp). now inversion Hnd. }
              exists (e0 :: good), bad, rest. split; [reflexivity|]. split; [|exact Hb].
              constructor; [|exact Hg].
              split; [exact Hnd0|]. intros _ c' Hc'. rewrite forallb_forall in Eall.
              apply mem_z_In. now apply Eall.
          - exists [], e0, r. repeat split; auto.
            assert (existsb (fun c => negb (mem_z c (m_cues M))) e0 = true) as Hex.
            { clear - Eall. induction e0 as [|y q IHq]; cbn in *; [discriminate|].
              destruct (mem_z y (m_cues M)); cbn in *; auto. }
            apply existsb_exists in Hex. destruct Hex as [c' [Hc' Hm]]. exists c'. split; [exact Hc'|].
            apply negb_true_iff in Hm. now apply mem_z_not_In. }
        destruct H as (good & bad & rest & E & Hg & Hb & Hc').
        exists good, bad, rest. repeat split; auto.
    - intros ->. pose proof (act_matrix_spec M p true n_jobs junk tr evs Hs Hv) as H.
      destruct (activation_matrix M p true n_jobs junk tr evs) as [A|x] eqn:EA.
      + exists A. split; [reflexivity|]. destruct H as (_ & _ & _ & H). intros i e Hi He.
        rewrite (H i e Hi He). unfold RWSpec.act, known. apply sum_over_filter_zero.
        intros c _ Hm. apply Wlab_unknown. now apply mem_z_not_In.
      + exfalso. destruct H as [_ H]. apply H. clear - Hnd. 
        assert (forall e, In e evs -> p = PNone -> NoDup e) as H'.
        { intros e He Hp. specialize (Hnd Hp). rewrite Forall_forall in Hnd. now apply Hnd. }
        apply Forall_forall. intros e He. split; [now apply H'|discriminate].
    - intros i c. apply Wlab_unknown.
  Qed.

  (** ** sums over sets and multisets of cues *)
  Lemma sum_over_indicator (g : Z -> R) x l :
    NoDup l -> In x l ->
    sum_over (fun c => if c =? x then g c else rO) l = g x.
  Proof.
    induction l as [|y r IH]; intros Hnd Hin; [destruct Hin|]. rewrite so_cons.
    inversion Hnd as [|? ? Hy Hr]; subst. destruct Hin as [->|Hin].
    - rewrite Z.eqb_refl. rewrite (so_ext _ (fun _ => rO)).
      + rewrite (sum_over_zero R rO rI radd rmul rsub ropp Rth). ring.
      + intros c Hc. destruct (Z.eqb_spec c x) as [->|]; [contradiction|reflexivity].
    - destruct (Z.eqb_spec y x) as [->|]; [contradiction|]. rewrite IH by assumption. ring.
  Qed.

  (** "with multiplicity": the sum over the cue LIST is the sum over the cue SET
      of (number of occurrences) * weight *)
  Theorem sum_over_multiplicity (f : Z -> R) cs :
    sum_over f cs = sum_over (fun c => of_nat R rO rI radd (countz c cs) *r f c) (dedup cs).
  Proof.
    induction cs as [|x r IH]; [reflexivity|]. rewrite so_cons. cbn [dedup].
    assert (forall l, sum_over (fun c => of_nat R rO rI radd (countz c (x :: r)) *r f c) l =
                      sum_over (fun c => of_nat R rO rI radd (countz c r) *r f c) l +r
                      sum_over (fun c => if c =? x then f c else rO) l) as Hsplit.
    { intros l. rewrite <- (sum_over_add R rO rI radd rmul rsub ropp Rth). apply so_ext.
      intros c _. cbn [countz]. destruct (Z.eqb_spec c x); cbn [RWSpec.of_nat]; ring. }
    destruct (mem_z x r) eqn:Hm.
    - rewrite Hsplit, <- IH, sum_over_indicator; [ring|apply dedup_NoDup|].
      apply dedup_In. now apply mem_z_In.
    - rewrite so_cons, Hsplit, <- IH. apply mem_z_not_In in Hm.
      rewrite (so_ext (fun c => if c =? x then f c else rO) (fun _ => rO)).
      + rewrite (sum_over_zero R rO rI radd rmul rsub ropp Rth).
        cbn [countz]. rewrite Z.eqb_refl. rewrite countz_notin by assumption.
        cbn [RWSpec.of_nat]. ring.
      + intros c Hc. apply (proj1 (dedup_In _ _)) in Hc. destruct (Z.eqb_spec c x) as [->|]; [contradiction|reflexivity].
  Qed.

  (** the iteration order of a Python set does not matter *)
  Theorem act_set_order (W : wfun R) o cs cs' : Permutation cs cs' -> act W o cs = act W o cs'.
  Proof. intros H. unfold RWSpec.act. now apply (sum_over_perm R rO rI radd rmul rsub ropp Rth). Qed.

  Lemma act_nil (W : wfun R) o : act W o [] = rO.
  Proof. reflexivity. Qed.

  (** ** link to learning (C01): one more Rescorla-Wagner step moves every
      present cue by alpha * beta * (target - activation), the activation
      being the cell that [activation] returns for that event *)
  Lemma known_all cues ign cs : (forall c, In c cs -> In c cues) -> known cues ign cs = cs.
  Proof.
    intros H. unfold known. destruct ign; [|reflexivity].
    induction cs as [|x r IH]; [reflexivity|]. cbn [filter].
    assert (mem_z x cues = true) as -> by (apply mem_z_In, H; now left).
    f_equal. apply IH. intros c Hc. apply H. now right.
  Qed.

  Lemma prep_list_nodup p cs : NoDup cs -> prep_list p cs = cs.
  Proof. intros H. destruct p; cbn; try reflexivity; now apply dedup_nodup_id. Qed.

  Theorem act_one_step (p : params R) (e : event) (W : wfun R) o (M : matrix) i pl ign n_jobs junk tr :
    shape_ok R M = true -> valid_run R M pl ign n_jobs tr [fst e] ->
    0 <= i < zlen (m_outcomes M) -> NoDup (fst e) ->
    (forall c, In c (fst e) -> In c (m_cues M) /\ Wlab M i c = W o c) ->
    exists A, activation_matrix M pl ign n_jobs junk tr [fst e] = Ok A /\
      a_val A i 0 = act W o (fst e) /\
      (forall c, In c (fst e) ->
         step R rO rI radd rmul rsub p e W o c -r W o c =
         alpha p c *r ((if mem_z o (snd e) then beta1 p else beta2 p) *r
                       ((if mem_z o (snd e) then lam p else rO) -r a_val A i 0))) /\
      (forall c, ~ In c (fst e) -> step R rO rI radd rmul rsub p e W o c = W o c).
  Proof.
    intros Hs Hv Hi Hnd HW.
    pose proof (act_matrix_spec M pl ign n_jobs junk tr [fst e] Hs Hv) as H.
    destruct (activation_matrix M pl ign n_jobs junk tr [fst e]) as [A|x].
    - exists A. split; [reflexivity|]. destruct H as (_ & _ & _ & H).
      assert (a_val A i 0 = act W o (fst e)) as HA.
      { rewrite (H i 0 Hi) by (unfold zlen; cbn; lia). cbn [Z.to_nat nth].
        rewrite prep_list_nodup by assumption. rewrite known_all by (intros c Hc; now apply HW).
        unfold RWSpec.act. apply so_ext. intros c Hc. now apply HW. }
      split; [exact HA|]. split.
      + intros c Hc. rewrite (step_nodup R rO rI radd rmul rsub ropp Rth) by assumption.
        apply mem_z_In in Hc. rewrite Hc, HA. unfold RWSpec.delta.
        destruct (mem_z o (snd e)); ring.
      + intros c Hc. rewrite (step_nodup R rO rI radd rmul rsub ropp Rth) by assumption.
        apply mem_z_not_In in Hc. now rewrite Hc.
    - exfalso. destruct H as [_ H]. apply H. constructor; [|constructor].
      split; [intros _; exact Hnd|]. intros _ c Hc. now apply HW.
  Qed.

  (** ** the dictionary path *)
  Definition row_eq (r r' : drow R) : Prop :=
    d_default r' = d_default r /\ (forall x, row_fun r' x = row_fun r x) /\
    (forall x, In x (d_keys r) -> In x (d_keys r')) /\
    (d_default r = false -> r' = r).

  Lemma row_eq_refl r : row_eq r r.
  Proof. repeat split; auto. Qed.

  Lemma row_eq_trans r1 r2 r3 : row_eq r1 r2 -> row_eq r2 r3 -> row_eq r1 r3.
  Proof.
    intros (A1 & A2 & A3 & A4) (B1 & B2 & B3 & B4). repeat split.
    - congruence.
    - intros x. now rewrite B2, A2.
    - auto.
    - intros H. rewrite B4 by congruence. now apply A4.
  Qed.

  Lemma d_lookup_spec r c :
    match d_lookup r c with
    | Some (v, r') => v = row_fun r c /\ row_eq r r' /\ (d_default r = false -> In c (d_keys r))
    | None => d_default r = false /\ ~ In c (d_keys r)
    end.
  Proof.
    unfold Activation.d_lookup. destruct (mem_z c (d_keys r)) eqn:Hm.
    - split; [unfold Activation.row_fun; now rewrite Hm|]. split; [apply row_eq_refl|].
      intros _. now apply mem_z_In.
    - destruct (d_default r) eqn:Hd.
      + split; [unfold Activation.row_fun; now rewrite Hm|]. split; [|discriminate].
        repeat split; cbn; auto.
        * intros x. unfold Activation.row_fun. cbn. rewrite mem_z_app. cbn.
          destruct (Z.eqb_spec x c) as [->|Hne].
          -- rewrite Hm. cbn. reflexivity.
          -- rewrite orb_false_r. reflexivity.
        * intros x Hx. apply in_app_iff. now left.
        * rewrite Hd. discriminate.
      + split; [reflexivity|]. now apply mem_z_not_In.
  Qed.

  Lemma d_event_spec r cs acc :
    match d_event r cs acc with
    | Some (v, r') => v = acc +r sum_over (row_fun r) cs /\ row_eq r r' /\
                      (d_default r = false -> forall c, In c cs -> In c (d_keys r))
    | None => d_default r = false /\ exists c, In c cs /\ ~ In c (d_keys r)
    end.
  Proof.
    revert r acc. induction cs as [|c cs IH]; intros r acc; cbn [Activation.d_event].
    - split; [rewrite so_nil; ring|]. split; [apply row_eq_refl|]. intros _ c [].
    - pose proof (d_lookup_spec r c) as HL. destruct (d_lookup r c) as [[v r1]|].
      + destruct HL as (-> & Heq & Hk). specialize (IH r1 (acc +r row_fun r c)).
        destruct (d_event r1 cs (acc +r row_fun r c)) as [[v2 r2]|].
        * destruct IH as (-> & Heq2 & Hk2). split; [|split].
          -- rewrite so_cons. destruct Heq as (_ & Hf & _).
             rewrite (so_ext (row_fun r1) (row_fun r)) by (intros; apply Hf). ring.
          -- eapply row_eq_trans; eauto.
          -- intros Hd x [<-|Hx]; [now apply Hk|]. destruct Heq as (_ & _ & _ & H4).
             rewrite <- (H4 Hd). apply Hk2; [|exact Hx]. now rewrite (H4 Hd).
        * destruct IH as (Hd & x & Hx & Hn). destruct Heq as (H1 & _ & H3 & _). split; [congruence|].
          exists x. split; [now right|]. intros Hin. apply Hn. now apply H3.
      + destruct HL as [Hd Hn]. split; [exact Hd|]. exists c. split; [now left|exact Hn].
  Qed.

  Lemma d_row_spec r evs :
    match d_row r evs with
    | Some (vs, r') => vs = map (fun cs => sum_over (row_fun r) cs) evs /\ row_eq r r' /\
                       (d_default r = false -> forall cs c, In cs evs -> In c cs -> In c (d_keys r))
    | None => d_default r = false /\ exists cs c, In cs evs /\ In c cs /\ ~ In c (d_keys r)
    end.
  Proof.
    revert r. induction evs as [|cs rest IH]; intros r; cbn [Activation.d_row].
    - split; [reflexivity|]. split; [apply row_eq_refl|]. intros _ cs c [].
    - pose proof (d_event_spec r cs rO) as HE. destruct (d_event r cs rO) as [[v r1]|].
      + destruct HE as (-> & Heq & Hk). specialize (IH r1).
        destruct (d_row r1 rest) as [[vs r2]|].
        * destruct IH as (-> & Heq2 & Hk2). split; [|split].
          -- cbn [map]. f_equal; [ring|]. apply map_ext. intros a. apply so_ext.
             intros c _. destruct Heq as (_ & Hf & _). apply Hf.
          -- eapply row_eq_trans; eauto.
          -- intros Hd cs' c [<-|Hc] Hin; [now apply Hk|]. destruct Heq as (_ & _ & _ & H4).
             rewrite <- (H4 Hd). apply (Hk2 ltac:(now rewrite (H4 Hd)) cs' c Hc Hin).
        * destruct IH as (Hd & cs' & c & H1 & H2 & H3). destruct Heq as (E1 & _ & E3 & _).
          split; [congruence|]. exists cs', c. repeat split; [now right|exact H2|].
          intros Hin. apply H3. now apply E3.
      + destruct HE as (Hd & c & Hc & Hn). split; [exact Hd|]. exists cs, c. repeat split; auto. now left.
  Qed.

  (** the rows of the result, in the order of [weights.items()]; a KeyError
      iff a plain row lacks a cue of some event *)
  Lemma d_rows_spec D evs :
    match d_rows D evs with
    | Some (L, D') =>
      Forall2 (fun or ov => fst ov = fst or /\
                            snd ov = map (fun cs => sum_over (row_fun (snd or)) cs) evs /\
                            (d_default (snd or) = false ->
                             forall cs c, In cs evs -> In c cs -> In c (d_keys (snd or)))) D L /\
      Forall2 (fun or or' => fst or' = fst or /\ row_eq (snd or) (snd or')) D D'
    | None => exists o r cs c, In (o, r) D /\ d_default r = false /\
                               In cs evs /\ In c cs /\ ~ In c (d_keys r)
    end.
  Proof.
    induction D as [|[o r] rest IH]; cbn [Activation.d_rows].
    - split; constructor.
    - pose proof (d_row_spec r evs) as HR. destruct (d_row r evs) as [[vs r1]|].
      + destruct HR as (-> & Heq & Hk). destruct (d_rows rest evs) as [[L D']|].
        * destruct IH as [IH1 IH2]. split; constructor; auto.
        * destruct IH as (o' & r' & cs & c & H1 & H2). exists o', r', cs, c. split; [now right|exact H2].
      + destruct HR as (Hd & cs & c & H1 & H2 & H3). exists o, r, cs, c. repeat split; auto. now left.
  Qed.

  Lemma prep_events_spec p evs :
    match prep_events p evs with
    | Some pes => pes = map (prep_list p) evs /\ (p = PNone -> Forall (@NoDup Z) evs)
    | None => p = PNone /\ exists e, In e evs /\ ~ NoDup e
    end.
  Proof.
    induction evs as [|e r IH]; cbn [prep_events].
    - split; [reflexivity|]. constructor.
    - destruct (prep_cues p e) as [cs|] eqn:Ep.
      + apply prep_cues_some in Ep. destruct Ep as [-> Hn]. destruct (prep_events p r) as [l|].
        * destruct IH as [-> IH]. split; [reflexivity|]. intros Hp. constructor; [now apply Hn|now apply IH].
        * destruct IH as [Hp [e' [H1 H2]]]. split; [exact Hp|]. exists e'. split; [now right|exact H2].
      + destruct p; try discriminate. apply prep_cues_none in Ep. split; [reflexivity|].
        exists e. split; [now left|exact Ep].
  Qed.

  Lemma prep_list_nil p : prep_list p [] = [].
  Proof. destruct p; reflexivity. Qed.

  Lemma Forall2_map_fst {A B} (P : Z * A -> Z * B -> Prop) l l' :
    Forall2 (fun a b => fst b = fst a /\ P a b) l l' -> map fst l' = map fst l.
  Proof. induction 1 as [|a b l l' [H _] _ IH]; cbn; congruence. Qed.

  (** the dictionary path raises the duplicate error before anything else,
      refuses n_jobs <> 1, and never looks at ignore_missing_cues *)
  Theorem dict_errors D p n_jobs evs :
    (n_jobs <> 1 -> activation_dict D p n_jobs evs = Err EAssert) /\
    (activation_dict D p 1 evs = Err EDup <-> p = PNone /\ exists e, In e evs /\ ~ NoDup e) /\
    (activation_dict D p 1 evs = Err EKey <->
     (p = PNone -> Forall (@NoDup Z) evs) /\
     exists o r e c, In (o, r) D /\ d_default r = false /\ In e evs /\ In c e /\ ~ In c (d_keys r)).
  Proof.
    unfold Activation.activation_dict. split; [|split].
    - intros H. destruct (Z.eqb_spec n_jobs 1); [contradiction|reflexivity].
    - cbn [Z.eqb Pos.eqb]. pose proof (prep_events_spec p evs) as HP.
      destruct (prep_events p evs) as [pes|].
      + destruct HP as [_ HP]. split.
        * destruct (d_rows D pes) as [x|]; discriminate.
        * intros [Hp [e [He Hn]]]. exfalso. apply Hn. specialize (HP Hp). rewrite Forall_forall in HP. auto.
      + tauto.
    - cbn [Z.eqb Pos.eqb]. pose proof (prep_events_spec p evs) as HP.
      destruct (prep_events p evs) as [pes|].
      + destruct HP as [-> HP]. pose proof (d_rows_spec D (map (prep_list p) evs)) as HD.
        destruct (d_rows D (map (prep_list p) evs)) as [[L D']|].
        * split; [discriminate|]. intros [_ (o & r & e & c & H1 & H2 & H3 & H4 & H5)]. exfalso.
          destruct HD as [HD _]. apply In_nth_error in H1. destruct H1 as [n H1].
          destruct (Forall2_nth_error _ _ _ _ _ HD H1) as [ov [_ (_ & _ & Hk)]]. cbn [snd] in Hk.
          apply H5. apply (Hk H2 (prep_list p e) c); [now apply in_map|now apply prep_list_In].
        * split; [|reflexivity]. intros _. split; [exact HP|].
          destruct HD as (o & r & cs & c & H1 & H2 & H3 & H4 & H5). apply in_map_iff in H3.
          destruct H3 as [e [<- He]]. exists o, r, e, c. repeat split; auto. now apply prep_list_In in H4.
      + split; [discriminate|]. intros [H _]. exfalso. destruct HP as [Hp [e [He Hn]]]. apply Hn.
        specialize (H Hp). rewrite Forall_forall in H. auto.
  Qed.

  (** C12_paths_agree (dictionary part): a dict of dicts that holds the weights
      of the labelled matrix gives the table of the matrix path - plain rows
      like ignore_missing_cues=False, defaulting rows like ignore_missing_cues=True *)
  Theorem dict_agrees D (M : matrix) p ign n_jobs junk tr evs :
    shape_ok R M = true -> valid_run R M p ign n_jobs tr evs -> represents R rO D M ->
    ((ign = false /\ plain_rows R D M /\ D <> []) \/ (ign = true /\ default_rows R D)) ->
    same_res_upto_error R (activation_matrix M p ign n_jobs junk tr evs)
                          (dict_res R rO (zlen evs) (activation_dict D p 1 evs)).
  Proof.
    intros Hs Hv [Hout Hrep] Hkind.
    pose proof (act_matrix_spec M p ign n_jobs junk tr evs Hs Hv) as HM.
    unfold Activation.activation_dict. cbn [Z.eqb Pos.eqb].
    pose proof (prep_events_spec p evs) as HP. destruct (prep_events p evs) as [pes|].
    - destruct HP as [-> HP]. pose proof (d_rows_spec D (map (prep_list p) evs)) as HD.
      destruct (d_rows D (map (prep_list p) evs)) as [[L D']|].
      + destruct HD as [HD _]. cbn [dict_res].
        assert (Forall (event_ok p ign (m_cues M)) evs) as Hok.
        { apply Forall_forall. intros e He. split.
          - intros Hp. specialize (HP Hp). rewrite Forall_forall in HP. auto.
          - intros Hi c Hc. destruct Hkind as [(_ & Hpl & Hne)|(Hi' & _)]; [|congruence].
            destruct D as [|[o r] rest]; [congruence|]. destruct (Hpl o r) as [Hd Hk]; [now left|].
            inversion HD as [|? ov ? ? (_ & _ & Hkeys) _]; subst. cbn [snd] in Hkeys.
            apply Hk. apply (Hkeys Hd (prep_list p e) c); [now apply in_map|now apply prep_list_In]. }
        destruct (activation_matrix M p ign n_jobs junk tr evs) as [A|x]; [|destruct HM as [_ HM]; contradiction].
        destruct HM as (_ & Ho & Hn & Hcell). cbn [same_res_upto_error]. unfold same_table. cbn [dict_table a_outcomes a_events a_val].
        split; [|split; [exact Hn|]].
        * rewrite Ho, <- Hout. symmetry.
          apply (Forall2_map_fst (fun or ov => snd ov = map (fun cs => sum_over (row_fun (snd or)) cs) (map (prep_list p) evs) /\
                    (d_default (snd or) = false -> forall cs c, In cs (map (prep_list p) evs) -> In c cs -> In c (d_keys (snd or))))).
          exact HD.
        * intros i e Hi He. rewrite Ho in Hi. rewrite Hn in He. rewrite (Hcell i e Hi He).
          assert (exists o r, nth_error D (Z.to_nat i) = Some (o, r)) as (o & r & Hnth).
          { destruct (nth_error D (Z.to_nat i)) as [[o r]|] eqn:E; [eauto|]. apply nth_error_None in E.
            rewrite <- Hout in Hi. unfold zlen in Hi. rewrite map_length in Hi. lia. }
          destruct (Forall2_nth_error _ _ _ _ _ HD Hnth) as [[o' vs] [HL (_ & Hvs & _)]]. cbn [snd fst] in Hvs.
          rewrite (nth_error_nth _ _ _ HL). cbn [snd]. rewrite Hvs.
          rewrite (nth_map_default (fun cs => sum_over (row_fun r) cs) _ _ rO []) by reflexivity.
          rewrite (nth_map_default (prep_list p) evs _ [] []) by apply prep_list_nil.
          unfold RWSpec.act. 
          rewrite (so_ext (row_fun r) (Wlab M i)).
          2:{ intros c _. rewrite (Hrep _ _ _ Hnth c). f_equal. lia. }
          unfold known. destruct ign; [|reflexivity]. apply sum_over_filter_zero.
          intros c _ Hm. apply Wlab_unknown. now apply mem_z_not_In.
      + cbn [dict_res]. destruct HD as (o & r & cs & c & H1 & H2 & H3 & H4 & H5).
        destruct Hkind as [(Hi & Hpl & _)|(_ & Hdf)]; [|rewrite (Hdf o r H1) in H2; discriminate].
        destruct (activation_matrix M p ign n_jobs junk tr evs) as [A|x].
        * exfalso. destruct HM as (Hok & _). apply in_map_iff in H3. destruct H3 as [e [<- He]].
          rewrite Forall_forall in Hok. destruct (Hok e He) as [_ Hk]. apply H5.
          apply (Hpl o r H1). apply (Hk Hi). now apply prep_list_In in H4.
        * cbn. destruct HM as [HM _]. split; [exact HM|now right].
    - cbn [dict_res]. destruct HP as [Hp [e [He Hn]]].
      destruct (activation_matrix M p ign n_jobs junk tr evs) as [A|x].
      + exfalso. destruct HM as (Hok & _). rewrite Forall_forall in Hok. destruct (Hok e He) as [Hk _]. auto.
      + cbn. destruct HM as [HM _]. split; [exact HM|now left].
  Qed.

  (** the shape test comes first and ends the call whatever the events are *)
  Theorem act_shape_error (M : matrix) p ign n_jobs junk tr evs :
    shape_ok R M = false -> activation_matrix M p ign n_jobs junk tr evs = Err EShape.
  Proof. intros H. unfold Activation.activation_matrix. now rewrite H. Qed.
End ActProofs.

(** what the three duplicate policies hand on to the summation *)
Theorem prep_cues_policies cs :
  (prep_cues PNone cs = None <-> ~ NoDup cs) /\
  (NoDup cs -> prep_cues PNone cs = Some cs) /\
  (exists s, prep_cues PTrue cs = Some s /\ NoDup s /\ forall c, In c s <-> In c cs) /\
  prep_cues PFalse cs = Some cs /\
  (forall p s, prep_cues p cs = Some s -> s = prep_list p cs).
Proof.
  split; [apply prep_cues_none|]. split; [|split; [|split]].
  - intros H. rewrite prep_cues_total by now right. cbn. now rewrite dedup_nodup_id.
  - exists (dedup cs). split; [reflexivity|]. split; [apply dedup_NoDup|intros c; apply dedup_In].
  - reflexivity.
  - intros p s H. now apply prep_cues_some in H.
Qed.
