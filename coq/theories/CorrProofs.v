(** Proofs about the correlation model: covariance identity, the
    square-root-free characterisation of Pearson's r, locality of a cell,
    independence of the prange schedule, the degenerate-input decision. *)
From Coq Require Import ZArith List Bool Arith Lia QArith Qcanon Field Permutation.
From PV Require Import Lists Sched SchedProofs Corr.
Import ListNotations.
Open Scope Qc_scope.

(** * order facts on [Qc] that the library does not name *)
Lemma Qc_0_lt_1 : 0 < 1.
Proof. reflexivity. Qed.

Lemma Qc_0_le_1 : 0 <= 1.
Proof. apply Qclt_le_weak, Qc_0_lt_1. Qed.

Lemma Qcinv_pos d : 0 < d -> 0 < / d.
Proof.
  intros Hd. destruct (Qclt_le_dec 0 (/ d)) as [H|H]; [exact H|exfalso].
  assert (Hne : d <> 0) by (intro E; rewrite E in Hd; exact (Qclt_not_eq _ _ Hd eq_refl)).
  pose proof (Qcmult_le_compat_r _ _ d H (Qclt_le_weak _ _ Hd)) as H1.
  rewrite Qcmult_inv_l, Qcmult_0_l in H1 by exact Hne.
  exact (Qcle_not_lt _ _ H1 Qc_0_lt_1).
Qed.

Lemma Qc_sq_nonneg x : 0 <= x * x.
Proof.
  destruct (Qclt_le_dec x 0) as [H|H].
  - assert (H0 : 0 <= - x).
    { pose proof (Qcopp_le_compat _ _ (Qclt_le_weak _ _ H)) as H1.
      replace (- 0) with 0 in H1 by ring. exact H1. }
    pose proof (Qcmult_le_compat_r _ _ (- x) H0 H0) as H1.
    rewrite Qcmult_0_l in H1. replace (- x * - x) with (x * x) in H1 by ring. exact H1.
  - pose proof (Qcmult_le_compat_r _ _ x H H) as H1. now rewrite Qcmult_0_l in H1.
Qed.

Lemma Qc_sum_nonneg_zero a b : 0 <= a -> 0 <= b -> a + b = 0 -> a = 0 /\ b = 0.
Proof.
  intros Ha Hb H.
  assert (Ha0 : a = 0).
  { apply Qcle_antisym; [|exact Ha].
    pose proof (Qcplus_le_compat _ _ _ _ (Qcle_refl a) Hb) as H1.
    rewrite Qcplus_0_r, H in H1. exact H1. }
  split; [exact Ha0|]. rewrite Ha0, Qcplus_0_l in H. exact H.
Qed.

Lemma Qc_mult_pos a b : 0 < a -> 0 < b -> 0 < a * b.
Proof.
  intros Ha Hb. pose proof (Qcmult_lt_compat_r _ _ b Hb Ha) as H. now rewrite Qcmult_0_l in H.
Qed.

Lemma sgn_pos c : 0 < c -> sgn c = 1%Z.
Proof. intros H. unfold sgn. now rewrite (proj1 (Qcgt_alt c 0) H). Qed.
Lemma sgn_neg c : c < 0 -> sgn c = (-1)%Z.
Proof. intros H. unfold sgn. now rewrite (proj1 (Qclt_alt c 0) H). Qed.
Lemma sgn_zero : sgn 0 = 0%Z.
Proof. reflexivity. Qed.

Lemma sgn_div_pos c d : 0 < d -> sgn (c / d) = sgn c.
Proof.
  intros Hd. pose proof (Qcinv_pos d Hd) as Hi. unfold Qcdiv.
  destruct (Qc_dec c 0) as [[H|H]|H].
  - rewrite (sgn_neg c H). apply sgn_neg.
    pose proof (Qcmult_lt_compat_r _ _ (/ d) Hi H) as H1. now rewrite Qcmult_0_l in H1.
  - rewrite (sgn_pos c H). apply sgn_pos. now apply Qc_mult_pos.
  - subst c. now rewrite Qcmult_0_l.
Qed.

(** * [qn] *)
Lemma qn_nonneg n : 0 <= qn n.
Proof.
  induction n as [|k IH]; [apply Qcle_refl|]. cbn [qn].
  pose proof (Qcplus_le_compat _ _ _ _ IH Qc_0_le_1) as H. now rewrite Qcplus_0_l in H.
Qed.

Lemma qn_pos n : (0 < n)%nat -> 0 < qn n.
Proof.
  destruct n as [|k]; [lia|]. intros _. cbn [qn].
  pose proof (Qcplus_le_compat _ _ _ _ (qn_nonneg k) (Qcle_refl 1)) as H.
  rewrite Qcplus_0_l in H. exact (Qclt_le_trans _ _ _ Qc_0_lt_1 H).
Qed.

Lemma qn_neq0 n : (0 < n)%nat -> qn n <> 0.
Proof. intros H E. pose proof (qn_pos n H) as H1. rewrite E in H1. exact (Qclt_not_eq _ _ H1 eq_refl). Qed.

Lemma qn_pred_pos n : (2 <= n)%nat -> 0 < qn n - 1.
Proof.
  destruct n as [|[|k]]; [lia|lia|]. intros _.
  replace (qn (S (S k)) - 1) with (qn (S k)) by (cbn [qn]; ring).
  apply qn_pos. lia.
Qed.

(** * sums *)
Lemma qsum_cons x r : qsum (x :: r) = x + qsum r.
Proof. reflexivity. Qed.
Lemma qsum_nil : qsum [] = 0.
Proof. reflexivity. Qed.

Lemma fold_plus_acc {A} (f : A -> Qc) l a :
  fold_left (fun acc p => acc + f p) l a = a + qsum (map f l).
Proof.
  revert a. induction l as [|x r IH]; intros a; cbn [fold_left map].
  - rewrite qsum_nil. ring.
  - rewrite IH, qsum_cons. ring.
Qed.

Lemma dot_sum xs ys : dot xs ys = qsum (map (fun p => fst p * snd p) (combine xs ys)).
Proof. unfold dot. rewrite (fold_plus_acc (fun p => fst p * snd p)). ring. Qed.

Lemma sdp_expand xs : forall ys mx my, length xs = length ys ->
  sdp mx my xs ys = dot xs ys - mx * qsum ys - my * qsum xs + qn (length xs) * mx * my.
Proof.
  induction xs as [|x r IH]; intros [|y s] mx my Hl; try discriminate Hl.
  - rewrite dot_sum. unfold sdp. cbn [combine map length qn]. rewrite !qsum_nil. ring.
  - injection Hl as Hl. specialize (IH s mx my Hl). rewrite dot_sum in *. unfold sdp in *.
    cbn [combine map length qn fst snd]. rewrite !qsum_cons, IH. ring.
Qed.

(** ** the covariance identity:  sum x_k y_k - n mx my = sum (x_k - mx)(y_k - my) *)
Theorem cov_identity_lemma : forall xs ys mx my,
  length xs = length ys -> (0 < length xs)%nat ->
  mx = qsum xs / qn (length xs) -> my = qsum ys / qn (length xs) ->
  dot xs ys - qn (length xs) * mx * my = sdp mx my xs ys.
Proof.
  intros xs ys mx my Hl Hn Hmx Hmy.
  pose proof (qn_neq0 _ Hn) as HN.
  assert (Hx : qsum xs = qn (length xs) * mx) by (rewrite Hmx; field; exact HN).
  assert (Hy : qsum ys = qn (length xs) * my) by (rewrite Hmy; field; exact HN).
  rewrite (sdp_expand xs ys mx my Hl), Hx, Hy. ring.
Qed.

(** ** Pearson's r, characterised without square roots *)
Theorem pearson_char : forall xs ys mx my sx sy,
  length ys = length xs -> (2 <= length xs)%nat ->
  mx = qsum xs / qn (length xs) -> my = qsum ys / qn (length xs) ->
  sx * sx = ssd mx xs / (qn (length xs) - 1) ->
  sy * sy = ssd my ys / (qn (length xs) - 1) ->
  0 < sx -> 0 < sy ->
  let r := cell_cols (length xs) xs ys mx sx my sy in
  r * r * ssd mx xs * ssd my ys = sdp mx my xs ys * sdp mx my xs ys /\
  sgn r = sgn (sdp mx my xs ys).
Proof.
  intros xs ys mx my sx sy Hl Hn Hmx Hmy Hsx Hsy Hpx Hpy r.
  pose proof (qn_pred_pos _ Hn) as HD.
  assert (HDn : qn (length xs) - 1 <> 0) by (intro E; rewrite E in HD; exact (Qclt_not_eq _ _ HD eq_refl)).
  assert (Hsxn : sx <> 0) by (intro E; rewrite E in Hpx; exact (Qclt_not_eq _ _ Hpx eq_refl)).
  assert (Hsyn : sy <> 0) by (intro E; rewrite E in Hpy; exact (Qclt_not_eq _ _ Hpy eq_refl)).
  assert (Hx : ssd mx xs = (qn (length xs) - 1) * (sx * sx)) by (rewrite Hsx; field; exact HDn).
  assert (Hy : ssd my ys = (qn (length xs) - 1) * (sy * sy)) by (rewrite Hsy; field; exact HDn).
  assert (Hr : r = sdp mx my xs ys / ((qn (length xs) - 1) * sx * sy)).
  { unfold r, cell_cols. rewrite cov_identity_lemma; auto; lia. }
  split.
  - rewrite Hr, Hx, Hy. field. auto.
  - rewrite Hr. apply sgn_div_pos. apply Qc_mult_pos; [apply Qc_mult_pos|]; assumption.
Qed.

Lemma mean_eq xs : mean xs = qsum xs / qn (length xs).
Proof. reflexivity. Qed.

(** * squared deviations vanish exactly on constant columns *)
Lemma ssd_nonneg m xs : 0 <= ssd m xs.
Proof.
  unfold ssd. induction xs as [|x r IH]; cbn [map]; [apply Qcle_refl|]. rewrite qsum_cons.
  pose proof (Qcplus_le_compat _ _ _ _ (Qc_sq_nonneg (x - m)) IH) as H. now rewrite Qcplus_0_l in H.
Qed.

Lemma ssd_zero_iff m xs : ssd m xs = 0 <-> Forall (fun x => x = m) xs.
Proof.
  induction xs as [|x r IH].
  - split; [constructor|reflexivity].
  - change (ssd m (x :: r)) with ((x - m) * (x - m) + ssd m r). split.
    + intros H. apply Qc_sum_nonneg_zero in H as [H1 H2]; [|apply Qc_sq_nonneg|apply ssd_nonneg].
      constructor; [|now apply IH].
      apply Qcmult_integral in H1. assert (E : x - m = 0) by tauto.
      replace x with ((x - m) + m) by ring. rewrite E. ring.
    + intros H. inversion H as [|? ? Hx Hr]; subst. apply IH in Hr. rewrite Hr. ring.
Qed.

Lemma ssd_pos_of_nonzero m xs : ssd m xs <> 0 -> 0 < ssd m xs.
Proof.
  intros H. destruct (Qcle_lt_or_eq _ _ (ssd_nonneg m xs)) as [H1|H1]; [exact H1|congruence].
Qed.

Lemma qsum_const c xs : Forall (fun x => x = c) xs -> qsum xs = qn (length xs) * c.
Proof.
  induction 1 as [|x r Hx Hr IH]; cbn [length qn]; [rewrite qsum_nil; ring|].
  rewrite qsum_cons, IH, Hx. ring.
Qed.

Lemma mean_const c xs : (0 < length xs)%nat -> Forall (fun x => x = c) xs -> mean xs = c.
Proof.
  intros Hn H. unfold mean. rewrite (qsum_const c xs H). field. now apply qn_neq0.
Qed.

(** a constant column makes the numerator of the kernel cell vanish (so the
    unchecked kernel divides 0 by 0) *)
Lemma dot_const_r xs : forall ys c, length xs = length ys -> Forall (fun y => y = c) ys ->
  dot xs ys = c * qsum xs.
Proof.
  induction xs as [|x r IH]; intros [|y s] c Hl Hc; try discriminate Hl.
  - rewrite dot_sum. cbn [combine map]. rewrite !qsum_nil. ring.
  - injection Hl as Hl. inversion Hc as [|y' s' Hy Hs]. subst y' s'.
    specialize (IH s c Hl Hs). rewrite dot_sum in *. cbn [combine map fst snd].
    rewrite !qsum_cons, IH, Hy. ring.
Qed.

Theorem const_column_numerator_zero : forall xs ys c,
  length xs = length ys -> (0 < length xs)%nat -> Forall (fun y => y = c) ys ->
  dot xs ys - qn (length xs) * mean xs * c = 0.
Proof.
  intros xs ys c Hl Hn Hc. rewrite (dot_const_r xs ys c Hl Hc). unfold mean.
  field. now apply qn_neq0.
Qed.

(** * the wrapper's decision *)
Lemma existsb_is_nan_false col :
  existsb is_nan col = false -> Forall (fun v => v = Fin (fin_of v)) col.
Proof.
  induction col as [|v r IH]; cbn [existsb]; intros H; [constructor|].
  apply orb_false_iff in H as [H1 H2]. constructor; [|now apply IH].
  destruct v; [reflexivity|discriminate H1].
Qed.

Lemma qc_is_zero_iff q : qc_is_zero q = true <-> q = 0.
Proof.
  unfold qc_is_zero. rewrite (Qceq_alt q 0). fold (Qccompare q 0).
  destruct (q ?= 0); split; congruence.
Qed.

(** the deviation of a column is zero exactly when it is a constant column of
    at least two finite numbers; NaN exactly when it holds a NaN or has at
    most one entry *)
Theorem col_dev_zero_iff : forall col,
  col_dev col = DZero <->
  existsb is_nan col = false /\ (2 <= length col)%nat /\ exists c, Forall (fun v => v = Fin c) col.
Proof.
  intros col. unfold col_dev.
  destruct (existsb is_nan col) eqn:Hnan; cbn [orb].
  { split; [discriminate|]. intros [H _]. discriminate H. }
  destruct (length col <=? 1)%nat eqn:Hlen.
  { apply Nat.leb_le in Hlen. split; [discriminate|]. intros (_ & H & _). lia. }
  apply Nat.leb_gt in Hlen.
  pose proof (existsb_is_nan_false col Hnan) as Hfin.
  destruct (qc_is_zero (ssd (mean (map fin_of col)) (map fin_of col))) eqn:Hz.
  - split; [intros _|reflexivity]. split; [reflexivity|]. split; [lia|].
    apply qc_is_zero_iff, ssd_zero_iff in Hz. exists (mean (map fin_of col)).
    rewrite Forall_forall in *. intros v Hv. rewrite (Hfin v Hv). f_equal.
    apply Hz. now apply in_map.
  - split; [discriminate|]. intros (_ & _ & c & Hc). exfalso.
    assert (Hxs : Forall (fun x => x = c) (map fin_of col)).
    { rewrite Forall_forall in *. intros x Hx. apply in_map_iff in Hx as (v & <- & Hv).
      now rewrite (Hc v Hv). }
    assert (Hm : mean (map fin_of col) = c) by (apply mean_const; [rewrite map_length; lia|exact Hxs]).
    rewrite Hm in Hz. apply (proj2 (ssd_zero_iff c _)) in Hxs.
    apply (proj2 (qc_is_zero_iff _)) in Hxs. congruence.
Qed.

Theorem col_dev_nan_iff : forall col,
  col_dev col = DNaN <-> existsb is_nan col = true \/ (length col <= 1)%nat.
Proof.
  intros col. unfold col_dev. destruct (existsb is_nan col); cbn [orb]; [tauto|].
  destruct (length col <=? 1)%nat eqn:H.
  - apply Nat.leb_le in H. tauto.
  - apply Nat.leb_gt in H.
    destruct (qc_is_zero _); (split; [discriminate|intros [E|E]; [discriminate|lia]]).
Qed.

Theorem wrapper_decide_spec : forall allow sdevs adevs,
  (wrapper_decide allow sdevs adevs = WErrSemantics <->
     allow = false /\ exists d, In d sdevs /\ dev_bad d = true) /\
  (wrapper_decide allow sdevs adevs = WErrActivations <->
     allow = false /\ (forall d, In d sdevs -> dev_bad d = false) /\ exists d, In d adevs /\ dev_bad d = true) /\
  (wrapper_decide allow sdevs adevs = WCall <->
     allow = true \/ forall d, In d (sdevs ++ adevs) -> dev_bad d = false).
Proof.
  intros allow sdevs adevs. unfold wrapper_decide.
  destruct allow.
  { repeat split; try discriminate; try tauto; intros [H _]; discriminate H. }
  destruct (existsb dev_bad sdevs) eqn:Hs.
  - apply existsb_exists in Hs as (d & Hd & Hb).
    repeat split; try discriminate; eauto.
    + intros (_ & Hall & _). rewrite (Hall d Hd) in Hb. discriminate.
    + intros [H|H]; [discriminate|]. rewrite (H d) in Hb; [discriminate|]. apply in_app_iff. now left.
  - assert (Hall : forall d, In d sdevs -> dev_bad d = false).
    { intros d Hd. destruct (dev_bad d) eqn:E; [|reflexivity].
      assert (existsb dev_bad sdevs = true) by (apply existsb_exists; eauto). congruence. }
    destruct (existsb dev_bad adevs) eqn:Ha.
    + apply existsb_exists in Ha as (d & Hd & Hb).
      repeat split; try discriminate; eauto.
      * intros (_ & d' & Hd' & Hb'). rewrite (Hall d' Hd') in Hb'. discriminate.
      * intros [H|H]; [discriminate|]. rewrite (H d) in Hb; [discriminate|]. apply in_app_iff. now right.
    + assert (Hall' : forall d, In d adevs -> dev_bad d = false).
      { intros d Hd. destruct (dev_bad d) eqn:E; [|reflexivity].
        assert (existsb dev_bad adevs = true) by (apply existsb_exists; eauto). congruence. }
      repeat split; try discriminate; auto.
      * intros (_ & d & Hd & Hb). rewrite (Hall d Hd) in Hb. discriminate.
      * intros (_ & _ & d & Hd & Hb). rewrite (Hall' d Hd) in Hb. discriminate.
      * intros _. right. intros d Hd. apply in_app_iff in Hd as [Hd|Hd]; auto.
Qed.

(** the wrapper raises iff NaN results were not allowed and some deviation is 0 or NaN *)
Theorem wrapper_raises_iff : forall allow sdevs adevs,
  wrapper_decide allow sdevs adevs <> WCall <->
  allow = false /\ exists d, In d (sdevs ++ adevs) /\ (d = DZero \/ d = DNaN).
Proof.
  intros allow sdevs adevs.
  destruct (wrapper_decide_spec allow sdevs adevs) as (Hs & Ha & Hc).
  assert (Hbad : forall d, dev_bad d = true <-> d = DZero \/ d = DNaN).
  { intros []; cbn; split; try tauto; try discriminate; intros [H|H]; discriminate H. }
  split.
  - intros Hne. destruct (wrapper_decide allow sdevs adevs) eqn:E.
    + destruct (proj1 Hs eq_refl) as (Hal & d & Hd & Hb). split; [exact Hal|].
      exists d. split; [apply in_app_iff; now left|now apply Hbad].
    + destruct (proj1 Ha eq_refl) as (Hal & _ & d & Hd & Hb). split; [exact Hal|].
      exists d. split; [apply in_app_iff; now right|now apply Hbad].
    + congruence.
  - intros (Hal & d & Hd & Hb) E. apply Hc in E as [E|E]; [congruence|].
    apply Hbad in Hb. rewrite (E d Hd) in Hb. discriminate.
Qed.

(** * locality of a cell *)
Lemma fold_left_map' {A B C} (f : A -> B -> A) (h : C -> B) l s :
  fold_left f (map h l) s = fold_left (fun s x => f s (h x)) l s.
Proof. revert s. induction l as [|x r IH]; intros s; [reflexivity|]. cbn. apply IH. Qed.

Lemma combine_map_same {A B C} (f : A -> B) (g : A -> C) l :
  combine (map f l) (map g l) = map (fun x => (f x, g x)) l.
Proof. induction l as [|x r IH]; [reflexivity|]. cbn. now rewrite IH. Qed.

Lemma scalar_prod_columns sem act n j i :
  scalar_prod sem act n j i = dot (column sem n j) (column act n i).
Proof.
  unfold scalar_prod, dot, column. rewrite combine_map_same, fold_left_map'. reflexivity.
Qed.

Theorem cell_is_cell_cols sem act n st j i :
  cell sem act n st j i =
  cell_cols n (column sem n j) (column act n i)
            (nth j (s_means st) 0) (nth j (s_stds st) 0) (nth i (a_means st) 0) (nth i (a_stds st) 0).
Proof. unfold cell, cell_cols. now rewrite scalar_prod_columns. Qed.

Theorem cell_local : forall sem sem' act act' n st st' j i,
  column sem n j = column sem' n j -> column act n i = column act' n i ->
  nth j (s_means st) 0 = nth j (s_means st') 0 -> nth j (s_stds st) 0 = nth j (s_stds st') 0 ->
  nth i (a_means st) 0 = nth i (a_means st') 0 -> nth i (a_stds st) 0 = nth i (a_stds st') 0 ->
  cell sem act n st j i = cell sem' act' n st' j i.
Proof.
  intros. rewrite !cell_is_cell_cols. congruence.
Qed.

Lemma column_length m n j : length (column m n j) = n.
Proof. unfold column. now rewrite map_length, seq_length. Qed.

(** * the prange: every schedule writes every cell exactly once *)
Lemma run_writes_in cellf tr : forall s j i, In (j, i) tr -> run_writes cellf tr s j i = cellf j i.
Proof.
  unfold run_writes. induction tr as [|w r IH] using rev_ind; intros s j i Hin; [destruct Hin|].
  rewrite fold_left_app. cbn [fold_left]. unfold do_write at 1, write.
  destruct ((j =? fst w)%nat && (i =? snd w)%nat) eqn:E.
  - apply andb_true_iff in E as [E1 E2]. apply Nat.eqb_eq in E1, E2. now subst.
  - apply IH. apply in_app_iff in Hin as [Hin|[Hin|[]]]; [exact Hin|].
    subst w. cbn in E. now rewrite !Nat.eqb_refl in E.
Qed.

Lemma run_writes_notin cellf tr : forall s j i, ~ In (j, i) tr -> run_writes cellf tr s j i = s j i.
Proof.
  unfold run_writes. induction tr as [|w r IH] using rev_ind; intros s j i Hin; [reflexivity|].
  rewrite fold_left_app. cbn [fold_left]. unfold do_write at 1, write.
  destruct ((j =? fst w)%nat && (i =? snd w)%nat) eqn:E.
  - apply andb_true_iff in E as [E1 E2]. apply Nat.eqb_eq in E1, E2. exfalso. apply Hin.
    apply in_app_iff. right. left. destruct w; cbn in *; now subst.
  - apply IH. intro H. apply Hin. apply in_app_iff. now left.
Qed.

Lemma in_thread_writes n_out iters j i :
  In (j, i) (thread_writes n_out iters) <-> (j < n_out)%nat /\ In i iters.
Proof.
  unfold thread_writes, iter_writes. rewrite in_flat_map. split.
  - intros (i' & Hi & H). apply in_map_iff in H as (j' & E & Hj). injection E as -> ->.
    apply in_seq in Hj. split; [lia|exact Hi].
  - intros [Hj Hi]. exists i. split; [exact Hi|]. apply in_map_iff. exists j. split; [reflexivity|].
    apply in_seq. lia.
Qed.

Lemma NoDup_thread_writes n_out iters : NoDup iters -> NoDup (thread_writes n_out iters).
Proof.
  unfold thread_writes. induction 1 as [|i r Hi Hr IH]; cbn [flat_map]; [constructor|].
  assert (Hnd : NoDup (iter_writes n_out i)).
  { unfold iter_writes. apply FinFun.Injective_map_NoDup; [|apply seq_NoDup].
    intros a b E. now injection E. }
  revert Hnd. generalize (in_thread_writes n_out r). unfold thread_writes. intros Hin.
  assert (Hdis : forall w, In w (iter_writes n_out i) -> ~ In w (flat_map (iter_writes n_out) r)).
  { intros [j i'] Hw Hw'. apply Hin in Hw' as [_ Hw']. unfold iter_writes in Hw.
    apply in_map_iff in Hw as (j' & E & _). injection E as -> ->. contradiction. }
  revert Hdis. generalize (iter_writes n_out i). intros l Hdis Hnd.
  induction Hnd as [|w l' Hw Hl' IHl]; cbn [app]; [exact IH|].
  constructor.
  - rewrite in_app_iff. intros [H|H]; [contradiction|]. apply (Hdis w); [now left|exact H].
  - apply IHl. intros w' Hw'. apply Hdis. now right.
Qed.

(** ** an interleaving of sequences is a permutation of their concatenation *)
Lemma concat_insert {A} (g : nat -> list A) (a : A) t l :
  NoDup l -> In t l ->
  Permutation (concat (map (fun i => if (t =? i)%nat then a :: g i else g i) l)) (a :: concat (map g l)).
Proof.
  induction l as [|x r IH]; intros Hnd Hin; [destruct Hin|].
  inversion Hnd as [|? ? Hx Hr]; subst. cbn [map concat].
  destruct (t =? x)%nat eqn:E.
  - apply Nat.eqb_eq in E. subst x. cbn [app]. constructor.
    apply Permutation_app_head.
    rewrite (map_ext_in (fun i => if (t =? i)%nat then a :: g i else g i) g); [reflexivity|].
    intros i Hi. destruct (t =? i)%nat eqn:E; [|reflexivity]. apply Nat.eqb_eq in E. now subst.
  - destruct Hin as [->|Hin]; [now rewrite Nat.eqb_refl in E|].
    eapply Permutation_trans; [apply Permutation_app_head, (IH Hr Hin)|].
    symmetry. apply Permutation_middle.
Qed.

Lemma proj_cons {A} i t (a : A) r :
  proj i ((t, a) :: r) = if (t =? i)%nat then a :: proj i r else proj i r.
Proof. unfold proj. cbn [filter fst]. destruct (t =? i)%nat; reflexivity. Qed.

Lemma tagged_perm {A} (tr : list (nat * A)) T :
  (forall x, In x tr -> (fst x < T)%nat) ->
  Permutation (map snd tr) (concat (map (fun i => proj i tr) (seq 0 T))).
Proof.
  induction tr as [|[t a] r IH]; intros Hlt.
  - cbn [map]. unfold proj. cbn. induction (seq 0 T); cbn; auto.
  - cbn [map snd].
    rewrite (map_ext (fun i => proj i ((t, a) :: r))
                     (fun i => if (t =? i)%nat then a :: proj i r else proj i r))
      by (intros; apply proj_cons).
    eapply Permutation_trans; [|symmetry; apply concat_insert].
    + constructor. apply IH. intros x Hx. apply Hlt. now right.
    + apply seq_NoDup.
    + apply in_seq. specialize (Hlt (t, a) (or_introl eq_refl)). cbn in Hlt. lia.
Qed.

Lemma map_nth_seq {A} (l : list A) d : map (fun i => nth i l d) (seq 0 (length l)) = l.
Proof.
  induction l as [|x r IH]; [reflexivity|]. cbn [length seq map nth].
  f_equal. rewrite <- seq_shift, map_map. exact IH.
Qed.

Theorem interleaving_perm {A} (seqs : list (list A)) tr :
  interleaving seqs tr -> Permutation (map snd tr) (concat seqs).
Proof.
  intros H.
  assert (Hlt : forall x, In x tr -> (fst x < length seqs)%nat).
  { intros [t a] Hx. cbn [fst]. destruct (Nat.lt_ge_cases t (length seqs)) as [Hl|Hg]; [exact Hl|exfalso].
    specialize (H t). rewrite (nth_overflow seqs [] Hg) in H.
    assert (Hin : In a (proj t tr)).
    { unfold proj. apply in_map_iff. exists (t, a). split; [reflexivity|].
      apply filter_In. split; [exact Hx|]. cbn. apply Nat.eqb_refl. }
    rewrite H in Hin. destruct Hin. }
  eapply Permutation_trans; [apply (tagged_perm tr (length seqs) Hlt)|].
  rewrite (map_ext (fun i => proj i tr) (fun i => nth i seqs [])) by exact H.
  now rewrite map_nth_seq.
Qed.

Lemma flat_map_concat' {A B} (f : A -> list B) (ls : list (list A)) :
  flat_map f (concat ls) = concat (map (flat_map f) ls).
Proof.
  induction ls as [|l r IH]; [reflexivity|]. cbn [concat map]. now rewrite flat_map_app, IH.
Qed.

Lemma flat_map_nth_seq {A} (ls : list (list A)) :
  flat_map (fun c => nth c ls []) (seq 0 (length ls)) = concat ls.
Proof. rewrite flat_map_concat_map. now rewrite map_nth_seq. Qed.

Lemma perm_flat_map {A B} (f : A -> list B) l l' :
  Permutation l l' -> Permutation (flat_map f l) (flat_map f l').
Proof.
  induction 1; cbn [flat_map]; auto.
  - now apply Permutation_app_head.
  - rewrite !app_assoc. apply Permutation_app_tail, Permutation_app_comm.
  - eapply Permutation_trans; eassumption.
Qed.

Lemma omp_chunks_concat n c : (1 <= c)%nat -> concat (omp_chunks n c) = seq 0 n.
Proof. intros. unfold omp_chunks. now apply slice_list_concat. Qed.

(** the writes of any assignment of the chunks to any number of threads, in
    any interleaving, are a permutation of the sequential loop nest *)
Lemma schedule_perm n_out n_ev c asg tr :
  (1 <= c)%nat ->
  Permutation (concat asg) (seq 0 (length (omp_chunks n_ev c))) ->
  interleaving (thread_seqs n_out (omp_chunks n_ev c) asg) tr ->
  Permutation (map snd tr) (all_writes n_out n_ev).
Proof.
  intros Hc Hasg Hint. eapply Permutation_trans; [apply (interleaving_perm _ _ Hint)|].
  unfold thread_seqs, all_writes, thread_writes.
  rewrite <- (map_map (thread_iters (omp_chunks n_ev c)) (flat_map (iter_writes n_out))).
  rewrite <- flat_map_concat'. apply perm_flat_map.
  unfold thread_iters. rewrite <- flat_map_concat'.
  eapply Permutation_trans; [apply perm_flat_map, Hasg|].
  rewrite flat_map_nth_seq, omp_chunks_concat by exact Hc. apply Permutation_refl.
Qed.

Lemma in_all_writes n_out n_ev j i :
  In (j, i) (all_writes n_out n_ev) <-> (j < n_out)%nat /\ (i < n_ev)%nat.
Proof. unfold all_writes. rewrite in_thread_writes, in_seq. lia. Qed.

Theorem prange_schedule_independent : forall cellf n_out n_ev c asg tr,
  (1 <= c)%nat ->
  Permutation (concat asg) (seq 0 (length (omp_chunks n_ev c))) ->
  interleaving (thread_seqs n_out (omp_chunks n_ev c) asg) tr ->
  NoDup (map snd tr) /\
  (forall j i, In (j, i) (map snd tr) <-> (j < n_out)%nat /\ (i < n_ev)%nat) /\
  (forall j i, run_writes cellf (map snd tr) zeros j i =
               if (j <? n_out)%nat && (i <? n_ev)%nat then cellf j i else 0).
Proof.
  intros cellf n_out n_ev c asg tr Hc Hasg Hint.
  pose proof (schedule_perm n_out n_ev c asg tr Hc Hasg Hint) as HP.
  assert (Hin : forall j i, In (j, i) (map snd tr) <-> (j < n_out)%nat /\ (i < n_ev)%nat).
  { intros j i. rewrite <- in_all_writes. split; apply Permutation_in; [exact HP|now symmetry]. }
  split; [|split; [exact Hin|]].
  - eapply Permutation_NoDup; [symmetry; exact HP|]. apply NoDup_thread_writes, seq_NoDup.
  - intros j i. destruct ((j <? n_out)%nat && (i <? n_ev)%nat) eqn:E.
    + apply andb_true_iff in E as [E1 E2]. apply Nat.ltb_lt in E1, E2.
      apply run_writes_in. apply Hin. lia.
    + rewrite run_writes_notin; [reflexivity|]. intros H. apply Hin in H as [H1 H2].
      apply Nat.ltb_lt in H1, H2. rewrite H1, H2 in E. discriminate.
Qed.

(** the executable kernel (chunk after chunk) is one of these schedules *)
Theorem kernel_chunked_spec : forall cellf n_out n_ev c j i,
  (1 <= c)%nat ->
  kernel_chunked cellf n_out n_ev c j i =
  if (j <? n_out)%nat && (i <? n_ev)%nat then cellf j i else 0.
Proof.
  intros cellf n_out n_ev c j i Hc. unfold kernel_chunked. rewrite omp_chunks_concat by exact Hc.
  fold (all_writes n_out n_ev).
  destruct ((j <? n_out)%nat && (i <? n_ev)%nat) eqn:E.
  - apply andb_true_iff in E as [E1 E2]. apply Nat.ltb_lt in E1, E2.
    apply run_writes_in. apply in_all_writes. lia.
  - rewrite run_writes_notin; [reflexivity|]. intros H. apply in_all_writes in H as [H1 H2].
    apply Nat.ltb_lt in H1, H2. rewrite H1, H2 in E. discriminate.
Qed.

(** what the executable wrapper model reports for a cell ([pearson_r2], [sgn]
    of the covariance) is what the kernel cell satisfies when it is handed
    the true means and any positive square roots of the sample variances *)
Theorem pearson_r2_char : forall xs ys sx sy,
  length ys = length xs -> (2 <= length xs)%nat ->
  sx * sx = ssd (mean xs) xs / (qn (length xs) - 1) ->
  sy * sy = ssd (mean ys) ys / (qn (length xs) - 1) ->
  0 < sx -> 0 < sy ->
  let r := cell_cols (length xs) xs ys (mean xs) sx (mean ys) sy in
  r * r = pearson_r2 xs ys /\ sgn r = sgn (cov_of xs ys).
Proof.
  intros xs ys sx sy Hl Hn Hsx Hsy Hpx Hpy r.
  assert (Hmy : mean ys = qsum ys / qn (length xs)) by (unfold mean; now rewrite Hl).
  destruct (pearson_char xs ys (mean xs) (mean ys) sx sy Hl Hn eq_refl Hmy Hsx Hsy Hpx Hpy) as [H1 H2].
  fold r in H1, H2. split; [|exact H2].
  pose proof (qn_pred_pos _ Hn) as HD.
  assert (HDn : qn (length xs) - 1 <> 0) by (intro E; rewrite E in HD; exact (Qclt_not_eq _ _ HD eq_refl)).
  assert (Hsxn : sx <> 0) by (intro E; rewrite E in Hpx; exact (Qclt_not_eq _ _ Hpx eq_refl)).
  assert (Hsyn : sy <> 0) by (intro E; rewrite E in Hpy; exact (Qclt_not_eq _ _ Hpy eq_refl)).
  assert (Hx : ssd (mean xs) xs <> 0).
  { intro E. rewrite E in Hsx. unfold Qcdiv in Hsx. rewrite Qcmult_0_l in Hsx.
    apply Qcmult_integral in Hsx. tauto. }
  assert (Hy : ssd (mean ys) ys <> 0).
  { intro E. rewrite E in Hsy. unfold Qcdiv in Hsy. rewrite Qcmult_0_l in Hsy.
    apply Qcmult_integral in Hsy. tauto. }
  unfold pearson_r2, cov_of. rewrite <- H1. field. auto.
Qed.
