(** Flat entry points of the C20 models (Band.v).  Decoding glue only.
    2001: sample_size ; cutoff ; seq of (word id, freq) ; perm (list)   -> 0 :: n :: (word, freq)* in pick order
                                                                         | [-1;1] ZeroDivisionError | [-1;9] out of fuel
    2002: header (list) ; seq of (key (list), count)                    -> 0 :: text written by save_counter
    2003: text...                                                       -> 0 :: seq of (key (list), count) | [-1;1] ValueError *)
From Coq Require Import ZArith List Bool.
From PV Require Import Flat PyText Band.
Import ListNotations.
Open Scope Z_scope.

Definition rd_wf (l : list Z) : option ((Z * Z) * list Z) :=
  match l with w :: f :: r => Some ((w, f), r) | _ => None end.

Definition rd_kv (l : list Z) : option ((list Z * Z) * list Z) :=
  match rd_list l with
  | Some (k, n :: r) => Some ((k, n), r)
  | _ => None
  end.

Definition m_band (inp : list Z) : list Z :=
  match inp with
  | size :: cutoff :: r0 =>
    match rd_seq rd_wf r0 with
    | Some (pop, r1) =>
      match rd_list r1 with
      | Some (perm, _) =>
        match bandsample pop size cutoff (map Z.to_nat perm) with
        | BOk s => 0 :: Z.of_nat (length s) :: flat_map (fun e => [fst e; snd e]) s
        | BZeroDivision => flat_err 1
        | BOutOfFuel => flat_err 9
        end
      | None => bad_case
      end
    | None => bad_case
    end
  | _ => bad_case
  end.

Definition m_save (inp : list Z) : list Z :=
  match rd_list inp with
  | Some (header, r0) =>
    match rd_seq rd_kv r0 with
    | Some (c, _) => 0 :: save_counter header c
    | None => bad_case
    end
  | None => bad_case
  end.

Definition m_load (inp : list Z) : list Z :=
  match load_counter inp with
  | Some c => 0 :: Z.of_nat (length c) :: flat_map (fun kv => wr_list (fst kv) ++ [snd kv]) c
  | None => flat_err 1
  end.

Definition run_c20 (id : Z) (inp : list Z) : option (list Z) :=
  if id =? 2001 then Some (m_band inp)
  else if id =? 2002 then Some (m_save inp)
  else if id =? 2003 then Some (m_load inp)
  else None.
