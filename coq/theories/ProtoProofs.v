(** Proofs about chunk conversion ([Proto.v]). *)
From Coq Require Import ZArith List Bool Arith Lia Permutation Sorting.Sorted.
From PV Require Import Lists Bytes BinFmt BinFmtProofs Sched SchedProofs Proto.
Import ListNotations.

(** * Part 1: chunk names and their numeric sort *)
Definition ud (a : nat) (ds : list nat) : nat := fold_left (fun a d => 10 * a + d) ds a.

Lemma ud_split a ds : ud a ds = a * 10 ^ length ds + ud 0 ds.
Proof.
  revert a. induction ds as [|d r IH]; intros a; cbn [ud fold_left length].
  - cbn. lia.
  - fold (ud (10 * a + d) r). fold (ud (10 * 0 + d) r). rewrite IH, (IH (10 * 0 + d)).
    rewrite Nat.pow_succ_r'. lia.
Qed.

Lemma digits_fuel_value fuel n acc :
  n < fuel -> ud 0 (digits_fuel fuel n acc) = n * 10 ^ length acc + ud 0 acc.
Proof.
  revert n acc. induction fuel as [|f IH]; intros n acc Hn; [lia|].
  cbn [digits_fuel]. destruct (Nat.ltb_spec n 10) as [Hlt|Hge].
  - cbn [ud fold_left]. fold (ud (10 * 0 + n) acc). rewrite ud_split. lia.
  - assert (Hd : n / 10 < f).
    { pose proof (Nat.div_lt n 10). lia. }
    rewrite (IH _ _ Hd). cbn [length]. rewrite Nat.pow_succ_r'.
    cbn [ud fold_left]. fold (ud (10 * 0 + n mod 10) acc). rewrite (ud_split (10 * 0 + n mod 10)).
    pose proof (Nat.div_mod n 10). nia.
Qed.

(** int(str(i)) = i for every chunk index *)
Theorem decimal_roundtrip n : undigits (digits n) = n.
Proof.
  unfold undigits, digits. change (fold_left _ ?l 0) with (ud 0 l).
  rewrite digits_fuel_value by lia. cbn. lia.
Qed.

Section SortBy.
  Context {A : Type} (key : A -> nat).
  Let le (a b : A) : bool := Nat.leb (key a) (key b).

  Lemma insert_by_perm x l : Permutation (insert_by le x l) (x :: l).
  Proof.
    induction l as [|y r IH]; cbn; [reflexivity|].
    destruct (le x y); [reflexivity|]. rewrite IH. apply perm_swap.
  Qed.

  Lemma sort_by_perm l : Permutation (sort_by le l) l.
  Proof.
    induction l as [|x r IH]; cbn; [reflexivity|].
    rewrite insert_by_perm. now apply perm_skip.
  Qed.

  Definition kle (a b : A) : Prop := key a <= key b.
  Definition klt (a b : A) : Prop := key a < key b.

  Lemma insert_by_sorted x l : StronglySorted kle l -> StronglySorted kle (insert_by le x l).
  Proof.
    induction 1 as [|y r Hr IH Hy]; cbn; [repeat constructor|].
    unfold le. destruct (Nat.leb_spec (key x) (key y)) as [Hle|Hgt].
    - constructor; [now constructor|]. constructor; [exact Hle|].
      rewrite Forall_forall in *. intros z Hz. specialize (Hy z Hz). unfold kle in *. lia.
    - constructor; [exact IH|].
      rewrite Forall_forall in *. intros z Hz.
      apply (Permutation_in _ (insert_by_perm x r)) in Hz. destruct Hz as [<-|Hz].
      + unfold kle. lia.
      + now apply Hy.
  Qed.

  Lemma sort_by_sorted l : StronglySorted kle (sort_by le l).
  Proof. induction l as [|x r IH]; cbn; [constructor|]. now apply insert_by_sorted. Qed.

  Lemma sorted_perm_unique l1 l2 :
    StronglySorted klt l1 -> StronglySorted kle l2 -> Permutation l1 l2 -> l1 = l2.
  Proof.
    intros H1. revert l2. induction H1 as [|x t1 Ht1 IH Hx]; intros l2 H2 P.
    - apply Permutation_nil in P. now subst.
    - destruct l2 as [|y t2]; [apply Permutation_sym, Permutation_nil in P; discriminate|].
      inversion H2 as [|? ? Ht2 Hy]; subst.
      assert (Hxy : x = y).
      { assert (In y (x :: t1)) by (apply (Permutation_in _ (Permutation_sym P)); now left).
        assert (In x (y :: t2)) by (apply (Permutation_in _ P); now left).
        destruct H as [E|Hin]; [exact E|].
        rewrite Forall_forall in Hx, Hy. specialize (Hx y Hin).
        destruct H0 as [E|Hin2]; [now symmetry|]. specialize (Hy x Hin2).
        unfold klt, kle in *. lia. }
      subst y. f_equal. apply IH; [exact Ht2|]. now apply Permutation_cons_inv in P.
  Qed.

  (** sorting any listing order by the key restores the strictly increasing order *)
  Theorem sort_by_restores l l0 :
    StronglySorted klt l0 -> Permutation l l0 -> sort_by le l = l0.
  Proof.
    intros H0 P. symmetry. apply sorted_perm_unique; [exact H0|apply sort_by_sorted|].
    rewrite sort_by_perm. now symmetry.
  Qed.
End SortBy.

Lemma seq_names_sorted a m : StronglySorted (klt undigits) (map digits (seq a m)).
Proof.
  revert a. induction m as [|m IH]; intros a; cbn [map seq]; [constructor|].
  constructor; [apply IH|]. apply Forall_forall. intros d Hd.
  apply in_map_iff in Hd as [k [<- Hk]]. apply in_seq in Hk.
  unfold klt. rewrite !decimal_roundtrip. lia.
Qed.

(** whatever order os.listdir returns the chunk files in, sorting by the parsed
    integer gives events_0_0, events_0_1, ..., events_0_(m-1) *)
Theorem numeric_sort_restores_order m names :
  Permutation names (map digits (seq 0 m)) -> numeric_sort names = map digits (seq 0 m).
Proof. intros P. unfold numeric_sort. apply sort_by_restores; [apply seq_names_sorted|exact P]. Qed.

(** sorting the names as strings goes wrong from 11 chunks on *)
Theorem lexicographic_sort_refuted :
  exists m, lexicographic_sort (map digits (seq 0 m)) <> map digits (seq 0 m).
Proof. exists 11. vm_compute. discriminate. Qed.

(** * Part 2: the chunks contain the events, in order *)
Lemma prep_all_length po es es' : prep_all po es = Some es' -> length es' = length es.
Proof.
  revert es'. induction es as [|e r IH]; intros es' H; cbn in H.
  - now inversion H.
  - destruct (prep po e); [|discriminate]. destruct (prep_all po r) eqn:E; [|discriminate].
    inversion H; subst. cbn. now rewrite (IH _ eq_refl).
Qed.

Lemma prep_all_firstn po n es es' :
  prep_all po es = Some es' -> prep_all po (firstn n es) = Some (firstn n es').
Proof.
  revert es es'. induction n as [|n IH]; intros es es' H; [reflexivity|].
  destruct es as [|e r]; cbn in H.
  - inversion H. reflexivity.
  - destruct (prep po e) eqn:Ee; [|discriminate]. destruct (prep_all po r) eqn:E; [|discriminate].
    inversion H; subst. cbn [firstn prep_all]. now rewrite Ee, (IH _ _ E).
Qed.

Lemma prep_all_skipn po n es es' :
  prep_all po es = Some es' -> prep_all po (skipn n es) = Some (skipn n es').
Proof.
  revert es es'. induction n as [|n IH]; intros es es' H; [exact H|].
  destruct es as [|e r]; cbn in H.
  - inversion H. reflexivity.
  - destruct (prep po e) eqn:Ee; [|discriminate]. destruct (prep_all po r) eqn:E; [|discriminate].
    inversion H; subst. cbn [skipn]. now apply IH.
Qed.

Lemma prep_all_window po es es' a b :
  prep_all po es = Some es' -> prep_all po (window es a b) = Some (window es' a b).
Proof.
  intros H. unfold window. rewrite (prep_all_length _ _ _ H).
  now apply prep_all_firstn, prep_all_skipn.
Qed.

Lemma window_block (es : list event) k per :
  window es (Z.of_nat (k * per)) (Z.of_nat ((k + 1) * per)) = firstn per (skipn (k * per) es).
Proof.
  rewrite window_spec by lia. f_equal; [|f_equal]; lia.
Qed.

(** what job k reports, for an event file of n events without duplicate errors *)
Definition res_spec (n per : nat) (k : nat) : jres :=
  if Nat.leb ((k + 1) * per) n then JReturn per
  else if Nat.ltb (k * per) n then JStop (n - k * per)
  else JReturn 0.

Theorem job_result_spec es es' per po k :
  prep_all po es = Some es' -> 1 <= per ->
  job_result es per po k = res_spec (length es) per k.
Proof.
  intros H Hper. unfold job_result, write_events.
  rewrite (prep_all_window _ _ _ _ _ H), window_block.
  pose proof (prep_all_length _ _ _ H) as Hl.
  set (w := firstn per (skipn (k * per) es')).
  assert (Hw : length w = Nat.min per (length es - k * per)).
  { unfold w. rewrite firstn_length, skipn_length. lia. }
  unfold res_spec.
  destruct (Z.eqb_spec (Z.of_nat (length w)) 0) as [E0|E0].
  - destruct (Nat.leb_spec ((k + 1) * per) (length es)); [lia|].
    destruct (Nat.ltb_spec (k * per) (length es)); [lia|]. reflexivity.
  - destruct (Z.eqb_spec (Z.of_nat (length w)) (Z.of_nat ((k + 1) * per) - Z.of_nat (k * per))) as [E1|E1].
    + destruct (Nat.leb_spec ((k + 1) * per) (length es)); [|lia]. rewrite Nat2Z.id. f_equal. lia.
    + destruct (Nat.leb_spec ((k + 1) * per) (length es)); [lia|].
      destruct (Nat.ltb_spec (k * per) (length es)); [|lia]. rewrite Nat2Z.id. f_equal. lia.
Qed.

(** the file of job k holds exactly the events k*per .. (k+1)*per-1 (after the
    duplicate policy), and is absent exactly when that range is empty *)
Theorem job_file_spec es es' per po k :
  prep_all po es = Some es' -> 1 <= per ->
  let w := firstn per (skipn (k * per) es') in
  job_file es per po k = if Nat.eqb (length w) 0 then None else Some (encode_n (Z.of_nat (length w)) w).
Proof.
  intros H Hper w. unfold job_file, write_events.
  rewrite (prep_all_window _ _ _ _ _ H), window_block. fold w.
  destruct (Nat.eqb_spec (length w) 0) as [E|E].
  - rewrite E. reflexivity.
  - destruct (Z.eqb_spec (Z.of_nat (length w)) 0); [lia|].
    destruct (Z.eqb (Z.of_nat (length w)) _); reflexivity.
Qed.

(** the chunks taken in index order are the event list *)
Theorem chunks_concat (es : list event) per m :
  length es <= m * per ->
  concat (map (fun k => firstn per (skipn (k * per) es)) (seq 0 m)) = es.
Proof. intros H. rewrite concat_blocks. now apply firstn_all2. Qed.

(** * Part 3: the submit loop, for every schedule *)
Definition closes (fx : fixes) (r : jres) : bool :=
  match r with
  | JReturn n => f1 fx && Nat.eqb n 0
  | JStop _ => true
  | JError => f2 fx
  end.

Definition sumc (res : nat -> jres) (l : list nat) : nat := fold_right (fun k a => jcount (res k) + a) 0 l.

Lemma sumc_perm res l l' : Permutation l l' -> sumc res l = sumc res l'.
Proof. unfold sumc. induction 1; cbn [fold_right] in *; lia. Qed.

Lemma mem_nat_In x l : mem_nat x l = true <-> In x l.
Proof.
  induction l as [|y r IH]; cbn; [split; [discriminate|tauto]|].
  rewrite orb_true_iff, Nat.eqb_eq, IH. split; intros [H|H]; auto.
Qed.

Section Loop.
  Variable res : nat -> jres.
  Variable B : nat.
  Hypothesis HB : 1 <= B.

  Notation step := (pstep repaired res B).

  Record PInv (s : pstate) : Prop := {
    pi_nodup : NoDup (processed s);
    pi_lt : forall k, In k (processed s) -> k < next s;
    pi_total : total s = sumc res (processed s);
    pi_wait : forall w, waiting s = Some w -> S w = next s /\ ~ In w (processed s);
    pi_closed : closed s = true <-> exists k, In k (processed s) /\ closes repaired (res k) = true;
    pi_done : loop_done s = true -> closed s = true /\ waiting s = None;
    pi_alive : handler_dead s = false;
    pi_errors : forall k, In k (errors s) <-> In k (processed s) /\ res k = JError
  }.

  Lemma pinv_init : PInv pinit.
  Proof.
    constructor; cbn; try (intros; contradiction); try constructor; try discriminate; try tauto;
      try (intros [k [[] _]]); try (intros [[] _]).
  Qed.

  Lemma pinv_step s a : PInv s -> PInv (step s a).
  Proof.
    intros I. destruct a as [|k]; cbn [pstep].
    - (* Submit *)
      destruct (loop_done s) eqn:Hld; [exact I|].
      destruct (waiting s) as [w|] eqn:Hw; [exact I|].
      destruct (closed s) eqn:Hc; destruct I as [ND LT TO WA CL DN AL ER].
      + constructor; cbn; try assumption; try tauto; try (intros; discriminate); try (rewrite <- CL; tauto).
      + constructor; cbn; try assumption.
        * intros j Hj. specialize (LT j Hj). lia.
        * intros w. destruct (Nat.eqb _ 0); [|discriminate]. intros E. inversion E; subst.
          split; [reflexivity|]. intros Hin. specialize (LT _ Hin). lia.
        * rewrite <- CL, Hc. tauto.
        * discriminate.
    - (* Process k *)
      rewrite (pi_alive _ I).
      destruct (Nat.ltb_spec k (next s)) as [Hk|Hk]; cbn [andb]; [|exact I].
      destruct (mem_nat k (processed s)) eqn:Hm; cbn [negb]; [exact I|].
      destruct I as [ND LT TO WA CL DN AL ER].
      assert (Hnin : ~ In k (processed s)).
      { intro Hin. apply mem_nat_In in Hin. congruence. }
      assert (WA' : forall w, match waiting s with
                              | Some w0 => if Nat.eqb w0 k then None else Some w0
                              | None => None end = Some w ->
                              S w = next s /\ ~ In w (k :: processed s)).
      { intros w Hw. destruct (waiting s) as [w0|] eqn:E; [|discriminate].
        destruct (Nat.eqb_spec w0 k); [discriminate|]. inversion Hw; subst.
        destruct (WA w eq_refl) as [H1 H2]. split; [exact H1|]. intros [E1|E1]; [congruence|contradiction]. }
      assert (DN' : loop_done s = true -> match waiting s with
                              | Some w0 => if Nat.eqb w0 k then None else Some w0
                              | None => None end = None).
      { intros Hd. destruct (DN Hd) as [_ ->]. reflexivity. }
      destruct (res k) as [n|n|] eqn:Hr; cbn [f1 f2 repaired andb].
      + constructor; cbn [next processed closed total errors waiting loop_done handler_dead].
        * now constructor.
        * intros j [<-|Hj]; auto.
        * unfold sumc in *. cbn [fold_right]. rewrite Hr. cbn [jcount]. lia.
        * exact WA'.
        * rewrite orb_true_iff, CL. split.
          -- intros [[j [Hj Hcj]]|Hn]; [exists j; split; [now right|exact Hcj]|].
             exists k. split; [now left|]. rewrite Hr. exact Hn.
          -- intros [j [[<-|Hj] Hcj]]; [right; rewrite Hr in Hcj; exact Hcj|left; exists j; auto].
        * intros Hd. destruct (DN Hd) as [Hc _]. split; [now rewrite Hc|now apply DN'].
        * reflexivity.
        * intros j. rewrite ER. split.
          -- intros [Hj He]. split; [now right|exact He].
          -- intros [[<-|Hj] He]; [congruence|split; assumption].
      + constructor; cbn [next processed closed total errors waiting loop_done handler_dead].
        * now constructor.
        * intros j [<-|Hj]; auto.
        * unfold sumc in *. cbn [fold_right]. rewrite Hr. cbn [jcount]. lia.
        * exact WA'.
        * split; [|reflexivity]. intros _. exists k. split; [now left|]. now rewrite Hr.
        * intros Hd. split; [reflexivity|now apply DN'].
        * reflexivity.
        * intros j. rewrite ER. split.
          -- intros [Hj He]. split; [now right|exact He].
          -- intros [[<-|Hj] He]; [congruence|split; assumption].
      + constructor; cbn [next processed closed total errors waiting loop_done handler_dead].
        * now constructor.
        * intros j [<-|Hj]; auto.
        * unfold sumc in *. cbn [fold_right]. rewrite Hr. cbn [jcount]. lia.
        * exact WA'.
        * split; [|reflexivity]. intros _. exists k. split; [now left|]. now rewrite Hr.
        * intros Hd. split; [reflexivity|now apply DN'].
        * reflexivity.
        * intros j. rewrite in_app_iff, ER. cbn. split.
          -- intros [[Hj He]|[<-|[]]]; [split; [now right|exact He]|split; [now left|exact Hr]].
          -- intros [[<-|Hj] He]; [right; now left|left; split; assumption].
  Qed.

  Lemma pinv_run sched s : PInv s -> PInv (prun repaired res B sched s).
  Proof.
    unfold prun. revert s. induction sched as [|a r IH]; intros s I; [exact I|].
    cbn [fold_left]. apply IH. now apply pinv_step.
  Qed.

  Lemma finished_all_processed s :
    PInv s -> pfinished s = true -> Permutation (processed s) (seq 0 (next s)).
  Proof.
    intros I F. unfold pfinished in F. apply andb_true_iff in F as [_ F].
    rewrite forallb_forall in F.
    apply NoDup_Permutation; [exact (pi_nodup _ I)|apply seq_NoDup|].
    intros k. rewrite in_seq. split.
    - intros H. pose proof (pi_lt _ I k H). lia.
    - intros H. apply mem_nat_In, F, in_seq. lia.
  Qed.

  (** ** the reported number is the sum over ALL submitted jobs, for every schedule *)
  Theorem proto_total sched :
    let s := prun repaired res B sched pinit in
    pfinished s = true -> total s = sumc res (seq 0 (next s)).
  Proof.
    intros s F. pose proof (pinv_run sched pinit pinv_init) as I. fold s in I.
    rewrite (pi_total _ I). apply sumc_perm. now apply finished_all_processed.
  Qed.

  (** ** termination *)
  Variable K : nat.
  Hypothesis HK : forall k, K <= k -> closes repaired (res k) = true.

  Definition m0 : nat := (K / B) * B.

  Record TInv (s : pstate) : Prop := {
    ti_bound : closed s = false -> next s <= m0 + B /\ (next s = m0 + B -> waiting s = Some (next s - 1))
  }.

  Lemma m0_le : m0 <= K /\ K < m0 + B.
  Proof.
    unfold m0. pose proof (Nat.div_mod K B). pose proof (Nat.mod_upper_bound K B). nia.
  Qed.

  Lemma tinv_step s a : PInv s -> TInv s -> TInv (step s a).
  Proof.
    intros I TI. constructor. destruct a as [|k]; cbn [pstep].
    - destruct (loop_done s) eqn:Hld; [exact (ti_bound _ TI)|].
      destruct (waiting s) as [w|] eqn:Hw; [exact (ti_bound _ TI)|].
      destruct (closed s) eqn:Hc; cbn; [discriminate|].
      pose proof (ti_bound _ TI) as T.
      intros _. destruct (T Hc) as [T1 T2].
      assert (Hlt : next s < m0 + B).
      { destruct (Nat.eq_dec (next s) (m0 + B)) as [E|E]; [|lia]. specialize (T2 E). congruence. }
      split; [lia|]. intros E.
      assert (Hmod : S (next s) mod B = 0).
      { rewrite E. unfold m0. rewrite Nat.add_comm, Nat.add_mod, Nat.mod_mul, Nat.mod_same by lia.
        cbn. rewrite Nat.mod_0_l by lia. reflexivity. }
      rewrite Hmod. cbn. f_equal. lia.
    - rewrite (pi_alive _ I).
      destruct (Nat.ltb_spec k (next s)) as [Hk|Hk]; cbn [andb]; [|exact (ti_bound _ TI)].
      destruct (mem_nat k (processed s)) eqn:Hm; cbn [negb]; [exact (ti_bound _ TI)|].
      pose proof (ti_bound _ TI) as T.
      destruct (res k) as [n|n|] eqn:Hr; cbn [f1 f2 repaired andb next closed waiting]; try discriminate.
      intros Hc. apply orb_false_iff in Hc as [Hc Hn].
      destruct (T Hc) as [T1 T2]. split; [exact T1|].
      intros E. specialize (T2 E). rewrite T2.
      destruct (Nat.eqb_spec (next s - 1) k) as [Ek|Ek]; [|reflexivity].
      (* the awaited job is the last one of the block beyond K: it closes the pool *)
      exfalso. pose proof m0_le. assert (HKk : K <= k) by lia.
      specialize (HK k HKk). rewrite Hr in HK. cbn in HK. congruence.
  Qed.

  Lemma tinv_init : TInv pinit.
  Proof.
    constructor. cbn. intros _. pose proof m0_le. split; [lia|]. intros E. lia.
  Qed.

  Lemma tinv_run sched s : PInv s -> TInv s -> TInv (prun repaired res B sched s) /\ PInv (prun repaired res B sched s).
  Proof.
    unfold prun. revert s. induction sched as [|a r IH]; intros s I T; [split; assumption|].
    cbn [fold_left]. apply IH; [now apply pinv_step|now apply tinv_step].
  Qed.

  (** the number of submitted jobs is bounded: next <= m0 + B <= K + B *)
  Lemma next_bound sched : next (prun repaired res B sched pinit) <= m0 + B.
  Proof.
    assert (G : forall sched s, PInv s -> TInv s -> next s <= m0 + B ->
                                next (prun repaired res B sched s) <= m0 + B).
    { clear sched. unfold prun. induction sched as [|a r IH]; intros s I T Hn; [exact Hn|].
      cbn [fold_left]. apply IH; [now apply pinv_step|now apply tinv_step|].
      destruct a as [|k]; cbn [pstep].
      - destruct (loop_done s); [exact Hn|]. destruct (waiting s) eqn:Hw; [exact Hn|].
        destruct (closed s) eqn:Hc; cbn [next]; [exact Hn|].
        destruct (ti_bound _ T Hc) as [T1 T2].
        destruct (Nat.eq_dec (next s) (m0 + B)) as [E|E]; [specialize (T2 E); congruence|lia].
      - destruct (handler_dead s); [exact Hn|].
        destruct (Nat.ltb k (next s) && negb (mem_nat k (processed s))); [|exact Hn].
        destruct (res k); exact Hn. }
    apply G; [apply pinv_init|apply tinv_init|]. cbn. lia.
  Qed.

  Definition mu (s : pstate) : nat :=
    (m0 + B - next s) + (m0 + B - length (processed s)) + (if loop_done s then 0 else 1).

  Lemma processed_room s k :
    PInv s -> k < next s -> ~ In k (processed s) -> S (length (processed s)) <= next s.
  Proof.
    intros I Hk Hnin.
    assert (Hnd : NoDup (k :: processed s)) by (constructor; [exact Hnin|exact (pi_nodup _ I)]).
    assert (Hinc : incl (k :: processed s) (seq 0 (next s))).
    { intros j [<-|Hj]; apply in_seq; [lia|]. pose proof (pi_lt _ I j Hj). lia. }
    pose proof (NoDup_incl_length Hnd Hinc) as L. rewrite seq_length in L. exact L.
  Qed.

  Lemma step_decreases s a :
    PInv s -> TInv s -> next s <= m0 + B ->
    step s a = s \/ mu (step s a) < mu s.
  Proof.
    intros I T Hn. destruct a as [|k]; cbn [pstep].
    - destruct (loop_done s) eqn:Hld; [now left|].
      destruct (waiting s) eqn:Hw; [now left|].
      destruct (closed s) eqn:Hc; right; unfold mu; cbn [next processed loop_done]; rewrite Hld.
      + lia.
      + destruct (ti_bound _ T Hc) as [T1 T2].
        destruct (Nat.eq_dec (next s) (m0 + B)) as [E|E]; [specialize (T2 E); congruence|lia].
    - rewrite (pi_alive _ I).
      destruct (Nat.ltb_spec k (next s)) as [Hk|Hk]; cbn [andb]; [|now left].
      destruct (mem_nat k (processed s)) eqn:Hm; cbn [negb]; [now left|].
      assert (Hnin : ~ In k (processed s)) by (intro Hin; apply mem_nat_In in Hin; congruence).
      pose proof (processed_room s k I Hk Hnin) as Hroom.
      right. destruct (res k); unfold mu; cbn [next processed loop_done length f2 repaired]; lia.
  Qed.

  Fixpoint effective (sched : list pact) (s : pstate) : nat :=
    match sched with
    | [] => 0
    | a :: r => (if Nat.eqb (mu (step s a)) (mu s) then 0 else 1) + effective r (step s a)
    end.

  Lemma bounded_work sched s :
    PInv s -> TInv s -> next s <= m0 + B ->
    effective sched s + mu (prun repaired res B sched s) <= mu s.
  Proof.
    unfold prun. revert s. induction sched as [|a r IH]; intros s I T Hn; cbn [effective fold_left]; [lia|].
    assert (Hn' : next (step s a) <= m0 + B).
    { pose proof (step_decreases s a I T Hn) as D.
      destruct a as [|k]; cbn [pstep] in *.
      - destruct (loop_done s); [exact Hn|]. destruct (waiting s) eqn:Hw; [exact Hn|].
        destruct (closed s) eqn:Hc; cbn [next]; [exact Hn|].
        destruct (ti_bound _ T Hc) as [T1 T2].
        destruct (Nat.eq_dec (next s) (m0 + B)) as [E|E]; [specialize (T2 E); congruence|lia].
      - destruct (handler_dead s); [exact Hn|].
        destruct (Nat.ltb k (next s) && negb (mem_nat k (processed s))); [|exact Hn].
        destruct (res k); exact Hn. }
    specialize (IH (step s a) (pinv_step s a I) (tinv_step s a I T) Hn').
    destruct (step_decreases s a I T Hn) as [E|L].
    - rewrite E in *. rewrite Nat.eqb_refl. lia.
    - destruct (Nat.eqb_spec (mu (step s a)) (mu s)); lia.
  Qed.

  Lemma progress s :
    PInv s -> TInv s -> next s <= m0 + B -> pfinished s = false -> exists a, mu (step s a) < mu s.
  Proof.
    intros I T Hn F.
    destruct (waiting s) as [w|] eqn:Hw.
    - (* the awaited job is submitted and not delivered: the handler can deliver it *)
      destruct (pi_wait _ I w Hw) as [Hnext Hnin]. exists (Process w).
      destruct (step_decreases s (Process w) I T Hn) as [E|L]; [|exact L]. exfalso.
      cbn [pstep] in E. rewrite (pi_alive _ I) in E.
      destruct (Nat.ltb_spec w (next s)) as [Hk|Hk]; [|lia]. cbn [andb] in E.
      destruct (mem_nat w (processed s)) eqn:Hm; [apply mem_nat_In in Hm; contradiction|].
      cbn [negb] in E. destruct (res w); apply (f_equal processed) in E; cbn in E;
        apply (f_equal (@length nat)) in E; cbn in E; lia.
    - destruct (loop_done s) eqn:Hld.
      + (* join(): some submitted job is not delivered yet *)
        unfold pfinished in F. rewrite Hld in F. cbn [andb] in F.
        assert (Hex : exists k, k < next s /\ ~ In k (processed s)).
        { clear - F. induction (next s) as [|n IH].
          - discriminate.
          - rewrite seq_S, forallb_app in F. cbn in F. apply andb_false_iff in F as [F|F].
            + destruct (IH F) as [k [H1 H2]]. exists k. split; [lia|exact H2].
            + exists n. split; [lia|]. intro Hin. apply mem_nat_In in Hin. rewrite Hin in F. discriminate. }
        destruct Hex as [k [Hk Hnin]]. exists (Process k).
        destruct (step_decreases s (Process k) I T Hn) as [E|L]; [|exact L]. exfalso.
        cbn [pstep] in E. rewrite (pi_alive _ I) in E.
        destruct (Nat.ltb_spec k (next s)) as [Hk'|Hk']; [|lia]. cbn [andb] in E.
        destruct (mem_nat k (processed s)) eqn:Hm; [apply mem_nat_In in Hm; contradiction|].
        cbn [negb] in E. destruct (res k); apply (f_equal processed) in E; cbn in E;
          apply (f_equal (@length nat)) in E; cbn in E; lia.
      + (* the submit loop is not throttled: it submits or leaves *)
        exists Submit.
        destruct (step_decreases s Submit I T Hn) as [E|L]; [|exact L]. exfalso.
        cbn [pstep] in E. rewrite Hld, Hw in E.
        destruct (closed s).
        * apply (f_equal loop_done) in E. cbn in E. congruence.
        * apply (f_equal next) in E. cbn in E. lia.
  Qed.

  (** ** for every schedule of submissions and deliveries: bounded work, and
      while the call has not finished some step is enabled - it terminates *)
  Theorem proto_terminates sched :
    let s := prun repaired res B sched pinit in
    effective sched pinit <= 2 * (m0 + B) + 1 /\
    next s <= K + B /\
    (pfinished s = false -> exists a, mu (step s a) < mu s).
  Proof.
    intros s. pose proof m0_le as [Hm0 _].
    destruct (tinv_run sched pinit pinv_init tinv_init) as [T I].
    pose proof (next_bound sched) as Hn. fold s in T, I, Hn.
    split; [|split].
    - pose proof (bounded_work sched pinit pinv_init tinv_init) as W.
      unfold mu at 2 in W. cbn in W. lia.
    - lia.
    - now apply progress.
  Qed.
End Loop.

(** * Part 4: the protocol on a real event file *)
Lemma res_spec_closes n per k : 1 <= per -> n / per <= k -> closes repaired (res_spec n per k) = true.
Proof.
  intros Hp Hk. unfold res_spec.
  assert (n < (k + 1) * per).
  { pose proof (Nat.div_mod n per). pose proof (Nat.mod_upper_bound n per). nia. }
  destruct (Nat.leb_spec ((k + 1) * per) n); [lia|].
  destruct (Nat.ltb ((k) * per) n); reflexivity.
Qed.

Lemma res_spec_closes_inv n per k : 1 <= per -> closes repaired (res_spec n per k) = true -> n < (k + 1) * per.
Proof.
  intros Hp. unfold res_spec. destruct (Nat.leb_spec ((k + 1) * per) n); [|lia].
  cbn. destruct per; [lia|discriminate].
Qed.

Lemma sumc_res_spec n per m : 1 <= per -> sumc (res_spec n per) (seq 0 m) = Nat.min n (m * per).
Proof.
  intros Hp. induction m as [|m IH]; [cbn; lia|].
  rewrite seq_S. unfold sumc in *. rewrite fold_right_app. cbn [fold_right plus].
  assert (G : forall l a, fold_right (fun k a => jcount (res_spec n per k) + a) a l =
                          fold_right (fun k a => jcount (res_spec n per k) + a) 0 l + a).
  { induction l as [|x r IHl]; intros a; cbn; [lia|]. rewrite IHl. lia. }
  rewrite G, IH. unfold res_spec.
  destruct (Nat.leb_spec ((m + 1) * per) n); cbn [jcount]; [lia|].
  destruct (Nat.ltb_spec (m * per) n); cbn [jcount]; lia.
Qed.

(** chunk conversion of a file of n events (no duplicate error), events_per_file
    = per >= 1, 4*n_jobs = B >= 1: for EVERY order in which jobs are submitted
    and delivered, when the call returns it reports exactly n events *)
Theorem proto_reports_all_events n per B sched :
  1 <= per -> 1 <= B ->
  let s := prun repaired (res_spec n per) B sched pinit in
  pfinished s = true -> total s = n /\ errors s = [] /\ n <= next s * per.
Proof.
  intros Hp HB s F.
  assert (I : PInv (res_spec n per) s) by (apply pinv_run; [exact HB|apply pinv_init; exact B]).
  assert (Hcl : closed s = true).
  { unfold pfinished in F. apply andb_true_iff in F as [F _]. now apply (pi_done _ _ I). }
  apply (pi_closed _ _ I) in Hcl. destruct Hcl as [k [Hk Hc]].
  apply res_spec_closes_inv in Hc; [|exact Hp].
  pose proof (pi_lt _ _ I k Hk) as Hlt.
  assert (Hcover : n <= next s * per) by nia.
  split; [|split; [|exact Hcover]].
  - unfold s. rewrite proto_total by (exact HB || exact F). fold s. rewrite sumc_res_spec by exact Hp. lia.
  - destruct (errors s) as [|e r] eqn:E; [reflexivity|]. exfalso.
    assert (He : In e (errors s)) by (rewrite E; now left).
    apply (pi_errors _ _ I) in He. destruct He as [_ He]. unfold res_spec in He.
    destruct (Nat.leb _ _); [discriminate|]. destruct (Nat.ltb _ _); discriminate.
Qed.

Theorem proto_conversion_terminates n per B sched :
  1 <= per -> 1 <= B ->
  let res := res_spec n per in
  let s := prun repaired res B sched pinit in
  next s <= n / per + B /\
  (pfinished s = false -> exists a, mu B (n / per) (pstep repaired res B s a) < mu B (n / per) s).
Proof.
  intros Hp HB res s.
  assert (HK : forall k, n / per <= k -> closes repaired (res k) = true)
    by (intros k Hk; now apply res_spec_closes).
  destruct (proto_terminates res B HB (n / per) HK sched) as (_ & H2 & H3).
  split; assumption.
Qed.

(** an error in any job (duplicate under None, full disk) is remembered, closes
    the pool and the call still terminates: same theorem, any [res] with an
    error at or beyond which every job closes the pool *)

(** ** the logic before the repairs *)
(** F1: n a multiple of per (also n = 0): no job ever closes the pool, the submit
    loop is never left, whatever the schedule *)
Lemma res_spec_multiple q per k : 1 <= per ->
  res_spec (q * per) per k = JReturn per \/ res_spec (q * per) per k = JReturn 0.
Proof.
  intros Hp. unfold res_spec.
  destruct (Nat.leb_spec ((k + 1) * per) (q * per)); [now left|].
  destruct (Nat.ltb_spec (k * per) (q * per)); [|now right]. exfalso.
  destruct (Nat.lt_ge_cases k q) as [Hlt|Hge].
  - assert ((k + 1) * per <= q * per) by (apply Nat.mul_le_mono_r; lia). lia.
  - assert (q * per <= k * per) by (apply Nat.mul_le_mono_r; lia). lia.
Qed.

Theorem exact_multiple_never_returns q per B sched : 1 <= per ->
  loop_done (prun unrepaired (res_spec (q * per) per) B sched pinit) = false.
Proof.
  intros Hp.
  assert (G : forall sched s, closed s = false -> loop_done s = false ->
              closed (prun unrepaired (res_spec (q * per) per) B sched s) = false /\
              loop_done (prun unrepaired (res_spec (q * per) per) B sched s) = false).
  { clear sched. unfold prun. induction sched as [|a r IH]; intros s Hc Hl; [now split|].
    cbn [fold_left]. destruct a as [|k]; cbn [pstep].
    - rewrite Hl. destruct (waiting s); [now apply IH|]. rewrite Hc. now apply IH.
    - destruct (handler_dead s); [now apply IH|].
      destruct (Nat.ltb k (next s) && negb (mem_nat k (processed s))); [|now apply IH].
      destruct (res_spec_multiple q per k Hp) as [E|E]; rewrite E; cbn [f1 unrepaired andb];
        apply IH; cbn; rewrite ?Hc; auto. }
  now apply G.
Qed.

Theorem exact_multiple_never_returns_refuted :
  exists n per, 2 <= per /\ n mod per = 0 /\
    forall B sched, loop_done (prun unrepaired (res_spec n per) B sched pinit) = false.
Proof.
  exists 4, 2. split; [lia|]. split; [reflexivity|]. intros B sched.
  change 4 with (2 * 2). apply exact_multiple_never_returns. lia.
Qed.

(** F2: an error re-raised inside the result handler thread kills it: nothing is
    delivered any more and the call never finishes *)
Theorem error_in_handler_blocks_refuted :
  exists res B prefix, forall sched,
    pfinished (prun unrepaired res B (prefix ++ sched) pinit) = false.
Proof.
  exists (fun _ => JError), 4, [Submit; Process 0]. intros sched.
  unfold prun. rewrite fold_left_app.
  set (s0 := fold_left (pstep unrepaired (fun _ => JError) 4) [Submit; Process 0] pinit).
  assert (G : forall sched s, handler_dead s = true -> closed s = false -> loop_done s = false ->
              loop_done (fold_left (pstep unrepaired (fun _ => JError) 4) sched s) = false).
  { clear. induction sched as [|a r IH]; intros s Hd Hc Hl; [exact Hl|].
    cbn [fold_left]. apply IH; destruct a as [|k]; cbn [pstep]; rewrite ?Hl, ?Hc, ?Hd;
      try (destruct (waiting s)); cbn; auto. }
  unfold pfinished. rewrite (G sched s0); reflexivity.
Qed.
