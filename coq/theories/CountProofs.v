(** Proofs about the counting model ([Count.v]). *)
From Coq Require Import ZArith List Bool Lia Permutation.
From PV Require Import TextFmt TextFmtProofs Count.
Import ListNotations.
Open Scope Z_scope.

(** * strided slices partition the list *)
Lemma islice_S {A} (x : A) r k n : islice (x :: r) (S k) n = islice r k n.
Proof. reflexivity. Qed.

Lemma islice_0 {A} (x : A) r m : islice (x :: r) 0 (S m) = x :: islice r m (S m).
Proof. reflexivity. Qed.

Lemma flat_map_seq_shift {A} (F : nat -> list A) m :
  flat_map F (seq 1 m) = flat_map (fun k => F (S k)) (seq 0 m).
Proof.
  rewrite <- seq_shift. induction (seq 0 m) as [|a l IH]; [reflexivity|].
  cbn [map flat_map]. now rewrite IH.
Qed.

Lemma strided_flat_partition {A} (l : list A) n :
  (1 <= n)%nat -> Permutation (flat_map (fun k => islice l k n) (seq 0 n)) l.
Proof.
  intros Hn. destruct n as [|m]; [lia|]. clear Hn.
  induction l as [|x r IH].
  - assert (E : forall s, flat_map (fun k => islice (@nil A) k (S m)) s = []).
    { induction s as [|a s IHs]; [reflexivity|]. cbn [flat_map]. now rewrite IHs. }
    rewrite E. constructor.
  - change (seq 0 (S m)) with (0%nat :: seq 1 m). cbn [flat_map].
    rewrite flat_map_seq_shift. rewrite islice_0.
    rewrite (flat_map_ext _ (fun k => islice r k (S m))) by (intros; apply islice_S).
    cbn [app]. constructor.
    rewrite seq_S, flat_map_app in IH. cbn [flat_map] in IH. rewrite app_nil_r in IH.
    cbn [plus] in IH.
    eapply Permutation_trans; [apply Permutation_app_comm|exact IH].
Qed.

Lemma strided_slices_partition {A} (l : list A) n :
  (1 <= n)%nat -> Permutation (concat (strided_slices l n)) l.
Proof.
  intros Hn. unfold strided_slices. rewrite <- flat_map_concat_map.
  now apply strided_flat_partition.
Qed.

Lemma in_islice {A} (l : list A) k n x : In x (islice l k n) -> In x l.
Proof.
  unfold islice. revert k. induction l as [|y r IH]; intros k H; [destruct H|].
  cbn in H. destruct k as [|k].
  - destruct H as [<-|H]; [now left|]. right. eapply IH; eauto.
  - right. eapply IH; eauto.
Qed.

(** more processes than elements: the extra slices are empty *)
Lemma islice_beyond {A} (l : list A) k n : (length l <= k)%nat -> islice l k n = [].
Proof.
  unfold islice. revert k. induction l as [|x r IH]; intros k H; [reflexivity|].
  cbn in *. destruct k as [|k]; [lia|]. apply IH. lia.
Qed.

(** * counters *)

Lemma wf_nil : wf [].
Proof. split; constructor. Qed.

Lemma lookup_incr key d c t :
  lookup (incr key d c) t = lookup c t + (if str_eq_dec key t then d else 0).
Proof.
  induction c as [|[k v] r IH]; cbn.
  - destruct (str_eq_dec key t); lia.
  - destruct (str_eq_dec k key) as [->|Hk]; cbn.
    + destruct (str_eq_dec key t); lia.
    + destruct (str_eq_dec k t) as [->|Ht].
      * destruct (str_eq_dec key t); [congruence|lia].
      * exact IH.
Qed.

Lemma keys_incr key d c x : In x (keys (incr key d c)) <-> x = key \/ In x (keys c).
Proof.
  induction c as [|[k v] r IH]; cbn.
  - intuition.
  - destruct (str_eq_dec k key) as [->|Hk]; cbn.
    + intuition.
    + unfold keys in IH. rewrite IH. intuition.
Qed.

Lemma incr_nodup key d c : NoDup (keys c) -> NoDup (keys (incr key d c)).
Proof.
  induction c as [|[k v] r IH]; cbn; intros H.
  - constructor; [intros []|constructor].
  - inversion H as [|? ? Hn Hr]; subst.
    destruct (str_eq_dec k key) as [->|Hk]; cbn.
    + now constructor.
    + constructor; [|now apply IH].
      intro Hin. apply (keys_incr key d r k) in Hin as [E|Hin]; [congruence|contradiction].
Qed.

Lemma incr_pos key d c : 0 < d -> positive_counts c -> positive_counts (incr key d c).
Proof.
  unfold positive_counts. induction c as [|[k v] r IH]; cbn; intros Hd H.
  - repeat constructor. exact Hd.
  - inversion H as [|? ? Hv Hr]; subst. cbn in Hv.
    destruct (str_eq_dec k key); constructor; cbn; auto; lia.
Qed.

Lemma wf_incr key d c : 0 < d -> wf c -> wf (incr key d c).
Proof. intros Hd [H1 H2]. split; [now apply incr_nodup|now apply incr_pos]. Qed.

Lemma keep_positive_id c : positive_counts c -> keep_positive c = c.
Proof.
  unfold positive_counts, keep_positive. induction c as [|[k v] r IH]; intros H; [reflexivity|].
  inversion H as [|? ? Hv Hr]; subst. cbn in *.
  destruct (Z.ltb_spec 0 v); [|lia]. now rewrite IH.
Qed.

Lemma lookup_notin c t : ~ In t (keys c) -> lookup c t = 0.
Proof.
  induction c as [|[k v] r IH]; cbn; intros H; [reflexivity|].
  destruct (str_eq_dec k t) as [->|_]; [exfalso; apply H; now left|].
  apply IH. intro. apply H. now right.
Qed.

Lemma lookup_count_list toks c t :
  lookup (count_list toks c) t = lookup c t + Z.of_nat (count_occ str_eq_dec toks t).
Proof.
  unfold count_list. revert c. induction toks as [|x r IH]; intros c; cbn [fold_left count_occ].
  - cbn. lia.
  - rewrite IH, lookup_incr. destruct (str_eq_dec x t); lia.
Qed.

Lemma wf_count_list toks c : wf c -> wf (count_list toks c).
Proof.
  unfold count_list. revert c. induction toks as [|x r IH]; intros c H; [exact H|].
  cbn [fold_left]. apply IH. apply wf_incr; [lia|exact H].
Qed.

Lemma count_list_app a b c : count_list (a ++ b) c = count_list b (count_list a c).
Proof. unfold count_list. apply fold_left_app. Qed.

Definition merge_raw (a b : counter) : counter :=
  fold_left (fun a kv => incr (fst kv) (snd kv) a) b a.

Lemma lookup_merge_raw a b t :
  NoDup (keys b) -> lookup (merge_raw a b) t = lookup a t + lookup b t.
Proof.
  unfold merge_raw. revert a. induction b as [|[k v] r IH]; intros a H; cbn [fold_left].
  - cbn. lia.
  - inversion H as [|? ? Hn Hr]; subst. rewrite IH by exact Hr. rewrite lookup_incr.
    cbn [fst snd lookup]. destruct (str_eq_dec k t) as [->|_]; [|lia].
    rewrite (lookup_notin r t Hn). lia.
Qed.

Lemma wf_merge_raw a b : wf a -> positive_counts b -> wf (merge_raw a b).
Proof.
  unfold merge_raw. revert a. induction b as [|[k v] r IH]; intros a Ha Hb; [exact Ha|].
  inversion Hb as [|? ? Hv Hr]; subst. cbn [fold_left]. apply IH; [|exact Hr].
  apply wf_incr; [exact Hv|exact Ha].
Qed.

Lemma merge_is_raw a b : wf a -> wf b -> merge a b = merge_raw a b.
Proof.
  intros Ha [_ Hb]. unfold merge. fold (merge_raw a b).
  apply keep_positive_id. now apply wf_merge_raw.
Qed.

Lemma lookup_merge a b t : wf a -> wf b -> lookup (merge a b) t = lookup a t + lookup b t.
Proof. intros Ha Hb. rewrite merge_is_raw by assumption. apply lookup_merge_raw. apply Hb. Qed.

Lemma wf_merge a b : wf a -> wf b -> wf (merge a b).
Proof. intros Ha Hb. rewrite merge_is_raw by assumption. apply wf_merge_raw; [exact Ha|apply Hb]. Qed.


Lemma counts_count_list p : counts (count_list p []) p.
Proof.
  split; [apply wf_count_list, wf_nil|]. intros t. rewrite lookup_count_list. cbn. lia.
Qed.

(** merging counters that hold the parts [ps] into [c0] *)
Lemma fold_merge_spec cs ps c0 :
  wf c0 -> Forall2 counts cs ps ->
  wf (fold_left merge cs c0) /\
  forall t, lookup (fold_left merge cs c0) t =
            lookup c0 t + Z.of_nat (count_occ str_eq_dec (concat ps) t).
Proof.
  intros H0 F. revert c0 H0. induction F as [|c p cs ps [Hc Hl] F IH]; intros c0 H0.
  - cbn. split; [exact H0|]. intros; lia.
  - cbn [fold_left concat]. destruct (IH (merge c0 c)) as [W L]; [now apply wf_merge|].
    split; [exact W|]. intros t. rewrite L, lookup_merge by assumption.
    rewrite count_occ_app, Hl. lia.
Qed.

Lemma perm_count (p q : list str) t :
  Permutation p q -> count_occ str_eq_dec p t = count_occ str_eq_dec q t.
Proof. intros P. now apply (Permutation_count_occ str_eq_dec). Qed.

Lemma counts_perm c p q : Permutation p q -> counts c p -> counts c q.
Proof.
  intros P [W L]. split; [exact W|]. intros t. rewrite L. now rewrite (perm_count p q t P).
Qed.

(** * cues_outcomes *)
Definition summarize (evs : list event) : job_state :=
  (Z.of_nat (length evs), count_list (flat_map fst evs) [], count_list (flat_map snd evs) []).

Lemma job_loop_spec evs i nn C O :
  job_loop evs i (nn, C, O) =
  (match evs with [] => nn | _ => i + Z.of_nat (length evs) - 1 end,
   count_list (flat_map fst evs) C, count_list (flat_map snd evs) O).
Proof.
  revert i nn C O. induction evs as [|[cs os] r IH]; intros i nn C O; [reflexivity|].
  cbn [job_loop]. rewrite IH. cbn [flat_map fst snd]. rewrite !count_list_app.
  f_equal. f_equal. destruct r; cbn [length]; lia.
Qed.

Lemma job_cues_outcomes_spec text k n :
  job_cues_outcomes text k n = option_map summarize (read_events text k n).
Proof.
  unfold job_cues_outcomes. destruct (read_events text k n) as [evs|]; [|reflexivity].
  rewrite job_loop_spec. cbn [option_map]. unfold summarize. f_equal. f_equal. f_equal.
  destruct evs; cbn [length]; lia.
Qed.

Definition line_ok (l : str) : Prop := parse_line l <> None.
Definition line_copies (l : str) : list event :=
  match parse_line l with Some ek => copies ek | None => [] end.

Lemma expand_lines_cases ls :
  (Forall line_ok ls /\ expand_lines ls = Some (flat_map line_copies ls)) \/
  (~ Forall line_ok ls /\ expand_lines ls = None).
Proof.
  induction ls as [|l r IH].
  - left. split; [constructor|reflexivity].
  - cbn [expand_lines flat_map]. unfold line_copies at 1.
    destruct (parse_line l) as [ek|] eqn:E.
    + destruct IH as [[F ->]|[F ->]].
      * left. split; [|reflexivity]. constructor; [unfold line_ok; congruence|exact F].
      * right. split; [|reflexivity]. intro H. inversion H; subst. contradiction.
    + right. split; [|reflexivity]. intro H. inversion H as [|? ? Hl Hr]; subst.
      unfold line_ok in Hl. congruence.
Qed.

Definition body_lines (text : str) : list str :=
  match lines (unl text) with [] => [] | _ :: b => b end.

Lemma read_events_body text k n :
  read_events text k n = expand_lines (islice (body_lines text) k n).
Proof.
  unfold read_events, body_lines. destruct (lines (unl text)); reflexivity.
Qed.

Lemma collect_map_some {A B} (f : A -> option B) (g : A -> B) l :
  (forall x, In x l -> f x = Some (g x)) -> collect (map f l) = Some (map g l).
Proof.
  induction l as [|x r IH]; intros H; [reflexivity|].
  cbn [map collect]. rewrite (H x) by now left. rewrite IH; [reflexivity|].
  intros y Hy. apply H. now right.
Qed.

Lemma collect_some_all {A B} (f : A -> option B) l rs :
  collect (map f l) = Some rs -> forall x, In x l -> f x <> None.
Proof.
  revert rs. induction l as [|x r IH]; intros rs H y Hy; [destruct Hy|].
  cbn [map collect] in H. destruct (f x) as [b|] eqn:E; [|discriminate].
  destruct (collect (map f r)) as [xs|] eqn:E2; [|discriminate].
  destruct Hy as [<-|Hy]; [congruence|]. eapply IH; eauto.
Qed.

Lemma concat_map_flat_map {A B C} (f : B -> list C) (F : A -> list B) l :
  concat (map (fun k => flat_map f (F k)) l) = flat_map f (flat_map F l).
Proof.
  induction l as [|a l IH]; [reflexivity|]. cbn [map concat flat_map].
  now rewrite flat_map_app, IH.
Qed.

Lemma fold_add_result rs n0 C0 O0 :
  fold_left add_result rs (n0, C0, O0) =
  (fold_left Z.add (map (fun r => fst (fst r)) rs) n0,
   fold_left merge (map (fun r => snd (fst r)) rs) C0,
   fold_left merge (map snd rs) O0).
Proof.
  revert n0 C0 O0. induction rs as [|[[nn c] o] rs IH]; intros n0 C0 O0; [reflexivity|].
  cbn [fold_left map fst snd add_result]. apply IH.
Qed.

Lemma fold_add_lengths {A} (ps : list (list A)) n0 :
  fold_left Z.add (map (fun p => Z.of_nat (length p)) ps) n0 = n0 + Z.of_nat (length (concat ps)).
Proof.
  revert n0. induction ps as [|p ps IH]; intros n0; cbn [map fold_left concat].
  - cbn. lia.
  - rewrite IH, app_length. lia.
Qed.

Lemma Forall2_map_counts (g : event -> list str) (parts : list (list event)) :
  Forall2 counts (map (fun p => count_list (flat_map g p) []) parts) (map (flat_map g) parts).
Proof.
  induction parts as [|p ps IH]; cbn [map]; constructor; [apply counts_count_list|exact IH].
Qed.

Lemma concat_map_flat {A B} (g : A -> list B) (parts : list (list A)) :
  concat (map (flat_map g) parts) = flat_map g (concat parts).
Proof.
  induction parts as [|p ps IH]; [reflexivity|]. cbn [map concat]. now rewrite flat_map_app, IH.
Qed.


Lemma merged_parts_exact parts evs :
  Permutation (concat parts) evs ->
  let '(ne, cc, oc) := fold_left add_result (map summarize parts) (0, [], []) in
  exact_counts ne cc oc evs.
Proof.
  intros P. rewrite fold_add_result. unfold summarize. rewrite !map_map. cbn [fst snd].
  rewrite fold_add_lengths.
  destruct (fold_merge_spec _ _ [] wf_nil (Forall2_map_counts fst parts)) as [[N1 P1] L1].
  destruct (fold_merge_spec _ _ [] wf_nil (Forall2_map_counts snd parts)) as [[N2 P2] L2].
  unfold exact_counts. repeat split; try assumption.
  - rewrite (Permutation_length P). lia.
  - intros t. rewrite L1, concat_map_flat. cbn [lookup]. unfold cue_count.
    rewrite (perm_count _ (flat_map fst evs) t); [lia|]. now apply Permutation_flat_map.
  - intros t. rewrite L2, concat_map_flat. cbn [lookup]. unfold outcome_count.
    rewrite (perm_count _ (flat_map snd evs) t); [lia|]. now apply Permutation_flat_map.
Qed.

Theorem cues_outcomes_exact text n :
  (1 <= n)%nat ->
  match parse_file text, cues_outcomes text n with
  | Some evs, Some (ne, cc, oc) => exact_counts ne cc oc evs
  | None, None => True
  | _, _ => False
  end.
Proof.
  intros Hn. unfold parse_file, cues_outcomes.
  rewrite read_events_body, islice_all.
  set (body := body_lines text).
  set (F := fun k => islice body k n).
  assert (PF : Permutation (flat_map F (seq 0 n)) body) by now apply strided_flat_partition.
  destruct (expand_lines_cases body) as [[Hok ->]|[Hbad ->]].
  - (* every line is well-formed: every job succeeds *)
    rewrite (collect_map_some _ (fun k => summarize (flat_map line_copies (F k)))).
    + rewrite <- (map_map (fun k => flat_map line_copies (F k)) summarize).
      apply merged_parts_exact. rewrite concat_map_flat_map.
      now apply Permutation_flat_map.
    + intros k _. rewrite job_cues_outcomes_spec, read_events_body.
      change (islice (body_lines text) k n) with (F k).
      destruct (expand_lines_cases (F k)) as [[_ ->]|[Hb _]]; [reflexivity|].
      exfalso. apply Hb. apply Forall_forall. intros l Hl.
      rewrite Forall_forall in Hok. apply Hok. eapply in_islice; exact Hl.
  - (* a malformed line belongs to some slice: that job raises *)
    destruct (collect _) as [rs|] eqn:E; [|exact I].
    apply Hbad. eapply Permutation_Forall; [exact PF|].
    apply Forall_flat_map. apply Forall_forall. intros k Hk.
    pose proof (collect_some_all _ _ _ E k Hk) as Hj.
    cbv beta in Hj. rewrite job_cues_outcomes_spec, read_events_body in Hj.
    change (islice (body_lines text) k n) with (F k) in Hj.
    destruct (expand_lines_cases (F k)) as [[Hf _]|[_ Hn']]; [exact Hf|].
    rewrite Hn' in Hj. cbn in Hj. congruence.
Qed.

(** the result does not depend on the number of processes *)
Corollary cues_outcomes_n_jobs_irrelevant text n m :
  (1 <= n)%nat -> (1 <= m)%nat ->
  match cues_outcomes text n, cues_outcomes text m with
  | Some (ne, cc, oc), Some (ne', cc', oc') =>
    ne = ne' /\ (forall t, lookup cc t = lookup cc' t) /\ (forall t, lookup oc t = lookup oc' t)
  | None, None => True
  | _, _ => False
  end.
Proof.
  intros Hn Hm. pose proof (cues_outcomes_exact text n Hn) as A.
  pose proof (cues_outcomes_exact text m Hm) as B.
  destruct (parse_file text) as [evs|];
    destruct (cues_outcomes text n) as [[[ne cc] oc]|];
    destruct (cues_outcomes text m) as [[[ne' cc'] oc']|]; try contradiction; try exact I.
  destruct A as [A1 [A2 [A3 _]]], B as [B1 [B2 [B3 _]]].
  repeat split; intros; congruence.
Qed.

(** * words_symbols *)
Section WordsProofs.
  Variable is_space : Z -> bool.
  Variable lower : Z -> list Z.
  Variable lc : bool.

  Let lw := line_words is_space lower lc.

  Definition nonempty (w : str) : bool := match w with [] => false | _ => true end.

  Lemma words_fold raw W S :
    wf W -> wf S ->
    let st := fold_left (word_step is_space lower lc) raw (W, S) in
    let ws := filter nonempty (map (clean_word is_space lower lc) raw) in
    fst st = count_list ws W /\ wf (snd st) /\
    forall t, lookup (snd st) t =
              lookup S t + Z.of_nat (count_occ str_eq_dec (flat_map symbols_of ws) t).
  Proof.
    revert W S. induction raw as [|w raw IH]; intros W S HW HS.
    - cbv zeta. cbn [fold_left map filter flat_map fst snd count_occ]. unfold count_list. cbn [fold_left].
      split; [reflexivity|]. split; [assumption|]. intros; cbn [Z.of_nat]; lia.
    - cbn [fold_left map filter].
      destruct (clean_word is_space lower lc w) as [|c cw] eqn:E.
      + assert (Ew : word_step is_space lower lc (W, S) w = (W, S))
          by (unfold word_step; now rewrite E).
        rewrite Ew. cbn [nonempty]. apply IH; assumption.
      + assert (Ew : word_step is_space lower lc (W, S) w =
                     (incr (c :: cw) 1 W, merge S (count_list (symbols_of (c :: cw)) [])))
          by (unfold word_step; now rewrite E).
        rewrite Ew. cbn [nonempty].
        assert (HS' : wf (merge S (count_list (symbols_of (c :: cw)) []))).
        { apply wf_merge; [exact HS|]. apply wf_count_list, wf_nil. }
        destruct (IH (incr (c :: cw) 1 W) _ (wf_incr _ 1 _ ltac:(lia) HW) HS') as [A [B C]].
        cbv zeta in *. split; [exact A|]. split; [exact B|].
        intros t. rewrite C. rewrite lookup_merge by (try assumption; apply wf_count_list, wf_nil).
        rewrite lookup_count_list. cbn [lookup flat_map]. rewrite count_occ_app. lia.
  Qed.

  Lemma lines_fold ls W S :
    wf W -> wf S ->
    let st := fold_left (line_step is_space lower lc) ls (W, S) in
    let ws := flat_map lw ls in
    fst st = count_list ws W /\ wf (snd st) /\
    forall t, lookup (snd st) t =
              lookup S t + Z.of_nat (count_occ str_eq_dec (flat_map symbols_of ws) t).
  Proof.
    revert W S. induction ls as [|l ls IH]; intros W S HW HS.
    - cbv zeta. cbn [fold_left map filter flat_map fst snd count_occ]. unfold count_list. cbn [fold_left].
      split; [reflexivity|]. split; [assumption|]. intros; cbn [Z.of_nat]; lia.
    - cbn [fold_left flat_map].
      change (line_step is_space lower lc (W, S) l)
        with (fold_left (word_step is_space lower lc) (wsplit is_space l) (W, S)).
      destruct (words_fold (wsplit is_space l) W S HW HS) as [A [B C]]. cbv zeta in *.
      destruct (fold_left (word_step is_space lower lc) (wsplit is_space l) (W, S)) as [W1 S1] eqn:E.
      cbn [fst snd] in *.
      assert (HW1 : wf W1) by (rewrite A; now apply wf_count_list).
      destruct (IH W1 S1 HW1 B) as [A2 [B2 C2]]. cbv zeta in *.
      split; [|split; [exact B2|]].
      + rewrite A2, A, count_list_app. reflexivity.
      + intros t. rewrite C2, C, flat_map_app, count_occ_app.
        change (lw l) with (filter nonempty (map (clean_word is_space lower lc) (wsplit is_space l))).
        lia.
  Qed.

  Lemma job_words_symbols_spec text k n :
    let st := job_words_symbols is_space lower text k n lc in
    let ws := flat_map lw (islice (lines (unl text)) k n) in
    counts (fst st) ws /\ counts (snd st) (flat_map symbols_of ws).
  Proof.
    cbv zeta.
    destruct (lines_fold (islice (lines (unl text)) k n) [] [] wf_nil wf_nil) as [A [B C]].
    cbv zeta in *. split.
    - assert (A' : fst (job_words_symbols is_space lower text k n lc) =
                   count_list (flat_map lw (islice (lines (unl text)) k n)) []) by exact A.
      rewrite A'. apply counts_count_list.
    - split; [exact B|]. intros t.
      assert (C' : lookup (snd (job_words_symbols is_space lower text k n lc)) t =
                   lookup [] t + Z.of_nat (count_occ str_eq_dec
                     (flat_map symbols_of (flat_map lw (islice (lines (unl text)) k n))) t))
        by exact (C t).
      rewrite C'. cbn [lookup]. lia.
  Qed.

  Lemma fold_add_ws rs W0 S0 :
    fold_left (add_ws) rs (W0, S0) =
    (fold_left merge (map fst rs) W0, fold_left merge (map snd rs) S0).
  Proof.
    revert W0 S0. induction rs as [|[w s] rs IH]; intros W0 S0; [reflexivity|].
    cbn [fold_left map fst snd add_ws]. apply IH.
  Qed.

  Lemma jobs_counts text n s :
    Forall2 counts (map (fun k => fst (job_words_symbols is_space lower text k n lc)) s)
            (map (fun k => flat_map lw (islice (lines (unl text)) k n)) s) /\
    Forall2 counts (map (fun k => snd (job_words_symbols is_space lower text k n lc)) s)
            (map (flat_map symbols_of) (map (fun k => flat_map lw (islice (lines (unl text)) k n)) s)).
  Proof.
    induction s as [|k s [IH1 IH2]]; cbn [map]; [split; constructor|].
    split; (constructor; [apply (job_words_symbols_spec text k n)|assumption]).
  Qed.

  Theorem words_symbols_exact text n :
    (1 <= n)%nat ->
    let r := words_symbols is_space lower text n lc in
    let ws := file_words is_space lower lc text in
    counts (fst r) ws /\ counts (snd r) (flat_map symbols_of ws).
  Proof.
    intros Hn. cbv zeta. unfold words_symbols, file_words. rewrite fold_add_ws. cbn [fst snd].
    set (L := lines (unl text)).
    set (parts := map (fun k => flat_map lw (islice L k n)) (seq 0 n)).
    assert (P : Permutation (concat parts) (flat_map lw L)).
    { unfold parts. rewrite concat_map_flat_map. apply Permutation_flat_map.
      now apply strided_flat_partition. }
    rewrite !map_map.
    destruct (jobs_counts text n (seq 0 n)) as [F1 F2]. fold L in F1, F2. fold parts in F1, F2.
    destruct (fold_merge_spec _ _ [] wf_nil F1) as [W1 L1].
    destruct (fold_merge_spec _ _ [] wf_nil F2) as [W2 L2].
    split.
    - apply (counts_perm _ (concat parts)); [exact P|]. split; [exact W1|].
      intros t. rewrite L1. cbn [lookup]. lia.
    - apply (counts_perm _ (concat (map (flat_map symbols_of) parts))).
      + rewrite concat_map_flat. now apply Permutation_flat_map.
      + split; [exact W2|]. intros t. rewrite L2. cbn [lookup]. lia.
  Qed.

  (** the result is the same for every number of processes *)
  Corollary words_symbols_n_jobs_irrelevant text n m t :
    (1 <= n)%nat -> (1 <= m)%nat ->
    lookup (fst (words_symbols is_space lower text n lc)) t =
    lookup (fst (words_symbols is_space lower text m lc)) t /\
    lookup (snd (words_symbols is_space lower text n lc)) t =
    lookup (snd (words_symbols is_space lower text m lc)) t.
  Proof.
    intros Hn Hm.
    destruct (words_symbols_exact text n Hn) as [[_ A1] [_ A2]].
    destruct (words_symbols_exact text m Hm) as [[_ B1] [_ B2]].
    cbv zeta in *. now rewrite A1, A2, B1, B2.
  Qed.
End WordsProofs.

Lemma words_symbols_exact_unfolded (is_space : Z -> bool) (lower : Z -> list Z) lower_case text n :
  (1 <= n)%nat ->
  let r := words_symbols is_space lower text n lower_case in
  let ws := file_words is_space lower lower_case text in
  (NoDup (keys (fst r)) /\ positive_counts (fst r)) /\
  (forall w, lookup (fst r) w = Z.of_nat (count_occ str_eq_dec ws w)) /\
  (NoDup (keys (snd r)) /\ positive_counts (snd r)) /\
  (forall s, lookup (snd r) s = Z.of_nat (count_occ str_eq_dec (flat_map symbols_of ws) s)).
Proof.
  intros Hn.
  destruct (words_symbols_exact is_space lower lower_case text n Hn) as [[A B] [C D]].
  cbv zeta. repeat split; try apply A; try apply C; assumption.
Qed.
