(** Closed (section-free) statements about the Rescorla-Wagner learners that
    the property files cite. *)
From Coq Require Import ZArith List Bool Lia Ring.
From PV Require Import Lists Bytes BinFmt BinFmtProofs Store RWSpec RWExec RWProofs Sched SchedProofs QueueProofs QueueTrace.
Import ListNotations.

(** ** duplicate policies *)
Lemma dedup_In x l : In x (dedup l) <-> In x l.
Proof.
  induction l as [|y r IH]; cbn; [tauto|].
  destruct (mem_z y r) eqn:Hm.
  - rewrite IH. apply mem_z_In in Hm. split; [tauto|]. intros [<-|H]; auto.
  - cbn. rewrite IH. tauto.
Qed.

Lemma dedup_NoDup l : NoDup (dedup l).
Proof.
  induction l as [|y r IH]; cbn; [constructor|].
  destruct (mem_z y r) eqn:Hm; [exact IH|].
  constructor; [|exact IH]. rewrite dedup_In. now apply mem_z_not_In.
Qed.

Lemma nodup_b_spec l : nodup_b l = true <-> NoDup l.
Proof.
  induction l as [|y r IH]; cbn.
  - split; [constructor|reflexivity].
  - rewrite andb_true_iff, negb_true_iff, IH, mem_z_not_In. split.
    + intros [H1 H2]. now constructor.
    + intros H. inversion H; subst. now split.
Qed.

Theorem prep_policies e :
  (* None: accepted unchanged iff neither cues nor outcomes repeat, otherwise an error *)
  (prep PNone e = Some e <-> NoDup (fst e) /\ NoDup (snd e)) /\
  (prep PNone e = None <-> ~ (NoDup (fst e) /\ NoDup (snd e))) /\
  (* True: the de-duplicated event *)
  (exists cs os, prep PTrue e = Some (cs, os) /\ NoDup cs /\ NoDup os /\
                 (forall x, In x cs <-> In x (fst e)) /\ (forall x, In x os <-> In x (snd e))) /\
  (* False: every repetition is kept *)
  prep PFalse e = Some e.
Proof.
  destruct e as [cs os]. cbn [prep fst snd].
  destruct (nodup_b cs) eqn:Hc, (nodup_b os) eqn:Ho; cbn [andb];
    (repeat split; try reflexivity; try discriminate; try tauto);
    try (rewrite <- !nodup_b_spec; rewrite ?Hc, ?Ho; intuition congruence);
    try (exists (dedup cs), (dedup os); repeat split; auto using dedup_NoDup; apply dedup_In).
Qed.

(** ** the OpenMP entry point run by worker threads: [prange(number_parts, schedule="dynamic", chunksize=1)]
    inside one parallel region per chunk file - an idle thread takes the next part index atomically (the
    lock-protected queue of QueueTrace), the region ends with a barrier.  One schedule per file. *)
Fixpoint file_traces (parts : list (list Z)) (n : nat) (files : list (list event)) (scheds : list (list nat))
  : list (list (nat * action)) :=
  match files, scheds with
  | es :: fr, sc :: sr =>
    wtrace (wrun (map (fun part => item_actions part es) parts) sc (winit (seq 0 (length parts)) n))
    :: file_traces parts n fr sr
  | _, _ => []
  end.
Fixpoint files_done (parts : list (list Z)) (n : nat) (files : list (list event)) (scheds : list (list nat)) : Prop :=
  match files, scheds with
  | [], [] => True
  | es :: fr, sc :: sr =>
    all_done (qs (wrun (map (fun part => item_actions part es) parts) sc (winit (seq 0 (length parts)) n))) = true
    /\ files_done parts n fr sr
  | _, _ => False
  end.

Lemma file_traces_interleaved parts n files scheds : (1 <= n)%nat ->
  files_done parts n files scheds -> files_interleaved parts files (file_traces parts n files scheds).
Proof.
  intros Hn. revert scheds. induction files as [|es fr IH]; intros [|sc sr] H; cbn in *; try tauto.
  destruct H as [H1 H2]. split; [|now apply IH].
  pose proof (worker_trace_interleaving (map (fun part => item_actions part es) parts) n sc Hn) as W.
  cbn zeta in W. rewrite map_length in W. now apply W.
Qed.

Section Main.
  Variable R : Type.
  Variables (rO rI : R) (radd rmul rsub : R -> R -> R) (ropp : R -> R).
  Hypothesis Rth : ring_theory rO rI radd rmul rsub ropp (@eq R).
  Add Ring Rring2 : Rth.

  Notation step := (step R rO rI radd rmul rsub).
  Notation learn := (learn R rO rI radd rmul rsub).
  Notation delta := (delta R rO radd rmul rsub).
  Notation of_nat := (of_nat R rO rI radd).

  Lemma countz_notin c cs : ~ In c cs -> countz c cs = O.
  Proof.
    induction cs as [|x r IH]; intros H; [reflexivity|]. cbn.
    destruct (Z.eqb_spec c x) as [->|Hne]; [exfalso; apply H; now left|].
    apply IH. intro. apply H. now right.
  Qed.

  Lemma countz_nodup c cs : NoDup cs -> In c cs -> countz c cs = 1%nat.
  Proof.
    induction cs as [|x r IH]; intros Hnd Hin; [destruct Hin|]. cbn.
    inversion Hnd as [|? ? Hx Hr]; subst.
    destruct (Z.eqb_spec c x) as [->|Hne].
    - now rewrite countz_notin.
    - destruct Hin as [->|Hin]; [congruence|]. now apply IH.
  Qed.

  (** the documented rule for an event without repeated cues: present cues move
      by alpha*beta*(target - activation), absent cues do not move *)
  Theorem step_nodup p e W o c :
    NoDup (fst e) ->
    step p e W o c = if mem_z c (fst e)
                     then radd (W o c) (rmul (alpha p c) (delta p W e o))
                     else W o c.
  Proof.
    intros Hnd. unfold RWSpec.step. destruct (mem_z c (fst e)) eqn:Hm.
    - apply mem_z_In in Hm. rewrite countz_nodup by assumption. cbn. ring.
    - apply mem_z_not_In in Hm. rewrite countz_notin by assumption. cbn. ring.
  Qed.

  (** dict_ndl from empty weights *)
  Theorem dict_from_zero p po es :
    match dict_run R rO radd rmul rsub p po es ([], ZZM.empty R), prep_all po es with
    | Some (_, s), Some es' =>
      forall o c, dget R rO s o c = learn p es' (zero_w R rO) o c
    | None, None => True
    | _, _ => False
    end.
  Proof.
    pose proof (dict_refines R rO rI radd rmul rsub ropp Rth p po es _ _
                             (dict_inv_empty R rO)) as H.
    destruct (dict_run R rO radd rmul rsub p po es ([], ZZM.empty R)) as [[all s]|],
             (prep_all po es); auto.
    destruct H as (_ & H & _). exact H.
  Qed.

  (** ... it raises exactly when an event repeats a cue or an outcome under the default policy *)
  Theorem dict_duplicate_raises (p : params R) (es : list event) :
    dict_run R rO radd rmul rsub p PNone es ([], ZZM.empty R) = None <-> prep_all PNone es = None.
  Proof.
    pose proof (dict_from_zero p PNone es) as H.
    destruct (dict_run R rO radd rmul rsub p PNone es ([], ZZM.empty R)) as [[a s]|], (prep_all PNone es);
      split; intros E; try discriminate; try reflexivity; contradiction.
  Qed.

  Notation kget := (kget R rO).
  Notation kset := (kset R).
  Notation k_run_trace n := (run_trace R rO radd rmul rsub (kstore R) (kget n) (kset n)).

  (** method='threading' on the flat kernel memory: for every sublist length,
      every number of threads and every interleaving of the work items *)
  Theorem threading_any_schedule p n_cues all n es tr m o c :
    (0 <= n_cues < two32)%Z -> NoDup all -> Forall oko32 all ->
    cues_ok (okc_n n_cues) es -> (1 <= n)%nat ->
    interleaving (map (fun part => item_actions part es) (slice_list all n)) tr ->
    oko32 o -> okc_n n_cues c ->
    kget n_cues (k_run_trace n_cues p tr m) o c =
    if mem_z o all then learn p es (kget n_cues m) o c else kget n_cues m o c.
  Proof.
    intros Hn Hnd Hall Hes Hn1 Hint Ho Hc.
    pose proof (slice_list_concat all n Hn1) as Hcat.
    rewrite <- Hcat at 1.
    eapply items_schedule_independent with (oko := oko32) (okc := okc_n n_cues); eauto.
    - intros; apply kget_kset_same.
    - intros; now apply kget_kset_other.
    - now rewrite Hcat.
    - now rewrite Hcat.
  Qed.

  (** ... and end to end with the worker threads themselves (QueueTrace): for every
      number of threads and EVERY schedule of the lock / queue / work-loop steps that
      ends with all threads done, the memory the threads leave behind is the
      sequential result *)
  Theorem threading_workers_any_schedule p n_cues all n es n_threads sched m o c :
    (0 <= n_cues < two32)%Z -> NoDup all -> Forall oko32 all ->
    cues_ok (okc_n n_cues) es -> (1 <= n)%nat -> (1 <= n_threads)%nat ->
    let seqs := map (fun part => item_actions part es) (slice_list all n) in
    let s := wrun seqs sched (winit (seq 0 (length seqs)) n_threads) in
    all_done (qs s) = true ->
    oko32 o -> okc_n n_cues c ->
    kget n_cues (k_run_trace n_cues p (wtrace s) m) o c =
    if mem_z o all then learn p es (kget n_cues m) o c else kget n_cues m o c.
  Proof.
    intros Hn Hnd Hall Hes Hn1 Hnt seqs s Hd Ho Hc.
    apply threading_any_schedule with (n := n); try assumption.
    exact (worker_trace_interleaving seqs n_threads sched Hnt Hd).
  Qed.

  (** OpenMP entry point: barrier per chunk file, any interleaving inside *)
  Theorem openmp_any_schedule p n_cues all parts files trs m o c :
    (0 <= n_cues < two32)%Z -> NoDup all -> Forall oko32 all ->
    concat parts = all ->
    Forall (cues_ok (okc_n n_cues)) files ->
    files_interleaved parts files trs ->
    oko32 o -> okc_n n_cues c ->
    kget n_cues (run_files R rO radd rmul rsub (kstore R) (kget n_cues) (kset n_cues) p parts files trs m) o c =
    if mem_z o all then learn p (concat files) (kget n_cues m) o c else kget n_cues m o c.
  Proof.
    intros Hn Hnd Hall Hcat Hes Hint Ho Hc. rewrite <- Hcat at 1.
    eapply files_schedule_independent with (oko := oko32) (okc := okc_n n_cues); eauto.
    - intros; apply kget_kset_same.
    - intros; now apply kget_kset_other.
    - now rewrite Hcat.
    - now rewrite Hcat.
  Qed.

  (** ... in particular with the parts the OpenMP entry point computes in
      32-bit arithmetic, for every chunk size and every number of threads *)
  Theorem openmp_any_chunksize p n_cues all chunk files trs m o c :
    (0 <= n_cues < two32)%Z -> NoDup all -> Forall oko32 all ->
    (1 <= chunk)%Z -> (Z.of_nat (length all) + chunk <= two32)%Z ->
    Forall (cues_ok (okc_n n_cues)) files ->
    files_interleaved (omp_parts all chunk) files trs ->
    oko32 o -> okc_n n_cues c ->
    kget n_cues (run_files R rO radd rmul rsub (kstore R) (kget n_cues) (kset n_cues) p
                           (omp_parts all chunk) files trs m) o c =
    if mem_z o all then learn p (concat files) (kget n_cues m) o c else kget n_cues m o c.
  Proof.
    intros. apply openmp_any_schedule; auto. now apply omp_parts_concat.
  Qed.

  (** ... and end to end with the threads of every parallel region: whatever the schedules, once every
      region has ended the memory holds the sequential result over all chunk files in order *)
  Theorem openmp_workers_any_schedule p n_cues all chunk files n_threads scheds m o c :
    (0 <= n_cues < two32)%Z -> NoDup all -> Forall oko32 all ->
    (1 <= chunk)%Z -> (Z.of_nat (length all) + chunk <= two32)%Z ->
    Forall (cues_ok (okc_n n_cues)) files -> (1 <= n_threads)%nat ->
    files_done (omp_parts all chunk) n_threads files scheds ->
    oko32 o -> okc_n n_cues c ->
    kget n_cues (run_files R rO radd rmul rsub (kstore R) (kget n_cues) (kset n_cues) p
                           (omp_parts all chunk) files
                           (file_traces (omp_parts all chunk) n_threads files scheds) m) o c =
    if mem_z o all then learn p (concat files) (kget n_cues m) o c else kget n_cues m o c.
  Proof.
    intros. apply openmp_any_chunksize; auto. now apply file_traces_interleaved.
  Qed.
End Main.
