(** A second protocol for the worker threads of method='threading': no lock and no [empty()] test, every thread calls
    [get_nowait()] until [queue.Empty].  One step of a thread that is about to take work is then ONE atomic queue
    operation; in the lock protocol of Sched.qstep / QueueTrace.wstep / QueueFaults.fstep the same thread makes four
    moves (acquire, empty(), get(), release) - or two when the queue is empty - during which, in the lock-free protocol,
    nobody else can move.  The machine below is therefore DEFINED as the lock machine run on a stretched schedule:
    every theorem that holds for every schedule of the lock machine (exactly once, never blocked, bounded work, the
    trace is an interleaving, a failure raises) holds for every schedule of this one.  Definitions only. *)
From Coq Require Import List Arith Bool.
From PV Require Import Sched QueueTrace QueueFaults.
Import ListNotations.

Section Nowait.
  Context {A : Type}.
  Variable seqs : list (list A).
  Variable fails : nat -> nat -> bool.
  Notation fstate := (@fstate A).

  (** thread [t] is alive and about to ask the queue for work *)
  Definition at_start (s : fstate) (t : nat) : bool :=
    negb (is_dead s t) &&
    match nth_error (pcs (qs (ws s))) t with Some PStart => true | _ => false end.

  Definition moves (s : fstate) (t : nat) : list nat := if at_start s t then [t; t; t; t] else [t].

  (** [get_nowait()] returning an item or raising Empty is one step; work and finishing are as before *)
  Definition nstep (s : fstate) (t : nat) : fstate := frun seqs fails (moves s t) s.
  Definition nrun (sched : list nat) (s : fstate) : fstate := fold_left nstep sched s.

  (** the schedule of the lock machine that a schedule of this machine stands for *)
  Fixpoint expand (s : fstate) (sched : list nat) : list nat :=
    match sched with
    | [] => []
    | t :: r => moves s t ++ expand (nstep s t) r
    end.
End Nowait.
