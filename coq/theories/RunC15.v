(** Flat entry points of the C15 glue (Pipeline.v).  Decoding glue only.
    1501: text (length-prefixed)  ->  0 ; wf_textb ; n ; verdict of every line after the header
          ([wf_lineb] on the line without its terminator AND the line is terminated)
    1502: chunksize ; rule_cues ; rule_outcomes ; <the input of model 901>
          -> 0 ; lower_tab_okb ; corpus_okb ; rule_okb cues && rule_okb outcomes ;
             then  -1                         (creation refused / filter raised)
               or  0 ; len ; text ; -1        (the reader raised on the filtered file)
               or  0 ; len ; text ; 0 ; events (the composed model [pipeline_text] / [pipeline_events])
          rule encoding as in RunC10.v, option/oracle/corpus encoding as in RunC09.v *)
From Coq Require Import ZArith List Bool.
From PV Require Import Flat WindowSpec Preproc PyText Filter TextFmt Pipeline RunC07 RunC09 RunC10.
Import ListNotations.
Open Scope Z_scope.

Definition b2z (b : bool) : Z := if b then 1 else 0.

Definition m_wf_text (inp : list Z) : list Z :=
  match rd_list inp with
  | Some (text, _) =>
    let body := tl (TextFmt.lines (TextFmt.unl text)) in
    0 :: b2z (wf_textb text) :: Z.of_nat (length body)
      :: map (fun l => b2z (wf_lineb (TextFmt.strip_lf l) &&
                            match rev l with c :: _ => c =? TextFmt.LF | [] => false end)) body
  | None => bad_case
  end.

Definition m_pipeline (inp : list Z) : list Z :=
  match inp with
  | k :: r0 =>
    match rd_rule r0 with
    | Some (rc, r1) =>
      match rd_rule r1 with
      | Some (ro, ctx :: ev :: a :: b :: cue :: lc :: dd :: ex :: alla :: r2) =>
        match rd_seq (rd_pair rd_int rd_list) r2 with
        | Some (ltab, r3) =>
          match rd_list r3 with
          | Some (spaces, r4) =>
            match rd_list r4 with
            | Some (allow, r5) =>
              match rd_seq rd_list r5 with
              | Some (corpus, _) =>
                if 1 <=? k then
                  let lower := lookup_lower ltab in
                  let is_space := fun c => mem_z9 c spaces in
                  let allowed := fun c => if alla =? 0 then mem_z9 c allow else true in
                  let o := dec_opts ctx ev a b cue lc dd in
                  0 :: b2z (lower_tab_okb ltab) :: b2z (corpus_okb corpus)
                    :: b2z (rule_okb rc && rule_okb ro)
                    :: match pipeline_text lower is_space allowed o corpus rc ro (Z.to_nat k) with
                       | None => [-1]
                       | Some text =>
                         0 :: wr_list text ++
                           match TextFmt.parse_file text with
                           | Some es => 0 :: wr_sevents es
                           | None => [-1]
                           end
                       end
                else bad_case
              | None => bad_case
              end
            | None => bad_case
            end
          | None => bad_case
          end
        | None => bad_case
        end
      | _ => bad_case
      end
    | None => bad_case
    end
  | [] => bad_case
  end.

Definition run_c15 (id : Z) (inp : list Z) : option (list Z) :=
  if id =? 1501 then Some (m_wf_text inp)
  else if id =? 1502 then Some (m_pipeline inp)
  else None.
