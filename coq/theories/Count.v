(** Executable model of pyndl/count.py: [cues_outcomes] and [words_symbols]
    with their per-process jobs.  Definitions only.

    - a [collections.Counter] is an association list in insertion order;
      [c[k] += d] is [incr], [a += b] is [merge] (add every item of [b] in
      [b]'s order, then [_keep_positive]);
    - job [k] of [n_jobs] reads the lines [islice(lines, k, None, n_jobs)]
      (for event files: of the lines after the header, the frequency column is
      expanded inside the slice by [TextFmt.read_events]);
    - [nn] is the index of the last event of the job, [-1] when the loop body
      never ran; the job returns [nn + 1];
    - [pool.starmap] returns the job results in the order of [range(n_jobs)]
      and re-raises the exception of a job ([None]);
    - corpus files are read in text mode with universal newlines, *no* header
      is skipped; [line.split()] splits on runs of white space, [word.strip()]
      uses the same white space set: oracle [is_space] (CPython's
      [str.isspace]); [word.lower()] is the oracle [lower] applied per
      character (valid wherever [str.lower] is context free: everything
      except GREEK CAPITAL LETTER SIGMA, which the harness does not generate). *)
From Coq Require Import ZArith List Bool.
From PV Require Import TextFmt.
Import ListNotations.
Open Scope Z_scope.

(** * Counters *)
Definition counter := list (str * Z).

Fixpoint lookup (c : counter) (key : str) : Z :=
  match c with
  | [] => 0
  | (k, v) :: r => if str_eq_dec k key then v else lookup r key
  end.

(** [c[key] += d] (a missing key counts as 0 and is appended) *)
Fixpoint incr (key : str) (d : Z) (c : counter) : counter :=
  match c with
  | [] => [(key, d)]
  | (k, v) :: r => if str_eq_dec k key then (k, v + d) :: r else (k, v) :: incr key d r
  end.

(** [for t in toks: c[t] += 1] *)
Definition count_list (toks : list str) (c : counter) : counter :=
  fold_left (fun c t => incr t 1 c) toks c.

Definition keep_positive (c : counter) : counter := filter (fun kv => 0 <? snd kv) c.

(** [a += b] of two Counters *)
Definition merge (a b : counter) : counter :=
  keep_positive (fold_left (fun a kv => incr (fst kv) (snd kv) a) b a).

(** * cues_outcomes *)
Definition job_state := (Z * counter * counter)%type.   (* nn, cues, outcomes *)

(** [for nn, (cue_list, outcome_list) in enumerate(events)] *)
Fixpoint job_loop (evs : list event) (i : Z) (st : job_state) : job_state :=
  match evs with
  | [] => st
  | (cue_list, outcome_list) :: r =>
    let '(_, cues, outcomes) := st in
    job_loop r (i + 1) (i, count_list cue_list cues, count_list outcome_list outcomes)
  end.

(** [_job_cues_outcomes(file, start, step)]; [None] = the reader raised ValueError *)
Definition job_cues_outcomes (text : str) (start step : nat) : option job_state :=
  match read_events text start step with
  | None => None
  | Some evs => let '(nn, cues, outcomes) := job_loop evs 0 (-1, [], []) in
                Some (nn + 1, cues, outcomes)
  end.

(** results of [pool.starmap]: all results in order, or the error of a job *)
Fixpoint collect {A} (l : list (option A)) : option (list A) :=
  match l with
  | [] => Some []
  | None :: _ => None
  | Some x :: r => match collect r with None => None | Some xs => Some (x :: xs) end
  end.

Definition add_result (acc r : job_state) : job_state :=
  let '(n_events, cues, outcomes) := acc in
  let '(nn, cues_process, outcomes_process) := r in
  (n_events + nn, merge cues cues_process, merge outcomes outcomes_process).

(** [cues_outcomes(file, n_jobs=n)] -> (n_events, cues, outcomes) *)
Definition cues_outcomes (text : str) (n_jobs : nat) : option job_state :=
  match collect (map (fun k => job_cues_outcomes text k n_jobs) (seq 0 n_jobs)) with
  | None => None
  | Some results => Some (fold_left add_result results (0, [], []))
  end.

(** * words_symbols *)
(** the strip set of count.py: ! ? , . : ; / double-quote apostrophe ( ) ^ @ star ~ *)
Definition PUNCT : list Z :=
  [33; 63; 44; 46; 58; 59; 47; 34; 39; 40; 41; 94; 64; 42; 126].
Definition is_punct (c : Z) : bool := existsb (Z.eqb c) PUNCT.

Fixpoint lstrip (p : Z -> bool) (s : str) : str :=
  match s with
  | [] => []
  | c :: r => if p c then lstrip p r else s
  end.
(** [s.strip(chars)] for the character set [p] *)
Definition strip (p : Z -> bool) (s : str) : str := rev (lstrip p (rev (lstrip p s))).

Definition singleton (c : Z) : str := [c].
(** the keys [Counter(word)] counts: one per character *)
Definition symbols_of (w : str) : list str := map singleton w.

Section Words.
  Variable is_space : Z -> bool.
  Variable lower : Z -> list Z.

  (** [s.split()]: maximal runs of non-space characters ([cur] = current run, reversed) *)
  Fixpoint wsplit_aux (cur : str) (s : str) : list str :=
    match s with
    | [] => match cur with [] => [] | _ => [rev cur] end
    | c :: r => if is_space c
                then match cur with
                     | [] => wsplit_aux [] r
                     | _ => rev cur :: wsplit_aux [] r
                     end
                else wsplit_aux (c :: cur) r
    end.
  Definition wsplit (s : str) : list str := wsplit_aux [] s.

  (** [word.strip(); word.strip(PUNCT); word.lower() if lower_case] *)
  Definition clean_word (lower_case : bool) (word : str) : str :=
    let w := strip is_punct (strip is_space word) in
    if lower_case then flat_map lower w else w.

  Definition ws_state := (counter * counter)%type.   (* words, symbols *)

  (** body of [for word in line.split()] *)
  Definition word_step (lower_case : bool) (st : ws_state) (word : str) : ws_state :=
    match clean_word lower_case word with
    | [] => st                                                     (* continue *)
    | w => (incr w 1 (fst st), merge (snd st) (count_list (symbols_of w) []))
    end.

  Definition line_step (lower_case : bool) (st : ws_state) (line : str) : ws_state :=
    fold_left (word_step lower_case) (wsplit line) st.

  (** [_job_words_symbols(file, start, step, lower_case)] *)
  Definition job_words_symbols (text : str) (start step : nat) (lower_case : bool) : ws_state :=
    fold_left (line_step lower_case) (islice (lines (unl text)) start step) ([], []).

  Definition add_ws (acc r : ws_state) : ws_state :=
    (merge (fst acc) (fst r), merge (snd acc) (snd r)).

  (** [words_symbols(file, n_jobs=n, lower_case=...)] *)
  Definition words_symbols (text : str) (n_jobs : nat) (lower_case : bool) : ws_state :=
    fold_left add_ws (map (fun k => job_words_symbols text k n_jobs lower_case) (seq 0 n_jobs)) ([], []).

  (** Spec: the words of a line / of a file, in order *)
  Definition line_words (lower_case : bool) (line : str) : list str :=
    filter (fun w => match w with [] => false | _ => true end)
           (map (clean_word lower_case) (wsplit line)).
  Definition file_words (lower_case : bool) (text : str) : list str :=
    flat_map (line_words lower_case) (lines (unl text)).
End Words.

(** * Vocabulary of the theorems *)
(** the [n] strided slices of a list *)
Definition strided_slices {A} (l : list A) (n : nat) : list (list A) :=
  map (fun k => islice l k n) (seq 0 n).

(** a well-formed Counter: no key twice, only positive counts *)
Definition keys (c : counter) : list str := map fst c.
Definition positive_counts (c : counter) : Prop := Forall (fun kv => 0 < snd kv) c.
Definition wf (c : counter) : Prop := NoDup (keys c) /\ positive_counts c.

(** a counter that holds exactly the occurrences of the tokens [p] *)
Definition counts (c : counter) (p : list str) : Prop :=
  wf c /\ forall t, lookup c t = Z.of_nat (count_occ str_eq_dec p t).

(** what [cues_outcomes] has to return for a file whose events are [evs] *)
Definition exact_counts (n_events : Z) (cues outcomes : counter) (evs : list event) : Prop :=
  n_events = Z.of_nat (length evs) /\
  (forall t, lookup cues t = Z.of_nat (cue_count evs t)) /\
  (forall t, lookup outcomes t = Z.of_nat (outcome_count evs t)) /\
  NoDup (keys cues) /\ NoDup (keys outcomes) /\
  positive_counts cues /\ positive_counts outcomes.
