From Coq Require Import List Bool Arith Lia.
From PV Require Import Proto ProtoProofs Faults.
Import ListNotations.

(** ** phases *)
Lemma run_phases_return i phases : run_phases i phases = Return <-> forallb (fun b => b) phases = true.
Proof.
  revert i. induction phases as [|ok r IH]; intros i; cbn; [tauto|].
  destruct ok; cbn; [apply IH|]. split; discriminate.
Qed.

Theorem failed_phase_raises phases :
  In false phases -> exists k, run_phases 0 phases = Raise k /\ nth k phases true = false /\
                               forall j, j < k -> nth j phases true = true.
Proof.
  assert (G : forall i, In false phases ->
              exists k, run_phases i phases = Raise (i + k) /\ nth k phases true = false /\
                        forall j, j < k -> nth j phases true = true).
  { induction phases as [|ok r IH]; intros i Hin; [destruct Hin|].
    destruct ok.
    - destruct Hin as [H|Hin]; [discriminate|]. destruct (IH (S i) Hin) as (k & H1 & H2 & H3).
      exists (S k). cbn. split; [rewrite H1; f_equal; lia|]. split; [exact H2|].
      intros [|j] Hj; [reflexivity|]. apply H3. lia.
    - exists 0. cbn. split; [f_equal; lia|]. split; [reflexivity|]. intros j Hj. lia. }
  intros H. destruct (G 0 H) as (k & H1 & H2). exists k. now split.
Qed.

(** ** worker threads *)
Theorem thread_errors_raised workers :
  (exists e, In (Some e) workers) <-> exists e, join_workers true workers = Some e.
Proof.
  unfold join_workers. induction workers as [|w r IH]; cbn.
  - split; intros [e H]; [destruct H|discriminate].
  - destruct w as [e0|]; cbn.
    + split; intros _; [exists e0; reflexivity|exists e0; now left].
    + rewrite <- IH. split; intros [e H]; exists e; [destruct H as [H|H]; [discriminate|exact H]|now right].
Qed.

Theorem thread_errors_swallowed_refuted :
  exists workers e, In (Some e) workers /\ join_workers false workers = None.
Proof. exists [None; Some 7], 7. split; [right; now left|reflexivity]. Qed.

(** ** chunk conversion with a failing job *)
Section ConversionFault.
  Variable res : nat -> jres.
  Variable B : nat.
  Hypothesis HB : 1 <= B.
  Variable k0 : nat.
  Hypothesis Hk0 : res k0 = JError.
  (** the jobs before the failing one write full files (or fail themselves) *)
  Hypothesis Hbefore : forall k, k < k0 -> (exists n, res k = JReturn (S n)) \/ res k = JError.

  Theorem conversion_fault_raises sched :
    let s := prun repaired res B sched pinit in
    pfinished s = true -> conversion_outcome s = Raise 2.
  Proof.
    intros s F.
    assert (I : PInv res s) by (apply pinv_run; [exact HB|apply pinv_init; exact B]).
    assert (Hcl : closed s = true).
    { unfold pfinished in F. apply andb_true_iff in F as [F _]. now apply (pi_done _ _ I). }
    apply (pi_closed _ _ I) in Hcl. destruct Hcl as [j [Hj Hc]].
    assert (Herr : exists e, In e (errors s)).
    { destruct (res j) as [n|n|] eqn:Hr.
      - (* a job reporting 0 events: it lies beyond k0, so k0 was submitted and delivered *)
        assert (k0 < j).
        { destruct (Nat.lt_trichotomy j k0) as [L|[E|G]]; [|congruence|exact G].
          destruct (Hbefore j L) as [[m Hm]|Hm]; rewrite Hr in Hm; [|discriminate].
          inversion Hm; subst. cbn in Hc. discriminate. }
        pose proof (pi_lt _ _ I j Hj).
        exists k0. apply (pi_errors _ _ I). split; [|exact Hk0].
        assert (P : Permutation.Permutation (processed s) (seq 0 (next s))) by (eapply finished_all_processed; eauto).
        apply (Permutation.Permutation_in _ (Permutation.Permutation_sym P)). apply in_seq. lia.
      - assert (k0 < j).
        { destruct (Nat.lt_trichotomy j k0) as [L|[E|G]]; [|congruence|exact G].
          destruct (Hbefore j L) as [[m Hm]|Hm]; rewrite Hr in Hm; discriminate. }
        pose proof (pi_lt _ _ I j Hj).
        exists k0. apply (pi_errors _ _ I). split; [|exact Hk0].
        assert (P : Permutation.Permutation (processed s) (seq 0 (next s))) by (eapply finished_all_processed; eauto).
        apply (Permutation.Permutation_in _ (Permutation.Permutation_sym P)). apply in_seq. lia.
      - exists j. apply (pi_errors _ _ I). now split. }
    destruct Herr as [e He]. unfold conversion_outcome. destruct (errors s); [destruct He|reflexivity].
  Qed.
End ConversionFault.

(** ** temporary directories *)
Lemma fs_rmtree_add_inside d n f : fs_rmtree d (fs_add (d, n) f) = fs_rmtree d f.
Proof. unfold fs_rmtree, fs_add. cbn. now rewrite Nat.eqb_refl. Qed.

Lemma run_body_rmtree d steps f :
  fs_rmtree d (fst (run_body d steps f)) = fs_rmtree d f.
Proof.
  revert f. induction steps as [|[n|] r IH]; intros f; cbn; try reflexivity.
  rewrite IH. apply fs_rmtree_add_inside.
Qed.

Definition fresh (d : nat) (f : fs) : Prop :=
  forall p, In p f -> fst p <> d /\ p <> (0, d).

Lemma fs_rmtree_fresh d f : fresh d f -> fs_rmtree d f = f.
Proof.
  intros H. unfold fs_rmtree. induction f as [|p r IH]; [reflexivity|]. cbn.
  destruct (H p (or_introl eq_refl)) as [H1 H2].
  assert (E1 : Nat.eqb (fst p) d = false) by now apply Nat.eqb_neq.
  assert (E2 : path_eqb p (0, d) = false).
  { unfold path_eqb. cbn. destruct p as [a b]. cbn in *.
    destruct (Nat.eqb_spec a 0), (Nat.eqb_spec b d); cbn; try reflexivity. subst. now contradiction H2. }
  rewrite E1, E2. cbn. f_equal. apply IH. intros q Hq. apply H. now right.
Qed.

(** whatever the body creates and wherever it fails, after the block the file
    system is what it was before *)
Theorem bracket_restores d steps f : 0 < d -> fresh d f -> fst (bracket d steps f) = f.
Proof.
  intros Hd Hf. unfold bracket.
  pose proof (run_body_rmtree d steps (fs_add (0, d) f)) as E.
  destruct (run_body d steps (fs_add (0, d) f)) as [f' ok]. cbn [fst] in *. rewrite E.
  unfold fs_rmtree, fs_add. cbn [filter fst].
  assert (path_eqb (0, d) (0, d) = true) by (unfold path_eqb; cbn; now rewrite Nat.eqb_refl).
  rewrite H. rewrite andb_false_r. now apply fs_rmtree_fresh.
Qed.

Theorem bracket_reports_failure d steps f : snd (bracket d steps f) = negb (existsb (fun s => match s with BFail => true | _ => false end) steps).
Proof.
  unfold bracket. generalize (fs_add (0, d) f). clear f.
  induction steps as [|[n|] r IH]; intros f; cbn; try reflexivity.
  specialize (IH (fs_add (d, n) f)). destruct (run_body d r (fs_add (d, n) f)). exact IH.
Qed.

Lemma rmtree_dir_entry d f : 0 < d -> fresh d f -> fs_rmtree d (fs_add (0, d) f) = f.
Proof.
  intros Hd Hf. unfold fs_rmtree, fs_add. cbn [filter fst].
  assert (E : path_eqb (0, d) (0, d) = true) by (unfold path_eqb; cbn; now rewrite Nat.eqb_refl).
  rewrite E, andb_false_r. now apply fs_rmtree_fresh.
Qed.

(** the learner with generator input (spool directory + chunk directory), for
    every failure point of either stage *)
Theorem learner_clean_generator ds db spool_ok body f :
  0 < ds -> 0 < db -> ds <> db -> fresh ds f -> fresh db f ->
  fst (learner_call_generator ds db spool_ok body f) = f.
Proof.
  intros H1 H2 Hne Hs Hb. unfold learner_call_generator.
  destruct spool_ok; cbn [run_body].
  - pose proof (bracket_restores db body (fs_add (ds, 1) (fs_add (0, ds) f)) H2) as E.
    assert (Hfr : fresh db (fs_add (ds, 1) (fs_add (0, ds) f))).
    { intros p [<-|[<-|Hp]]; cbn; [split; [exact Hne|intro E0; inversion E0; lia]|split; [lia|intro E0; inversion E0; lia]|now apply Hb]. }
    specialize (E Hfr). destruct (bracket db body _) as [f2 ok2]. cbn [fst] in *. subst f2.
    rewrite fs_rmtree_add_inside. now apply rmtree_dir_entry.
  - cbn [fst]. now apply rmtree_dir_entry.
Qed.

(** before the repair every call with a generator left its spool file behind *)
Theorem generator_leaks_refuted :
  exists spool db body f, fst (learner_call_generator_unrepaired spool db body f) <> f.
Proof. exists 5, 6, [BCreate 1], []. vm_compute. discriminate. Qed.
