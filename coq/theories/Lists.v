(** Small list lemmas shared by the developments. *)
From Coq Require Import List Arith Lia.
Import ListNotations.

Lemma NoDup_snoc {A} (l : list A) x : ~ In x l -> NoDup l -> NoDup (l ++ [x]).
Proof.
  induction l as [|y r IH]; intros Hx Hnd; cbn.
  - constructor; [intros []|constructor].
  - inversion Hnd as [|? ? Hy Hr]; subst. constructor.
    + rewrite in_app_iff. cbn. intros [H|[H|[]]]; [auto|]. subst. apply Hx. now left.
    + apply IH; [|exact Hr]. intro. apply Hx. now right.
Qed.

Lemma In_firstn' {A} n (l : list A) x : In x (firstn n l) -> In x l.
Proof.
  revert l. induction n as [|n IH]; intros [|y r]; cbn; try tauto.
  intros [H|H]; auto.
Qed.

Lemma In_skipn' {A} n (l : list A) x : In x (skipn n l) -> In x l.
Proof.
  revert l. induction n as [|n IH]; intros [|y r]; cbn; try tauto.
  intros H. right. now apply IH.
Qed.

Lemma NoDup_firstn {A} n (l : list A) : NoDup l -> NoDup (firstn n l).
Proof.
  revert l. induction n as [|n IH]; intros [|y r] H; cbn; try constructor.
  - inversion H; subst. intro Hy. apply In_firstn' in Hy. contradiction.
  - inversion H; subst. now apply IH.
Qed.

Lemma NoDup_skipn {A} n (l : list A) : NoDup l -> NoDup (skipn n l).
Proof.
  revert l. induction n as [|n IH]; intros [|y r] H; cbn; try assumption.
  inversion H; subst. now apply IH.
Qed.

Lemma NoDup_app_remove_l {A} (l l' : list A) : NoDup (l ++ l') -> NoDup l'.
Proof.
  induction l as [|x r IH]; cbn; intros H; [exact H|].
  inversion H; subst. now apply IH.
Qed.

Lemma NoDup_app_remove_r {A} (l l' : list A) : NoDup (l ++ l') -> NoDup l.
Proof.
  induction l as [|x r IH]; cbn; intros H; [constructor|].
  inversion H as [|? ? Hx Hr]; subst. constructor; [|now apply IH].
  intro Hin. apply Hx. apply in_app_iff. now left.
Qed.

Lemma NoDup_app_disjoint {A} (l l' : list A) x : NoDup (l ++ l') -> In x l -> In x l' -> False.
Proof.
  induction l as [|y r IH]; cbn; intros H Hl Hl'; [exact Hl|].
  inversion H as [|? ? Hy Hr]; subst. destruct Hl as [->|Hl].
  - apply Hy. apply in_app_iff. now right.
  - now apply IH.
Qed.
