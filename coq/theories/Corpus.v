(** Executable model of pyndl/corpus.py on parsed structure: sentence
    cleaning and paragraph breaks ([read_clean_gzfile]), the per-file job
    ([JobParseGz.run]), the directory walk, sort, ordered [Pool.imap] and the
    [.not_found] bookkeeping ([create_corpus_from_gz]).  gzip and ElementTree
    are oracles (the harness generates the XML); [str.strip]'s whitespace set
    is the oracle [is_space].  Strings are lists of code points.
    Definitions only; proofs are in CorpusProofs.v. *)
From Coq Require Import ZArith List Bool Arith QArith Qcanon.
From PV Require Import BinFmt.
Import ListNotations.
Open Scope Z_scope.

Definition str := list Z.

(** PUNCTUATION = tuple(".,:;?!()[]'") *)
Definition PUNCTUATION : list Z := [46; 44; 58; 59; 63; 33; 40; 41; 91; 93; 39].
(** [text in PUNCTUATION]: equal to one of the one-character strings *)
Definition is_punct (w : str) : bool :=
  match w with [c] => mem_z c PUNCTUATION | _ => false end.

(** "\n---END.OF.DOCUMENT---\n\n" *)
Definition END_MARKER : str :=
  [10; 45; 45; 45; 69; 78; 68; 46; 79; 70; 46; 68; 79; 67; 85; 77; 69; 78; 84; 45; 45; 45; 10; 10].

(** a time tag: last character of its id ('S' = 83, 'E' = 69, -1 for an empty
    id) and its value in seconds, h*3600 + m*60 + s + f/30 exactly *)
Definition time_tag := (Z * Qc)%type.
(** a sentence tag: the texts of its w children ([None] = no text) and its time children *)
Record sentence := { s_words : list (option str); s_times : list time_tag }.

Fixpoint drop_while (p : Z -> bool) (l : str) : str :=
  match l with
  | [] => []
  | c :: r => if p c then drop_while p r else l
  end.

Section Corpus.
  Variable is_space : Z -> bool.                (* str.isspace of CPython *)

  Definition strip (s : str) : str := rev (drop_while is_space (rev (drop_while is_space s))).

  (** the word loop: [words.append(text)] for punctuation, [words.extend((' ', text))]
      otherwise, ValueError for a w tag without text *)
  Definition word_step (acc : option (list str)) (w : option str) : option (list str) :=
    match acc with
    | None => None
    | Some words =>
      match w with
      | None => None
      | Some text => if is_punct text then Some (words ++ [text]) else Some (words ++ [[32]; text])
      end
    end.
  Definition join_words (ws : list (option str)) : option str :=
    match fold_left word_step ws (Some []) with
    | None => None
    | Some words => Some (concat words)
    end.

  (** the time loop of one sentence; state = (last_time, result) *)
  Definition time_step (bd : Qc) (acc : option (Qc * str)) (t : time_tag) : option (Qc * str) :=
    match acc with
    | None => None
    | Some (last, result) =>
      let kind := fst t in let current := snd t in
      if (kind =? 83) && (match Qccompare (current - last)%Qc bd with Gt => true | _ => false end)
      then Some (last, 10 :: result)
      else if kind =? 69 then Some (current, result)
      else if kind =? 83 then Some (last, result)
      else None                                  (* ValueError: tag_type is not 'S' or 'E' *)
    end.
  Definition time_loop (bd : Qc) (ts : list time_tag) (last : Qc) (result : str) : option (Qc * str) :=
    fold_left (time_step bd) ts (Some (last, result)).

  (** [list(read_clean_gzfile(...))]: None = ValueError *)
  Fixpoint read_clean (bd : Qc) (ss : list sentence) (last : Qc) : option (list str) :=
    match ss with
    | [] => Some []
    | s :: r =>
      match join_words (s_words s) with
      | None => None
      | Some joined =>
        match strip joined with
        | [] => read_clean bd r last                       (* if not result: continue *)
        | result =>
          match time_loop bd (s_times s) last result with
          | None => None
          | Some (last', result') =>
            match read_clean bd r last' with
            | None => None
            | Some ls => Some ((result' ++ [10]) :: ls)
            end
          end
        end
      end
    end.

  (** * the per-file job *)
  Inductive content := Missing | Doc (ss : list sentence).
  Inductive job_result :=
  | JLines (ls : list str)          (* (lines, None) *)
  | JNotFound (nf : str)            (* (None, filename + "\n") *)
  | JValueError                     (* the job raised ValueError *)
  | JUnbound.                       (* UnboundLocalError: 'lines' (logic before the repair) *)

  Definition job (bd : Qc) (f : str * content) : job_result :=
    match snd f with
    | Missing => JNotFound (fst f ++ [10])
    | Doc ss => match read_clean bd ss 0%Qc with
                | Some ls => JLines (ls ++ [END_MARKER])
                | None => JValueError
                end
    end.
  (** before the repair [lines] was only bound in the try block *)
  Definition job_unrepaired (bd : Qc) (f : str * content) : job_result :=
    match snd f with
    | Missing => JUnbound
    | Doc _ => job bd f
    end.
End Corpus.

(** * the walk, the filter and the sort *)
Definition ends_with_gz (name : str) : bool :=
  match rev name with 122 :: 103 :: 46 :: _ => true | _ => false end.      (* ".gz" *)

(** os.path.join(root, name) for a non-empty root and a relative name *)
Definition path_join (root name : str) : str :=
  match rev root with
  | 47 :: _ => root ++ name
  | _ => root ++ 47 :: name
  end.

(** one triple of os.walk: root and its non-directory entries with what
    [gzip.open] finds there *)
Definition walk_entry := (str * list (str * content))%type.

Definition gz_files_of (walk : list walk_entry) : list (str * content) :=
  flat_map (fun e => flat_map (fun f => if ends_with_gz (fst f) then [(path_join (fst e) (fst f), snd f)] else [])
                              (snd e)) walk.

(** str comparison of CPython: lexicographic on code points *)
Fixpoint str_leb (a b : str) : bool :=
  match a, b with
  | [], _ => true
  | _ :: _, [] => false
  | x :: a', y :: b' => if x <? y then true else if y <? x then false else str_leb a' b'
  end.

Section Sort.
  Context {A : Type}.
  Variable key : A -> str.
  Fixpoint insert (x : A) (l : list A) : list A :=
    match l with
    | [] => [x]
    | y :: r => if str_leb (key x) (key y) then x :: l else y :: insert x r
    end.
  Fixpoint isort (l : list A) : list A :=
    match l with [] => [] | x :: r => insert x (isort r) end.
End Sort.

(** * Pool(n).imap: tasks are taken from a FIFO queue by idle workers; a
    worker that finishes hands (index, result) to the result handler; the
    iterator yields in index order (IMapIterator._set: results that arrive
    early wait in [_unsorted]) *)
Record pool := { pq_queue : list nat; pq_busy : list (option nat); pq_done : list nat }.
Definition set_nth {A} (l : list A) (k : nat) (v : A) : list A := firstn k l ++ v :: skipn (S k) l.
Definition pool_init (n_tasks n_workers : nat) : pool :=
  {| pq_queue := seq 0 n_tasks; pq_busy := repeat None n_workers; pq_done := [] |}.
(** worker [w] makes its next move *)
Definition pool_step (p : pool) (w : nat) : pool :=
  match nth_error (pq_busy p) w with
  | Some (Some t) => {| pq_queue := pq_queue p; pq_busy := set_nth (pq_busy p) w None; pq_done := pq_done p ++ [t] |}
  | Some None =>
    match pq_queue p with
    | t :: q => {| pq_queue := q; pq_busy := set_nth (pq_busy p) w (Some t); pq_done := pq_done p |}
    | [] => p
    end
  | None => p
  end.
Definition pool_run (n_tasks n_workers : nat) (sched : list nat) : pool :=
  fold_left pool_step sched (pool_init n_tasks n_workers).
Definition pool_finished (p : pool) : bool :=
  match pq_queue p with
  | [] => forallb (fun b => match b with None => true | Some _ => false end) (pq_busy p)
  | _ => false
  end.

Section IMap.
  Context {B : Type}.
  (** IMapIterator state: _index, _items (in yield order), _unsorted *)
  Record imap_state := { im_index : nat; im_items : list B; im_unsorted : nat -> option B }.
  Definition im_init : imap_state := {| im_index := 0; im_items := []; im_unsorted := fun _ => None |}.
  (** while self._index in self._unsorted: pop, append, index += 1 *)
  Fixpoint im_drain (fuel : nat) (s : imap_state) : imap_state :=
    match fuel with
    | O => s
    | S f =>
      match im_unsorted s (im_index s) with
      | Some v => im_drain f {| im_index := S (im_index s); im_items := im_items s ++ [v];
                                im_unsorted := fun k => if (k =? im_index s)%nat then None else im_unsorted s k |}
      | None => s
      end
    end.
  (** _set(i, obj) *)
  Definition im_set (n_tasks : nat) (s : imap_state) (iv : nat * B) : imap_state :=
    if (fst iv =? im_index s)%nat
    then im_drain n_tasks {| im_index := S (im_index s); im_items := im_items s ++ [snd iv];
                              im_unsorted := im_unsorted s |}
    else {| im_index := im_index s; im_items := im_items s;
            im_unsorted := fun k => if (k =? fst iv)%nat then Some (snd iv) else im_unsorted s k |}.
  (** the results in the order the for loop sees them, given the order in
      which the tasks complete *)
  Definition imap_deliver (results : nat -> B) (n_tasks : nat) (completion : list nat) : list B :=
    im_items (fold_left (im_set n_tasks) (map (fun i => (i, results i)) completion) im_init).
End IMap.

(** * create_corpus_from_gz *)
Inductive status := SOk | SNoDirectory | SOutfileExists | SValueError | SUnboundLocal.
Record outcome := {
  o_status : status;
  o_written : option str;             (* content of outfile if this call created it *)
  o_not_found : option (nat * str)    (* counter of the free name "<outfile>.not_found[-k]" and the content *)
}.

(** the for loop over the delivered results: lines are written, not-found
    names collected; an exception of a job surfaces when the loop reaches it
    (what was written before stays, the file is closed by the with block) *)
Fixpoint consume (rs : list job_result) (written : str) (nfs : list str) : status * str * list str :=
  match rs with
  | [] => (SOk, written, nfs)
  | JLines ls :: r => consume r (written ++ concat ls) nfs
  | JNotFound nf :: r => consume r written (nfs ++ [nf])
  | JValueError :: _ => (SValueError, written, nfs)
  | JUnbound :: _ => (SUnboundLocal, written, nfs)
  end.

(** io.safe_write_path(path, '{path}-{counter}'): first counter whose name is free *)
Fixpoint first_free (taken : nat -> bool) (fuel counter : nat) : nat :=
  match fuel with
  | O => counter
  | S f => if taken counter then first_free taken f (S counter) else counter
  end.

Definition BREAK_DURATION : Qc := Q2Qc (5 # 1).     (* JobParseGz(break_duration=5.0) *)

Section Create.
  (** [job is_space] (current source) or [job_unrepaired is_space] *)
  Variable the_job : Qc -> (str * content) -> job_result.

  Definition create_corpus (dir_exists outfile_exists : bool) (walk : list walk_entry)
             (completion : list nat) (nf_taken : nat -> bool) (nf_fuel : nat) : outcome :=
    if negb dir_exists then {| o_status := SNoDirectory; o_written := None; o_not_found := None |}
    else if outfile_exists then {| o_status := SOutfileExists; o_written := None; o_not_found := None |}
    else
      let gz_files := isort fst (gz_files_of walk) in
      let tasks := gz_files in
      let results := imap_deliver (fun i => the_job BREAK_DURATION (nth i tasks ([], Missing)))
                                  (length tasks) completion in
      match consume results [] [] with
      | (SOk, written, nfs) =>
        {| o_status := SOk; o_written := Some written;
           o_not_found := match nfs with
                          | [] => None
                          | _ => Some (first_free nf_taken nf_fuel 0, concat nfs)
                          end |}
      | (st, written, _) => {| o_status := st; o_written := Some written; o_not_found := None |}
      end.
End Create.

(** * the specification the property states *)
Section Spec.
  Variable is_space : Z -> bool.
  (** the cleaned lines of a readable file followed by the end-of-document marker *)
  Definition file_text (f : str * content) : str :=
    match snd f with
    | Doc ss => match read_clean is_space BREAK_DURATION ss 0%Qc with
                | Some ls => concat ls ++ END_MARKER
                | None => []
                end
    | Missing => []
    end.
  Definition is_missing (f : str * content) : bool :=
    match snd f with Missing => true | Doc _ => false end.
  Definition spec_corpus (sorted_files : list (str * content)) : str :=
    flat_map file_text (filter (fun f => negb (is_missing f)) sorted_files).
  Definition spec_not_found (sorted_files : list (str * content)) : str :=
    flat_map (fun f => fst f ++ [10]) (filter is_missing sorted_files).
  Definition all_parse (files : list (str * content)) : Prop :=
    forall f, In f files -> job is_space BREAK_DURATION f <> JValueError.
End Spec.
