(** Proofs about the model of JobFilter / filter_event_file (Filter.v). *)
From Coq Require Import ZArith List Bool Lia Permutation Arith.
From PV Require Import PyText PyTextProofs Filter.
Import ListNotations.
Open Scope Z_scope.

(** * A. Pool.imap keeps the order for every chunk size and completion order *)
Lemma chunks_fuel_concat {A} fuel k (l : list A) :
  (1 <= k)%nat -> (length l <= fuel)%nat -> concat (chunks_fuel fuel k l) = l.
Proof.
  intros Hk. revert l. induction fuel as [|fuel IH]; intros l Hl.
  - destruct l; [reflexivity|cbn in Hl; lia].
  - destruct l as [|x r]; [reflexivity|].
    cbn [chunks_fuel concat]. rewrite IH.
    + apply firstn_skipn.
    + rewrite skipn_length. cbn [length] in *. lia.
Qed.

Lemma chunks_concat {A} k (l : list A) : (1 <= k)%nat -> concat (chunks k l) = l.
Proof. intros Hk. apply chunks_fuel_concat; [exact Hk|lia]. Qed.

Lemma chunks_fuel_bounded {A} fuel k (l : list A) c :
  In c (chunks_fuel fuel k l) -> c <> [] \/ k = 0%nat.
Proof.
  revert l. induction fuel as [|fuel IH]; intros l H; [easy|].
  destruct l as [|x r]; [easy|]. cbn [chunks_fuel] in H. destruct H as [<-|H].
  - destruct k; [now right|left; easy].
  - eapply IH; eauto.
Qed.

Lemma chunks_fuel_size {A} fuel k (l : list A) c :
  In c (chunks_fuel fuel k l) -> (length c <= k)%nat.
Proof.
  revert l. induction fuel as [|fuel IH]; intros l H; [easy|].
  destruct l as [|x r]; [easy|]. cbn [chunks_fuel] in H. destruct H as [<-|H].
  - apply firstn_le_length.
  - eapply IH; eauto.
Qed.

(** every chunk is non-empty and has at most [k] items *)
Lemma chunks_size {A} k (l : list A) c :
  (1 <= k)%nat -> In c (chunks k l) -> c <> [] /\ (length c <= k)%nat.
Proof.
  intros Hk H. split.
  - destruct (chunks_fuel_bounded _ _ _ _ H); [assumption|lia].
  - eapply chunks_fuel_size; eauto.
Qed.

Theorem imap_chunked_eq_map {A B} k (f : A -> B) l :
  (1 <= k)%nat -> imap_chunked k f l = map f l.
Proof.
  intros Hk. unfold imap_chunked. rewrite <- concat_map. now rewrite chunks_concat.
Qed.

Lemma lookup_task_in {B} i (r : list B) done :
  NoDup (map fst done) -> In (i, r) done -> lookup_task i done = r.
Proof.
  induction done as [|[j r'] rest IH]; intros Hnd Hin; [easy|].
  cbn in *. inversion Hnd as [|? ? Hj Hrest]; subst.
  destruct Hin as [E|Hin].
  - inversion E; subst. now rewrite Nat.eqb_refl.
  - destruct (Nat.eqb i j) eqn:E.
    + apply Nat.eqb_eq in E. subst j. exfalso. apply Hj.
      change i with (fst (i, r)). now apply in_map.
    + now apply IH.
Qed.

Lemma flat_map_ext_in {A B} (f g : A -> list B) l :
  (forall x, In x l -> f x = g x) -> flat_map f l = flat_map g l.
Proof.
  induction l as [|x r IH]; intros H; [reflexivity|].
  cbn. rewrite (H x) by now left. f_equal. apply IH. intros y Hy. apply H. now right.
Qed.

Lemma flat_map_nth_seq {B} (rs : list (list B)) s :
  flat_map (fun i => nth (i - s) rs []) (seq s (length rs)) = concat rs.
Proof.
  revert s. induction rs as [|r rs IH]; intros s; [reflexivity|].
  cbn [length seq flat_map concat]. rewrite Nat.sub_diag. cbn [nth]. f_equal.
  rewrite <- (IH (S s)). apply flat_map_ext_in. intros i Hi. apply in_seq in Hi.
  replace (i - s)%nat with (S (i - S s)) by lia. reflexivity.
Qed.

Lemma in_combine_seq_nth {B} (rs : list (list B)) s i :
  (s <= i < s + length rs)%nat -> In (i, nth (i - s) rs []) (combine (seq s (length rs)) rs).
Proof.
  revert s. induction rs as [|r rs IH]; intros s H; cbn in *; [lia|].
  destruct (Nat.eq_dec i s) as [->|Hne].
  - left. now rewrite Nat.sub_diag.
  - right. replace (i - s)%nat with (S (i - S s)) by lia. apply IH. lia.
Qed.

Lemma map_fst_combine_seq {B} (rs : list B) s :
  map fst (combine (seq s (length rs)) rs) = seq s (length rs).
Proof.
  revert s. induction rs as [|r rs IH]; intros s; [reflexivity|]. cbn. now rewrite IH.
Qed.

Lemma combine_map_r {A B C} (f : B -> C) (xs : list A) (ys : list B) :
  combine xs (map f ys) = map (fun t => (fst t, f (snd t))) (combine xs ys).
Proof.
  revert ys. induction xs as [|x xs IH]; intros [|y ys]; cbn; try reflexivity. now rewrite IH.
Qed.

(** [imap]: whatever the order in which the workers complete the tasks, the
    iterator yields the results in input order *)
Theorem imap_pool_eq_map {A B} k (f : A -> B) l order :
  (1 <= k)%nat -> Permutation order (tasks k l) -> imap_pool k f l order = map f l.
Proof.
  intros Hk Hp. unfold imap_pool.
  set (cs := chunks k l). set (rs := map (map f) cs).
  set (done := map (fun t => (fst t, map f (snd t))) order).
  assert (Hd : Permutation done (combine (seq 0 (length rs)) rs)).
  { unfold done, rs. rewrite combine_map_r. rewrite map_length.
    apply Permutation_map. exact Hp. }
  assert (Hnd : NoDup (map fst done)).
  { eapply Permutation_NoDup; [apply Permutation_sym, Permutation_map, Hd|].
    rewrite map_fst_combine_seq. apply seq_NoDup. }
  replace (length cs) with (length rs) by (unfold rs; apply map_length).
  rewrite (flat_map_ext_in _ (fun i => nth (i - 0) rs [])).
  - rewrite flat_map_nth_seq. unfold rs, cs. rewrite <- concat_map. now rewrite chunks_concat.
  - intros i Hi. apply in_seq in Hi. apply lookup_task_in; [exact Hnd|].
    eapply Permutation_in; [apply Permutation_sym, Hd|]. apply in_combine_seq_nth. lia.
Qed.

(** contrast: [imap_unordered] would reorder the events *)
Lemma imap_unordered_reorders_refuted :
  exists (k : nat) (l : list Z) (order : list (nat * list Z)),
    (1 <= k)%nat /\ Permutation order (tasks k l) /\
    imap_unordered (fun x => x) order <> map (fun x => x) l.
Proof.
  exists 1%nat, [1; 2], [(1%nat, [2]); (0%nat, [1])]. split; [lia|]. split.
  - cbn. apply perm_swap.
  - cbn. discriminate.
Qed.

(** * B. The file: output = header :: filter_map job lines *)
Lemma job_not_err rc ro l : line_ok l -> job rc ro l <> JErr.
Proof.
  unfold line_ok, job. destruct (parse_line l); [|easy]. intros _.
  destruct (job_event rc ro e); easy.
Qed.

Lemma job_err_iff rc ro l : job rc ro l = JErr <-> parse_line l = None.
Proof.
  unfold job. destruct (parse_line l); [|easy].
  destruct (job_event rc ro e); split; easy.
Qed.

Lemma collect_ok rc ro body :
  (forall l, In l body -> line_ok l) ->
  collect (map (job rc ro) body) = Some (filter_map (job_opt rc ro) body).
Proof.
  induction body as [|l r IH]; intros H; [reflexivity|].
  cbn [map collect filter_map].
  assert (Hl : line_ok l) by (apply H; now left).
  rewrite IH by (intros x Hx; apply H; now right).
  unfold job, job_opt, line_ok in *. destruct (parse_line l); [|easy].
  destruct (job_event rc ro e); reflexivity.
Qed.

Lemma collect_err rs : In JErr rs -> collect rs = None.
Proof.
  induction rs as [|r rs IH]; [easy|]. intros [->|H]; [reflexivity|].
  cbn. destruct r; [|now apply IH|reflexivity]. now rewrite IH.
Qed.

Theorem filter_pool_eq_filter_map rc ro k order h body :
  (1 <= k)%nat -> Permutation order (tasks k body) ->
  (forall l, In l body -> line_ok l) ->
  filter_lines_pool rc ro k order (h :: body) = Some (h :: filter_map (job_opt rc ro) body).
Proof.
  intros Hk Hp Hok. unfold filter_lines_pool.
  rewrite imap_pool_eq_map by assumption. now rewrite collect_ok.
Qed.

Theorem filter_pool_malformed_line rc ro k order h body l :
  (1 <= k)%nat -> Permutation order (tasks k body) ->
  In l body -> parse_line l = None ->
  filter_lines_pool rc ro k order (h :: body) = None.
Proof.
  intros Hk Hp Hin Hl. unfold filter_lines_pool.
  rewrite imap_pool_eq_map by assumption.
  rewrite collect_err; [reflexivity|]. apply in_map_iff. exists l. split; [|exact Hin].
  now apply job_err_iff.
Qed.

Theorem filter_pool_eq_sequential rc ro k order lines :
  (1 <= k)%nat -> Permutation order (tasks k (tl lines)) ->
  filter_lines_pool rc ro k order lines = filter_lines rc ro lines.
Proof.
  intros Hk Hp. destruct lines as [|h body]; [reflexivity|].
  unfold filter_lines_pool, filter_lines. cbn [tl] in Hp. now rewrite imap_pool_eq_map.
Qed.

Lemma tasks_rev_perm {A} k (l : list A) : Permutation (rev (tasks k l)) (tasks k l).
Proof. apply Permutation_sym, Permutation_rev. Qed.

Theorem filter_text_pool_eq rc ro k text :
  (1 <= k)%nat -> filter_text_pool rc ro k text = filter_text rc ro text.
Proof.
  intros Hk. unfold filter_text_pool, filter_text.
  rewrite filter_pool_eq_sequential; [reflexivity|exact Hk|apply tasks_rev_perm].
Qed.

(** order preserved, nothing duplicated: the output lines are a subsequence image *)
Lemma filter_map_length {A B} (f : A -> option B) l : (length (filter_map f l) <= length l)%nat.
Proof. induction l as [|x r IH]; cbn; [lia|]. destruct (f x); cbn; lia. Qed.

Lemma filter_map_app {A B} (f : A -> option B) l1 l2 :
  filter_map f (l1 ++ l2) = filter_map f l1 ++ filter_map f l2.
Proof.
  induction l1 as [|x r IH]; cbn; [reflexivity|]. destruct (f x); cbn; now rewrite IH.
Qed.

(** * C. Token level laws *)
Lemma mem_tok_In t K : mem_tok t K = true <-> In t K.
Proof.
  induction K as [|s r IH]; cbn; [easy|].
  rewrite orb_true_iff, str_eqb_eq, IH. tauto.
Qed.

Lemma mem_tok_false t K : mem_tok t K = false <-> ~ In t K.
Proof.
  rewrite <- mem_tok_In. destruct (mem_tok t K); split; intros; congruence.
Qed.

Theorem dropped_iff_no_cue_left rc ro e :
  job_event rc ro e = None <-> process rc (fst e) = [].
Proof.
  unfold job_event. destruct (process rc (fst e)); cbn; split; easy.
Qed.

Theorem outcome_less_kept rc ro e :
  process rc (fst e) <> [] ->
  job_event rc ro e = Some (process rc (fst e), process ro (snd e)).
Proof.
  unfold job_event. destruct (process rc (fst e)); cbn; easy.
Qed.

(** the same two facts for a line of the file *)
Theorem line_dropped_iff rc ro l :
  job rc ro l = JDrop <-> exists e, parse_line l = Some e /\ process rc (fst e) = [].
Proof.
  unfold job. destruct (parse_line l) as [e|].
  - destruct (job_event rc ro e) as [e'|] eqn:E.
    + split; [easy|]. intros (e0 & H0 & Hn). inversion H0; subst.
      apply dropped_iff_no_cue_left with (ro := ro) in Hn. congruence.
    + split; [|easy]. intros _. exists e. split; [reflexivity|].
      now apply dropped_iff_no_cue_left in E.
  - split; [easy|]. intros (e0 & H0 & _). easy.
Qed.

Theorem line_without_outcomes_kept rc ro l e :
  parse_line l = Some e -> process rc (fst e) <> [] -> process ro (snd e) = [] ->
  job rc ro l = JLine (join USCORE (process rc (fst e)) ++ [TAB; LF]).
Proof.
  intros Hp Hc Ho. unfold job. rewrite Hp. rewrite outcome_less_kept by exact Hc.
  unfold format_event. cbn [fst snd]. rewrite Ho. reflexivity.
Qed.

Lemma filter_ext_in' {A} (f g : A -> bool) l :
  (forall x, In x l -> f x = g x) -> filter f l = filter g l.
Proof.
  induction l as [|x r IH]; intros H; [reflexivity|]. cbn.
  rewrite (H x) by now left. rewrite IH; [reflexivity|]. intros y Hy. apply H. now right.
Qed.

Lemma mem_tok_diff t U K : mem_tok t (tok_diff U K) = mem_tok t U && negb (mem_tok t K).
Proof.
  unfold tok_diff. induction U as [|u r IH]; [reflexivity|]. cbn.
  destruct (mem_tok u K) eqn:Eu; cbn.
  - rewrite IH. destruct (str_eqb u t) eqn:E; cbn; [|reflexivity].
    apply str_eqb_eq in E. subst. rewrite Eu. cbn. now rewrite andb_false_r.
  - rewrite IH. destruct (str_eqb u t) eqn:E; cbn; [|reflexivity].
    apply str_eqb_eq in E. subst. now rewrite Eu.
Qed.

(** keeping K = removing the complement of K, for events within the universe U *)
Theorem keep_eq_remove_complement U K ts :
  (forall t, In t ts -> In t U) ->
  process (RKeep K) ts = process (RRemove (tok_diff U K)) ts.
Proof.
  intros H. cbn. apply filter_ext_in'. intros t Ht.
  rewrite mem_tok_diff. apply H, mem_tok_In in Ht. rewrite Ht. cbn. now rewrite negb_involutive.
Qed.

Lemma map_get_id K t : map_get (id_map K) t = if mem_tok t K then t else [].
Proof.
  induction K as [|s r IH]; [reflexivity|]. cbn.
  destruct (str_eqb s t) eqn:E; cbn; [|exact IH]. now apply str_eqb_eq in E.
Qed.

(** renaming with the identity map on K = keeping K, when '' is not in K *)
Theorem identity_map_eq_keep K ts :
  ~ In [] K -> process (RMap (id_map K)) ts = process (RKeep K) ts.
Proof.
  intros HK. cbn. induction ts as [|t r IH]; [reflexivity|]. cbn.
  rewrite map_get_id. destruct (mem_tok t K) eqn:E.
  - destruct t as [|c t']; [apply mem_tok_In in E; contradiction|]. cbn. now rewrite IH.
  - cbn. exact IH.
Qed.

(** ... and not otherwise: with '' in K the keep rule keeps empty tokens, the map drops them *)
Lemma identity_map_with_empty_refuted :
  exists K ts, In [] K /\ process (RMap (id_map K)) ts <> process (RKeep K) ts.
Proof. exists [[]], [[]]. split; [now left|]. cbn. discriminate. Qed.

Lemma filter_idem {A} (p : A -> bool) l : filter p (filter p l) = filter p l.
Proof.
  induction l as [|x r IH]; [reflexivity|]. cbn. destruct (p x) eqn:E; cbn; [|exact IH].
  now rewrite E, IH.
Qed.

Theorem keep_idempotent_tokens K ts : process (RKeep K) (process (RKeep K) ts) = process (RKeep K) ts.
Proof. cbn. apply filter_idem. Qed.

Theorem remove_idempotent_tokens K ts :
  process (RRemove K) (process (RRemove K) ts) = process (RRemove K) ts.
Proof. cbn. apply filter_idem. Qed.

(** * D. The laws for lines and files *)
Definition pred_of (r : rule) : token -> bool :=
  match r with
  | RAll => fun _ => true
  | RKeep K => fun t => mem_tok t K
  | RRemove K => fun t => negb (mem_tok t K)
  | RMap _ => fun _ => true
  end.

Lemma filter_true {A} (l : list A) : filter (fun _ => true) l = l.
Proof. induction l as [|x r IH]; cbn; [reflexivity|now rewrite IH]. Qed.

Lemma process_selects r ts : selects r -> process r ts = filter (pred_of r) ts.
Proof. destruct r; cbn; try easy. intros _. now rewrite filter_true. Qed.

Lemma process_idem r ts : selects r -> process r (process r ts) = process r ts.
Proof. intros H. rewrite !process_selects by exact H. apply filter_idem. Qed.

Lemma process_incl r ts t : selects r -> In t (process r ts) -> In t ts.
Proof. intros H. rewrite process_selects by exact H. intros Hi. now apply filter_In in Hi. Qed.

(** the two rule pairs agree on a line when they agree on its tokens *)
Lemma job_congr rc ro rc' ro' l :
  (forall e, parse_line l = Some e ->
             process rc (fst e) = process rc' (fst e) /\ process ro (snd e) = process ro' (snd e)) ->
  job rc ro l = job rc' ro' l.
Proof.
  intros H. unfold job. destruct (parse_line l) as [e|]; [|reflexivity].
  destruct (H e eq_refl) as [Hc Ho]. unfold job_event. now rewrite Hc, Ho.
Qed.

Theorem keep_eq_remove_complement_line U Kc Ko l :
  line_tokens_in U l ->
  job (RKeep Kc) (RKeep Ko) l = job (RRemove (tok_diff U Kc)) (RRemove (tok_diff U Ko)) l.
Proof.
  intros H. apply job_congr. intros e He. split; apply keep_eq_remove_complement; intros t Ht;
    apply (H e He); apply in_app_iff; auto.
Qed.

Theorem identity_map_eq_keep_line Kc Ko l :
  ~ In [] Kc -> ~ In [] Ko ->
  job (RMap (id_map Kc)) (RMap (id_map Ko)) l = job (RKeep Kc) (RKeep Ko) l.
Proof.
  intros Hc Ho. apply job_congr. intros e _. split; now apply identity_map_eq_keep.
Qed.

Lemma filter_lines_congr rc ro rc' ro' lines :
  (forall l, In l (tl lines) -> job rc ro l = job rc' ro' l) ->
  filter_lines rc ro lines = filter_lines rc' ro' lines.
Proof.
  destruct lines as [|h body]; [reflexivity|]. cbn [tl]. intros H. unfold filter_lines.
  now rewrite (map_ext_in _ _ body H).
Qed.

(** files: keep = remove complement when the universe holds every token of the file *)
Theorem keep_eq_remove_complement_text U Kc Ko text :
  (forall l, In l (tl (file_lines text)) -> line_tokens_in U l) ->
  filter_text (RKeep Kc) (RKeep Ko) text =
  filter_text (RRemove (tok_diff U Kc)) (RRemove (tok_diff U Ko)) text.
Proof.
  intros H. unfold filter_text. erewrite filter_lines_congr; [reflexivity|].
  intros l Hl. apply keep_eq_remove_complement_line. now apply H.
Qed.

Theorem identity_map_eq_keep_text Kc Ko text :
  ~ In [] Kc -> ~ In [] Ko ->
  filter_text (RMap (id_map Kc)) (RMap (id_map Ko)) text = filter_text (RKeep Kc) (RKeep Ko) text.
Proof.
  intros Hc Ho. unfold filter_text. erewrite filter_lines_congr; [reflexivity|].
  intros l _. now apply identity_map_eq_keep_line.
Qed.

(** * E. Applying a keep/remove filter twice = once, through the text *)
Lemma parse_line_tokens l e :
  parse_line l = Some e ->
  forall t, In t (fst e ++ snd e) ->
    ~ In USCORE t /\ ~ In TAB t /\ (forall x, In x t -> In x (strip_c LF l)).
Proof.
  unfold parse_line. destruct (split_on TAB (strip_c LF l)) as [|a [|b [|c r]]] eqn:Es; try easy.
  intros E. inversion E; subst. cbn [fst snd]. intros t Ht.
  assert (Ha : In a (split_on TAB (strip_c LF l))) by (rewrite Es; now left).
  assert (Hb : In b (split_on TAB (strip_c LF l))) by (rewrite Es; right; now left).
  apply in_app_iff in Ht as [Ht|Ht].
  - split; [eapply split_on_no_sep; eauto|]. split.
    + intros Hx. apply (split_on_no_sep _ _ _ Ha). eapply split_on_chars; eauto.
    + intros x Hx. eapply split_on_chars; [exact Ha|]. eapply split_on_chars; eauto.
  - split; [eapply split_on_no_sep; eauto|]. split.
    + intros Hx. apply (split_on_no_sep _ _ _ Hb). eapply split_on_chars; eauto.
    + intros x Hx. eapply split_on_chars; [exact Hb|]. eapply split_on_chars; eauto.
Qed.

Definition clean_tok (t : token) : Prop := ~ In USCORE t /\ ~ In TAB t /\ ~ In LF t.

Lemma join_clean ts : (forall t, In t ts -> clean_tok t) -> ~ In TAB (join USCORE ts) /\ ~ In LF (join USCORE ts).
Proof.
  intros H. split; intros Hx; apply join_chars in Hx as [E|(t & Ht & Hx)]; try discriminate E;
    destruct (H t Ht) as (_ & H1 & H2); contradiction.
Qed.

Definition reread (os : list token) : list token := if is_nil os then [[]] else os.

(** what was written is read back token by token; only the empty outcome list
    comes back as [['']] *)
Lemma parse_format cs os :
  cs <> [] -> (forall t, In t (cs ++ os) -> clean_tok t) ->
  parse_line (format_event (cs, os)) = Some (cs, reread os).
Proof.
  intros Hne Hcl. unfold format_event, parse_line. cbn [fst snd].
  assert (Hc : forall t, In t cs -> clean_tok t) by (intros t Ht; apply Hcl, in_app_iff; now left).
  assert (Ho : forall t, In t os -> clean_tok t) by (intros t Ht; apply Hcl, in_app_iff; now right).
  destruct (join_clean cs Hc) as [Hct Hcl']. destruct (join_clean os Ho) as [Hot Hol].
  set (A := join USCORE cs) in *. set (B := join USCORE os) in *.
  assert (Hbody : ~ In LF (A ++ TAB :: B)).
  { intros H. apply in_app_iff in H as [H|[H|H]]; [contradiction|discriminate H|contradiction]. }
  assert (Hstrip : strip_c LF (A ++ TAB :: B ++ [LF]) = A ++ TAB :: B).
  { unfold strip_c. replace (A ++ TAB :: B ++ [LF]) with ((A ++ TAB :: B) ++ [LF])
      by (rewrite <- app_assoc; reflexivity).
    destruct (A ++ TAB :: B) as [|x r] eqn:E; [destruct A; discriminate E|].
    cbn [app]. rewrite lstrip_c_hd by (intros ->; apply Hbody; now left).
    change (x :: r ++ [LF]) with ((x :: r) ++ [LF]). now apply rstrip_c_snoc. }
  rewrite Hstrip. rewrite split_on_app by exact Hct. rewrite split_on_nosep by exact Hot.
  unfold A. rewrite split_join; [|exact Hne|intros t Ht; apply (Hc t Ht)].
  f_equal. f_equal. unfold reread, B. destruct os as [|o os']; [reflexivity|].
  cbn [is_nil]. apply split_join; [easy|]. intros t Ht. apply (Ho t Ht).
Qed.

Lemma join_process_reread r os :
  selects r -> os = [] -> join USCORE (process r (reread os)) = join USCORE os.
Proof.
  intros Hs ->. rewrite process_selects by exact Hs. cbn. destruct (pred_of r []); reflexivity.
Qed.

Lemma job_line_shape rc ro l o :
  selects rc -> selects ro -> ~ In LF (strip_c LF l) -> job rc ro l = JLine o ->
  exists cs os, cs <> [] /\ (forall t, In t (cs ++ os) -> clean_tok t /\ forall x, In x t -> In x l) /\
                process rc cs = cs /\ process ro os = os /\ o = format_event (cs, os).
Proof.
  intros Hsc Hso Hlf. unfold job. destruct (parse_line l) as [[cs os]|] eqn:Ep; [|easy].
  unfold job_event. cbn [fst snd]. destruct (process rc cs) as [|c cs'] eqn:Ec; [easy|].
  cbn [is_nil]. intros E. inversion E; subst o; clear E.
  exists (c :: cs'), (process ro os). split; [easy|]. split; [|split; [|split]].
  - intros t Ht.
    assert (Hin : In t (cs ++ os)).
    { apply in_app_iff in Ht as [Ht|Ht]; apply in_app_iff.
      - left. rewrite <- Ec in Ht. now apply (process_incl rc cs t Hsc).
      - right. now apply (process_incl ro os t Hso). }
    destruct (parse_line_tokens l _ Ep t Hin) as (H1 & H2 & H3).
    split; [split; [exact H1|split; [exact H2|]]|].
    + intros Hx. apply Hlf. now apply H3.
    + intros x Hx. eapply strip_c_incl. now apply H3.
  - rewrite <- Ec. now apply process_idem.
  - now apply process_idem.
  - reflexivity.
Qed.

(** a processed line is a fixed point of the same keep/remove filter *)
Theorem job_idempotent rc ro l o :
  selects rc -> selects ro -> ~ In LF (strip_c LF l) ->
  job rc ro l = JLine o -> job rc ro o = JLine o.
Proof.
  intros Hsc Hso Hlf Hj.
  destruct (job_line_shape rc ro l o Hsc Hso Hlf Hj) as (cs & os & Hne & Hcl & Hpc & Hpo & ->).
  unfold job. rewrite parse_format; [|exact Hne|intros t Ht; apply (Hcl t Ht)].
  unfold job_event. cbn [fst snd]. rewrite Hpc.
  destruct cs as [|c cs']; [easy|]. cbn [is_nil]. f_equal.
  unfold format_event. cbn [fst snd]. f_equal. f_equal.
  destruct os as [|o os'].
  - now rewrite join_process_reread.
  - unfold reread. cbn [is_nil]. now rewrite Hpo.
Qed.

(** the same fact when the second pass uses other selecting rules that keep
    every token the first pass kept is not claimed; map rules are not idempotent: *)
Lemma map_not_idempotent_refuted :
  exists m l o, job (RMap m) RAll l = JLine o /\ job (RMap m) RAll o <> JLine o.
Proof.
  exists [([97], [98])], [97; 9; 120; 10], [98; 9; 120; 10]. split; [reflexivity|]. cbn. discriminate.
Qed.

(** ** files *)
Lemma strip_full l : full_line l -> ~ In LF (strip_c LF l).
Proof.
  intros (b & -> & Hb). unfold strip_c. destruct b as [|x r].
  - cbn. easy.
  - cbn [app]. rewrite lstrip_c_hd by (intros ->; apply Hb; now left).
    change (x :: r ++ [LF]) with ((x :: r) ++ [LF]). now rewrite rstrip_c_snoc.
Qed.

Lemma strip_open l : open_line l -> ~ In LF (strip_c LF l).
Proof. intros [_ H] Hx. apply H. eapply strip_c_incl; eauto. Qed.

Lemma split_lines_all s l : In l (split_lines s) -> full_line l \/ open_line l.
Proof.
  intros H. pose proof (split_lines_shape s) as Hs. apply in_rev in H.
  destruct (rev (split_lines s)) as [|last front]; [easy|]. destruct Hs as [Hl Hf].
  destruct H as [<-|H]; [exact Hl|]. left. now apply Hf.
Qed.

Lemma split_lines_head_full s h b body : split_lines s = h :: b :: body -> full_line h.
Proof.
  intros E. pose proof (split_lines_shape s) as Hs. rewrite E in Hs.
  destruct (rev (h :: b :: body)) as [|last front] eqn:Er.
  - apply (f_equal (@length _)) in Er. rewrite rev_length in Er. discriminate Er.
  - destruct Hs as [_ Hf]. apply Hf.
    assert (Hr : h :: b :: body = rev front ++ [last]).
    { rewrite <- (rev_involutive (h :: b :: body)), Er. reflexivity. }
    apply in_rev. destruct (rev front) as [|x r]; [discriminate Hr|].
    inversion Hr; subst. now left.
Qed.

Lemma file_lines_no_cr text l : In l (file_lines text) -> ~ In CR l.
Proof.
  intros Hl Hx. apply (univ_nl_no_cr text). eapply split_lines_chars; eauto.
Qed.

Lemma collect_some_in rs outl o : collect rs = Some outl -> In o outl -> In (JLine o) rs.
Proof.
  revert outl. induction rs as [|r rs IH]; intros outl H Ho.
  - inversion H; subst. easy.
  - cbn in H. destruct r as [x| |]; [|right; eapply IH; eauto|easy].
    destruct (collect rs) as [ls|] eqn:E; [|easy]. inversion H; subst.
    destruct Ho as [->|Ho]; [now left|]. right. eapply IH; eauto.
Qed.

Lemma collect_fixed rc ro outl :
  (forall o, In o outl -> job rc ro o = JLine o) -> collect (map (job rc ro) outl) = Some outl.
Proof.
  induction outl as [|o r IH]; intros H; [reflexivity|]. cbn.
  rewrite (H o) by now left. rewrite IH; [reflexivity|]. intros x Hx. apply H. now right.
Qed.

Lemma format_event_full cs os :
  (forall t, In t (cs ++ os) -> clean_tok t) -> full_line (format_event (cs, os)).
Proof.
  intros Hcl. unfold format_event. cbn [fst snd].
  exists (join USCORE cs ++ TAB :: join USCORE os). split; [now rewrite <- app_assoc|].
  destruct (join_clean cs) as [_ H1]; [intros t Ht; apply Hcl, in_app_iff; now left|].
  destruct (join_clean os) as [_ H2]; [intros t Ht; apply Hcl, in_app_iff; now right|].
  intros H. apply in_app_iff in H as [H|[H|H]]; [contradiction|discriminate H|contradiction].
Qed.

Lemma format_event_chars cs os x :
  In x (format_event (cs, os)) ->
  x = USCORE \/ x = TAB \/ x = LF \/ exists t, In t (cs ++ os) /\ In x t.
Proof.
  unfold format_event. cbn [fst snd]. intros H.
  apply in_app_iff in H as [H|[H|H]].
  - apply join_chars in H as [->|(t & Ht & Hx)]; [now left|].
    right. right. right. exists t. split; [apply in_app_iff; now left|exact Hx].
  - right. now left.
  - apply in_app_iff in H as [H|[H|[]]].
    + apply join_chars in H as [->|(t & Ht & Hx)]; [now left|].
      right. right. right. exists t. split; [apply in_app_iff; now right|exact Hx].
    + right. right. now left.
Qed.

(** filtering the output of a keep/remove filter again changes nothing *)
Theorem filter_text_idempotent rc ro text out :
  selects rc -> selects ro ->
  filter_text rc ro text = Some out -> filter_text rc ro out = Some out.
Proof.
  intros Hsc Hso. unfold filter_text.
  destruct (file_lines text) as [|h body] eqn:El.
  - cbn. intros E. inversion E; subst. reflexivity.
  - cbn [filter_lines]. destruct (collect (map (job rc ro) body)) as [outl|] eqn:Ec; [|easy].
    intros E. inversion E; subst out; clear E.
    assert (Hcr : forall l, In l (h :: body) -> ~ In CR l).
    { intros l Hl. apply (file_lines_no_cr text). now rewrite El. }
    assert (Hshape : forall l, In l (h :: body) -> full_line l \/ open_line l).
    { intros l Hl. apply (split_lines_all (univ_nl text)). unfold file_lines in El. now rewrite El. }
    destruct body as [|b body'].
    + (* header only *)
      cbn in Ec. inversion Ec; subst outl. cbn [concat]. rewrite app_nil_r.
      assert (Hfl : file_lines h = [h]).
      { unfold file_lines. rewrite univ_nl_id by (apply Hcr; now left).
        destruct (Hshape h (or_introl eq_refl)) as [(b & -> & Hb)|Ho].
        - rewrite <- (app_nil_r (b ++ [LF])) at 1. now rewrite split_lines_app_full.
        - now apply split_lines_open. }
      rewrite Hfl. cbn. now rewrite app_nil_r.
    + assert (Hh : full_line h).
      { unfold file_lines in El. eapply split_lines_head_full; eauto. }
      assert (Hout : forall o, In o outl ->
                (full_line o /\ ~ In CR o) /\ job rc ro o = JLine o).
      { intros o Ho. apply (collect_some_in _ _ _ Ec) in Ho.
        apply in_map_iff in Ho as (l & Hj & Hl).
        assert (Hlf : ~ In LF (strip_c LF l)).
        { destruct (Hshape l (or_intror Hl)); [now apply strip_full|now apply strip_open]. }
        split; [|eapply job_idempotent; eauto].
        destruct (job_line_shape rc ro l o Hsc Hso Hlf Hj) as (cs & os & _ & Hcl & _ & _ & ->).
        split.
        - apply format_event_full. intros t Ht. apply (Hcl t Ht).
        - intros Hx. apply format_event_chars in Hx as [E|[E|[E|(t & Ht & Hx)]]]; try discriminate E.
          apply (Hcr l (or_intror Hl)). now apply (Hcl t Ht). }
      change (h ++ concat outl) with (concat (h :: outl)).
      rewrite file_lines_of_full.
      * cbn [filter_lines]. rewrite collect_fixed; [reflexivity|]. intros o Ho. now apply Hout.
      * intros l [<-|Hl]; [split; [exact Hh|apply Hcr; now left]|now apply Hout].
Qed.
