(** Flat entry points of the counting model (C11).  Decoding glue only.
    1101: text, n_jobs                       -> n_events, cues, outcomes of [cues_outcomes] (error 1 = ValueError)
    1102: spaces, lower table, text, n_jobs, lower_case -> words, symbols of [words_symbols]
    1103: list, n                            -> the n strided slices
    1104: text, start, step                  -> result of one [_job_cues_outcomes]
    The oracles of 1102 are tables computed by CPython for the characters of
    the text: the code points with [str.isspace], and [c -> str.lower(c)] for
    the characters that [lower] changes. *)
From Coq Require Import ZArith List Bool.
From PV Require Import Flat TextFmt Count.
Import ListNotations.
Open Scope Z_scope.

Definition wr_counter (c : counter) : list Z :=
  Z.of_nat (length c) :: flat_map (fun kv => wr_list (fst kv) ++ [snd kv]) c.

Definition wr_job (r : job_state) : list Z :=
  let '(n, cues, outcomes) := r in 0 :: n :: wr_counter cues ++ wr_counter outcomes.

Definition m_cues_outcomes (inp : list Z) : list Z :=
  match rd_list inp with
  | Some (text, n :: _) =>
    if 1 <=? n then
      match cues_outcomes text (Z.to_nat n) with
      | Some r => wr_job r
      | None => flat_err 1
      end
    else bad_case
  | _ => bad_case
  end.

Definition m_job_cues_outcomes (inp : list Z) : list Z :=
  match rd_list inp with
  | Some (text, start :: step :: _) =>
    if (0 <=? start) && (1 <=? step) then
      match job_cues_outcomes text (Z.to_nat start) (Z.to_nat step) with
      | Some r => wr_job r
      | None => flat_err 1
      end
    else bad_case
  | _ => bad_case
  end.

Definition table_space (spaces : list Z) (c : Z) : bool := existsb (Z.eqb c) spaces.
Fixpoint table_lower (tbl : list (Z * list Z)) (c : Z) : list Z :=
  match tbl with
  | [] => [c]
  | (k, v) :: r => if k =? c then v else table_lower r c
  end.

Definition m_words_symbols (inp : list Z) : list Z :=
  match rd_list inp with
  | Some (spaces, r1) =>
    match rd_seq (rd_pair rd_int rd_list) r1 with
    | Some (tbl, r2) =>
      match rd_list r2 with
      | Some (text, n :: lc :: _) =>
        if 1 <=? n then
          let r := words_symbols (table_space spaces) (table_lower tbl) text (Z.to_nat n) (negb (lc =? 0)) in
          0 :: wr_counter (fst r) ++ wr_counter (snd r)
        else bad_case
      | _ => bad_case
      end
    | None => bad_case
    end
  | None => bad_case
  end.

Definition m_slices (inp : list Z) : list Z :=
  match rd_list inp with
  | Some (l, n :: _) =>
    if 1 <=? n then
      let ss := strided_slices l (Z.to_nat n) in
      Z.of_nat (length ss) :: flat_map wr_list ss
    else bad_case
  | _ => bad_case
  end.

Definition run_c11 (id : Z) (inp : list Z) : option (list Z) :=
  if id =? 1101 then Some (m_cues_outcomes inp)
  else if id =? 1102 then Some (m_words_symbols inp)
  else if id =? 1103 then Some (m_slices inp)
  else if id =? 1104 then Some (m_job_cues_outcomes inp)
  else None.
