(** Executable model of the run metadata of pyndl: [_attributes] of
    pyndl/ndl.py (used by [ndl], [dict_ndl] and the real-to-binary Widrow-Hoff
    flavour) and of pyndl/wh.py (used by the other Widrow-Hoff flavours and
    [dict_wh]), the [' | '] accumulation over continued calls, the places the
    number of events comes from, and [str.split]/[str.rstrip] used to read the
    attributes back.  Definitions only; proofs are in AttrsProofs.v.

    Strings are lists of code points.  What the code takes from the
    environment or from CPython's [str()] of floats/tuples/dicts (date,
    timings, host, user, library versions, [str(alpha)], [str(betas)],
    [str(lambda_)]) are inputs of the model. *)
From Coq Require Import String Ascii.
From Coq Require Import ZArith List Bool.
From PV Require Import BinFmt.
Import ListNotations.
Open Scope Z_scope.

Definition str := list Z.

(** a string literal of this file as code points *)
Definition lit (x : String.string) : str :=
  map (fun a => Z.of_N (N_of_ascii a)) (String.list_ascii_of_string x).

Definition SP : Z := 32.
Definition BAR : Z := 124.
Definition sep : str := [SP; BAR; SP].               (* ' | ' *)

Fixpoint eqb_str (a b : str) : bool :=
  match a, b with
  | [], [] => true
  | x :: a', y :: b' => (x =? y) && eqb_str a' b'
  | _, _ => false
  end.

(** * [str(int)] *)
Fixpoint digits (u : Decimal.uint) : str :=
  match u with
  | Decimal.Nil => []
  | Decimal.D0 r => 48 :: digits r
  | Decimal.D1 r => 49 :: digits r
  | Decimal.D2 r => 50 :: digits r
  | Decimal.D3 r => 51 :: digits r
  | Decimal.D4 r => 52 :: digits r
  | Decimal.D5 r => 53 :: digits r
  | Decimal.D6 r => 54 :: digits r
  | Decimal.D7 r => 55 :: digits r
  | Decimal.D8 r => 56 :: digits r
  | Decimal.D9 r => 57 :: digits r
  end.

Definition str_of_Z (n : Z) : str :=
  match Z.to_int n with
  | Decimal.Pos u => digits u
  | Decimal.Neg u => 45 :: digits u
  end.

(** * ['{0: <{width}}'.format(value, width=width)]: pads on the right with
    spaces, never truncates; an [int] is rendered as [str(int)] (the explicit
    [<] overrides the right alignment of numbers). *)
Inductive fval :=
| FStr (s : str)
| FInt (n : Z).

Definition fval_str (v : fval) : str :=
  match v with FStr s => s | FInt n => str_of_Z n end.

Definition pad (width : Z) (s : str) : str :=
  s ++ repeat SP (Z.to_nat (width - Z.of_nat (length s))).

Definition format_ (width : Z) (v : fval) : str := pad width (fval_str v).

Definition len (s : str) : Z := Z.of_nat (length s).

Definition max_len (l : list str) : Z := fold_right (fun s m => Z.max (len s) m) 0 l.

(** * The arguments of one [_attributes] call *)
Inductive family := FamNdl | FamWh.      (* ndl._attributes / wh._attributes *)

Record call := {
  c_family : family;
  c_event_path : str;
  c_number_events : Z;
  c_alpha_is_num : bool;     (* isinstance(alpha, (float, int)) *)
  c_alpha : str;             (* str(alpha); only its length is used unless alpha is a number *)
  c_betas : str;             (* str(betas) *)
  c_lambda : str;            (* str(lambda_), resp. str(eta) in wh.py *)
  c_function : str;
  c_method : str;            (* str(method) *)
  c_date : str;              (* time.strftime("%Y-%m-%d %H:%M:%S") *)
  c_cpu : str;               (* str(cpu_time) *)
  c_wall : str;              (* str(wall_time) *)
  c_host : str;              (* socket.gethostname() *)
  c_user : str;              (* getpass.getuser() *)
  c_pyndl : str;
  c_numpy : str;
  c_pandas : str;
  c_xarray : str;
  c_cython : str
}.

Definition attrs := list (str * str).

(** ndl.py: width over event_path, str(number_events), str(alpha), str(betas),
    str(lambda_), function, str(method), hostname, user - not over the date,
    the timings or the versions, which may therefore be longer than [width] *)
Definition width_ndl (c : call) : Z :=
  Z.max 19 (max_len [c_event_path c; str_of_Z (c_number_events c); c_alpha c; c_betas c;
                     c_lambda c; c_function c; c_method c; c_host c; c_user c]).

Definition width_wh (c : call) : Z :=
  Z.max 19 (max_len [c_event_path c; str_of_Z (c_number_events c); c_lambda c;
                     c_function c; c_method c; c_host c; c_user c]).

Definition alpha_str (c : call) : str :=
  if c_alpha_is_num c then c_alpha c else lit "varying".

(** the unformatted values, in the order of the dict literal *)
Definition raw_ndl (c : call) : list (str * fval) :=
  [ (lit "date", FStr (c_date c));
    (lit "event_path", FStr (c_event_path c));
    (lit "number_events", FInt (c_number_events c));
    (lit "alpha", FStr (alpha_str c));
    (lit "betas", FStr (c_betas c));
    (lit "lambda", FStr (c_lambda c));
    (lit "function", FStr (c_function c));
    (lit "method", FStr (c_method c));
    (lit "cpu_time", FStr (c_cpu c));
    (lit "wall_time", FStr (c_wall c));
    (lit "hostname", FStr (c_host c));
    (lit "username", FStr (c_user c));
    (lit "pyndl", FStr (c_pyndl c));
    (lit "numpy", FStr (c_numpy c));
    (lit "pandas", FStr (c_pandas c));
    (lit "xarray", FStr (c_xarray c));
    (lit "cython", FStr (c_cython c)) ].

(** wh.py: no alpha / betas keys, eta stored under 'lambda' *)
Definition raw_wh (c : call) : list (str * fval) :=
  [ (lit "date", FStr (c_date c));
    (lit "event_path", FStr (c_event_path c));
    (lit "number_events", FInt (c_number_events c));
    (lit "lambda", FStr (c_lambda c));
    (lit "function", FStr (c_function c));
    (lit "method", FStr (c_method c));
    (lit "cpu_time", FStr (c_cpu c));
    (lit "wall_time", FStr (c_wall c));
    (lit "hostname", FStr (c_host c));
    (lit "username", FStr (c_user c));
    (lit "pyndl", FStr (c_pyndl c));
    (lit "numpy", FStr (c_numpy c));
    (lit "pandas", FStr (c_pandas c));
    (lit "xarray", FStr (c_xarray c));
    (lit "cython", FStr (c_cython c)) ].

Definition ndl_keys : list str :=
  [lit "date"; lit "event_path"; lit "number_events"; lit "alpha"; lit "betas"; lit "lambda";
   lit "function"; lit "method"; lit "cpu_time"; lit "wall_time"; lit "hostname"; lit "username";
   lit "pyndl"; lit "numpy"; lit "pandas"; lit "xarray"; lit "cython"].

Definition wh_keys : list str :=
  [lit "date"; lit "event_path"; lit "number_events"; lit "lambda";
   lit "function"; lit "method"; lit "cpu_time"; lit "wall_time"; lit "hostname"; lit "username";
   lit "pyndl"; lit "numpy"; lit "pandas"; lit "xarray"; lit "cython"].

Definition keys_of (f : family) : list str :=
  match f with FamNdl => ndl_keys | FamWh => wh_keys end.

Definition raw (c : call) : list (str * fval) :=
  match c_family c with FamNdl => raw_ndl c | FamWh => raw_wh c end.

Definition width (c : call) : Z :=
  match c_family c with FamNdl => width_ndl c | FamWh => width_wh c end.

Definition new_attrs (c : call) : attrs :=
  map (fun kv => (fst kv, format_ (width c) (snd kv))) (raw c).

(** * Accumulation *)
Fixpoint lookup {V : Type} (k : str) (a : list (str * V)) : option V :=
  match a with
  | [] => None
  | kv :: r => if eqb_str k (fst kv) then Some (snd kv) else lookup k r
  end.

Definition has_key (k : str) (a : attrs) : bool :=
  match lookup k a with Some _ => true | None => false end.

(** [attrs[key] if key in attrs else ''] *)
Definition get (a : attrs) (k : str) : str :=
  match lookup k a with Some v => v | None => [] end.

(** [for key in set(attrs) | set(new_attrs): new_attrs[key] = old + ' | ' + new]
    The keys of [new_attrs] keep their place, keys that only the old
    attributes have are appended (in set order in the code: the harness
    compares attributes as maps). *)
Definition accumulate (old : option attrs) (new : attrs) : attrs :=
  match old with
  | None => new
  | Some o =>
    map (fun kv => (fst kv, get o (fst kv) ++ sep ++ snd kv)) new ++
    map (fun kv => (fst kv, snd kv ++ sep ++ []))
        (filter (fun kv => negb (has_key (fst kv) new)) o)
  end.

(** what call [c] contributes to attribute [k]: the formatted value, or ''
    when [c]'s family does not have the key *)
Definition entry (k : str) (c : call) : str := get (new_attrs c) k.

(** the same before formatting *)
Definition raw_str (k : str) (c : call) : str :=
  match lookup k (raw c) with Some f => fval_str f | None => [] end.

Definition attributes (c : call) (old : option attrs) : attrs :=
  accumulate old (new_attrs c).

(** a chain of learner calls continued through [weights=]: the attributes of
    the weights returned by the last call; [start] are the attributes of the
    weights handed to the first call ([None]: no weights) *)
Fixpoint chain (start : option attrs) (cs : list call) : option attrs :=
  match cs with
  | [] => start
  | c :: r => chain (Some (attributes c start)) r
  end.

(** * Reading attributes back: [str.split(sep)] and [str.rstrip(' ')] *)
Fixpoint is_prefix (p s : str) : bool :=
  match p, s with
  | [], _ => true
  | x :: p', y :: s' => (x =? y) && is_prefix p' s'
  | _ :: _, [] => false
  end.

(** leftmost non-overlapping occurrences, like [str.split] with a non-empty
    separator; [skip] counts the characters of a matched separator that are
    still to be consumed.  The result is never empty. *)
Fixpoint split_on (sp : str) (skip : nat) (s : str) : list str :=
  match s with
  | [] => [[]]
  | c :: r =>
    match skip with
    | S k => split_on sp k r
    | O => if is_prefix sp s then [] :: split_on sp (length sp - 1) r
           else match split_on sp O r with
                | e :: es => (c :: e) :: es
                | [] => [[c]]
                end
    end
  end.

Definition split (sp s : str) : list str := split_on sp O s.

Fixpoint rstrip (s : str) : str :=
  match s with
  | [] => []
  | c :: r => match rstrip r with
              | [] => if c =? SP then [] else [c]
              | r' => c :: r'
              end
  end.

(** the entries of an attribute as a user reads them *)
Definition entries (v : str) : list str := map rstrip (split sep v).

(** [' | '] occurs neither inside [v] nor across its right end when [v] is
    followed by a space (i.e. [v] does not contain [' | '] and does not end
    with [' |']): the condition under which an entry can be read back *)
Fixpoint sep_free (v : str) : bool :=
  match v with
  | [] => true
  | _ :: r => negb (is_prefix sep (v ++ [SP])) && sep_free r
  end.

(** occurrence of a substring *)
Fixpoint occurs (p s : str) : bool :=
  match s with
  | [] => is_prefix p []
  | _ :: r => is_prefix p s || occurs p r
  end.

(** every value of the call can be read back ([sep_free]) *)
Definition values_ok (c : call) : bool :=
  forallb (fun kv => sep_free (fval_str (snd kv))) (raw c).

(** * Where [number_events] comes from *)

(** a text event file: one line = an event and its frequency (1 when the file
    has no third column); [io.events_from_file] repeats the event
    [range(int(frequency))] times *)
Definition expand (lines : list (event * Z)) : list event :=
  flat_map (fun l => repeat (fst l) (Z.to_nat (snd l))) lines.

(** [count.cues_outcomes]: n_events *)
Definition count_events (lines : list (event * Z)) : Z :=
  Z.of_nat (length (expand lines)).

(** [create_binary_event_files]: the sum of what the chunk jobs
    [ii*events_per_file, (ii+1)*events_per_file) for ii < jobs report
    (callback and StopIteration callback both add the number written) *)
Fixpoint chunk_total (es : list event) (epf : Z) (jobs : nat) : Z :=
  match jobs with
  | O => 0
  | S j => chunk_total es epf j +
           Z.of_nat (length (window es (Z.of_nat j * epf) ((Z.of_nat j + 1) * epf)))
  end.

(** [dict_ndl] / [dict_wh] / method='numpy': a counter incremented per event *)
Definition loop_count (lines : list (event * Z)) : Z :=
  fold_left (fun n _ => n + 1) (expand lines) 0.

(** * The learners: which arguments they hand to [_attributes] *)
Inductive learner :=
| LNdl           (* ndl.ndl (also wh.wh without vectors, which calls it) *)
| LDictNdl       (* ndl.dict_ndl *)
| LWh            (* wh._wh_binary_to_real, wh._wh_real_to_real: wh._attributes *)
| LWhR2B         (* wh._wh_real_to_binary: ndl._attributes with alpha='cue_vectors' *)
| LDictWh.       (* wh.dict_wh *)

Inductive alpha_kind := AFloat | AInt | AOther.

Record env := {
  e_date : str; e_cpu : str; e_wall : str; e_host : str; e_user : str;
  e_pyndl : str; e_numpy : str; e_pandas : str; e_xarray : str; e_cython : str
}.

Record invocation := {
  i_learner : learner;
  i_path : str;              (* the [events] argument when it is a path, '' otherwise *)
  i_lines : list (event * Z);
  i_epf : Z;                 (* events_per_temporary_file *)
  i_jobs : nat;              (* chunk jobs that reported before the pool was closed *)
  i_numpy : bool;            (* real-to-real with method='numpy': counts in the loop *)
  i_alpha_kind : alpha_kind;
  i_alpha : str;             (* str() of what reaches _attributes as alpha *)
  i_betas : str;
  i_lambda : str;            (* str(lambda_) resp. str(eta) *)
  i_method : str;            (* str(method) *)
  i_env : env
}.

Definition uses_chunks (i : invocation) : bool :=
  match i_learner i with
  | LNdl | LWhR2B => true
  | LWh => negb (i_numpy i)
  | LDictNdl | LDictWh => false
  end.

(** [None]: [assert n_events == number_events] fails *)
Definition number_events (i : invocation) : option Z :=
  if uses_chunks i then
    let n := chunk_total (expand (i_lines i)) (i_epf i) (i_jobs i) in
    if n =? count_events (i_lines i) then Some n else None
  else Some (loop_count (i_lines i)).

Definition fam_of (l : learner) : family :=
  match l with LNdl | LDictNdl | LWhR2B => FamNdl | LWh | LDictWh => FamWh end.

Definition function_of (l : learner) : str :=
  match l with
  | LNdl => lit "pyndl.ndl.ndl"
  | LDictNdl => lit "pyndl.ndl.dict_ndl"
  | LWh | LWhR2B => lit "pyndl.wh.pyndl.ndl"     (* __name__ + "." + ndl.__name__, ndl being the module *)
  | LDictWh => lit "pyndl.wh.dict_wh"
  end.

(** [ndl.ndl] passes its [alpha] argument; [dict_ndl] has replaced a float by
    a [defaultdict] before it calls [_attributes], so only an [int] (usable
    only when there is no event) is still a number there; real-to-binary
    passes the string 'cue_vectors' *)
Definition alpha_is_num (i : invocation) : bool :=
  match i_learner i, i_alpha_kind i with
  | LNdl, AFloat | LNdl, AInt => true
  | LDictNdl, AInt => true
  | _, _ => false
  end.

Definition method_of (i : invocation) : str :=
  match i_learner i with
  | LDictNdl | LDictWh => lit "None"
  | _ => i_method i
  end.

Definition mk_call (i : invocation) (n : Z) : call :=
  {| c_family := fam_of (i_learner i);
     c_event_path := i_path i;
     c_number_events := n;
     c_alpha_is_num := alpha_is_num i;
     c_alpha := i_alpha i;
     c_betas := i_betas i;
     c_lambda := i_lambda i;
     c_function := function_of (i_learner i);
     c_method := method_of i;
     c_date := e_date (i_env i); c_cpu := e_cpu (i_env i); c_wall := e_wall (i_env i);
     c_host := e_host (i_env i); c_user := e_user (i_env i);
     c_pyndl := e_pyndl (i_env i); c_numpy := e_numpy (i_env i);
     c_pandas := e_pandas (i_env i); c_xarray := e_xarray (i_env i);
     c_cython := e_cython (i_env i) |}.

Definition call_of (i : invocation) : option call :=
  match number_events i with
  | None => None
  | Some n => Some (mk_call i n)
  end.

Fixpoint calls_of (is : list invocation) : option (list call) :=
  match is with
  | [] => Some []
  | i :: r => match call_of i, calls_of r with
              | Some c, Some cs => Some (c :: cs)
              | _, _ => None
              end
  end.

Definition run_chain (start : option attrs) (is : list invocation) : option attrs :=
  match calls_of is with
  | Some cs => chain start cs
  | None => None
  end.

(** * netCDF: [DataArray.to_netcdf] followed by [xarray.open_dataarray] is a
    library; it is modelled as the identity on (values, labels, attributes)
    and checked against the real library on every run, not proved. *)
Definition netcdf_roundtrip {V : Type} (x : V * (list str * list str) * attrs)
  : V * (list str * list str) * attrs := x.

Definition valid_cp (c : Z) : bool := (0 <=? c) && (c <? 1114112).
Definition valid_str (s : str) : bool := forallb valid_cp s.
Definition inputs_valid (c : call) : bool :=
  forallb (fun kv => valid_str (fval_str (snd kv))) (raw c).
Definition attrs_valid (a : attrs) : bool :=
  forallb (fun kv => valid_str (snd kv)) a.

(** the number of events of a file after frequency expansion *)
Definition true_count (lines : list (event * Z)) : Z := Z.of_nat (length (expand lines)).
