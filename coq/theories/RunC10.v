(** Flat entry points of the C10 models (Filter.v).  Decoding glue only.
    rule encoding:  0 | 1 seq(list) (keep) | 2 seq(list) (remove) | 3 seq(pair list list) (map)
    1001: chunksize ; rule_cues ; rule_outcomes ; text...      -> 0 :: output text | [-1;1] ValueError
          ([filter_text_pool]: the pool model, tasks completed in reverse order)
    1002: rule_cues ; rule_outcomes ; line...                  -> 0 :: line | [1] (None) | [-1;1]
          ([job] = JobFilter.job)
    1003: k ; items...                                         -> seq of lists ([chunks] = Pool._get_tasks)
    1004: rule_cues ; rule_outcomes ; text...                  -> like 1001, sequential [filter_text] *)
From Coq Require Import ZArith List Bool.
From PV Require Import Flat PyText Filter.
Import ListNotations.
Open Scope Z_scope.

Definition rd_rule (l : list Z) : option (rule * list Z) :=
  match l with
  | k :: r =>
    if k =? 0 then Some (RAll, r)
    else if k =? 1 then
      match rd_seq rd_list r with Some (K, r') => Some (RKeep K, r') | None => None end
    else if k =? 2 then
      match rd_seq rd_list r with Some (K, r') => Some (RRemove K, r') | None => None end
    else if k =? 3 then
      match rd_seq (rd_pair rd_list rd_list) r with Some (m, r') => Some (RMap m, r') | None => None end
    else None
  | [] => None
  end.

Definition out_text (o : option str) : list Z :=
  match o with Some t => 0 :: t | None => flat_err 1 end.

Definition m_filter_pool (inp : list Z) : list Z :=
  match inp with
  | k :: r0 =>
    match rd_rule r0 with
    | Some (rc, r1) =>
      match rd_rule r1 with
      | Some (ro, text) => if 1 <=? k then out_text (filter_text_pool rc ro (Z.to_nat k) text) else bad_case
      | None => bad_case
      end
    | None => bad_case
    end
  | [] => bad_case
  end.

Definition m_filter_seq (inp : list Z) : list Z :=
  match rd_rule inp with
  | Some (rc, r1) =>
    match rd_rule r1 with
    | Some (ro, text) => out_text (filter_text rc ro text)
    | None => bad_case
    end
  | None => bad_case
  end.

Definition m_job (inp : list Z) : list Z :=
  match rd_rule inp with
  | Some (rc, r1) =>
    match rd_rule r1 with
    | Some (ro, line) =>
      match job rc ro line with
      | JLine l => 0 :: l
      | JDrop => [1]
      | JErr => flat_err 1
      end
    | None => bad_case
    end
  | None => bad_case
  end.

Definition m_chunks (inp : list Z) : list Z :=
  match inp with
  | k :: items => if 1 <=? k then
                    let cs := chunks (Z.to_nat k) items in
                    Z.of_nat (length cs) :: flat_map wr_list cs
                  else bad_case
  | [] => bad_case
  end.

Definition run_c10 (id : Z) (inp : list Z) : option (list Z) :=
  if id =? 1001 then Some (m_filter_pool inp)
  else if id =? 1002 then Some (m_job inp)
  else if id =? 1003 then Some (m_chunks inp)
  else if id =? 1004 then Some (m_filter_seq inp)
  else None.
