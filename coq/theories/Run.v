(** Flat entry points of the executable models: [run_model id input].
    The harness (and the extracted OCaml driver) talk to the models only
    through this function.  Decoding glue only; no proofs. *)
From Coq Require Import ZArith List Bool.
From PV Require Import Flat Bytes BinFmt RWQc Sched Proto.
From PV Require Import RunC02 RunC07 RunC08 RunC09 RunC10 RunC11 RunC12 RunC15 RunC16 RunC18 RunC19 RunC20.
Import ListNotations.
Open Scope Z_scope.

Definition pol_of_z (z : Z) : pol :=
  if z =? 0 then PNone else if z =? 1 then PTrue else PFalse.

(** 101: events -> bytes written by [write_events] (window = everything, policy False) *)
Definition m_encode (inp : list Z) : list Z :=
  match rd_events inp with
  | Some (es, _) => if events_ok es then 1 :: encode es else flat_err 0
  | None => bad_case
  end.

Definition out_rd (r : rd_result) : list Z :=
  match r with
  | RdOk es => 0 :: wr_events es
  | RdBadMagic => flat_err 1
  | RdBadVersion => flat_err 2
  end.

(** 102: bytes -> events as read by [read_binary_file] *)
Definition m_py_read (inp : list Z) : list Z :=
  match rd_list inp with
  | Some (bs, _) => out_rd (py_read bs)
  | None => bad_case
  end.

(** 103: bytes -> events as consumed by the kernels *)
Definition m_k_parse (inp : list Z) : list Z :=
  match rd_list inp with
  | Some (bs, _) =>
    match k_parse bs with
    | KOk es => 0 :: wr_events es
    | KMagic => flat_err 1
    | KVersion => flat_err 2
    | KOverflow => flat_err 9
    end
  | None => bad_case
  end.

(** 104: events, start, stop, policy -> result of [write_events] *)
Definition m_write_events (inp : list Z) : list Z :=
  match rd_events inp with
  | Some (es, start :: stop :: p :: _) =>
    match write_events es start stop (pol_of_z p) with
    | WReturn n None => [0; n]
    | WReturn n (Some f) => 0 :: n :: f
    | WStop n f => 1 :: n :: f
    | WValueError => flat_err 3
    end
  | _ => bad_case
  end.

(** 105: list of chunk byte strings -> error code of an entry point *)
Definition m_entry (inp : list Z) : list Z :=
  match rd_seq rd_list inp with
  | Some (files, _) => [entry_first_error files]
  | None => bad_case
  end.

(** 203: list, n -> ndl.slice_list(list, n) as a sequence of lists *)
Definition m_slice_list (inp : list Z) : list Z :=
  match rd_list inp with
  | Some (l, n :: _) =>
    let parts := slice_list l (Z.to_nat n) in
    Z.of_nat (length parts) :: flat_map wr_list parts
  | _ => bad_case
  end.

(** 204: len, chunk -> the (start, end) ranges of the OpenMP parts, in 32-bit arithmetic *)
Definition m_omp_ranges (inp : list Z) : list Z :=
  match inp with
  | len :: chunk :: _ => flat_map (fun r => [fst r; snd r]) (omp_ranges len chunk)
  | _ => bad_case
  end.

(** 401: events, per, policy -> what create_binary_event_files leaves behind:
    [0; n_reported; n_files; (index, bytes as list) ...]  or ValueError *)
Definition m_chunks (inp : list Z) : list Z :=
  match rd_events inp with
  | Some (es, per :: po :: _) =>
    let p := pol_of_z po in
    match prep_all p es with
    | None => flat_err 3
    | Some es' =>
      let pern := Z.to_nat per in
      let m := (Nat.div (length es) pern + 1)%nat in
      let files := flat_map (fun k => match job_file es pern p k with
                                      | Some f => [(k, f)]
                                      | None => []
                                      end) (seq 0 m) in
      0 :: Z.of_nat (length es') :: Z.of_nat (length files)
        :: flat_map (fun kf => Z.of_nat (fst kf) :: wr_list (snd kf)) files
    end
  | _ => bad_case
  end.

(** 402: events, per, policy, B, schedule (-1 = Submit, k >= 0 = Process k) -> the run of the repaired submit
    protocol Proto.pstep on that schedule, job results from the events:
    [finished?; loop left?; submitted; number_events; waiting (-1: none); errors; deliveries in order] *)
Definition m_proto (inp : list Z) : list Z :=
  match rd_events inp with
  | Some (es, per :: po :: b :: r) =>
    match rd_list r with
    | Some (sched, _) =>
      let res := job_result es (Z.to_nat per) (pol_of_z po) in
      let acts := map (fun z => if z <? 0 then Submit else Process (Z.to_nat z)) sched in
      let s := prun repaired res (Z.to_nat b) acts pinit in
      (if pfinished s then 1 else 0) :: (if loop_done s then 1 else 0) :: Z.of_nat (next s) :: Z.of_nat (total s)
        :: (match waiting s with Some w => Z.of_nat w | None => -1 end)
        :: wr_list (map Z.of_nat (errors s)) ++ wr_list (map Z.of_nat (rev (processed s)))
    | None => bad_case
    end
  | _ => bad_case
  end.

Definition run_core (id : Z) (inp : list Z) : option (list Z) :=
  if id =? 101 then Some (m_encode inp)
  else if id =? 102 then Some (m_py_read inp)
  else if id =? 103 then Some (m_k_parse inp)
  else if id =? 104 then Some (m_write_events inp)
  else if id =? 105 then Some (m_entry inp)
  else if id =? 201 then Some (m_dict inp)
  else if id =? 202 then Some (m_kernel inp)
  else if id =? 203 then Some (m_slice_list inp)
  else if id =? 204 then Some (m_omp_ranges inp)
  else if id =? 401 then Some (m_chunks inp)
  else if id =? 402 then Some (m_proto inp)
  else None.

(** one runner per model family; the first that knows the id answers *)
Definition runners : list (Z -> list Z -> option (list Z)) :=
  [ run_core
  ; run_c02
  ; run_c07
  ; run_c08
  ; run_c09
  ; run_c10
  ; run_c11
  ; run_c12
  ; run_c15
  ; run_c16
  ; run_c18
  ; run_c19
  ; run_c20
  ].

Definition run_model (id : Z) (inp : list Z) : list Z :=
  let fix go (rs : list (Z -> list Z -> option (list Z))) : list Z :=
      match rs with
      | [] => bad_case
      | r :: rest => match r id inp with Some o => o | None => go rest end
      end in
  go runners.
