(** MiniPy: a deep embedding of the small imperative fragment of Python in which a few
    pure functions of pyndl are written (ndl.slice_list, the sampling loop of
    preprocess.bandsample, the attribute merge of ndl._attributes).

    The translator tools/py2coq.py maps a Python [ast] node by node onto the
    constructors below (it fails closed on every node it does not know) and writes
    the term into a generated file on every run; the meaning of the constructs is
    fixed HERE, once, by the interpreter [exec].  Theorems about the generated terms
    (src/SrcProofs.v) are therefore theorems about what /repo's source text says
    now, under this semantics.  Definitions only (facts: MiniPyFacts.v).

    Deliberate limits (the translator refuses programs that could tell the
    difference, see its header):
    - floats are exact rationals ([VNum]), as in every other model of this
      development; int/float mixing follows Python's numeric tower;
    - [bool] is not a number here (Python: True == 1): arithmetic on a [VBool] is
      [ExType];
    - lists are values: the translator rejects programs in which two names can
      refer to one list object (no [x = y] between names, no list stored in a
      list and mutated afterwards);
    - [print(...)] and [sys.stdout.flush()] are [SSkip]: standard output is not
      modelled. *)
From Coq Require Import ZArith List Bool QArith Qcanon.
Import ListNotations.
Open Scope Z_scope.

Inductive exn := ExType | ExIndex | ExValue | ExZeroDiv | ExAssert | ExName | ExKey.

Inductive value :=
| VNone
| VBool (b : bool)
| VInt (z : Z)
| VNum (q : Qc)
| VStr (s : list Z)
| VList (l : list value)
| VTuple (l : list value).

Definition qz (z : Z) : Qc := Q2Qc (inject_Z z).

Fixpoint zlist_eqb (a b : list Z) : bool :=
  match a, b with
  | [], [] => true
  | x :: a', y :: b' => (x =? y) && zlist_eqb a' b'
  | _, _ => false
  end.

(** Python's [==] on the values of the fragment *)
Fixpoint value_eqb (a b : value) {struct a} : bool :=
  match a, b with
  | VNone, VNone => true
  | VBool x, VBool y => Bool.eqb x y
  | VInt x, VInt y => x =? y
  | VInt x, VNum y => Qc_eq_bool (qz x) y
  | VNum x, VInt y => Qc_eq_bool x (qz y)
  | VNum x, VNum y => Qc_eq_bool x y
  | VStr x, VStr y => zlist_eqb x y
  | VList x, VList y =>
    (fix go (x y : list value) {struct x} : bool :=
       match x, y with
       | [], [] => true
       | p :: x', q :: y' => value_eqb p q && go x' y'
       | _, _ => false
       end) x y
  | VTuple x, VTuple y =>
    (fix go (x y : list value) {struct x} : bool :=
       match x, y with
       | [], [] => true
       | p :: x', q :: y' => value_eqb p q && go x' y'
       | _, _ => false
       end) x y
  | _, _ => false
  end.

Definition truthy (v : value) : bool :=
  match v with
  | VNone => false
  | VBool b => b
  | VInt z => negb (z =? 0)
  | VNum q => negb (Qc_eq_bool q (qz 0))
  | VStr s => match s with [] => false | _ => true end
  | VList l => match l with [] => false | _ => true end
  | VTuple l => match l with [] => false | _ => true end
  end.

Inductive res (A : Type) := Ok (a : A) | Err (e : exn).
Arguments Ok {A} a.
Arguments Err {A} e.

Definition bind {A B} (r : res A) (f : A -> res B) : res B :=
  match r with Ok a => f a | Err e => Err e end.

(** ** arithmetic *)
Inductive binop := BAdd | BSub | BMul | BDiv | BFloorDiv | BMod.
Inductive cmpop := CLt | CLe | CGt | CGe | CEq | CNe.

Definition num_of (v : value) : option Qc :=
  match v with VInt z => Some (qz z) | VNum q => Some q | _ => None end.

Definition qc_leb (a b : Qc) : bool := Qle_bool (this a) (this b).
Definition qc_ltb (a b : Qc) : bool := negb (Qle_bool (this b) (this a)).

Definition bin (op : binop) (a b : value) : res value :=
  match op, a, b with
  | BAdd, VInt x, VInt y => Ok (VInt (x + y))
  | BSub, VInt x, VInt y => Ok (VInt (x - y))
  | BMul, VInt x, VInt y => Ok (VInt (x * y))
  | BFloorDiv, VInt x, VInt y => if y =? 0 then Err ExZeroDiv else Ok (VInt (x / y))
  | BMod, VInt x, VInt y => if y =? 0 then Err ExZeroDiv else Ok (VInt (x mod y))
  | BAdd, VList x, VList y => Ok (VList (x ++ y))
  | BAdd, VStr x, VStr y => Ok (VStr (x ++ y))
  | BAdd, VTuple x, VTuple y => Ok (VTuple (x ++ y))
  | BFloorDiv, _, _ => Err ExType          (* float floor division: outside the fragment *)
  | BMod, _, _ => Err ExType
  | _, _, _ =>
    match num_of a, num_of b with
    | Some x, Some y =>
      match op with
      | BAdd => Ok (VNum (x + y)%Qc)
      | BSub => Ok (VNum (x - y)%Qc)
      | BMul => Ok (VNum (x * y)%Qc)
      | BDiv => if Qc_eq_bool y (qz 0) then Err ExZeroDiv else Ok (VNum (x / y)%Qc)
      | _ => Err ExType
      end
    | _, _ => Err ExType
    end
  end.

Definition cmp (op : cmpop) (a b : value) : res value :=
  match op with
  | CEq => Ok (VBool (value_eqb a b))
  | CNe => Ok (VBool (negb (value_eqb a b)))
  | _ =>
    match a, b with
    | VInt x, VInt y =>
      Ok (VBool (match op with CLt => x <? y | CLe => x <=? y | CGt => y <? x | _ => y <=? x end))
    | _, _ =>
      match num_of a, num_of b with
      | Some x, Some y =>
        Ok (VBool (match op with CLt => qc_ltb x y | CLe => qc_leb x y | CGt => qc_ltb y x | _ => qc_leb y x end))
      | _, _ => Err ExType                   (* ordering of sequences: outside the fragment *)
      end
    end
  end.

(** ** sequences *)
(** [l[i]]: negative indices count from the end *)
Definition norm_index (len i : Z) : option nat :=
  let j := if i <? 0 then i + len else i in
  if (0 <=? j) && (j <? len) then Some (Z.to_nat j) else None.

(** slice bounds: [None] bound = omitted; negative counts from the end; clipped to [0, len] *)
Definition clip (len i : Z) : Z :=
  let j := if i <? 0 then i + len else i in
  Z.max 0 (Z.min len j).

Definition slice {A} (l : list A) (lo hi : Z) : list A :=
  let len := Z.of_nat (length l) in
  let a := clip len lo in
  let b := clip len hi in
  firstn (Z.to_nat (b - a)) (skipn (Z.to_nat a) l).

Fixpoint remove_nth {A} (i : nat) (l : list A) : list A :=
  match l with
  | [] => []
  | x :: r => match i with O => r | S j => x :: remove_nth j r end
  end.

(** number of distinct elements, [len(set(l))] *)
Fixpoint mem_value (v : value) (l : list value) : bool :=
  match l with [] => false | x :: r => value_eqb v x || mem_value v r end.
Fixpoint distinct (l : list value) : list value :=
  match l with
  | [] => []
  | x :: r => if mem_value x r then distinct r else x :: distinct r
  end.

(** ** expressions *)
Inductive expr :=
| EVar (x : nat)
| EConst (v : value)
| EBin (op : binop) (a b : expr)
| ECmp (op : cmpop) (a b : expr)
| EAnd (a b : expr)
| EOr (a b : expr)
| ENot (a : expr)
| ELen (a : expr)
| ELenSet (a : expr)                  (* len(set(a)) *)
| EIndex (a i : expr)
| ESlice (a lo hi : expr)
| ETuple2 (a b : expr)
| EEmptyList.                         (* list() or [] *)

Definition env := nat -> option value.
Definition upd (en : env) (x : nat) (v : value) : env :=
  fun y => if Nat.eqb y x then Some v else en y.

Definition seq_items (v : value) : option (list value) :=
  match v with
  | VList l => Some l
  | VTuple l => Some l
  | VStr s => Some (map (fun c => VStr [c]) s)
  | _ => None
  end.

Fixpoint eval (en : env) (e : expr) : res value :=
  match e with
  | EVar x => match en x with Some v => Ok v | None => Err ExName end
  | EConst v => Ok v
  | EBin op a b => bind (eval en a) (fun x => bind (eval en b) (fun y => bin op x y))
  | ECmp op a b => bind (eval en a) (fun x => bind (eval en b) (fun y => cmp op x y))
  | EAnd a b => bind (eval en a) (fun x => if truthy x then eval en b else Ok x)
  | EOr a b => bind (eval en a) (fun x => if truthy x then Ok x else eval en b)
  | ENot a => bind (eval en a) (fun x => Ok (VBool (negb (truthy x))))
  | ELen a => bind (eval en a) (fun x =>
      match seq_items x with Some l => Ok (VInt (Z.of_nat (length l))) | None => Err ExType end)
  | ELenSet a => bind (eval en a) (fun x =>
      match seq_items x with Some l => Ok (VInt (Z.of_nat (length (distinct l)))) | None => Err ExType end)
  | EIndex a i => bind (eval en a) (fun x => bind (eval en i) (fun j =>
      match seq_items x, j with
      | Some l, VInt z =>
        match norm_index (Z.of_nat (length l)) z with
        | Some k => match nth_error l k with Some v => Ok v | None => Err ExIndex end
        | None => Err ExIndex
        end
      | _, _ => Err ExType
      end))
  | ESlice a lo hi => bind (eval en a) (fun x => bind (eval en lo) (fun l0 => bind (eval en hi) (fun h0 =>
      match x, l0, h0 with
      | VList l, VInt p, VInt q => Ok (VList (slice l p q))
      | VTuple l, VInt p, VInt q => Ok (VTuple (slice l p q))
      | VStr l, VInt p, VInt q => Ok (VStr (slice l p q))
      | _, _, _ => Err ExType
      end)))
  | ETuple2 a b => bind (eval en a) (fun x => bind (eval en b) (fun y => Ok (VTuple [x; y])))
  | EEmptyList => Ok (VList [])
  end.

(** ** statements *)
Inductive stmt :=
| SSkip
| SSeq (a b : stmt)
| SAssign (x : nat) (e : expr)
| SAug (x : nat) (op : binop) (e : expr)         (* x op= e *)
| SUnpack2 (x y : nat) (e : expr)                (* x, y = e *)
| SAppend (x : nat) (e : expr)                   (* x.append(e) *)
| SDel (x : nat) (i : expr)                      (* del x[i] *)
| SIf (c : expr) (t f : stmt)
| SWhile (c : expr) (body : stmt)
| SReturn (e : expr)
| SRaise (e : exn)
| SAssert (c : expr).

Inductive outcome :=
| ONormal (en : env)
| OReturn (v : value)
| ORaise (e : exn)
| OFuel.

Definition step_simple (s : stmt) (en : env) : outcome :=
  match s with
  | SAssign x e => match eval en e with Ok v => ONormal (upd en x v) | Err e => ORaise e end
  | SAug x op e =>
    match en x with
    | None => ORaise ExName
    | Some old =>
      match eval en e with
      | Ok v => match bin op old v with Ok w => ONormal (upd en x w) | Err e => ORaise e end
      | Err e => ORaise e
      end
    end
  | SUnpack2 x y e =>
    match eval en e with
    | Ok v =>
      match seq_items v with
      | Some [a; b] => ONormal (upd (upd en x a) y b)
      | Some _ => ORaise ExValue
      | None => ORaise ExType
      end
    | Err e => ORaise e
    end
  | SAppend x e =>
    match en x with
    | Some (VList l) => match eval en e with Ok v => ONormal (upd en x (VList (l ++ [v]))) | Err e => ORaise e end
    | Some _ => ORaise ExType
    | None => ORaise ExName
    end
  | SDel x i =>
    match en x with
    | Some (VList l) =>
      match eval en i with
      | Ok (VInt z) =>
        match norm_index (Z.of_nat (length l)) z with
        | Some k => ONormal (upd en x (VList (remove_nth k l)))
        | None => ORaise ExIndex
        end
      | Ok _ => ORaise ExType
      | Err e => ORaise e
      end
    | Some _ => ORaise ExType
    | None => ORaise ExName
    end
  | SReturn e => match eval en e with Ok v => OReturn v | Err e => ORaise e end
  | SRaise e => ORaise e
  | SAssert c => match eval en c with Ok v => if truthy v then ONormal en else ORaise ExAssert | Err e => ORaise e end
  | _ => ONormal en
  end.

(** fuel is spent by loop iterations only *)
Fixpoint exec (fuel : nat) (s : stmt) (en : env) {struct fuel} : outcome :=
  let fix go (s : stmt) (en : env) {struct s} : outcome :=
    match s with
    | SSkip => ONormal en
    | SSeq a b => match go a en with ONormal en' => go b en' | o => o end
    | SIf c t f =>
      match eval en c with
      | Ok v => if truthy v then go t en else go f en
      | Err e => ORaise e
      end
    | SWhile c body =>
      match eval en c with
      | Ok v =>
        if truthy v then
          match fuel with
          | O => OFuel
          | S f => match go body en with
                   | ONormal en' => exec f (SWhile c body) en'
                   | o => o
                   end
          end
        else ONormal en
      | Err e => ORaise e
      end
    | _ => step_simple s en
    end
  in go s en.

(** a function: parameter slots, body; falling off the end returns None *)
Record pyfun := { f_params : list nat; f_body : stmt }.

Fixpoint bind_params (ps : list nat) (args : list value) (en : env) : env :=
  match ps, args with
  | p :: ps', a :: args' => bind_params ps' args' (upd en p a)
  | _, _ => en
  end.

Definition call (fuel : nat) (f : pyfun) (args : list value) : outcome :=
  match exec fuel (f_body f) (bind_params (f_params f) args (fun _ => None)) with
  | ONormal _ => OReturn VNone
  | o => o
  end.
