(** Executable model of [pyndl.preprocess.JobFilter] and [filter_event_file]
    (pyndl/preprocess.py).  Definitions only (proofs: FilterProofs.v).

    Layers
    - token level : an event is (cues, outcomes), lists of tokens; the four rule
                    kinds of a side ([process]); [job_event] (drop iff no cue left)
    - text level  : [parse_line] (strip('\n'), split on tab into exactly two
                    fields, split on '_'), [format_event], [job] = JobFilter.job
    - pool        : [chunks], [imap_chunked], and [imap_pool] (tasks completed in
                    an arbitrary order, results delivered by task index) for
                    multiprocessing.Pool.imap(job, lines, chunksize)
    - file        : [filter_text]: header line copied verbatim, every other line
                    through the pool, [None] results skipped, an exception of a
                    job ends the call with that exception. *)
From Coq Require Import ZArith List Bool.
From PV Require Import PyText.
Import ListNotations.
Open Scope Z_scope.

Definition token := str.
Definition event := (list token * list token)%type.

(** * Rules of one side (cues or outcomes)
    [RKeep S]:   keep_cues is used as given ([cue in keep_cues]), keep_outcomes as
                 [set(keep_outcomes)]; for list/tuple/set containers of strings both
                 are membership in [S].
    [RRemove S]: [set(remove_cues)] resp. [set(remove_outcomes)].
    [RMap m]:    [defaultdict(lambda: '', m)]; [m] is the dict as a list of
                 (key, value) items with distinct keys; lookups that give ''
                 (missing key or explicit '' value) are dropped. *)
Inductive rule :=
| RAll
| RKeep (K : list token)
| RRemove (K : list token)
| RMap (m : list (token * token)).

Fixpoint mem_tok (t : token) (K : list token) : bool :=
  match K with
  | [] => false
  | s :: r => str_eqb s t || mem_tok t r
  end.

Fixpoint map_get (m : list (token * token)) (t : token) : token :=
  match m with
  | [] => []                                   (* return_empty_string *)
  | (k, v) :: r => if str_eqb k t then v else map_get r t
  end.

Definition process (r : rule) (ts : list token) : list token :=
  match r with
  | RAll => ts
  | RKeep K => filter (fun t => mem_tok t K) ts
  | RRemove K => filter (fun t => negb (mem_tok t K)) ts
  | RMap m => filter (fun t => negb (is_nil t)) (map (map_get m) ts)
  end.

(** [if not cues: return None]; events without outcomes are kept *)
Definition job_event (rc ro : rule) (e : event) : option event :=
  let cs := process rc (fst e) in
  let os := process ro (snd e) in
  if is_nil cs then None else Some (cs, os).

(** * Text level *)
(** [cues, outcomes = line.strip('\n').split('\t')] (anything but two fields is a
    ValueError), then both fields [.split('_')] *)
Definition parse_line (l : str) : option event :=
  match split_on TAB (strip_c LF l) with
  | [a; b] => Some (split_on USCORE a, split_on USCORE b)
  | _ => None
  end.

(** ["%s\t%s\n" % ("_".join(cues), "_".join(outcomes))] *)
Definition format_event (e : event) : str :=
  join USCORE (fst e) ++ TAB :: join USCORE (snd e) ++ [LF].

Inductive jobres :=
| JLine (l : str)          (* processed line *)
| JDrop                    (* None *)
| JErr.                    (* ValueError *)

Definition job (rc ro : rule) (l : str) : jobres :=
  match parse_line l with
  | None => JErr
  | Some e => match job_event rc ro e with
              | None => JDrop
              | Some e' => JLine (format_event e')
              end
  end.

(** * Pool.imap(f, xs, chunksize) *)
(** consecutive chunks of [k] items (k >= 1), the last one may be shorter;
    [fuel] bounds the number of chunks (|l| suffices) *)
Fixpoint chunks_fuel {A} (fuel : nat) (k : nat) (l : list A) : list (list A) :=
  match fuel with
  | O => []
  | S fuel' => match l with
               | [] => []
               | _ => firstn k l :: chunks_fuel fuel' k (skipn k l)
               end
  end.
Definition chunks {A} (k : nat) (l : list A) : list (list A) := chunks_fuel (length l) k l.

(** every chunk is mapped by one worker; results come back chunk by chunk, in order *)
Definition imap_chunked {A B} (k : nat) (f : A -> B) (l : list A) : list B :=
  concat (map (map f) (chunks k l)).

(** tasks = numbered chunks; the workers complete them in an arbitrary order
    [order] (which worker ran which task does not appear: all run the same [f]);
    the result handler stores (index, result) and the iterator yields by index. *)
Definition tasks {A} (k : nat) (l : list A) : list (nat * list A) :=
  combine (seq 0 (length (chunks k l))) (chunks k l).

Fixpoint lookup_task {B} (i : nat) (done : list (nat * list B)) : list B :=
  match done with
  | [] => []
  | (j, r) :: rest => if Nat.eqb i j then r else lookup_task i rest
  end.

Definition imap_pool {A B} (k : nat) (f : A -> B) (l : list A) (order : list (nat * list A)) : list B :=
  let done := map (fun t => (fst t, map f (snd t))) order in
  flat_map (fun i => lookup_task i done) (seq 0 (length (chunks k l))).

(** the contrast: [imap_unordered] yields in completion order *)
Definition imap_unordered {A B} (f : A -> B) (order : list (nat * list A)) : list B :=
  flat_map (fun t => map f (snd t)) order.

(** * The file *)
(** the writer loop: [None] is skipped; an exception ends the call *)
Fixpoint collect (rs : list jobres) : option (list str) :=
  match rs with
  | [] => Some []
  | JErr :: _ => None
  | JDrop :: r => collect r
  | JLine l :: r => match collect r with Some ls => Some (l :: ls) | None => None end
  end.

(** lines -> lines; [hd] is what [infile.readline()] returned for the header *)
Definition filter_lines (rc ro : rule) (lines : list str) : option (list str) :=
  match lines with
  | [] => Some []                               (* readline() = '' written, nothing else *)
  | h :: body => match collect (map (job rc ro) body) with
                 | Some out => Some (h :: out)
                 | None => None
                 end
  end.

(** the same through the pool with chunk size [k] and completion order [order] *)
Definition filter_lines_pool (rc ro : rule) (k : nat) (order : list (nat * list str))
           (lines : list str) : option (list str) :=
  match lines with
  | [] => Some []
  | h :: body => match collect (imap_pool k (job rc ro) body order) with
                 | Some out => Some (h :: out)
                 | None => None
                 end
  end.

(** decoded content of the input file -> decoded content of the output file
    (gzip and UTF-8 are outside the model; "\n" is written as "\n" on POSIX) *)
Definition filter_text (rc ro : rule) (text : str) : option str :=
  match filter_lines rc ro (file_lines text) with
  | Some ls => Some (concat ls)
  | None => None
  end.

(** what the harness executes: the pool version, tasks completed in reverse order *)
Definition filter_text_pool (rc ro : rule) (k : nat) (text : str) : option str :=
  let lines := file_lines text in
  match filter_lines_pool rc ro k (rev (tasks k (tl lines))) lines with
  | Some ls => Some (concat ls)
  | None => None
  end.

(** set difference on token lists (used to state keep = remove complement) *)
Definition tok_diff (U K : list token) : list token :=
  filter (fun t => negb (mem_tok t K)) U.

(** * Vocabulary of the specification (used in the statements of Props/C10.v) *)
Fixpoint filter_map {A B} (f : A -> option B) (l : list A) : list B :=
  match l with
  | [] => []
  | x :: r => match f x with Some y => y :: filter_map f r | None => filter_map f r end
  end.

(** the per-line function of the specification: parse, apply the rules to the
    event alone, drop it iff no cue is left, format *)
Definition job_opt (rc ro : rule) (l : str) : option str :=
  match parse_line l with
  | None => None
  | Some e => match job_event rc ro e with
              | None => None
              | Some e' => Some (format_event e')
              end
  end.

Definition line_ok (l : str) : Prop := parse_line l <> None.

Definition id_map (K : list token) : list (token * token) := map (fun s => (s, s)) K.

(** a rule that only selects tokens (all / keep / remove) *)
Definition selects (r : rule) : Prop := match r with RMap _ => False | _ => True end.

Definition line_tokens_in (U : list token) (l : str) : Prop :=
  forall e, parse_line l = Some e -> forall t, In t (fst e ++ snd e) -> In t U.

