(** The documented Rescorla-Wagner rule, as a function on weight functions,
    over an arbitrary carrier with ring operations.  Declarative spec:
    every theorem about a learner model refers to [learn]. *)
From Coq Require Import ZArith List Bool.
From PV Require Import BinFmt.
Import ListNotations.

Section RWSpec.
  Variable R : Type.
  Variables (rO rI : R) (radd rmul rsub : R -> R -> R).

  (** weights: outcome -> cue -> value *)
  Definition wfun := Z -> Z -> R.

  Record params := { alpha : Z -> R; beta1 : R; beta2 : R; lam : R }.

  Fixpoint countz (c : Z) (cs : list Z) : nat :=
    match cs with
    | [] => O
    | x :: r => if Z.eqb c x then S (countz c r) else countz c r
    end.

  Fixpoint of_nat (n : nat) : R :=
    match n with O => rO | S k => radd (of_nat k) rI end.

  (** sum of [f] over a list, with multiplicity, left to right *)
  Definition sum_over (f : Z -> R) (cs : list Z) : R :=
    fold_left (fun a c => radd a (f c)) cs rO.

  (** association strength (= activation) of outcome [o] for the cues [cs] *)
  Definition act (W : wfun) (o : Z) (cs : list Z) : R := sum_over (W o) cs.

  (** beta * (target - activation) *)
  Definition delta (p : params) (W : wfun) (e : event) (o : Z) : R :=
    if mem_z o (snd e)
    then rmul (beta1 p) (rsub (lam p) (act W o (fst e)))
    else rmul (beta2 p) (rsub rO (act W o (fst e))).

  (** one event: every cue occurrence of the event moves the weight by
      alpha_c * beta * (target - activation), the activation being taken
      before the event *)
  Definition step (p : params) (e : event) (W : wfun) : wfun :=
    fun o c => radd (W o c) (rmul (of_nat (countz c (fst e))) (rmul (alpha p c) (delta p W e o))).

  Definition learn (p : params) (es : list event) (W : wfun) : wfun :=
    fold_left (fun W e => step p e W) es W.

  Definition zero_w : wfun := fun _ _ => rO.
End RWSpec.

Arguments alpha {R}. Arguments beta1 {R}. Arguments beta2 {R}. Arguments lam {R}.
