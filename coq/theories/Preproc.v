(** Loop-faithful model of [pyndl.preprocess.create_event_file],
    [process_occurrences] and [ngrams_to_word] (property C09).  Definitions only.

    The model works on strings exactly where the code works on strings:
    occurrences are pairs of "_"-joined strings, n-grams are index slices of
    the phrase string, duplicates are removed from [occurrence.split("_")].
    [re.search], [re.split] (with the CAPTURING group: the markers themselves
    are elements of the result) and [re.sub] are modelled by leftmost,
    non-overlapping scanning with the matcher [marker_at] of WindowSpec.v. *)
From Coq Require Import ZArith List Bool Arith.
From PV Require Import WindowSpec.
Import ListNotations.
Open Scope Z_scope.

(** * [re] with the pattern [(---end.of.document---|---END.OF.DOCUMENT---)] *)

(** [context_pattern.search(s) is not None] *)
Fixpoint re_search (s : str) : bool :=
  match s with
  | [] => false
  | _ :: r => marker_at s || re_search r
  end.

(** [context_pattern.split(s)]: [t0; m1; t1; ...; mk; tk] - because of the
    capturing group the matched text is part of the list *)
Fixpoint re_split_go (skip : nat) (s : str) : list str :=
  match s with
  | [] => [[]]
  | c :: r =>
    match skip with
    | S k => re_split_go k r
    | O => if marker_at s then [] :: firstn MLEN s :: re_split_go 20 r
           else match re_split_go 0 r with
                | p :: ps => (c :: p) :: ps
                | [] => [[c]]
                end
    end
  end.
Definition re_split (s : str) : list str := re_split_go 0 s.

(** [context_pattern.sub("", s)] *)
Fixpoint re_sub_go (skip : nat) (s : str) : str :=
  match s with
  | [] => []
  | c :: r =>
    match skip with
    | S k => re_sub_go k r
    | O => if marker_at s then re_sub_go 20 r else c :: re_sub_go 0 r
    end
  end.
Definition re_sub_empty (s : str) : str := re_sub_go 0 s.

(** * Python slices and ranges with integer (possibly negative) bounds *)
Definition norm_idx (len i : Z) : Z := if i <? 0 then Z.max (i + len) 0 else Z.min i len.
Definition pyslice {A} (l : list A) (a b : Z) : list A :=
  let len := Z.of_nat (length l) in
  let a' := norm_idx len a in
  let b' := norm_idx len b in
  firstn (Z.to_nat (b' - a')) (skipn (Z.to_nat a') l).

(** [range(a, a + cnt)] *)
Definition zrange (a cnt : Z) : list Z := map (fun k => a + Z.of_nat k) (seq 0 (Z.to_nat cnt)).

Definition zlen {A} (l : list A) : Z := Z.of_nat (length l).

(** * [ngrams_to_word] and [process_occurrences] *)
Definition occ := (str * str)%type.       (* (cues, outcomes): "_"-joined strings *)

(** [re.sub("_", "#", s)] *)
Definition sub_us_hash (s : str) : str := map (fun c => if c =? US then HASH else c) s.

(** [(phrase[i:i+n] for i in range(len(phrase) - n + 1))], consumed once *)
Definition ngrams_exec (n : Z) (phrase : str) : list str :=
  map (fun i => pyslice phrase i (i + n)) (zrange 0 (zlen phrase - n + 1)).

(** a generator object is truthy whatever it will yield *)
Definition generator_truthy : bool := true.

Fixpoint ngrams_to_word (occs : list occ) (n_chars : Z) (remove_duplicates : bool) (outfile : list str)
  : list str :=
  match occs with
  | [] => outfile
  | (cues, outcomes) :: rest =>
    let occurrence := if nonempty cues && nonempty outcomes then cues ++ US :: outcomes
                      else cues ++ outcomes in
    let phrase_string := HASH :: sub_us_hash occurrence ++ [HASH] in
    let ngrams := ngrams_exec n_chars phrase_string in
    if negb generator_truthy || negb (nonempty occurrence)
    then ngrams_to_word rest n_chars remove_duplicates outfile           (* continue *)
    else
      let ngrams' := if remove_duplicates then dedup_str ngrams else ngrams in
      let occurrence' := if remove_duplicates then join US (dedup_str (split_on US occurrence))
                         else occurrence in
      ngrams_to_word rest n_chars remove_duplicates
                     (outfile ++ [join US ngrams' ++ TAB :: occurrence'])
  end.

Fixpoint w2w_to_word (occs : list occ) (remove_duplicates : bool) (outfile : list str) : list str :=
  match occs with
  | [] => outfile
  | (cues, outcomes) :: rest =>
    if negb (nonempty cues) then w2w_to_word rest remove_duplicates outfile   (* continue *)
    else
      let cues' := if remove_duplicates then join US (dedup_str (split_on US cues)) else cues in
      let outcomes' := if remove_duplicates then join US (dedup_str (split_on US outcomes)) else outcomes in
      w2w_to_word rest remove_duplicates (outfile ++ [cues' ++ TAB :: outcomes'])
  end.

Definition process_occurrences (occs : list occ) (cue : cue_t) (remove_duplicates : bool)
           (outfile : list str) : list str :=
  match cue with
  | CueBigrams => ngrams_to_word occs 2 remove_duplicates outfile
  | CueTrigrams => ngrams_to_word occs 3 remove_duplicates outfile
  | CueW2W => w2w_to_word occs remove_duplicates outfile
  end.

(** * [create_event_file] *)
Section Exec.
Variable lower : Z -> list Z.
Variable is_space : Z -> bool.
Variable allowed : Z -> bool.
Variable o : opts.

Notation strip := (strip is_space).

(** [process_line]: lower, remove_special_chars, filter_symbols *)
Definition process_line (line : str) : str :=
  let line := if o_lower o then lower_str lower line else line in
  let line := remove_special line in
  filter_symbols allowed line.

(** [[word.strip() for word in line.split(" ") if word.strip()]] *)
Definition gen_words_exec (line : str) : list str :=
  flat_map (fun word => if nonempty (strip word) then [strip word] else []) (split_on SP line).

(** consecutive words: [for ii in range(1 - length, len(words))] with the list [occurrences] growing *)
Fixpoint cw_loop (fuel : nat) (ii length : Z) (words : list str) (occurrences : list occ) : list occ :=
  match fuel with
  | O => occurrences
  | S f =>
    let start := Z.max ii 0 in
    let end_ := Z.min (ii + length) (zlen words) in
    cw_loop f (ii + 1) length words (occurrences ++ [(join US (pyslice words start end_), [])])
  end.

(** word to word: [for ii, word in enumerate(words)] *)
Fixpoint w2w_loop (rest : list str) (ii before after : Z) (words : list str) (occurrences : list occ)
  : list occ :=
  match rest with
  | [] => occurrences
  | word :: r =>
    let cues := pyslice words (Z.max 0 (ii - before)) ii in
    let cues := cues ++ pyslice words (ii + 1) (Z.min (zlen words) (ii + 1 + after)) in
    w2w_loop r (ii + 1) before after words (occurrences ++ [(join US cues, word)])
  end.

Definition gen_occurrences (words : list str) : list occ :=
  match o_ev o with
  | EvConsecutive number_of_words =>
    let length := Z.min number_of_words (zlen words) in
    cw_loop (Z.to_nat (zlen words - (1 - length))) (1 - length) length words []
  | EvW2W before after => w2w_loop words 0 before after words []
  | EvLine =>
    match o_cue o with
    | CueW2W => [(join US words, join US words)]
    | _ => [(join US words, [])]
    end
  end.

Definition process_words (words : list str) (outfile : list str) : list str :=
  process_occurrences (gen_occurrences words) (o_cue o) (o_dedup o) outfile.

(** [process_context] is only called when the context structure is 'document' *)
Definition process_context (line : str) : str := re_sub_empty line.

(** the loop [while len(contexts) > 1]: state (contexts, words, outfile) *)
Fixpoint while_contexts (contexts : list str) (words : list str) (outfile : list str)
  : list str * list str * list str :=
  match contexts with
  | context1 :: ((_ :: _) as contexts') =>               (* len(contexts) > 1 *)
    let words := [] in
    let context1 := process_context context1 in
    if nonempty (strip context1)
    then let context1 := process_line (strip context1) in
         let words := words ++ gen_words_exec context1 in
         while_contexts contexts' words (process_words words outfile)
    else while_contexts contexts' words outfile
  | _ => (contexts, words, outfile)
  end.

(** one iteration of [for ii, line in enumerate(corpus)]; [None] = IndexError *)
Definition step (st : list str * list str) (line : str) : option (list str * list str) :=
  let (words, outfile) := st in
  let line := strip line in
  match o_ctx o with
  | CtxLine =>
    let line := process_line line in
    let words := gen_words_exec line in
    Some (words, process_words words outfile)
  | CtxDocument =>
    if re_search line then
      match re_split line with
      | [] => None                                        (* cannot unpack *)
      | context1 :: contexts =>
        let context1 := process_context context1 in
        let words := if nonempty (strip context1)
                     then words ++ gen_words_exec (process_line (strip context1))
                     else words in
        let outfile := process_words words outfile in
        match while_contexts contexts words outfile with
        | (contexts, words, outfile) =>
          match contexts with
          | [] => None                                    (* contexts[0]: IndexError *)
          | context1 :: _ =>
            let context1 := process_context context1 in
            let words := if nonempty (strip context1)
                         then words ++ gen_words_exec (process_line (strip context1))
                         else words in
            Some (words, outfile)
          end
        end
      end
    else
      let line := process_line line in
      Some (words ++ gen_words_exec line, outfile)
  end.

Fixpoint run_lines (st : list str * list str) (corpus : list str) : option (list str * list str) :=
  match corpus with
  | [] => Some st
  | line :: rest => match step st line with
                    | Some st' => run_lines st' rest
                    | None => None
                    end
  end.

(** the lines written after the header *)
Definition exec_lines (corpus : list str) : option (list str) :=
  match run_lines ([], []) corpus with
  | None => None
  | Some (words, outfile) =>
    match o_ctx o with
    | CtxLine => Some outfile
    | CtxDocument => Some (process_words words outfile)   (* the last context *)
    end
  end.

(** [os.path.isfile(event_file)] is tested before anything is opened *)
Definition create_event_file (target_exists : bool) (corpus : list str) : result :=
  if target_exists then ROSError
  else match exec_lines corpus with
       | Some lines => RFile (header_line :: lines)
       | None => RCrash
       end.

End Exec.
