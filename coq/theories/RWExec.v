(** Executable, loop-faithful models of the Rescorla-Wagner learners:
    - [mx_*]: the update loops written once over an abstract matrix store
      (get/set by outcome and cue);
    - [dict_*]: [pyndl.ndl.dict_ndl] (dict of dicts, lazily growing set of
      outcomes, per-cue alphas, duplicate policy);
    - [k_*]: [learn_inplace_binary_to_binary_ptr] of ndl_parallel.pyx (flat
      memory addressed by n_cues*outcome+cue in 64-bit arithmetic, outcomes
      all_outcomes[start..end), parsing of the binary chunk).
    Definitions only. *)
From Coq Require Import ZArith List Bool.
From PV Require Import Bytes BinFmt Store RWSpec.
Import ListNotations.

Section RWExec.
  Variable R : Type.
  Variables (rO rI : R) (radd rmul rsub : R -> R -> R).
  Notation params := (params R).

  Section Mx.
    Variable S : Type.
    Variable g : S -> Z -> Z -> R.            (* store -> outcome -> cue -> value *)
    Variable st : S -> Z -> Z -> R -> S.

    (** [for cue in cues: weights[o][cue] += alpha[cue] * update] *)
    Definition mx_bump (al : Z -> R) (u : R) (o : Z) (cs : list Z) (s : S) : S :=
      fold_left (fun s c => st s o c (radd (g s o c) (rmul (al c) u))) cs s.

    (** one outcome of one event *)
    Definition mx_outcome (p : params) (e : event) (s : S) (o : Z) : S :=
      let a := fold_left (fun a c => radd a (g s o c)) (fst e) rO in
      let u := if mem_z o (snd e)
               then rmul (beta1 p) (rsub (lam p) a)
               else rmul (beta2 p) (rsub rO a) in
      mx_bump (alpha p) u o (fst e) s.

    (** one event, over the outcomes [outs] *)
    Definition mx_event (p : params) (outs : list Z) (s : S) (e : event) : S :=
      fold_left (mx_outcome p e) outs s.

    Definition mx_events (p : params) (outs : list Z) (es : list event) (s : S) : S :=
      fold_left (mx_event p outs) es s.
  End Mx.

  (** * dict_ndl *)
  Definition dstore := ZZM.t R.
  Definition dget : dstore -> Z -> Z -> R := mget rO.
  Definition dset : dstore -> Z -> Z -> R -> dstore := mset.

  (** [all_outcomes.update(outcomes)] (a set: order of insertion kept here,
      irrelevant for the result) *)
  Definition union_outs (all os : list Z) : list Z :=
    fold_left (fun all o => if mem_z o all then all else all ++ [o]) os all.

  Definition dict_event (p : params) (st : list Z * dstore) (e : event) : list Z * dstore :=
    let all' := union_outs (fst st) (snd e) in
    (all', mx_event dstore dget dset p all' (snd st) e).

  Fixpoint dict_run (p : params) (po : pol) (es : list event) (st : list Z * dstore)
    : option (list Z * dstore) :=
    match es with
    | [] => Some st
    | e :: r => match prep po e with
                | None => None               (* ValueError *)
                | Some e' => dict_run p po r (dict_event p st e')
                end
    end.

  (** * binary-to-binary kernel *)
  Definition kstore := ZM.t R.
  Definition kget (n_cues : Z) (m : kstore) (o c : Z) : R := fget rO m (flat_index n_cues o c).
  Definition kset (n_cues : Z) (m : kstore) (o c : Z) (v : R) : kstore :=
    fset m (flat_index n_cues o c) v.

  (** the kernel has one scalar alpha *)
  Definition kparams (al b1 b2 la : R) : params :=
    {| alpha := fun _ => al; beta1 := b1; beta2 := b2; lam := la |}.

  (** outcomes all_outcomes[start..end) *)
  Definition slice (l : list Z) (start stop : Z) : list Z :=
    firstn (Z.to_nat (stop - start)) (skipn (Z.to_nat start) l).

  Definition k_learn_events (p : params) (n_cues : Z) (all_outcomes : list Z)
             (start stop : Z) (es : list event) (m : kstore) : kstore :=
    mx_events kstore (kget n_cues) (kset n_cues) p (slice all_outcomes start stop) es m.

  (** a chunk file: header check, then events; returns the error code of
      error_codes.pxd and the memory *)
  Definition k_file (p : params) (n_cues : Z) (all_outcomes : list Z)
             (start stop : Z) (bytes : list Z) (m : kstore) : Z * kstore :=
    match k_parse bytes with
    | KOk es => (0, k_learn_events p n_cues all_outcomes start stop es m)
    | KMagic => (1, m)
    | KVersion => (2, m)
    | KOverflow => (9, m)
    end.

  (** threading entry point: one work item = all files, one outcome range *)
  Fixpoint k_files (p : params) (n_cues : Z) (all_outcomes : list Z)
           (start stop : Z) (files : list (list Z)) (m : kstore) : Z * kstore :=
    match files with
    | [] => (3, m)
    | f :: r =>
      let (err, m') := k_file p n_cues all_outcomes start stop f m in
      if Z.eqb err 0 then
        match r with [] => (0, m') | _ => k_files p n_cues all_outcomes start stop r m' end
      else (err, m')
    end.
End RWExec.
