(** Proofs of the composition theorems of property C15 (vocabulary: Pipeline.v).
    Part 1  bridges between the three copies of join/split and the two file representations
    Part 2  well-formed tokens, events, lines; the round trip of a stage ([stage_roundtrip])
    Part 3  the creation model writes well-formed events ([create_wellformed])
    Part 4  the filter model maps well-formed files to well-formed files ([filter_stage])
    Part 5  the composition ([pipeline]) and the tie to counting and learning *)
From Coq Require Import ZArith List Bool Arith Lia Permutation Ring.
From PV Require Import Lists Bytes BinFmt Store RWSpec RWExec RWProofs RWLaws Sched SchedProofs RWMain.
From PV Require Import WindowSpec Preproc PreprocProofs PyText PyTextProofs Filter FilterProofs.
From PV Require Import RunC09 TextFmt TextFmtProofs Count CountProofs Pipeline.
Import ListNotations.
Open Scope Z_scope.

(** * Part 1: bridges *)
Lemma wjoin_eq d ws : WindowSpec.join d ws = TextFmt.join d ws.
Proof.
  induction ws as [|w r IH]; [reflexivity|]. destruct r as [|x r']; [reflexivity|].
  change (w ++ d :: WindowSpec.join d (x :: r') = w ++ d :: TextFmt.join d (x :: r')).
  now rewrite IH.
Qed.

Lemma pjoin_eq d ws : PyText.join d ws = TextFmt.join d ws.
Proof.
  induction ws as [|w r IH]; [reflexivity|]. destruct r as [|x r']; [reflexivity|].
  change (w ++ d :: PyText.join d (x :: r') = w ++ d :: TextFmt.join d (x :: r')).
  now rewrite IH.
Qed.

Lemma psplit_eq d s : PyText.split_on d s = TextFmt.split d s.
Proof.
  induction s as [|c r IH]; [reflexivity|]. cbn [PyText.split_on TextFmt.split].
  rewrite IH. destruct (c =? d); [reflexivity|]. destruct (TextFmt.split d r); reflexivity.
Qed.

Lemma wsplit_eq d s : WindowSpec.split_on d s = TextFmt.split d s.
Proof.
  induction s as [|c r IH]; [reflexivity|]. cbn [WindowSpec.split_on TextFmt.split].
  rewrite IH. destruct (c =? d); [reflexivity|]. destruct (TextFmt.split d r); reflexivity.
Qed.

(** the header written by the creation model is the writer's two-column header *)
Lemma header_line_eq : header_line = TextFmt.header false.
Proof. reflexivity. Qed.

(** * Part 2: tokens, events, lines *)
Lemma tok_okb_spec t :
  tok_okb t = true <-> t <> [] /\ forall c, In c t -> c <> TextFmt.TAB /\ c <> TextFmt.LF /\ c <> TextFmt.CR /\ c <> TextFmt.US.
Proof.
  unfold tok_okb. destruct t as [|x r].
  - split; [discriminate|intros [H _]; congruence].
  - rewrite clean_token_spec. split.
    + intros H. split; [discriminate|]. intros c Hc. apply clean_char_spec. now apply H.
    + intros [_ H] c Hc. apply clean_char_spec. now apply H.
Qed.

Lemma tok_okb_clean t : tok_okb t = true -> clean_token t = true.
Proof. unfold tok_okb. destruct t; [discriminate|auto]. Qed.

Lemma tok_okb_nonnil t : tok_okb t = true -> t <> [].
Proof. destruct t; [discriminate|discriminate]. Qed.

Lemma wf_event_spec e :
  wf_event e <->
  fst e <> [] /\ forallb tok_okb (fst e) = true /\ (snd e = [[]] \/ forallb tok_okb (snd e) = true).
Proof.
  unfold wf_event, wf_eventb. rewrite andb_true_iff. destruct e as [cs os]. cbn [fst snd].
  split.
  - intros [Hc Ho]. split; [destruct cs; [discriminate|discriminate]|].
    split; [destruct cs; [discriminate|exact Hc]|].
    destruct os as [|[|x t] r]; auto. destruct r; auto.
  - intros (Hne & Hc & Ho). split; [destruct cs; [congruence|exact Hc]|].
    destruct Ho as [->|Ho]; [reflexivity|].
    destruct os as [|[|x t] r]; auto. destruct r; auto.
Qed.

Lemma denote_idem e : denote (denote e) = denote e.
Proof. destruct e as [cs [|o r]]; reflexivity. Qed.

Lemma join_nil_single d : TextFmt.join d [[]] = TextFmt.join d [].
Proof. reflexivity. Qed.

Lemma event_line_denote e : event_line (denote e) = event_line e.
Proof. destruct e as [cs [|o r]]; reflexivity. Qed.

Lemma write_line_event_line c e :
  write_line c e = event_line e ++ (if c then [TextFmt.TAB; DIGIT1; TextFmt.LF] else [TextFmt.LF]).
Proof. unfold write_line, event_line. now rewrite <- app_assoc. Qed.

Lemma write_line_denote c e : write_line c (denote e) = write_line c e.
Proof. now rewrite !write_line_event_line, event_line_denote. Qed.

Lemma write_file_denote c es : write_file c (map denote es) = write_file c es.
Proof.
  unfold write_file. do 2 f_equal. induction es as [|e r IH]; [reflexivity|].
  cbn [map flat_map]. now rewrite IH, write_line_denote.
Qed.

(** what the reader gives back is inside the quantifier of C07_read_write *)
Lemma denote_clean e : wf_event e -> clean_event (denote e) = true.
Proof.
  intros H. apply wf_event_spec in H as (Hne & Hc & Ho).
  apply clean_event_spec. destruct e as [cs os]. cbn [fst snd denote] in *. split.
  - apply clean_tokens_spec. split; [exact Hne|]. intros w Hw.
    rewrite forallb_forall in Hc. now apply tok_okb_clean, Hc.
  - destruct Ho as [->|Ho]; [reflexivity|]. destruct os as [|o r]; [reflexivity|].
    apply clean_tokens_spec. split; [discriminate|]. intros w Hw.
    rewrite forallb_forall in Ho. now apply tok_okb_clean, Ho.
Qed.

Lemma denote_wf e : wf_event e -> wf_event (denote e).
Proof.
  intros H. apply wf_event_spec in H as (Hne & Hc & Ho). apply wf_event_spec.
  destruct e as [cs os]. cbn [fst snd denote] in *. split; [exact Hne|]. split; [exact Hc|].
  destruct Ho as [->|Ho]; [now left|]. destruct os; [now left|now right].
Qed.

(** ** the round trip of one stage: a file of well-formed events (with or without the
    frequency column of the ndl2-compatible writer) is parsed into the events its token
    lists denote *)
Theorem stage_roundtrip compatible es :
  Forall wf_event es -> parse_file (write_file compatible es) = Some (map denote es).
Proof.
  intros H. rewrite <- write_file_denote. apply read_write.
  apply forallb_forall. intros e He. apply in_map_iff in He as [e0 [<- He0]].
  apply denote_clean. rewrite Forall_forall in H. now apply H.
Qed.

Theorem stage_roundtrip_slice compatible es start step :
  Forall wf_event es ->
  read_events (write_file compatible es) start step = Some (islice (map denote es) start step).
Proof.
  intros H. rewrite <- write_file_denote. apply read_write_slice.
  apply forallb_forall. intros e He. apply in_map_iff in He as [e0 [<- He0]].
  apply denote_clean. rewrite Forall_forall in H. now apply H.
Qed.

(** ** text level: [wf_lineb] says exactly "the line of a well-formed event" *)
Lemma tokens_no_sep ts c :
  forallb tok_okb ts = true -> c = TextFmt.TAB \/ c = TextFmt.LF \/ c = TextFmt.CR \/ c = TextFmt.US ->
  forall t, In t ts -> ~ In c t.
Proof.
  intros H Hc t Ht Hin. rewrite forallb_forall in H. specialize (H t Ht).
  apply tok_okb_spec in H as [_ H]. specialize (H c Hin). intuition congruence.
Qed.

Lemma join_tokens_no c ts :
  forallb tok_okb ts = true -> c = TextFmt.TAB \/ c = TextFmt.LF \/ c = TextFmt.CR ->
  ~ In c (TextFmt.join TextFmt.US ts).
Proof.
  intros H Hc Hin. apply in_join in Hin as [E|[w [Hw Hin]]].
  - unfold TextFmt.TAB, TextFmt.LF, TextFmt.CR, TextFmt.US in *. lia.
  - revert Hin. apply (tokens_no_sep ts c H); [tauto|exact Hw].
Qed.

Lemma split_join_tokens ts :
  ts <> [] -> forallb tok_okb ts = true -> TextFmt.split TextFmt.US (TextFmt.join TextFmt.US ts) = ts.
Proof. intros Hne H. apply split_join; [exact Hne|]. apply (tokens_no_sep ts _ H). tauto. Qed.

Lemma event_line_no e c : wf_event e -> c = TextFmt.LF \/ c = TextFmt.CR -> ~ In c (event_line e).
Proof.
  intros H Hc Hin. apply wf_event_spec in H as (_ & Hcs & Ho). unfold event_line in Hin.
  apply in_app_iff in Hin as [Hin|[E|Hin]].
  - revert Hin. apply join_tokens_no; [exact Hcs|tauto].
  - unfold TextFmt.TAB, TextFmt.LF, TextFmt.CR in *. lia.
  - destruct Ho as [Ho|Ho]; [rewrite Ho in Hin; destruct Hin|].
    revert Hin. apply join_tokens_no; [exact Ho|tauto].
Qed.

Lemma split_event_line e :
  wf_event e ->
  TextFmt.split TextFmt.TAB (event_line e) =
  [TextFmt.join TextFmt.US (fst e); TextFmt.join TextFmt.US (snd e)].
Proof.
  intros H. apply wf_event_spec in H as (_ & Hcs & Ho). unfold event_line.
  rewrite split_app by (apply join_tokens_no; [exact Hcs|tauto]). f_equal.
  apply split_clean. destruct Ho as [->|Ho]; [intros []|]. apply join_tokens_no; [exact Ho|tauto].
Qed.

Lemma field_okb_join ts : ts <> [] -> forallb tok_okb ts = true -> field_okb (TextFmt.join TextFmt.US ts) = true.
Proof. intros Hne H. unfold field_okb. now rewrite split_join_tokens. Qed.

Lemma join_nonnil_tokens ts : ts <> [] -> forallb tok_okb ts = true -> TextFmt.join TextFmt.US ts <> [].
Proof.
  intros Hne H. destruct ts as [|t r]; [congruence|]. cbn [forallb] in H.
  apply andb_true_iff in H as [Ht _]. apply tok_okb_nonnil in Ht.
  destruct r; cbn; [exact Ht|]. destruct t; [congruence|discriminate].
Qed.

Theorem wf_line_of_event e : wf_event e -> wf_line (event_line e).
Proof.
  intros H. unfold wf_line, wf_lineb. rewrite split_event_line by exact H.
  apply wf_event_spec in H as (Hne & Hcs & Ho). rewrite field_okb_join by assumption. cbn [andb].
  destruct Ho as [->|Ho]; [reflexivity|].
  destruct (snd e) as [|o r] eqn:E; [reflexivity|].
  destruct (TextFmt.join TextFmt.US (o :: r)) eqn:Ej; [reflexivity|]. rewrite <- Ej.
  apply field_okb_join; [discriminate|exact Ho].
Qed.

Theorem wf_line_is_event_line l :
  wf_line l -> exists e, wf_event e /\ snd e <> [[]] /\ l = event_line e.
Proof.
  unfold wf_line, wf_lineb. destruct (TextFmt.split TextFmt.TAB l) as [|cf [|of [|x r]]] eqn:Es; try discriminate.
  intros H. apply andb_true_iff in H as [Hc Ho].
  assert (El : l = cf ++ TextFmt.TAB :: of).
  { rewrite <- (join_split TextFmt.TAB l), Es. reflexivity. }
  exists (TextFmt.split TextFmt.US cf, match of with [] => [] | _ => TextFmt.split TextFmt.US of end).
  split; [|split].
  - apply wf_event_spec. cbn [fst snd]. split; [apply split_nonnil|]. split; [exact Hc|].
    right. destruct of; [reflexivity|exact Ho].
  - cbn [snd]. destruct of as [|y s]; [discriminate|]. intros E. unfold field_okb in Ho.
    rewrite E in Ho. discriminate Ho.
  - unfold event_line. cbn [fst snd]. rewrite join_split. rewrite El. do 2 f_equal.
    destruct of; [reflexivity|]. now rewrite join_split.
Qed.

(** the literal reading of "well-formed": exactly one tab, non-empty cue field, no LF / CR *)
Theorem wf_line_shape l :
  wf_line l ->
  count_occ Z.eq_dec l TextFmt.TAB = 1%nat /\ ~ In TextFmt.LF l /\ ~ In TextFmt.CR l /\
  exists cf of, l = cf ++ TextFmt.TAB :: of /\ cf <> [] /\
                (forall t, In t (TextFmt.split TextFmt.US cf) -> tok_okb t = true) /\
                (of = [] \/ forall t, In t (TextFmt.split TextFmt.US of) -> tok_okb t = true).
Proof.
  intros H. destruct (wf_line_is_event_line l H) as (e & He & Hs & ->).
  pose proof He as He'. apply wf_event_spec in He' as (Hne & Hcs & Ho).
  assert (Ho' : forallb tok_okb (snd e) = true) by (destruct Ho as [Ho|Ho]; [contradiction|exact Ho]).
  split; [|split; [|split]].
  - unfold event_line. rewrite count_occ_app. cbn [count_occ].
    destruct (Z.eq_dec TextFmt.TAB TextFmt.TAB) as [_|N]; [|congruence].
    rewrite (proj1 (count_occ_not_In Z.eq_dec _ _)) by (apply join_tokens_no; [exact Hcs|tauto]).
    rewrite (proj1 (count_occ_not_In Z.eq_dec _ _)) by (apply join_tokens_no; [exact Ho'|tauto]).
    reflexivity.
  - apply event_line_no; [exact He|tauto].
  - apply event_line_no; [exact He|tauto].
  - exists (TextFmt.join TextFmt.US (fst e)), (TextFmt.join TextFmt.US (snd e)).
    split; [reflexivity|]. split; [now apply join_nonnil_tokens|]. split.
    + rewrite split_join_tokens by assumption. now apply forallb_forall.
    + destruct (snd e) as [|o r] eqn:E; [now left|]. right.
      rewrite split_join_tokens; [now apply forallb_forall|discriminate|exact Ho'].
Qed.

(** * Part 3: the creation model writes well-formed events *)
Lemma map_flat_map' {A B C} (f : B -> C) (g : A -> list B) l :
  map f (flat_map g l) = flat_map (fun x => map f (g x)) l.
Proof. induction l as [|x r IH]; [reflexivity|]. cbn. now rewrite map_app, IH. Qed.

Lemma dedup_go_incl seen l x : In x (dedup_go seen l) -> In x l.
Proof.
  revert seen. induction l as [|y r IH]; intros seen H; [destruct H|]. cbn in H.
  destruct (mem_str y seen).
  - right. eapply IH; eauto.
  - destruct H as [<-|H]; [now left|]. right. eapply IH; eauto.
Qed.

Lemma dd_incl b l x : In x (dd b l) -> In x l.
Proof. destruct b; cbn; [apply dedup_go_incl|auto]. Qed.

Lemma dd_nonnil b l : l <> [] -> dd b l <> [].
Proof. destruct b; cbn; [|auto]. destruct l as [|x r]; [congruence|]. intros _. cbn. discriminate. Qed.

Lemma dd_tokens b l : forallb tok_okb l = true -> forallb tok_okb (dd b l) = true.
Proof.
  rewrite !forallb_forall. intros H x Hx. apply H. eapply dd_incl; eauto.
Qed.

(** the line of the documented model is the line of its token lists *)
Lemma spec_line_event_line o occ : spec_line o occ = map event_line (spec_event o occ).
Proof.
  destruct occ as [cues outs]. unfold spec_line, spec_event, event_line. cbv zeta.
  unfold tevent, TextFmt.event, WindowSpec.str, TextFmt.str in *. destruct (o_cue o).
  - destruct (cues ++ outs); [reflexivity|]. cbn [map fst snd]. now rewrite !wjoin_eq.
  - destruct (cues ++ outs); [reflexivity|]. cbn [map fst snd]. now rewrite !wjoin_eq.
  - destruct cues; [reflexivity|]. cbn [map fst snd]. now rewrite !wjoin_eq.
Qed.

Lemma text_of_event_lines es :
  text_of_lines (header_line :: map event_line es) = write_file false es.
Proof.
  unfold text_of_lines, write_file. cbn [flat_map]. rewrite <- app_assoc. cbn [app].
  rewrite header_line_eq. do 2 f_equal.
  induction es as [|e r IH]; [reflexivity|]. cbn [map flat_map]. now rewrite IH, write_line_event_line.
Qed.

Lemma split_none_in {A} (I : list (option A)) d x : In d (split_none I) -> In x d -> In (Some x) I.
Proof.
  revert d. induction I as [|[y|] r IH]; intros d Hd Hx; cbn in Hd.
  - destruct Hd as [<-|[]]. destruct Hx.
  - destruct (split_none r) as [|p ps] eqn:E.
    + destruct Hd as [<-|[]]. destruct Hx as [<-|[]]. now left.
    + destruct Hd as [<-|Hd].
      * destruct Hx as [<-|Hx]; [now left|]. right. apply (IH p); [now left|exact Hx].
      * right. apply (IH d); [now right|exact Hx].
  - destruct Hd as [<-|Hd]; [destruct Hx|]. right. eapply IH; eauto.
Qed.

Lemma intersperse_in {A} (L : list A) x : In (Some x) (intersperse_none L) -> In x L.
Proof.
  induction L as [|y r IH]; [intros []|]. cbn. destruct r as [|z r'].
  - intros [E|[]]. inversion E. now left.
  - intros [E|[E|H]]; [inversion E; now left|discriminate E|]. right. now apply IH.
Qed.

Section CreateWF.
Variable lower : Z -> list Z.
Variable is_space : Z -> bool.
Variable allowed : Z -> bool.

Lemma clean_chars lc s c :
  In c (clean lower allowed lc s) ->
  c = SP \/ (is_special c = false /\ In c (if lc then lower_str lower s else s)).
Proof.
  unfold clean, filter_symbols, remove_special. intros H.
  apply in_map_iff in H as [z [Hz Hin]]. apply in_map_iff in Hin as [y [Hy Hin]].
  destruct (allowed z); [|now left]. subst z.
  destruct (is_special y) eqn:Es; [now left|]. subst c. right. now split.
Qed.

Lemma no_brk_incl s t : (forall c, In c t -> In c s) -> no_brk s -> no_brk t.
Proof. intros Hi [H1 H2]. split; intro H; [apply H1|apply H2]; now apply Hi. Qed.

Lemma clean_no_brk lc s :
  (lc = true -> lower_ok lower) -> no_brk s -> no_brk (clean lower allowed lc s).
Proof.
  intros Hl [Hs1 Hs2].
  assert (Hsrc : no_brk (if lc then lower_str lower s else s)).
  { destruct lc; [|now split]. specialize (Hl eq_refl).
    split; intro H; apply in_flat_map in H as [c [Hc Hd]];
      (assert (Hc1 : c <> TextFmt.LF) by (intros ->; contradiction));
      (assert (Hc2 : c <> TextFmt.CR) by (intros ->; contradiction));
      destruct (Hl c Hc1 Hc2) as [N1 N2]; contradiction. }
  destruct Hsrc as [H1 H2].
  split; intro H; apply clean_chars in H as [E|[_ H]]; try discriminate E; contradiction.
Qed.

Lemma word_ok lc s w :
  (lc = true -> lower_ok lower) -> no_brk s ->
  In w (gen_words is_space (clean lower allowed lc s)) -> tok_okb w = true.
Proof.
  intros Hl Hs Hw.
  pose proof (gen_words_good lower is_space allowed lc s) as Hg.
  rewrite Forall_forall in Hg. destruct (Hg w Hw) as [Hne Hus].
  destruct (clean_no_brk lc s Hl Hs) as [Hlf Hcr].
  unfold gen_words in Hw. apply filter_In in Hw as [Hw _].
  apply in_map_iff in Hw as [p [<- Hp]].
  apply tok_okb_spec. split; [exact Hne|]. intros c Hc.
  assert (Hcl : In c (clean lower allowed lc s)).
  { eapply PreprocProofs.split_on_incl; [exact Hp|]. eapply strip_incl; eauto. }
  repeat split.
  - intros ->. apply clean_chars in Hcl as [E|[E _]]; discriminate E.
  - intros ->. contradiction.
  - intros ->. contradiction.
  - intros ->. apply Hus. exact Hc.
Qed.

Lemma piece_words_ok lc p w :
  (lc = true -> lower_ok lower) -> no_brk p ->
  In w (piece_words lower is_space allowed lc p) -> tok_okb w = true.
Proof.
  intros Hl Hp. apply word_ok; [exact Hl|].
  eapply no_brk_incl; [|exact Hp]. intros c. apply strip_incl.
Qed.

Lemma contexts_ok o corpus ws w :
  (o_lower o = true -> lower_ok lower) -> corpus_ok corpus ->
  In ws (contexts lower is_space allowed o corpus) -> In w ws -> tok_okb w = true.
Proof.
  intros Hl Hc Hws Hw. unfold contexts in Hws. destruct (o_ctx o).
  - unfold documents in Hws. apply in_map_iff in Hws as [d [<- Hd]].
    apply in_concat in Hw as [x [Hx Hw]].
    pose proof (split_none_in _ _ _ Hd Hx) as Hi.
    apply in_flat_map in Hi as [l [Hlc Hi]]. unfold items_of_line in Hi.
    apply intersperse_in in Hi. apply in_map_iff in Hi as [p [<- Hp]].
    eapply piece_words_ok; [exact Hl| |exact Hw].
    eapply no_brk_incl; [|exact (Hc l Hlc)]. intros c Hcp.
    eapply strip_incl. unfold cut in Hp. eapply cut_go_incl; eauto.
  - apply in_map_iff in Hws as [l [<- Hlc]].
    eapply piece_words_ok; [exact Hl|exact (Hc l Hlc)|exact Hw].
Qed.
End CreateWF.

Lemma wjoin_in d ws c : In c (WindowSpec.join d ws) -> c = d \/ exists w, In w ws /\ In c w.
Proof. rewrite wjoin_eq. apply in_join. Qed.

Lemma wjoin_nonnil d ws : ws <> [] -> (forall w, In w ws -> w <> []) -> WindowSpec.join d ws <> [].
Proof.
  intros Hne H. destruct ws as [|w r]; [congruence|].
  assert (Hw : w <> []) by (apply H; now left).
  destruct r; cbn; [exact Hw|]. destruct w; [congruence|discriminate].
Qed.

(** the n-grams (n = 2, 3) of "#w1#...#wk#" for fine words: at least one, all fine *)
Lemma ngram_tokens n toks :
  (n = 2 \/ n = 3)%nat -> toks <> [] -> forallb tok_okb toks = true ->
  let phrase := HASH :: WindowSpec.join HASH toks ++ [HASH] in
  ngrams n phrase <> [] /\ forallb tok_okb (ngrams n phrase) = true.
Proof.
  intros Hn Hne Hok phrase. rewrite forallb_forall in Hok.
  assert (Hj : WindowSpec.join HASH toks <> []).
  { apply wjoin_nonnil; [exact Hne|]. intros w Hw. now apply tok_okb_nonnil, Hok. }
  split.
  - intros E. apply (f_equal (@length _)) in E. rewrite ngrams_length in E.
    unfold phrase in E. cbn [length] in E. rewrite app_length in E. cbn [length] in E.
    destruct (WindowSpec.join HASH toks); [congruence|]. cbn [length] in E. lia.
  - apply forallb_forall. intros g Hg. apply ngrams_in in Hg; [|lia].
    destruct Hg as (a & b & Ep & Hlen). apply tok_okb_spec. split.
    + intros ->. cbn in Hlen. lia.
    + intros c Hc.
      assert (Hin : In c phrase) by (rewrite Ep; apply in_app_iff; right; apply in_app_iff; now left).
      unfold phrase in Hin. destruct Hin as [<-|Hin].
      { unfold HASH, TextFmt.TAB, TextFmt.LF, TextFmt.CR, TextFmt.US. lia. }
      apply in_app_iff in Hin as [Hin|[<-|[]]].
      * apply wjoin_in in Hin as [->|[w [Hw Hcw]]].
        { unfold HASH, TextFmt.TAB, TextFmt.LF, TextFmt.CR, TextFmt.US. lia. }
        specialize (Hok w Hw). apply tok_okb_spec in Hok as [_ Hok]. now apply Hok.
      * unfold HASH, TextFmt.TAB, TextFmt.LF, TextFmt.CR, TextFmt.US. lia.
Qed.

Lemma spec_event_wf o cues outs e :
  forallb tok_okb cues = true -> forallb tok_okb outs = true ->
  In e (spec_event o (cues, outs)) -> wf_event e.
Proof.
  intros Hc Ho He.
  assert (Hng : forall n, (n = 2 \/ n = 3)%nat ->
          In e (match cues ++ outs with
                | [] => []
                | _ => [(dd (o_dedup o) (ngrams n (HASH :: WindowSpec.join HASH (cues ++ outs) ++ [HASH])),
                         dd (o_dedup o) (cues ++ outs))]
                end) -> wf_event e).
  { intros n Hn Hin. destruct (cues ++ outs) as [|t ts] eqn:Et; [destruct Hin|].
    destruct Hin as [<-|[]]. rewrite <- Et.
    assert (Htoks : forallb tok_okb (cues ++ outs) = true) by (rewrite forallb_app, Hc, Ho; reflexivity).
    assert (Hne : cues ++ outs <> []) by (rewrite Et; discriminate).
    destruct (ngram_tokens n (cues ++ outs) Hn Hne Htoks) as [Hn1 Hn2].
    apply wf_event_spec. cbn [fst snd]. split; [now apply dd_nonnil|].
    split; [now apply dd_tokens|]. right. now apply dd_tokens. }
  unfold spec_event in He. destruct (o_cue o).
  - apply (Hng 3%nat); [now right|exact He].
  - apply (Hng 2%nat); [now left|exact He].
  - destruct cues as [|c cs] eqn:Ec; [destruct He|]. destruct He as [<-|[]]. rewrite <- Ec in *.
    apply wf_event_spec. cbn [fst snd]. split; [apply dd_nonnil; rewrite Ec; discriminate|].
    split; [now apply dd_tokens|]. right. now apply dd_tokens.
Qed.

Section CreateStage.
Variable lower : Z -> list Z.
Variable is_space : Z -> bool.
Variable allowed : Z -> bool.

Lemma spec_lines_events o corpus :
  spec_lines lower is_space allowed o corpus = map event_line (spec_events lower is_space allowed o corpus).
Proof.
  unfold spec_lines, spec_events. rewrite map_flat_map'. apply flat_map_ext. intros ws.
  unfold context_lines, context_events. rewrite map_flat_map'. apply flat_map_ext. intros occ.
  apply spec_line_event_line.
Qed.

(** ** every event written by the creation model is well-formed - for every corpus whose lines
    contain no line break (what a text-mode reader yields), every option combination, every
    [is_space] and [allowed] oracle, and every [lower] oracle that creates no line break *)
Theorem create_wellformed o corpus :
  (o_lower o = true -> lower_ok lower) -> corpus_ok corpus ->
  Forall wf_event (spec_events lower is_space allowed o corpus).
Proof.
  intros Hl Hc. apply Forall_forall. intros e He. unfold spec_events in He.
  apply in_flat_map in He as [ws [Hws He]]. unfold context_events in He.
  apply in_flat_map in He as [[cues outs] [Hocc He]].
  pose proof (spec_occurrences_words o ws cues outs Hocc) as Hincl.
  assert (Hw : forall w, In w (cues ++ outs) -> tok_okb w = true).
  { intros w Hw. eapply contexts_ok; [exact Hl|exact Hc|exact Hws|]. now apply Hincl. }
  eapply spec_event_wf; [| |exact He]; apply forallb_forall; intros w Hin; apply Hw, in_app_iff; tauto.
Qed.

Theorem create_lines_wellformed o corpus :
  (o_lower o = true -> lower_ok lower) -> corpus_ok corpus ->
  Forall wf_line (spec_lines lower is_space allowed o corpus).
Proof.
  intros Hl Hc. rewrite spec_lines_events. apply Forall_forall. intros l Hin.
  apply in_map_iff in Hin as [e [<- He]]. apply wf_line_of_event.
  pose proof (create_wellformed o corpus Hl Hc) as H. rewrite Forall_forall in H. now apply H.
Qed.

(** the file of the loop-faithful model [Preproc.create_event_file] is the writer's file of these events *)
Theorem create_text o corpus : opts_ok o ->
  exists lines, create_event_file lower is_space allowed o false corpus = RFile lines /\
                text_of_lines lines = write_file false (spec_events lower is_space allowed o corpus).
Proof.
  intros Hok. eexists. split; [now apply fresh_target_written|].
  rewrite spec_lines_events. apply text_of_event_lines.
Qed.
End CreateStage.

(** * Part 4: the filter model preserves well-formedness *)
Lemma map_get_val m t : map_get m t = [] \/ exists k, In (k, map_get m t) m.
Proof.
  induction m as [|[k v] r IH]; [now left|]. cbn. destruct (PyText.str_eqb k t).
  - right. exists k. now left.
  - destruct IH as [E|[k' H]]; [now left|]. right. exists k'. now right.
Qed.

Lemma process_tokens r ts :
  rule_ok r -> forallb tok_okb ts = true -> forallb tok_okb (process r ts) = true.
Proof.
  intros Hr H. rewrite forallb_forall in *. destruct r as [|K|K|m]; cbn [process].
  - exact H.
  - intros t Ht. apply filter_In in Ht as [Ht _]. now apply H.
  - intros t Ht. apply filter_In in Ht as [Ht _]. now apply H.
  - intros t Ht. apply filter_In in Ht as [Ht Hnn]. apply in_map_iff in Ht as [t0 [<- _]].
    destruct (map_get_val m t0) as [E|[k Hk]]; [rewrite E in Hnn; discriminate Hnn|].
    unfold rule_ok, rule_okb in Hr. rewrite forallb_forall in Hr. specialize (Hr _ Hk). cbn [snd] in Hr.
    unfold tok_okb. destruct (map_get m t0); [discriminate Hnn|exact Hr].
Qed.

Lemma process_empty_name r :
  rule_ok r -> process r [[]] = [[]] \/ forallb tok_okb (process r [[]]) = true.
Proof.
  intros Hr. destruct r as [|K|K|m]; cbn [process filter map].
  - now left.
  - destruct (mem_tok [] K); [now left|now right].
  - destruct (negb (mem_tok [] K)); [now left|now right].
  - right. destruct (map_get_val m []) as [E|[k Hk]].
    + rewrite E. reflexivity.
    + unfold rule_ok, rule_okb in Hr. rewrite forallb_forall in Hr. specialize (Hr _ Hk). cbn [snd] in Hr.
      destruct (map_get m []) as [|x v] eqn:E; [reflexivity|]. cbn [is_nil negb forallb tok_okb]. now rewrite Hr.
Qed.

Lemma job_event_wf rc ro e e' :
  rule_ok rc -> rule_ok ro -> wf_event e -> job_event rc ro (denote e) = Some e' -> wf_event e'.
Proof.
  intros Hrc Hro He. apply wf_event_spec in He as (Hne & Hc & Ho).
  unfold job_event. destruct e as [cs os]. cbn [fst snd denote] in *.
  destruct (process rc cs) as [|c cs'] eqn:Ec; [discriminate|]. cbn [is_nil].
  intros E. inversion E; subst e'. apply wf_event_spec. cbn [fst snd].
  split; [discriminate|]. split; [rewrite <- Ec; now apply process_tokens|].
  destruct Ho as [->|Ho].
  - now apply process_empty_name.
  - destruct os as [|o r]; [now apply process_empty_name|]. right. now apply process_tokens.
Qed.

(** the producer-side normal form of an event: [['']] written as the empty list *)
Definition unname (e : tevent) : tevent := (fst e, match snd e with [[]] => [] | os => os end).

Lemma unname_spec e :
  wf_event e ->
  event_line (unname e) = event_line e /\ reread (snd (unname e)) = snd (denote e) /\
  forallb tok_okb (fst e) = true /\ forallb tok_okb (snd (unname e)) = true.
Proof.
  intros H. apply wf_event_spec in H as (_ & Hc & Ho). destruct e as [cs os]. cbn [fst snd unname denote] in *.
  destruct Ho as [->|Ho]; [repeat split; auto|].
  destruct os as [|[|x t] r]; [repeat split; auto| |repeat split; auto].
  destruct r; [discriminate Ho|repeat split; auto].
Qed.

Lemma tok_clean_tok t : tok_okb t = true -> clean_tok t.
Proof.
  intros H. apply tok_okb_spec in H as [_ H]. unfold clean_tok.
  repeat split; intro Hin; specialize (H _ Hin); intuition congruence.
Qed.

Lemma format_event_line e : format_event e = event_line e ++ [TextFmt.LF].
Proof.
  unfold format_event, event_line. rewrite !pjoin_eq. rewrite <- app_assoc. reflexivity.
Qed.

Lemma format_write_line e : format_event e = write_line false e.
Proof. now rewrite format_event_line, write_line_event_line. Qed.

(** the filter reads the line of a well-formed event as the reader does *)
Lemma filter_parse_event_line e :
  wf_event e -> Filter.parse_line (event_line e ++ [TextFmt.LF]) = Some (denote e).
Proof.
  intros H. destruct (unname_spec e H) as (El & Er & Hc & Ho).
  apply wf_event_spec in H as (Hne & _ & _).
  rewrite <- El, <- format_event_line.
  replace (unname e) with (fst e, snd (unname e)) by (destruct e; reflexivity).
  rewrite parse_format.
  - rewrite Er. destruct e; reflexivity.
  - exact Hne.
  - intros t Ht. apply tok_clean_tok. apply in_app_iff in Ht as [Ht|Ht];
      [rewrite forallb_forall in Hc; now apply Hc|rewrite forallb_forall in Ho; now apply Ho].
Qed.

Lemma job_event_line rc ro e :
  wf_event e ->
  job rc ro (event_line e ++ [TextFmt.LF]) =
  match job_event rc ro (denote e) with
  | None => JDrop
  | Some e' => JLine (event_line e' ++ [TextFmt.LF])
  end.
Proof.
  intros H. unfold job. rewrite filter_parse_event_line by exact H.
  destruct (job_event rc ro (denote e)); [now rewrite format_event_line|reflexivity].
Qed.

Lemma collect_event_lines rc ro es :
  Forall wf_event es ->
  Filter.collect (map (job rc ro) (map (fun e => event_line e ++ [TextFmt.LF]) es)) =
  Some (map (fun e => event_line e ++ [TextFmt.LF]) (filter_events rc ro es)).
Proof.
  unfold filter_events. induction 1 as [|e r He _ IH]; [reflexivity|].
  cbn [map Filter.collect filter_map]. rewrite job_event_line by exact He.
  destruct (job_event rc ro (denote e)) as [e'|]; cbn [Filter.collect]; rewrite IH; reflexivity.
Qed.

Lemma filter_events_wf rc ro es :
  rule_ok rc -> rule_ok ro -> Forall wf_event es -> Forall wf_event (filter_events rc ro es).
Proof.
  intros Hrc Hro. unfold filter_events. induction 1 as [|e r He _ IH]; [constructor|].
  cbn [map filter_map]. destruct (job_event rc ro (denote e)) as [e'|] eqn:E; [|exact IH].
  constructor; [|exact IH]. exact (job_event_wf rc ro e e' Hrc Hro He E).
Qed.

(** a file of well-formed events as the list of its lines *)
Definition event_file_lines (hdr : str) (es : list tevent) : list str :=
  (hdr ++ [TextFmt.LF]) :: map (fun e => event_line e ++ [TextFmt.LF]) es.

Lemma write_file_lines es : write_file false es = concat (event_file_lines (header false) es).
Proof.
  unfold write_file, event_file_lines. cbn [concat]. rewrite <- app_assoc. cbn [app]. do 2 f_equal.
  induction es as [|e r IH]; [reflexivity|]. cbn [flat_map map concat].
  now rewrite IH, write_line_event_line.
Qed.

Lemma event_file_lines_full hdr es :
  no_brk hdr -> Forall wf_event es ->
  forall l, In l (event_file_lines hdr es) -> full_line l /\ ~ In PyText.CR l.
Proof.
  intros [H1 H2] Hes l [<-|Hl].
  - split; [exists hdr; split; [reflexivity|exact H1]|].
    intros Hin. apply in_app_iff in Hin as [Hin|[E|[]]]; [contradiction|discriminate E].
  - apply in_map_iff in Hl as [e [<- He]]. rewrite Forall_forall in Hes. specialize (Hes e He).
    split.
    + exists (event_line e). split; [reflexivity|]. apply event_line_no; [exact Hes|now left].
    + intros Hin. apply in_app_iff in Hin as [Hin|[E|[]]]; [|discriminate E].
      revert Hin. apply event_line_no; [exact Hes|now right].
Qed.

(** ** the filter stage: a file of well-formed events (any header line) is mapped to the file of
    the filtered events, which are well-formed again; nothing is raised; for every chunk size *)
Theorem filter_stage_hdr rc ro k hdr es :
  (1 <= k)%nat -> no_brk hdr -> Forall wf_event es ->
  filter_text_pool rc ro k (concat (event_file_lines hdr es)) =
  Some (concat (event_file_lines hdr (filter_events rc ro es))).
Proof.
  intros Hk Hh Hes. rewrite filter_text_pool_eq by exact Hk. unfold filter_text.
  rewrite file_lines_of_full by (now apply event_file_lines_full).
  unfold event_file_lines at 1. unfold filter_lines.
  rewrite collect_event_lines by exact Hes. reflexivity.
Qed.

Theorem filter_stage rc ro k es :
  (1 <= k)%nat -> rule_ok rc -> rule_ok ro -> Forall wf_event es ->
  filter_text_pool rc ro k (write_file false es) = Some (write_file false (filter_events rc ro es)) /\
  Forall wf_event (filter_events rc ro es).
Proof.
  intros Hk Hrc Hro Hes. split; [|now apply filter_events_wf].
  rewrite !write_file_lines. apply filter_stage_hdr; [exact Hk| |exact Hes].
  destruct (header_clean false). now split.
Qed.

(** line by line: a well-formed line is dropped or mapped to a well-formed line *)
Theorem filter_line_wellformed rc ro l :
  rule_ok rc -> rule_ok ro -> wf_line l ->
  job rc ro (l ++ [TextFmt.LF]) = JDrop \/
  exists l', job rc ro (l ++ [TextFmt.LF]) = JLine (l' ++ [TextFmt.LF]) /\ wf_line l'.
Proof.
  intros Hrc Hro Hl. destruct (wf_line_is_event_line l Hl) as (e & He & _ & ->).
  rewrite job_event_line by exact He.
  destruct (job_event rc ro (denote e)) as [e'|] eqn:E; [right|now left].
  exists (event_line e'). split; [reflexivity|]. apply wf_line_of_event.
  exact (job_event_wf rc ro e e' Hrc Hro He E).
Qed.

(** * Part 5: the composition *)
Section Compose.
Variable lower : Z -> list Z.
Variable is_space : Z -> bool.
Variable allowed : Z -> bool.

Notation E1 o corpus := (spec_events lower is_space allowed o corpus).

(** creation -> reader *)
Theorem create_roundtrip o corpus :
  opts_ok o -> (o_lower o = true -> lower_ok lower) -> corpus_ok corpus ->
  exists lines,
    create_event_file lower is_space allowed o false corpus = RFile lines /\
    Forall wf_line (tl lines) /\
    parse_file (text_of_lines lines) = Some (map denote (E1 o corpus)).
Proof.
  intros Hok Hl Hc. exists (header_line :: spec_lines lower is_space allowed o corpus).
  split; [now apply fresh_target_written|]. split; [now apply create_lines_wellformed|].
  rewrite spec_lines_events, text_of_event_lines. apply stage_roundtrip.
  now apply create_wellformed.
Qed.

(** creation -> filter -> reader -> counting *)
Theorem pipeline o corpus rc ro k :
  opts_ok o -> (o_lower o = true -> lower_ok lower) -> corpus_ok corpus ->
  rule_ok rc -> rule_ok ro -> (1 <= k)%nat ->
  let E2 := filter_events rc ro (E1 o corpus) in
  Forall wf_event (E1 o corpus) /\ Forall wf_event E2 /\
  pipeline_text lower is_space allowed o corpus rc ro k = Some (write_file false E2) /\
  pipeline_events lower is_space allowed o corpus rc ro k = Some (map denote E2) /\
  (forall n, (1 <= n)%nat ->
     exists ne cc oc, cues_outcomes (write_file false E2) n = Some (ne, cc, oc) /\
                      exact_counts ne cc oc (map denote E2)).
Proof.
  intros Hok Hl Hc Hrc Hro Hk E2.
  pose proof (create_wellformed lower is_space allowed o corpus Hl Hc) as H1.
  destruct (filter_stage rc ro k _ Hk Hrc Hro H1) as [Hf H2]. fold E2 in Hf, H2.
  assert (Ht : pipeline_text lower is_space allowed o corpus rc ro k = Some (write_file false E2)).
  { unfold pipeline_text. rewrite fresh_target_written by exact Hok.
    rewrite spec_lines_events, text_of_event_lines. exact Hf. }
  assert (Hp : parse_file (write_file false E2) = Some (map denote E2)) by now apply stage_roundtrip.
  split; [exact H1|]. split; [exact H2|]. split; [exact Ht|]. split.
  - unfold pipeline_events. now rewrite Ht.
  - intros n Hn. pose proof (cues_outcomes_exact (write_file false E2) n Hn) as Hcnt.
    rewrite Hp in Hcnt. destruct (cues_outcomes (write_file false E2) n) as [[[ne cc] oc]|]; [|contradiction].
    exists ne, cc, oc. now split.
Qed.
End Compose.

(** the event writer as producer: any container form of well-formed events *)
Theorem writer_roundtrip compatible l es :
  Forall wf_event es -> Forall2 represents l (map denote es) ->
  parse_file (events_to_file compatible l) = Some (map denote es).
Proof.
  intros H Hr. apply read_write_container; [|exact Hr].
  apply forallb_forall. intros e He. apply in_map_iff in He as [e0 [<- He0]].
  apply denote_clean. rewrite Forall_forall in H. now apply H.
Qed.

(** counting any stage file: the direct counts of the denoted events *)
Theorem stage_counts compatible es n :
  Forall wf_event es -> (1 <= n)%nat ->
  exists ne cc oc, cues_outcomes (write_file compatible es) n = Some (ne, cc, oc) /\
                   exact_counts ne cc oc (map denote es).
Proof.
  intros H Hn. pose proof (cues_outcomes_exact (write_file compatible es) n Hn) as Hcnt.
  rewrite (stage_roundtrip compatible es H) in Hcnt.
  destruct (cues_outcomes (write_file compatible es) n) as [[[ne cc] oc]|]; [|contradiction].
  exists ne, cc, oc. now split.
Qed.

(** ** learning on the events of a stage file.  The id-level learner models work on numbered
    events; every learner returns [learn] of exactly the numbered events of the file ... *)
Section Learn.
  Variable R : Type.
  Variables (rO rI : R) (radd rmul rsub : R -> R -> R) (ropp : R -> R).
  Hypothesis Rth : ring_theory rO rI radd rmul rsub ropp (@eq R).

  Theorem stage_dict_learn (p : params R) (po : pol) (fc fo : str -> Z) compatible (es : list tevent) :
    Forall wf_event es ->
    exists evs, parse_file (write_file compatible es) = Some evs /\ evs = map denote es /\
      let ids := map (number_event fc fo) evs in
      match dict_run R rO radd rmul rsub p po ids ([], ZZM.empty R), prep_all po ids with
      | Some (_, s), Some ids' =>
        forall o c, dget R rO s o c = learn R rO rI radd rmul rsub p ids' (zero_w R rO) o c
      | None, None => True
      | _, _ => False
      end.
  Proof.
    intros H. exists (map denote es). split; [now apply stage_roundtrip|]. split; [reflexivity|].
    cbv zeta. apply (dict_from_zero R rO rI radd rmul rsub ropp Rth).
  Qed.

  (** ... and the numbering is irrelevant at the level of names: composing the numbering with
      injective maps of the ids renames the result (hash order, old/new label order, ...) *)
  Theorem numbering_irrelevant (fc fo : str -> Z) (f g : Z -> Z) (p p' : params R) (evs : list tevent) W W' :
    injective f -> injective g ->
    (forall c, alpha p' (f c) = alpha p c) ->
    beta1 p' = beta1 p -> beta2 p' = beta2 p -> lam p' = lam p ->
    (forall o c, W' (g o) (f c) = W o c) ->
    forall o c,
      learn R rO rI radd rmul rsub p' (map (number_event (fun t => f (fc t)) (fun t => g (fo t))) evs) W' (g o) (f c) =
      learn R rO rI radd rmul rsub p (map (number_event fc fo) evs) W o c.
  Proof.
    intros Hf Hg Ha Hb1 Hb2 Hl HW o c.
    rewrite <- (equivariance R rO rI radd rmul rsub ropp Rth f g p p' (map (number_event fc fo) evs) W W'
                             Hf Hg Ha Hb1 Hb2 Hl HW o c).
    f_equal. rewrite map_map. apply map_ext. intros e. unfold rename_event, number_event. cbn [fst snd].
    now rewrite !map_map.
  Qed.

  (** ... and so is the order of the tokens inside an event (the set order of
      remove_duplicates=True in the real creation stage) *)
  Theorem token_order_irrelevant (fc fo : str -> Z) (p : params R) (evs evs' : list tevent) W :
    Forall2 tperm evs evs' ->
    forall o c, learn R rO rI radd rmul rsub p (map (number_event fc fo) evs) W o c =
                learn R rO rI radd rmul rsub p (map (number_event fc fo) evs') W o c.
  Proof.
    intros H. apply (cue_order R rO rI radd rmul rsub ropp Rth).
    induction H as [|e e' r r' [Hc Ho] _ IH]; [constructor|]. cbn [map]. constructor; [|exact IH].
    split; cbn [number_event fst snd]; now apply Permutation_map.
  Qed.
End Learn.

(** * The oracle table handed to the models by the harness satisfies [lower_ok] when its check says so *)
Lemma no_brkb_spec s : no_brkb s = true <-> no_brk s.
Proof.
  unfold no_brkb, no_brk. rewrite forallb_forall. split.
  - intros H. split; intro Hin; specialize (H _ Hin); vm_compute in H; discriminate H.
  - intros [H1 H2] c Hc. apply negb_true_iff, orb_false_iff. split; apply Z.eqb_neq; intros ->; contradiction.
Qed.

Theorem lower_table_ok tab : lower_tab_okb tab = true -> lower_ok (lookup_lower tab).
Proof.
  intros H c Hc1 Hc2. induction tab as [|[k v] r IH]; cbn [lookup_lower].
  - split; intros [E|[]]; congruence.
  - cbn [lower_tab_okb forallb fst snd] in H. apply andb_true_iff in H as [Hkv Hr].
    destruct (Z.eqb_spec k c) as [->|_]; [|now apply IH].
    apply orb_true_iff in Hkv as [Hkv|Hkv]; [|now apply no_brkb_spec].
    apply orb_true_iff in Hkv as [Hkv|Hkv]; apply Z.eqb_eq in Hkv; congruence.
Qed.

Lemma corpus_okb_spec corpus : corpus_okb corpus = true <-> corpus_ok corpus.
Proof.
  unfold corpus_okb, corpus_ok. rewrite forallb_forall. split; intros H l Hl; apply no_brkb_spec, H, Hl.
Qed.

(** * What lies outside: refutations / boundary examples *)
(** a rename rule whose value contains a separator breaks well-formedness (excluded by [rule_ok]) *)
Lemma filter_map_value_with_separator_refuted :
  exists rc ro e e', wf_event e /\ job_event rc ro (denote e) = Some e' /\ ~ wf_event e'.
Proof.
  exists (RMap [([97], [98; 95; 99])]), RAll, ([[97]], [[120]]), ([[98; 95; 99]], [[120]]).
  split; [reflexivity|]. split; [reflexivity|]. vm_compute. discriminate.
Qed.

(** a [lower] oracle that creates a line break (no CPython character does) breaks the created file *)
Lemma lower_creating_linebreak_refuted :
  exists lower o corpus, corpus_ok corpus /\
    ~ Forall wf_event (spec_events lower (fun _ => false) (fun _ => true) o corpus).
Proof.
  exists (fun c => if c =? 65 then [97; 10; 98] else [c]),
         {| o_ctx := CtxLine; o_ev := EvLine; o_cue := CueW2W; o_lower := true; o_dedup := false |},
         [[65]].
  split.
  - intros l [<-|[]]. split; intros [E|[]]; discriminate E.
  - intros H. vm_compute in H. inversion H as [|? ? Hh _]. discriminate Hh.
Qed.

(** the ndl2-compatible writer output (three columns) is accepted by reader, counting and the
    learners (stage_roundtrip with compatible = true) but NOT by the filter, which unpacks exactly
    two fields: filter_event_file raises ValueError on it *)
Lemma filter_rejects_compatible_file_refuted :
  exists es, Forall wf_event es /\ filter_text RAll RAll (write_file true es) = None /\
             parse_file (write_file true es) = Some (map denote es).
Proof.
  exists [([[97]], [[120]])]. split; [constructor; [reflexivity|constructor]|].
  split; vm_compute; reflexivity.
Qed.

(** * A file that passes the executable check [wf_textb] (run by the harness on the REAL
    intermediate files) is parsed into the events its lines denote *)
Lemma lines_eq s : TextFmt.lines s = PyText.split_lines s.
Proof.
  induction s as [|c r IH]; [reflexivity|]. cbn [TextFmt.lines PyText.split_lines]. rewrite IH.
  reflexivity.
Qed.

Lemma parse_event_line e :
  wf_event e -> TextFmt.parse_line (event_line e ++ [TextFmt.LF]) = Some (denote e, 1).
Proof.
  intros H. unfold TextFmt.parse_line.
  rewrite strip_lf_line by (apply event_line_no; [exact H|now left]).
  rewrite split_event_line by exact H.
  apply wf_event_spec in H as (Hne & Hc & Ho). rewrite split_join_tokens by assumption.
  destruct e as [cs os]. cbn [fst snd denote] in *.
  destruct Ho as [->|Ho]; [reflexivity|]. destruct os as [|o r]; [reflexivity|].
  rewrite split_join_tokens; [reflexivity|discriminate|exact Ho].
Qed.

Lemma last_is_lf l : match rev l with c :: _ => c =? TextFmt.LF | [] => false end = true ->
  exists b, l = b ++ [TextFmt.LF].
Proof.
  intros H. destruct (rev l) as [|c r] eqn:E; [discriminate|]. apply Z.eqb_eq in H. subst c.
  exists (rev r). rewrite <- (rev_involutive l), E. reflexivity.
Qed.

Theorem wf_text_parses text :
  wf_textb text = true ->
  exists es, Forall wf_event es /\
             tl (TextFmt.lines (unl text)) = map (fun e => event_line e ++ [TextFmt.LF]) es /\
             parse_file text = Some (map denote es).
Proof.
  unfold wf_textb, parse_file, read_events. destruct (TextFmt.lines (unl text)) as [|h body] eqn:El; [discriminate|].
  intros H. rewrite islice_all. cbn [tl].
  assert (Hfull : forall l, In l body -> ~ In TextFmt.LF (removelast l) ).
  { intros l Hl. assert (Hin : In l (PyText.split_lines (unl text))) by (rewrite <- lines_eq, El; now right).
    destruct (split_lines_all _ _ Hin) as [(b & -> & Hb)|[_ Hb]].
    - now rewrite removelast_last.
    - intros Hx. apply Hb. clear - Hx. induction l as [|x r IH]; [destruct Hx|].
      cbn in Hx. destruct r; [destruct Hx|]. destruct Hx as [E|Hx]; [left; exact E|right; now apply IH]. }
  clear El. induction body as [|l r IH].
  - exists []. repeat split. constructor.
  - cbn [forallb] in H. apply andb_true_iff in H as [Hl Hr]. apply andb_true_iff in Hl as [Hw Hlast].
    destruct IH as (es & Hes & Hmap & Hparse); [exact Hr|intros x Hx; apply Hfull; now right|].
    destruct (last_is_lf l Hlast) as [b ->].
    assert (Hb : ~ In TextFmt.LF b).
    { specialize (Hfull (b ++ [TextFmt.LF]) (or_introl eq_refl)). now rewrite removelast_last in Hfull. }
    rewrite strip_lf_line in Hw by exact Hb.
    destruct (wf_line_is_event_line b Hw) as (e & He & _ & ->).
    exists (e :: es). split; [now constructor|]. split; [cbn [map]; now rewrite Hmap|].
    cbn [expand_lines map]. rewrite parse_event_line by exact He. rewrite Hparse. reflexivity.
Qed.

(** * The compiled learners on the numbered events of a stage file (instances of the C01 theorems) *)
Section ParallelLearn.
  Variable R : Type.
  Variables (rO rI : R) (radd rmul rsub : R -> R -> R) (ropp : R -> R).
  Hypothesis Rth : ring_theory rO rI radd rmul rsub ropp (@eq R).

  Theorem stage_threading_learn (fc fo : str -> Z) compatible (es : list tevent) p n_cues all n tr m o c :
    Forall wf_event es ->
    let ids := map (number_event fc fo) (map denote es) in
    (0 <= n_cues < two32)%Z -> NoDup all -> Forall oko32 all ->
    cues_ok (okc_n n_cues) ids -> (1 <= n)%nat ->
    interleaving (map (fun part => item_actions part ids) (slice_list all n)) tr ->
    oko32 o -> okc_n n_cues c ->
    parse_file (write_file compatible es) = Some (map denote es) /\
    kget R rO n_cues (run_trace R rO radd rmul rsub (kstore R) (kget R rO n_cues) (kset R n_cues) p tr m) o c =
    if mem_z o all then learn R rO rI radd rmul rsub p ids (kget R rO n_cues m) o c
    else kget R rO n_cues m o c.
  Proof.
    intros H ids. intros. split; [now apply stage_roundtrip|].
    now apply (threading_any_schedule R rO rI radd rmul rsub ropp Rth) with (n := n).
  Qed.

  Theorem stage_openmp_learn (fc fo : str -> Z) compatible (es : list tevent) p n_cues all parts files trs m o c :
    Forall wf_event es ->
    let ids := map (number_event fc fo) (map denote es) in
    (0 <= n_cues < two32)%Z -> NoDup all -> Forall oko32 all ->
    concat parts = all -> concat files = ids ->
    Forall (cues_ok (okc_n n_cues)) files ->
    files_interleaved parts files trs ->
    oko32 o -> okc_n n_cues c ->
    parse_file (write_file compatible es) = Some (map denote es) /\
    kget R rO n_cues (run_files R rO radd rmul rsub (kstore R) (kget R rO n_cues) (kset R n_cues)
                                p parts files trs m) o c =
    if mem_z o all then learn R rO rI radd rmul rsub p ids (kget R rO n_cues m) o c
    else kget R rO n_cues m o c.
  Proof.
    intros H ids Hn Hnd Hall Hp Hf. intros. split; [now apply stage_roundtrip|]. rewrite <- Hf.
    now apply (openmp_any_schedule R rO rI radd rmul rsub ropp Rth).
  Qed.
End ParallelLearn.

(** * The whole chain down to the learner: corpus -> creation -> filter -> reader -> dict_ndl *)
Section PipelineLearn.
  Variable R : Type.
  Variables (rO rI : R) (radd rmul rsub : R -> R -> R) (ropp : R -> R).
  Hypothesis Rth : ring_theory rO rI radd rmul rsub ropp (@eq R).

  Theorem pipeline_dict_learn lower is_space allowed (o : opts) corpus rc ro k
          (p : params R) (po : pol) (fc fo : str -> Z) :
    opts_ok o -> (o_lower o = true -> lower_ok lower) -> corpus_ok corpus ->
    rule_ok rc -> rule_ok ro -> (1 <= k)%nat ->
    exists evs,
      pipeline_events lower is_space allowed o corpus rc ro k = Some evs /\
      evs = map denote (filter_events rc ro (spec_events lower is_space allowed o corpus)) /\
      let ids := map (number_event fc fo) evs in
      match dict_run R rO radd rmul rsub p po ids ([], ZZM.empty R), prep_all po ids with
      | Some (_, s), Some ids' =>
        forall ou c, dget R rO s ou c = learn R rO rI radd rmul rsub p ids' (zero_w R rO) ou c
      | None, None => True
      | _, _ => False
      end.
  Proof.
    intros Hok Hl Hc Hrc Hro Hk.
    destruct (pipeline lower is_space allowed o corpus rc ro k Hok Hl Hc Hrc Hro Hk) as (_ & _ & _ & He & _).
    eexists. split; [exact He|]. split; [reflexivity|].
    cbv zeta. apply (dict_from_zero R rO rI radd rmul rsub ropp Rth).
  Qed.
End PipelineLearn.
