(** Proofs about the windowing models of C09: the loop-faithful model
    [Preproc.create_event_file] refines the documented model
    [WindowSpec.spec_create]; characterisations of windows and n-grams; no
    context bleeding; dependence on the [allowed] oracle only through the
    characters of the text. *)
From Coq Require Import ZArith List Bool Arith Lia.
From PV Require Import Lists WindowSpec Preproc.
Import ListNotations.
Open Scope Z_scope.

(** * Part 1: join / split *)

Lemma join_cons d w r : r <> [] -> join d (w :: r) = w ++ d :: join d r.
Proof. destruct r; [congruence|reflexivity]. Qed.

Lemma join_single d w : join d [w] = w.
Proof. reflexivity. Qed.

Lemma split_on_nonnil d s : split_on d s <> [].
Proof.
  induction s as [|c r IH]; cbn; [discriminate|].
  destruct (c =? d); [discriminate|]. destruct (split_on d r); discriminate.
Qed.

Lemma split_on_app_nosep d w s : ~ In d w ->
  split_on d (w ++ s) = match split_on d s with p :: ps => (w ++ p) :: ps | [] => [w] end.
Proof.
  induction w as [|c w IH]; intros Hn; cbn.
  - pose proof (split_on_nonnil d s). destruct (split_on d s); [congruence|reflexivity].
  - destruct (Z.eqb_spec c d) as [->|_]; [exfalso; apply Hn; now left|].
    rewrite IH by (intro; apply Hn; now right).
    destruct (split_on d s); reflexivity.
Qed.

Lemma split_on_nosep d w : ~ In d w -> split_on d w = [w].
Proof.
  intros H. rewrite <- (app_nil_r w) at 1. rewrite split_on_app_nosep by exact H. cbn.
  now rewrite app_nil_r.
Qed.

Lemma split_on_join d ws : ws <> [] -> Forall (fun w => ~ In d w) ws -> split_on d (join d ws) = ws.
Proof.
  induction ws as [|w r IH]; intros Hne Hf; [congruence|].
  inversion Hf as [|? ? Hw Hr]; subst.
  destruct r as [|w2 r].
  - cbn. now apply split_on_nosep.
  - rewrite join_cons by discriminate. rewrite split_on_app_nosep by exact Hw.
    cbn [split_on]. rewrite Z.eqb_refl. rewrite IH; [|discriminate|exact Hr].
    now rewrite app_nil_r.
Qed.

Lemma join_app d a b : a <> [] -> b <> [] -> join d (a ++ b) = join d a ++ d :: join d b.
Proof.
  induction a as [|w r IH]; intros Ha Hb; [congruence|].
  destruct r as [|w2 r].
  - cbn [app]. rewrite join_cons by exact Hb. reflexivity.
  - change ((w :: w2 :: r) ++ b) with (w :: ((w2 :: r) ++ b)).
    rewrite join_cons by discriminate. rewrite IH; [|discriminate|exact Hb].
    rewrite (join_cons d w (w2 :: r)) by discriminate. now rewrite <- app_assoc.
Qed.

Lemma map_join (f : Z -> Z) d ws : map f (join d ws) = join (f d) (map (map f) ws).
Proof.
  induction ws as [|w r IH]; [reflexivity|].
  destruct r as [|w2 r]; [reflexivity|].
  rewrite join_cons by discriminate. cbn [map]. rewrite (join_cons (f d)) by discriminate.
  rewrite map_app. cbn [map]. now rewrite IH.
Qed.

(** a word is good when it is non-empty and free of "_" *)
Definition good (w : str) : Prop := w <> [] /\ ~ In US w.

Lemma nonempty_true {A} (l : list A) : nonempty l = true <-> l <> [].
Proof. destruct l; cbn; split; congruence. Qed.

Lemma nonempty_join ws : Forall good ws -> nonempty (join US ws) = nonempty ws.
Proof.
  intros H. destruct ws as [|w r]; [reflexivity|]. inversion H as [|? ? [Hw _] _]; subst.
  destruct r; cbn; destruct w; cbn; congruence.
Qed.

Lemma sub_us_hash_join ws : Forall good ws -> sub_us_hash (join US ws) = join HASH ws.
Proof.
  intros H. unfold sub_us_hash. rewrite map_join. rewrite Z.eqb_refl. f_equal.
  rewrite <- (map_id ws) at 2. apply map_ext_in. intros w Hw.
  rewrite Forall_forall in H. destruct (H w Hw) as [_ Hn].
  rewrite <- (map_id w) at 2. apply map_ext_in. intros c Hc.
  destruct (Z.eqb_spec c US) as [->|]; [contradiction|reflexivity].
Qed.

Lemma good_nosep ws : Forall good ws -> Forall (fun w => ~ In US w) ws.
Proof. apply Forall_impl. now intros w [_ H]. Qed.

(** the occurrence string of [ngrams_to_word] *)
Lemma occurrence_join cs os : Forall good cs -> Forall good os ->
  (if nonempty (join US cs) && nonempty (join US os) then join US cs ++ US :: join US os
   else join US cs ++ join US os) = join US (cs ++ os).
Proof.
  intros Hc Ho. rewrite !nonempty_join by assumption.
  destruct cs as [|c cs]; [cbn; reflexivity|].
  destruct os as [|o os]; [cbn [nonempty andb]; now rewrite !app_nil_r|].
  cbn [nonempty andb]. now rewrite join_app by discriminate.
Qed.

Lemma dedup_split_join ws : Forall good ws ->
  join US (dedup_str (split_on US (join US ws))) = join US (dedup_str ws).
Proof.
  intros H. destruct ws as [|w r]; [reflexivity|].
  rewrite split_on_join; [reflexivity|discriminate|now apply good_nosep].
Qed.

(** * Part 2: strip *)
Section Strip.
Variable is_space : Z -> bool.
Notation lstrip := (lstrip is_space).
Notation rstrip := (rstrip is_space).
Notation strip := (strip is_space).

Definition head_ok (s : str) : Prop := match s with [] => True | c :: _ => is_space c = false end.

Lemma lstrip_head_ok s : head_ok (lstrip s).
Proof. induction s as [|c r IH]; cbn; [exact I|]. destruct (is_space c) eqn:E; [exact IH|exact E]. Qed.

Lemma lstrip_fix s : head_ok s -> lstrip s = s.
Proof. destruct s as [|c r]; cbn; [reflexivity|]. now intros ->. Qed.

Lemma lstrip_suffix s : exists pre, s = pre ++ lstrip s /\ forallb is_space pre = true.
Proof.
  induction s as [|c r [pre [E F]]]; [exists []; split; reflexivity|]. cbn.
  destruct (is_space c) eqn:Ec.
  - exists (c :: pre). cbn. rewrite Ec, F. split; [now rewrite <- E|reflexivity].
  - exists []. split; reflexivity.
Qed.

Lemma rstrip_prefix s : exists post, s = rstrip s ++ post /\ forallb is_space post = true.
Proof.
  unfold rstrip. destruct (lstrip_suffix (rev s)) as [pre [E F]].
  exists (rev pre). split.
  - rewrite <- rev_app_distr, <- E. now rewrite rev_involutive.
  - rewrite forallb_forall in *. intros x Hx. apply F. now apply in_rev.
Qed.

Lemma rstrip_head_ok s : head_ok s -> head_ok (rstrip s).
Proof.
  intros H. destruct (rstrip_prefix s) as [post [E F]].
  destruct (rstrip s) as [|c r] eqn:Er; [exact I|].
  destruct s as [|c' s']; [discriminate E|]. cbn in E. inversion E; subst. exact H.
Qed.

Lemma rstrip_idem s : rstrip (rstrip s) = rstrip s.
Proof.
  unfold rstrip. rewrite rev_involutive. f_equal. apply lstrip_fix. apply lstrip_head_ok.
Qed.

Lemma strip_idem s : strip (strip s) = strip s.
Proof.
  unfold strip. rewrite (lstrip_fix (rstrip (lstrip s))).
  - apply rstrip_idem.
  - apply rstrip_head_ok, lstrip_head_ok.
Qed.

Lemma lstrip_incl s c : In c (lstrip s) -> In c s.
Proof. destruct (lstrip_suffix s) as [pre [E _]]. intros H. rewrite E. apply in_app_iff. now right. Qed.

Lemma strip_incl s c : In c (strip s) -> In c s.
Proof.
  unfold strip, rstrip. intros H. apply in_rev in H. apply lstrip_incl in H.
  apply in_rev in H. now apply lstrip_incl.
Qed.

Lemma strip_nil : strip [] = [].
Proof. reflexivity. Qed.

Lemma gen_words_exec_eq s :
  gen_words_exec is_space s = gen_words is_space s.
Proof.
  unfold gen_words_exec, gen_words.
  induction (split_on SP s) as [|w r IH]; [reflexivity|]. cbn.
  destruct (nonempty (strip w)); cbn; now rewrite IH.
Qed.

End Strip.

(** * Part 3: the words produced by cleaning and splitting are good *)
Lemma split_on_incl d s p c : In p (split_on d s) -> In c p -> In c s.
Proof.
  revert p. induction s as [|x r IH]; intros p Hp Hc; cbn in Hp.
  - destruct Hp as [<-|[]]. destruct Hc.
  - destruct (x =? d).
    + destruct Hp as [<-|Hp]; [destruct Hc|]. right. eapply IH; eauto.
    + destruct (split_on d r) as [|q qs] eqn:E.
      * destruct Hp as [<-|[]]. destruct Hc as [->|[]]. now left.
      * destruct Hp as [<-|Hp].
        -- destruct Hc as [->|Hc]; [now left|]. right. apply (IH q); [now left|exact Hc].
        -- right. apply (IH p); [now right|exact Hc].
Qed.

Section Good.
Variable lower : Z -> list Z.
Variable is_space : Z -> bool.
Variable allowed : Z -> bool.

Lemma clean_no_us lc s : ~ In US (clean lower allowed lc s).
Proof.
  unfold clean, filter_symbols, remove_special. intros H.
  apply in_map_iff in H. destruct H as [z [Hz Hin]].
  apply in_map_iff in Hin. destruct Hin as [y [Hy _]].
  destruct (allowed z); [|discriminate Hz]. subst z.
  unfold is_special in Hy. destruct (Z.eqb_spec y HASH); [discriminate Hy|].
  destruct (Z.eqb_spec y US); [discriminate Hy|]. cbn in Hy.
  destruct (y =? TAB); [discriminate Hy|]. congruence.
Qed.

Lemma gen_words_good lc s : Forall good (gen_words is_space (clean lower allowed lc s)).
Proof.
  apply Forall_forall. intros w Hw. unfold gen_words in Hw.
  apply filter_In in Hw. destruct Hw as [Hw Hne]. split; [now apply nonempty_true|].
  apply in_map_iff in Hw. destruct Hw as [p [<- Hp]]. intro Hc.
  apply strip_incl in Hc. apply (clean_no_us lc s). eapply split_on_incl; eauto.
Qed.

Lemma piece_words_good lc p : Forall good (piece_words lower is_space allowed lc p).
Proof. apply gen_words_good. Qed.

Lemma piece_words_nil lc : piece_words lower is_space allowed lc [] = [].
Proof. unfold piece_words, clean. rewrite strip_nil. destruct lc; reflexivity. Qed.

End Good.

(** * Part 4: slices, ranges and the occurrence loops *)
Lemma pyslice_slice {A} (l : list A) a b : 0 <= a -> 0 <= b ->
  pyslice l a b = slice l (Z.to_nat a) (Z.to_nat b).
Proof.
  intros Ha Hb. unfold pyslice, norm_idx, slice.
  destruct (Z.ltb_spec a 0); [lia|]. destruct (Z.ltb_spec b 0); [lia|].
  set (len := Z.of_nat (length l)).
  destruct (Z_le_gt_dec len a) as [Hge|Hlt].
  - rewrite (skipn_all2 l) by lia. rewrite (skipn_all2 l) by lia. now rewrite !firstn_nil.
  - replace (Z.min a len) with a by lia.
    destruct (Z_le_gt_dec b len) as [Hb'|Hb'].
    + replace (Z.min b len) with b by lia. f_equal. lia.
    + replace (Z.min b len) with len by lia.
      rewrite firstn_all2 by (rewrite skipn_length; lia).
      rewrite firstn_all2 by (rewrite skipn_length; lia). reflexivity.
Qed.

Lemma slice_Forall {A} (P : A -> Prop) (l : list A) a b : Forall P l -> Forall P (slice l a b).
Proof.
  rewrite !Forall_forall. intros H x Hx. apply H. unfold slice in Hx.
  apply In_firstn' in Hx. now apply In_skipn' in Hx.
Qed.

Lemma slice_incl {A} (l : list A) a b x : In x (slice l a b) -> In x l.
Proof. unfold slice. intros Hx. apply In_firstn' in Hx. now apply In_skipn' in Hx. Qed.

Definition jp (p : list str * list str) : occ := (join US (fst p), join US (snd p)).

Section Loops.
Variable lower : Z -> list Z.
Variable is_space : Z -> bool.
Variable allowed : Z -> bool.
Variable o : opts.

Lemma cw_loop_spec ws L : forall fuel ii acc,
  cw_loop fuel ii L ws acc =
  acc ++ map (fun k => (join US (pyslice ws (Z.max (ii + Z.of_nat k) 0)
                                          (Z.min (ii + Z.of_nat k + L) (zlen ws))), []))
             (seq 0 fuel).
Proof.
  induction fuel as [|f IH]; intros ii acc; cbn [cw_loop seq map].
  - now rewrite app_nil_r.
  - rewrite IH. rewrite <- app_assoc. f_equal. cbn [app]. f_equal.
    + now rewrite Z.add_0_r.
    + rewrite <- seq_shift, map_map. apply map_ext. intros k.
      replace (ii + 1 + Z.of_nat k) with (ii + Z.of_nat (S k)) by lia. reflexivity.
Qed.

Lemma consecutive_refines ws n : 0 <= n ->
  cw_loop (Z.to_nat (zlen ws - (1 - Z.min n (zlen ws)))) (1 - Z.min n (zlen ws)) (Z.min n (zlen ws)) ws []
  = map jp (map (fun w => (w, [])) (windows_consecutive (Z.to_nat n) ws)).
Proof.
  intros Hn. rewrite cw_loop_spec. cbn [app]. unfold windows_consecutive. rewrite !map_map.
  unfold zlen. set (len := length ws).
  replace (Z.to_nat (Z.of_nat len - (1 - Z.min n (Z.of_nat len)))) with (len + Nat.min (Z.to_nat n) len - 1)%nat by lia.
  apply map_ext. intros j. unfold jp. cbn [fst snd join]. f_equal. f_equal.
  rewrite pyslice_slice by lia. f_equal; lia.
Qed.

Lemma w2w_loop_spec ws before after : forall rest ii acc,
  w2w_loop rest ii before after ws acc =
  acc ++ map (fun k => (join US (pyslice ws (Z.max 0 (ii + Z.of_nat k - before)) (ii + Z.of_nat k) ++
                                 pyslice ws (ii + Z.of_nat k + 1)
                                         (Z.min (zlen ws) (ii + Z.of_nat k + 1 + after))),
                        nth k rest []))
             (seq 0 (length rest)).
Proof.
  induction rest as [|w r IH]; intros ii acc; cbn [w2w_loop length seq map].
  - now rewrite app_nil_r.
  - rewrite IH. rewrite <- app_assoc. f_equal. cbn [app]. f_equal.
    + rewrite Z.add_0_r. reflexivity.
    + rewrite <- seq_shift, map_map. apply map_ext. intros k.
      replace (ii + 1 + Z.of_nat k) with (ii + Z.of_nat (S k)) by lia. reflexivity.
Qed.

Lemma w2w_refines ws before after : 0 <= before -> 0 <= after ->
  w2w_loop ws 0 before after ws [] = map jp (windows_w2w (Z.to_nat before) (Z.to_nat after) ws).
Proof.
  intros Hb Ha. rewrite w2w_loop_spec. cbn [app].
  unfold windows_w2w. rewrite map_map. apply map_ext. intros k. unfold jp. cbn [fst snd].
  rewrite join_single. f_equal. f_equal.
  rewrite !pyslice_slice by (unfold zlen; lia). unfold zlen. f_equal; f_equal; lia.
Qed.

Definition opts_ok (o : opts) : Prop :=
  match o_ev o with
  | EvConsecutive n => 0 <= n
  | EvW2W b a => 0 <= b /\ 0 <= a
  | EvLine => True
  end.

Lemma gen_occurrences_refines ws : opts_ok o ->
  gen_occurrences o ws = map jp (spec_occurrences o ws).
Proof.
  unfold opts_ok, gen_occurrences, spec_occurrences. destruct (o_ev o) as [n|b a|].
  - intros H. now apply consecutive_refines.
  - intros [Hb Ha]. now apply w2w_refines.
  - intros _. destruct (o_cue o); reflexivity.
Qed.

Lemma spec_occurrences_words ws cs os :
  In (cs, os) (spec_occurrences o ws) -> incl (cs ++ os) ws.
Proof.
  unfold spec_occurrences. destruct (o_ev o) as [n|b a|].
  - intros H. apply in_map_iff in H. destruct H as [w [E Hw]]. inversion E; subst.
    unfold windows_consecutive in Hw. apply in_map_iff in Hw. destruct Hw as [j [<- _]].
    rewrite app_nil_r. intros x. apply slice_incl.
  - intros H. unfold windows_w2w in H. apply in_map_iff in H. destruct H as [i [E Hi]].
    apply in_seq in Hi. inversion E; subst. intros x Hx.
    apply in_app_iff in Hx. destruct Hx as [Hx|[<-|[]]].
    + apply in_app_iff in Hx. destruct Hx as [Hx|Hx]; eapply slice_incl; eauto.
    + apply nth_In. lia.
  - destruct (o_cue o); intros [E|[]]; inversion E; subst; intros x Hx;
      try rewrite app_nil_r in Hx; auto.
    apply in_app_iff in Hx. tauto.
Qed.

End Loops.

(** * Part 5: n-grams and [process_occurrences] *)
Lemma ngrams_char_eq n s :
  ngrams n s = map (fun i => firstn n (skipn i s)) (seq 0 (length s + 1 - n)).
Proof.
  induction s as [|c r IH].
  - destruct n; reflexivity.
  - cbn [ngrams]. destruct (Nat.leb_spec n (length (c :: r))) as [Hle|Hgt].
    + cbn [length] in *. replace (S (length r) + 1 - n)%nat with (S (length r + 1 - n)) by lia.
      cbn [seq map]. f_equal. rewrite <- seq_shift, map_map. exact IH.
    + cbn [length] in *. replace (S (length r) + 1 - n)%nat with 0%nat by lia. reflexivity.
Qed.

Lemma ngrams_exec_eq n s : 0 <= n -> ngrams_exec n s = ngrams (Z.to_nat n) s.
Proof.
  intros Hn. rewrite ngrams_char_eq. unfold ngrams_exec, zrange, zlen. rewrite map_map.
  replace (Z.to_nat (Z.of_nat (length s) - n + 1)) with (length s + 1 - Z.to_nat n)%nat by lia.
  apply map_ext. intros k. rewrite pyslice_slice by lia. unfold slice. f_equal; [lia|f_equal; lia].
Qed.

Definition occ_good (p : list str * list str) : Prop := Forall good (fst p) /\ Forall good (snd p).

Definition ng_line (dedup : bool) (n : nat) (p : list str * list str) : list str :=
  match fst p ++ snd p with
  | [] => []
  | _ => [join US (dd dedup (ngrams n (HASH :: join HASH (fst p ++ snd p) ++ [HASH])))
          ++ TAB :: join US (dd dedup (fst p ++ snd p))]
  end.

Lemma ngrams_to_word_refines n dedup : 0 <= n -> forall occs out,
  Forall occ_good occs ->
  ngrams_to_word (map jp occs) n dedup out = out ++ flat_map (ng_line dedup (Z.to_nat n)) occs.
Proof.
  intros Hn. induction occs as [|[cs os] rest IH]; intros out Hg.
  - cbn. now rewrite app_nil_r.
  - inversion Hg as [|? ? [Hc Ho] Hr]; subst. cbn [fst snd] in Hc, Ho.
    cbn [map flat_map]. unfold jp at 1. cbn [fst snd ngrams_to_word].
    rewrite occurrence_join by assumption.
    assert (Hco : Forall good (cs ++ os)) by (apply Forall_app; now split).
    rewrite nonempty_join by exact Hco. unfold generator_truthy. cbn [negb orb].
    unfold ng_line at 1. cbn [fst snd].
    destruct (cs ++ os) as [|t ts] eqn:E.
    + cbn [nonempty negb app]. now apply IH.
    + cbn [nonempty negb]. rewrite IH by exact Hr. rewrite <- app_assoc. f_equal. cbn [app]. f_equal.
      rewrite sub_us_hash_join by exact Hco. rewrite ngrams_exec_eq by exact Hn.
      destruct dedup; cbn [dd].
      * now rewrite dedup_split_join by exact Hco.
      * reflexivity.
Qed.

Definition w2w_line (dedup : bool) (p : list str * list str) : list str :=
  match fst p with
  | [] => []
  | _ => [join US (dd dedup (fst p)) ++ TAB :: join US (dd dedup (snd p))]
  end.

Lemma w2w_to_word_refines dedup : forall occs out,
  Forall occ_good occs ->
  w2w_to_word (map jp occs) dedup out = out ++ flat_map (w2w_line dedup) occs.
Proof.
  induction occs as [|[cs os] rest IH]; intros out Hg.
  - cbn. now rewrite app_nil_r.
  - inversion Hg as [|? ? [Hc Ho] Hr]; subst. cbn [fst snd] in Hc, Ho.
    cbn [map flat_map]. unfold jp at 1. cbn [fst snd w2w_to_word].
    rewrite nonempty_join by exact Hc. unfold w2w_line at 1. cbn [fst snd].
    destruct cs as [|c cs'] eqn:E.
    + cbn [nonempty negb app]. now apply IH.
    + cbn [nonempty negb]. rewrite IH by exact Hr. rewrite <- app_assoc. f_equal. cbn [app]. f_equal.
      destruct dedup; cbn [dd]; [|reflexivity].
      rewrite (dedup_split_join (c :: cs')) by exact Hc. now rewrite dedup_split_join by exact Ho.
Qed.

Lemma spec_line_cases o p :
  spec_line o p = match o_cue o with
                  | CueTrigrams => ng_line (o_dedup o) 3 p
                  | CueBigrams => ng_line (o_dedup o) 2 p
                  | CueW2W => w2w_line (o_dedup o) p
                  end.
Proof. destruct p as [cs os]. unfold spec_line, ng_line, w2w_line. cbn [fst snd]. reflexivity. Qed.

Lemma process_occurrences_refines o occs out : Forall occ_good occs ->
  process_occurrences (map jp occs) (o_cue o) (o_dedup o) out = out ++ flat_map (spec_line o) occs.
Proof.
  intros Hg. unfold process_occurrences.
  rewrite (flat_map_ext _ _ (spec_line_cases o)).
  destruct (o_cue o).
  - now rewrite ngrams_to_word_refines by (lia || exact Hg).
  - now rewrite ngrams_to_word_refines by (lia || exact Hg).
  - now apply w2w_to_word_refines.
Qed.

(** [process_words] on good words appends exactly the lines of the context *)
Lemma process_words_refines o ws out : opts_ok o -> Forall good ws ->
  process_words o ws out = out ++ context_lines o ws.
Proof.
  intros Hok Hg. unfold process_words, context_lines.
  rewrite gen_occurrences_refines by exact Hok.
  apply process_occurrences_refines.
  apply Forall_forall. intros [cs os] Hin. apply spec_occurrences_words in Hin.
  rewrite Forall_forall in Hg.
  split; cbn [fst snd]; apply Forall_forall; intros x Hx; apply Hg, Hin, in_app_iff; tauto.
Qed.

Lemma context_lines_nil o : context_lines o [] = [].
Proof.
  unfold context_lines, spec_occurrences. destruct (o_ev o) as [n|b a|].
  - unfold windows_consecutive. cbn [length]. rewrite Nat.min_0_r. reflexivity.
  - reflexivity.
  - rewrite (flat_map_ext _ _ (spec_line_cases o)). destruct (o_cue o); reflexivity.
Qed.

(** * Part 6: the marker matcher, [re.split], [re.sub], [re.search] *)
Lemma pat_match_length pat s : pat_match pat s = true -> (length pat <= length s)%nat.
Proof.
  revert s. induction pat as [|p pr IH]; intros s H; cbn; [lia|].
  destruct s as [|c sr]; [discriminate H|]. cbn in H. apply andb_true_iff in H.
  destruct H as [_ H]. apply IH in H. cbn. lia.
Qed.

Lemma pat_match_app pat s t : pat_match pat s = true -> pat_match pat (s ++ t) = true.
Proof.
  revert s. induction pat as [|p pr IH]; intros s H; [reflexivity|].
  destruct s as [|c sr]; [discriminate H|]. cbn in *. apply andb_true_iff in H.
  destruct H as [H1 H2]. rewrite H1. cbn. now apply IH.
Qed.

Lemma pat_match_firstn pat s : pat_match pat s = true -> pat_match pat (firstn (length pat) s) = true.
Proof.
  revert s. induction pat as [|p pr IH]; intros s H; [reflexivity|].
  destruct s as [|c sr]; [discriminate H|]. cbn in *. apply andb_true_iff in H.
  destruct H as [H1 H2]. rewrite H1. cbn. now apply IH.
Qed.

Lemma marker_at_length s : marker_at s = true -> (MLEN <= length s)%nat.
Proof.
  unfold marker_at. intros H. apply orb_true_iff in H.
  destruct H as [H|H]; apply pat_match_length in H; exact H.
Qed.

Lemma marker_at_app s t : marker_at s = true -> marker_at (s ++ t) = true.
Proof.
  unfold marker_at. intros H. apply orb_true_iff in H. apply orb_true_iff.
  destruct H as [H|H]; [left|right]; now apply pat_match_app.
Qed.

Lemma marker_at_firstn s : marker_at s = true -> marker_at (firstn MLEN s) = true.
Proof.
  unfold marker_at. intros H. apply orb_true_iff in H. apply orb_true_iff.
  destruct H as [H|H]; [left; change MLEN with (length marker_lo)|right; change MLEN with (length marker_up)];
    now apply pat_match_firstn.
Qed.

(** a marker: exactly the 21 matched characters *)
Definition is_marker (m : str) : Prop := marker_at m = true /\ length m = MLEN.

Lemma firstn_marker s : marker_at s = true -> is_marker (firstn MLEN s).
Proof.
  intros H. split; [now apply marker_at_firstn|].
  apply firstn_length_le. now apply marker_at_length.
Qed.

Lemma cut_go_nonnil k s : cut_go k s <> [].
Proof.
  revert k. induction s as [|c r IH]; intros k; cbn; [discriminate|].
  destruct k; [|apply IH]. destruct (marker_at (c :: r)); [discriminate|].
  destruct (cut_go 0 r); discriminate.
Qed.

Lemma cut_go_short k s : (length s <= k)%nat -> cut_go k s = [[]].
Proof.
  revert k. induction s as [|c r IH]; intros k H; [reflexivity|].
  cbn in H. destruct k; [lia|]. cbn. apply IH. lia.
Qed.

Lemma re_sub_go_short k s : (length s <= k)%nat -> re_sub_go k s = [].
Proof.
  revert k. induction s as [|c r IH]; intros k H; [reflexivity|].
  cbn in H. destruct k; [lia|]. cbn. apply IH. lia.
Qed.

Lemma re_sub_marker m : is_marker m -> re_sub_empty m = [].
Proof.
  intros [Hm Hl]. destruct m as [|c r]; [discriminate Hl|].
  unfold re_sub_empty. cbn [re_sub_go]. rewrite Hm. apply re_sub_go_short.
  cbn in Hl. unfold MLEN in Hl. lia.
Qed.

Lemma cut_marker m : is_marker m -> cut m = [[]; []].
Proof.
  intros [Hm Hl]. destruct m as [|c r]; [discriminate Hl|].
  unfold cut. cbn [cut_go]. rewrite Hm. f_equal. apply cut_go_short.
  cbn in Hl. unfold MLEN in Hl. lia.
Qed.

(** no marker anywhere: nothing is cut, split or substituted *)
Lemma no_match_id s : re_search s = false ->
  cut s = [s] /\ re_split s = [s] /\ re_sub_empty s = s.
Proof.
  unfold cut, re_split, re_sub_empty. induction s as [|c r IH]; intros H; [repeat split|].
  cbn in H. apply orb_false_iff in H. destruct H as [Hm Hr].
  destruct (IH Hr) as [E1 [E2 E3]]. cbn [cut_go re_split_go re_sub_go].
  rewrite Hm, E1, E2, E3. repeat split.
Qed.

(** at least one marker: at least two pieces *)
Lemma match_two_pieces s : re_search s = true -> exists a b rest, cut s = a :: b :: rest.
Proof.
  unfold cut. induction s as [|c r IH]; intros H; [discriminate H|].
  cbn in H. cbn [cut_go]. destruct (marker_at (c :: r)) eqn:Hm.
  - pose proof (cut_go_nonnil 20 r). destruct (cut_go 20 r) as [|b rest]; [congruence|].
    now exists [], b, rest.
  - cbn in H. destruct (IH H) as [a [b [rest E]]]. rewrite E. now exists (c :: a), b, rest.
Qed.

(** the first piece is a prefix of the string *)
Lemma cut_head_prefix s : exists rest, s = hd [] (cut_go 0 s) ++ rest.
Proof.
  induction s as [|c r [rest E]]; [now exists []|]. cbn [cut_go].
  destruct (marker_at (c :: r)); [now exists (c :: r)|].
  pose proof (cut_go_nonnil 0 r). destruct (cut_go 0 r) as [|p ps]; [congruence|].
  cbn in *. exists rest. now rewrite <- E.
Qed.

(** pieces contain no marker *)
Lemma pieces_no_match s : forall k p, In p (cut_go k s) -> re_search p = false.
Proof.
  induction s as [|c r IH]; intros k p Hp.
  - cbn in Hp. destruct Hp as [<-|[]]. reflexivity.
  - cbn [cut_go] in Hp. destruct k as [|k]; [|now apply (IH k)].
    destruct (marker_at (c :: r)) eqn:Hm.
    + destruct Hp as [<-|Hp]; [reflexivity|now apply (IH 20%nat)].
    + pose proof (cut_go_nonnil 0 r) as Hnn. destruct (cut_head_prefix r) as [rest E].
      destruct (cut_go 0 r) as [|q qs] eqn:Eq; [congruence|]. cbn in E.
      destruct Hp as [<-|Hp].
      * cbn. rewrite (IH 0%nat q) by (rewrite Eq; now left). rewrite orb_false_r.
        destruct (marker_at (c :: q)) eqn:Hq; [|reflexivity].
        apply (marker_at_app _ rest) in Hq. cbn in Hq. rewrite <- E in Hq. congruence.
      * apply (IH 0%nat). rewrite Eq. now right.
Qed.

Lemma cut_go_incl s : forall k p c, In p (cut_go k s) -> In c p -> In c s.
Proof.
  induction s as [|x r IH]; intros k p c Hp Hc.
  - cbn in Hp. destruct Hp as [<-|[]]. destruct Hc.
  - cbn [cut_go] in Hp. destruct k as [|k]; [|right; eapply IH; eauto].
    destruct (marker_at (x :: r)).
    + destruct Hp as [<-|Hp]; [destruct Hc|]. right. eapply IH; eauto.
    + destruct (cut_go 0 r) as [|q qs] eqn:Eq.
      * destruct Hp as [<-|[]]. destruct Hc as [->|[]]. now left.
      * destruct Hp as [<-|Hp].
        -- destruct Hc as [->|Hc]; [now left|]. right. apply (IH 0%nat q); [rewrite Eq; now left|exact Hc].
        -- right. apply (IH 0%nat p); [rewrite Eq; now right|exact Hc].
Qed.

(** [re.split] alternates the pieces of [cut] with markers *)
Inductive Alt : list str -> list str -> Prop :=
| Alt_one t : Alt [t] [t]
| Alt_cons t m r ps : is_marker m -> Alt r ps -> Alt (t :: m :: r) (t :: ps).

Lemma Alt_push c p x q y : Alt (p :: x) (q :: y) -> Alt ((c :: p) :: x) ((c :: q) :: y).
Proof. intros H. inversion H; subst; constructor; assumption. Qed.

Lemma split_alt s : forall k, Alt (re_split_go k s) (cut_go k s).
Proof.
  induction s as [|c r IH]; intros k; [constructor|]. cbn [re_split_go cut_go].
  destruct k as [|k]; [|apply IH].
  destruct (marker_at (c :: r)) eqn:Hm.
  - constructor; [now apply firstn_marker|apply IH].
  - specialize (IH 0%nat). inversion IH; subst; constructor; assumption.
Qed.

(** * Part 7: the state machine of [create_event_file] refines the documented model *)
Lemma split_none_nonnil {A} (l : list (option A)) : split_none l <> [].
Proof.
  induction l as [|[x|] r IH]; cbn; try discriminate. destruct (split_none r); discriminate.
Qed.

Section Refine.
Variable lower : Z -> list Z.
Variable is_space : Z -> bool.
Variable allowed : Z -> bool.
Variable o : opts.
Hypothesis Hok : opts_ok o.

Notation pw := (piece_words lower is_space allowed (o_lower o)).
Notation CL := (context_lines o).
Notation sstrip := (strip is_space).
Notation items := (items_of_line lower is_space allowed (o_lower o)).

Definition D (I : list (option (list str))) : list str :=
  flat_map CL (map (@concat str) (split_none I)).

Lemma D_some_some w x I : D (Some w :: Some x :: I) = D (Some (w ++ x) :: I).
Proof.
  unfold D. cbn [split_none]. pose proof (split_none_nonnil I).
  destruct (split_none I) as [|p ps]; [congruence|]. cbn [map concat]. now rewrite app_assoc.
Qed.

Lemma D_some_none w I : D (Some w :: None :: I) = CL w ++ D I.
Proof. unfold D. cbn [split_none map concat flat_map]. now rewrite app_nil_r. Qed.

Lemma D_some_nil I : D (Some [] :: I) = D I.
Proof.
  unfold D. cbn [split_none]. pose proof (split_none_nonnil I).
  destruct (split_none I) as [|p ps]; [congruence|]. reflexivity.
Qed.

Lemma D_single w : D [Some w] = CL w.
Proof. unfold D. cbn. now rewrite !app_nil_r. Qed.

Lemma D_inter ps I : ps <> [] ->
  D (intersperse_none (map pw ps) ++ I) =
  flat_map CL (map pw (removelast ps)) ++ D (Some (pw (last ps [])) :: I).
Proof.
  induction ps as [|t r IH]; intros Hne; [congruence|].
  destruct r as [|t2 r]; [reflexivity|].
  change (intersperse_none (map pw (t :: t2 :: r)))
    with (Some (pw t) :: None :: intersperse_none (map pw (t2 :: r))).
  cbn [app]. rewrite D_some_none. rewrite IH by discriminate.
  change (removelast (t :: t2 :: r)) with (t :: removelast (t2 :: r)).
  change (last (t :: t2 :: r) []) with (last (t2 :: r) []).
  cbn [map flat_map]. now rewrite app_assoc.
Qed.

Lemma process_line_clean x : process_line lower allowed o x = clean lower allowed (o_lower o) x.
Proof. reflexivity. Qed.

Lemma piece_cases t :
  (sstrip t = [] /\ pw t = []) \/
  (nonempty (sstrip t) = true /\ gen_words_exec is_space (process_line lower allowed o (sstrip t)) = pw t).
Proof.
  destruct (sstrip t) as [|c r] eqn:E.
  - left. split; [reflexivity|]. unfold piece_words. rewrite E. unfold clean. destruct (o_lower o); reflexivity.
  - right. split; [reflexivity|]. rewrite gen_words_exec_eq, process_line_clean. unfold piece_words.
    now rewrite E.
Qed.

(** the snippet [c = process_context(c); if c.strip(): words.extend(gen_words(process_line(c.strip())))] *)
Definition extend (words : list str) (c : str) : list str :=
  if nonempty (sstrip (process_context c))
  then words ++ gen_words_exec is_space (process_line lower allowed o (sstrip (process_context c)))
  else words.

Lemma extend_piece words t : re_search t = false -> extend words t = words ++ pw t.
Proof.
  intros H. unfold extend, process_context. rewrite (proj2 (proj2 (no_match_id t H))).
  destruct (piece_cases t) as [[E1 E2]|[E1 E2]].
  - rewrite E1, E2. cbn. now rewrite app_nil_r.
  - now rewrite E1, E2.
Qed.

Lemma extend_marker words m : is_marker m -> extend words m = words.
Proof. intros H. unfold extend, process_context. rewrite (re_sub_marker m H). reflexivity. Qed.

Lemma Alt_nonnil r ps : Alt r ps -> ps <> [].
Proof. intros H. inversion H; discriminate. Qed.

Lemma while_unfold c1 c2 rest w out :
  while_contexts lower is_space allowed o (c1 :: c2 :: rest) w out =
  if nonempty (sstrip (process_context c1))
  then while_contexts lower is_space allowed o (c2 :: rest)
         ([] ++ gen_words_exec is_space (process_line lower allowed o (sstrip (process_context c1))))
         (process_words o ([] ++ gen_words_exec is_space
                                  (process_line lower allowed o (sstrip (process_context c1)))) out)
  else while_contexts lower is_space allowed o (c2 :: rest) [] out.
Proof. reflexivity. Qed.

Lemma while_marker m c2 rest w out : is_marker m ->
  while_contexts lower is_space allowed o (m :: c2 :: rest) w out =
  while_contexts lower is_space allowed o (c2 :: rest) [] out.
Proof.
  intros Hm. rewrite while_unfold. unfold process_context. rewrite (re_sub_marker m Hm). reflexivity.
Qed.

Lemma while_spec r ps : Alt r ps -> (forall p, In p ps -> re_search p = false) ->
  forall m w out, is_marker m ->
  while_contexts lower is_space allowed o (m :: r) w out =
  ([last ps []], [], out ++ flat_map CL (map pw (removelast ps))).
Proof.
  induction 1 as [t|t m' r' ps' Hm' HA IH]; intros Hnm m w out Hm.
  - rewrite while_marker by exact Hm. cbn. now rewrite app_nil_r.
  - rewrite while_marker by exact Hm. rewrite while_unfold.
    assert (Ht : re_search t = false) by (apply Hnm; now left).
    unfold process_context. rewrite (proj2 (proj2 (no_match_id t Ht))).
    pose proof (Alt_nonnil _ _ HA) as Hne.
    assert (Hl : last (t :: ps') [] = last ps' []) by (destruct ps'; [congruence|reflexivity]).
    assert (Hr : removelast (t :: ps') = t :: removelast ps') by (destruct ps'; [congruence|reflexivity]).
    rewrite Hl, Hr. cbn [map flat_map].
    destruct (piece_cases t) as [[E1 E2]|[E1 E2]].
    + rewrite E1. cbn [nonempty]. rewrite (IH (fun p Hp => Hnm p (or_intror Hp)) m' [] out Hm').
      rewrite E2, context_lines_nil. reflexivity.
    + rewrite E1, E2. cbn [app].
      rewrite (IH (fun p Hp => Hnm p (or_intror Hp)) m' (pw t) _ Hm').
      rewrite process_words_refines by (exact Hok || apply piece_words_good).
      now rewrite app_assoc.
Qed.

Lemma step_document_plain w out l : o_ctx o = CtxDocument -> re_search (sstrip l) = false ->
  step lower is_space allowed o (w, out) l = Some (w ++ pw l, out) /\ items l = [Some (pw l)].
Proof.
  intros Hc Hs. unfold step. rewrite Hc, Hs. split.
  - rewrite gen_words_exec_eq, process_line_clean. reflexivity.
  - unfold items_of_line. rewrite (proj1 (no_match_id _ Hs)). cbn. unfold piece_words.
    now rewrite strip_idem.
Qed.

Lemma step_document_marker w out l : o_ctx o = CtxDocument -> re_search (sstrip l) = true ->
  Forall good w ->
  exists t0 ps, ps <> [] /\ cut (sstrip l) = t0 :: ps /\
    step lower is_space allowed o (w, out) l =
    Some (pw (last ps []), (out ++ CL (w ++ pw t0)) ++ flat_map CL (map pw (removelast ps))).
Proof.
  intros Hc Hs Hg. destruct (match_two_pieces _ Hs) as [t0 [b [rest Ecut]]].
  exists t0, (b :: rest). split; [discriminate|]. split; [exact Ecut|].
  pose proof (split_alt (sstrip l) 0) as HA. fold (cut (sstrip l)) in HA. fold (re_split (sstrip l)) in HA.
  rewrite Ecut in HA. inversion HA as [|t m r ps Hm HA' E1 E2]; subst.
  assert (Hnm : forall p, In p (t0 :: b :: rest) -> re_search p = false).
  { intros p Hp. apply (pieces_no_match (sstrip l) 0). fold (cut (sstrip l)). now rewrite Ecut. }
  unfold step. rewrite Hc, Hs. rewrite <- E1.
  fold (extend w t0). rewrite extend_piece by (apply Hnm; now left).
  rewrite (while_spec r (b :: rest) HA' (fun p Hp => Hnm p (or_intror Hp)) m _ _ Hm).
  fold (extend [] (last (b :: rest) [])).
  rewrite extend_piece.
  - cbn [app]. rewrite process_words_refines; [reflexivity|exact Hok|].
    apply Forall_app. split; [exact Hg|apply piece_words_good].
  - apply Hnm. right. destruct (@exists_last _ (b :: rest) ltac:(discriminate)) as [l' [a E]]. rewrite E. rewrite last_last. apply in_app_iff. right. now left.
Qed.

Lemma run_document : o_ctx o = CtxDocument -> forall ls w out, Forall good w ->
  exists w' out', run_lines lower is_space allowed o (w, out) ls = Some (w', out') /\
                  Forall good w' /\
                  out' ++ CL w' = out ++ D (Some w :: flat_map items ls).
Proof.
  intros Hc. induction ls as [|l ls IH]; intros w out Hg.
  - exists w, out. split; [reflexivity|]. split; [exact Hg|]. cbn [flat_map]. now rewrite D_single.
  - cbn [run_lines flat_map]. destruct (re_search (sstrip l)) eqn:Hs.
    + destruct (step_document_marker w out l Hc Hs Hg) as [t0 [ps [Hne [Ecut Est]]]].
      rewrite Est.
      destruct (IH (pw (last ps [])) ((out ++ CL (w ++ pw t0)) ++ flat_map CL (map pw (removelast ps))))
        as [w' [out' [Hrun [Hg' Heq]]]]; [apply piece_words_good|].
      exists w', out'. split; [exact Hrun|]. split; [exact Hg'|]. rewrite Heq.
      change (items l) with (intersperse_none (map pw (cut (sstrip l)))). rewrite Ecut.
      assert (Ei : intersperse_none (map pw (t0 :: ps)) = Some (pw t0) :: None :: intersperse_none (map pw ps))
        by (destruct ps; [congruence|reflexivity]).
      rewrite Ei. cbn [app]. rewrite D_some_some, D_some_none, D_inter by exact Hne.
      now rewrite <- !app_assoc.
    + destruct (step_document_plain w out l Hc Hs) as [Est Ei]. rewrite Est.
      destruct (IH (w ++ pw l) out) as [w' [out' [Hrun [Hg' Heq]]]];
        [apply Forall_app; split; [exact Hg|apply piece_words_good]|].
      exists w', out'. split; [exact Hrun|]. split; [exact Hg'|]. rewrite Heq, Ei. cbn [app].
      now rewrite D_some_some.
Qed.

Lemma run_line : o_ctx o = CtxLine -> forall ls w out,
  exists w', run_lines lower is_space allowed o (w, out) ls =
             Some (w', out ++ flat_map CL (map pw ls)).
Proof.
  intros Hc. induction ls as [|l ls IH]; intros w out.
  - exists w. cbn. now rewrite app_nil_r.
  - cbn [run_lines]. unfold step. rewrite Hc.
    rewrite gen_words_exec_eq, process_line_clean. fold (pw l).
    rewrite process_words_refines by (exact Hok || apply piece_words_good).
    destruct (IH (pw l) (out ++ CL (pw l))) as [w' E]. exists w'. rewrite E.
    cbn [map flat_map]. now rewrite app_assoc.
Qed.

Theorem exec_eq_spec corpus :
  exec_lines lower is_space allowed o corpus = Some (spec_lines lower is_space allowed o corpus).
Proof.
  unfold exec_lines, spec_lines, contexts. destruct (o_ctx o) eqn:Hc.
  - destruct (run_document Hc corpus [] [] (Forall_nil _)) as [w' [out' [Hrun [Hg Heq]]]].
    rewrite Hrun. rewrite process_words_refines by assumption. rewrite Heq. cbn [app].
    rewrite D_some_nil. reflexivity.
  - destruct (run_line Hc corpus [] []) as [w' E]. rewrite E. reflexivity.
Qed.

Theorem create_eq_spec ex corpus :
  create_event_file lower is_space allowed o ex corpus = spec_create lower is_space allowed o ex corpus.
Proof. unfold create_event_file, spec_create. now rewrite exec_eq_spec. Qed.

End Refine.

(** * Part 8: no context bleeding *)
Lemma split_none_app_none {A} (a b : list (option A)) :
  split_none (a ++ None :: b) = split_none a ++ split_none b.
Proof.
  induction a as [|[x|] a IH]; cbn [app split_none]; [reflexivity| |now rewrite IH].
  rewrite IH. pose proof (split_none_nonnil a). destruct (split_none a); [congruence|reflexivity].
Qed.

Lemma docs_snoc_nil {A} (I : list (option (list A))) :
  map (@concat A) (split_none (I ++ [Some []])) = map (@concat A) (split_none I).
Proof.
  induction I as [|[x|] I IH]; cbn [app split_none]; [reflexivity| |cbn [map]; now rewrite IH].
  pose proof (split_none_nonnil I). pose proof (split_none_nonnil (I ++ [Some []])).
  destruct (split_none I) as [|q qs]; [congruence|].
  destruct (split_none (I ++ [Some []])) as [|p ps]; [congruence|].
  cbn [map concat] in *. inversion IH. congruence.
Qed.

Lemma docs_cons_nil {A} (I : list (option (list A))) :
  map (@concat A) (split_none (Some [] :: I)) = map (@concat A) (split_none I).
Proof.
  cbn [split_none]. pose proof (split_none_nonnil I). destruct (split_none I); [congruence|reflexivity].
Qed.

Section Bleeding.
Variable lower : Z -> list Z.
Variable is_space : Z -> bool.
Variable allowed : Z -> bool.

Lemma items_marker_line lc m : is_marker (strip is_space m) ->
  items_of_line lower is_space allowed lc m = [Some []; None; Some []].
Proof.
  intros H. unfold items_of_line. rewrite (cut_marker _ H). cbn [map intersperse_none].
  now rewrite piece_words_nil.
Qed.

Lemma documents_marker_line lc d1 m d2 : is_marker (strip is_space m) ->
  documents lower is_space allowed lc (d1 ++ [m] ++ d2) =
  documents lower is_space allowed lc d1 ++ documents lower is_space allowed lc d2.
Proof.
  intros H. unfold documents. rewrite !flat_map_app. cbn [flat_map]. rewrite app_nil_r.
  rewrite (items_marker_line lc m H).
  set (I1 := flat_map _ d1). set (I2 := flat_map _ d2).
  change (I1 ++ [Some []; None; Some []] ++ I2) with (I1 ++ [Some []] ++ None :: (Some [] :: I2)).
  rewrite app_assoc, split_none_app_none, map_app, docs_snoc_nil, docs_cons_nil. reflexivity.
Qed.

Lemma spec_no_bleeding o d1 m d2 : o_ctx o = CtxDocument -> is_marker (strip is_space m) ->
  spec_lines lower is_space allowed o (d1 ++ [m] ++ d2) =
  spec_lines lower is_space allowed o d1 ++ spec_lines lower is_space allowed o d2.
Proof.
  intros Hc H. unfold spec_lines, contexts. rewrite Hc.
  rewrite (documents_marker_line _ d1 m d2 H). apply flat_map_app.
Qed.

Lemma exec_no_bleeding o d1 m d2 : opts_ok o -> o_ctx o = CtxDocument -> is_marker (strip is_space m) ->
  exists l1 l2, exec_lines lower is_space allowed o d1 = Some l1 /\
                exec_lines lower is_space allowed o d2 = Some l2 /\
                exec_lines lower is_space allowed o (d1 ++ [m] ++ d2) = Some (l1 ++ l2).
Proof.
  intros Hok Hc H. eexists. eexists. rewrite !exec_eq_spec by exact Hok.
  split; [reflexivity|]. split; [reflexivity|]. now rewrite spec_no_bleeding.
Qed.

(** every line that is written stems from one occurrence whose words all
    belong to ONE document *)
Lemma exec_lines_within_document o corpus line : opts_ok o -> o_ctx o = CtxDocument ->
  (exists L, exec_lines lower is_space allowed o corpus = Some L /\ In line L) ->
  exists d cs os, In d (documents lower is_space allowed (o_lower o) corpus) /\
                  In (cs, os) (spec_occurrences o d) /\ incl (cs ++ os) d /\
                  In line (spec_line o (cs, os)).
Proof.
  intros Hok Hc [L [E Hin]]. rewrite exec_eq_spec in E by exact Hok. inversion E; subst L.
  unfold spec_lines, contexts in Hin. rewrite Hc in Hin.
  apply in_flat_map in Hin. destruct Hin as [d [Hd Hin]].
  unfold context_lines in Hin. apply in_flat_map in Hin. destruct Hin as [[cs os] [Ho Hl]].
  exists d, cs, os. repeat split; try assumption. eapply spec_occurrences_words; eauto.
Qed.

End Bleeding.

(** * Part 9: characterisation of windows and n-grams *)
Lemma seq_add a : forall n s, seq (s + a) n = map (fun i => (i + a)%nat) (seq s n).
Proof. induction n as [|n IH]; intros s; [reflexivity|]. cbn [seq map]. f_equal. apply (IH (S s)). Qed.

Lemma windows_consecutive_char n (ws : list str) :
  let len := length ws in
  let L := Nat.min n len in
  (1 <= L)%nat ->
  windows_consecutive n ws =
       map (fun k => firstn k ws) (seq 1 (L - 1))                     (* leading partial runs *)
    ++ map (fun i => firstn L (skipn i ws)) (seq 0 (len - L + 1))     (* every full run, once *)
    ++ map (fun i => skipn i ws) (seq (len - L + 1) (L - 1)).         (* trailing partial runs *)
Proof.
  intros len L HL. unfold windows_consecutive. fold len. fold L.
  assert (HLl : (L <= len)%nat) by (unfold L; lia).
  remember (len - L + 1)%nat as A eqn:EA.
  replace (len + L - 1)%nat with ((L - 1) + (A + (L - 1)))%nat by lia.
  rewrite !seq_app, !map_app. cbn [Nat.add]. f_equal; [|f_equal].
  - rewrite <- seq_shift, map_map. apply map_ext_in. intros j Hj. apply in_seq in Hj.
    unfold slice. replace (j + 1 - L)%nat with 0%nat by lia. cbn [skipn]. f_equal. lia.
  - change (seq (L - 1) A) with (seq (0 + (L - 1)) A).
    rewrite (seq_add (L - 1) A 0), map_map.
    apply map_ext_in. intros i Hi. apply in_seq in Hi. unfold slice. f_equal; [lia|f_equal; lia].
  - replace (L - 1 + A)%nat with (A + (L - 1))%nat by lia.
    rewrite (seq_add (L - 1) (L - 1) A), map_map.
    apply map_ext_in. intros i Hi. apply in_seq in Hi. unfold slice.
    replace (i + (L - 1) + 1 - L)%nat with i by lia.
    apply firstn_all2. rewrite skipn_length. fold len. lia.
Qed.

Lemma ngrams_length n s : length (ngrams n s) = (length s + 1 - n)%nat.
Proof. rewrite ngrams_char_eq, map_length, seq_length. reflexivity. Qed.

Lemma ngrams_none n s : (length s < n)%nat -> ngrams n s = [].
Proof. intros H. apply length_zero_iff_nil. rewrite ngrams_length. lia. Qed.

Lemma ngrams_in n s g : (1 <= n)%nat ->
  In g (ngrams n s) <-> exists a b, s = a ++ g ++ b /\ length g = n.
Proof.
  intros Hn. rewrite ngrams_char_eq. split.
  - intros H. apply in_map_iff in H. destruct H as [i [<- Hi]]. apply in_seq in Hi.
    exists (firstn i s), (skipn n (skipn i s)). split.
    + now rewrite firstn_skipn, firstn_skipn.
    + apply firstn_length_le. rewrite skipn_length. lia.
  - intros [a [b [-> Hl]]]. apply in_map_iff. exists (length a). split.
    + rewrite skipn_app, skipn_all, Nat.sub_diag. cbn [app skipn].
      rewrite firstn_app, <- Hl, firstn_all, Nat.sub_diag. cbn. now rewrite app_nil_r.
    + apply in_seq. rewrite !app_length. lia.
Qed.

(** * Part 10: the [allowed] oracle matters only on the characters of the text *)
Section Allowed.
Variable lower : Z -> list Z.
Variable is_space : Z -> bool.
Variables a1 a2 : Z -> bool.

Definition agree (lc : bool) (l : str) : Prop :=
  forall c, In c (if lc then lower_str lower l else l) -> a1 c = a2 c.

Lemma agree_sub lc l p : (forall c, In c p -> In c l) -> agree lc l -> agree lc p.
Proof.
  intros Hs Ha c Hc. apply Ha. destruct lc; [|now apply Hs].
  unfold lower_str in *. apply in_flat_map in Hc. destruct Hc as [y [Hy Hc]].
  apply in_flat_map. exists y. split; [now apply Hs|exact Hc].
Qed.

Lemma clean_ext lc s : agree lc s -> clean lower a1 lc s = clean lower a2 lc s.
Proof.
  intros Ha. unfold clean, filter_symbols. apply map_ext_in. intros c Hc.
  unfold remove_special in Hc. apply in_map_iff in Hc. destruct Hc as [y [<- Hy]].
  destruct (is_special y).
  - destruct (a1 SP), (a2 SP); reflexivity.
  - now rewrite (Ha y Hy).
Qed.

Lemma piece_words_ext lc p : agree lc p ->
  piece_words lower is_space a1 lc p = piece_words lower is_space a2 lc p.
Proof.
  intros Ha. unfold piece_words. rewrite (clean_ext lc (strip is_space p)); [reflexivity|].
  apply (agree_sub lc p); [apply strip_incl|exact Ha].
Qed.

Lemma items_ext lc l : agree lc l ->
  items_of_line lower is_space a1 lc l = items_of_line lower is_space a2 lc l.
Proof.
  intros Ha. unfold items_of_line. f_equal. apply map_ext_in. intros p Hp.
  apply piece_words_ext. apply (agree_sub lc l); [|exact Ha].
  intros c Hc. apply (strip_incl is_space). unfold cut in Hp. eapply cut_go_incl; eauto.
Qed.

Lemma flat_map_ext_in {A B} (f g : A -> list B) l :
  (forall x, In x l -> f x = g x) -> flat_map f l = flat_map g l.
Proof.
  induction l as [|x r IH]; intros H; [reflexivity|]. cbn.
  rewrite (H x (or_introl eq_refl)), IH; [reflexivity|]. intros y Hy. apply H. now right.
Qed.

Lemma spec_lines_ext o corpus : (forall l, In l corpus -> agree (o_lower o) l) ->
  spec_lines lower is_space a1 o corpus = spec_lines lower is_space a2 o corpus.
Proof.
  intros Ha. unfold spec_lines, contexts. f_equal. destruct (o_ctx o).
  - unfold documents. do 2 f_equal. apply flat_map_ext_in. intros l Hl. now apply items_ext, Ha.
  - apply map_ext_in. intros l Hl. now apply piece_words_ext, Ha.
Qed.

Lemma create_ext o ex corpus : opts_ok o -> (forall l, In l corpus -> agree (o_lower o) l) ->
  create_event_file lower is_space a1 o ex corpus = create_event_file lower is_space a2 o ex corpus.
Proof.
  intros Hok Ha. rewrite !create_eq_spec by exact Hok. unfold spec_create.
  now rewrite (spec_lines_ext o corpus Ha).
Qed.

End Allowed.

(** * Part 11: an existing target is never overwritten *)
Lemma never_overwrites lower is_space allowed o corpus :
  create_event_file lower is_space allowed o true corpus = ROSError.
Proof. reflexivity. Qed.

Lemma fresh_target_written lower is_space allowed o corpus : opts_ok o ->
  create_event_file lower is_space allowed o false corpus =
  RFile (header_line :: spec_lines lower is_space allowed o corpus).
Proof. intros H. now rewrite create_eq_spec. Qed.

(** * Part 12: context 'line' does not look for markers (the other reading of the
    documentation - a marker ends a context also inside a line - is NOT what the code does) *)
Definition contexts_line_cut lower is_space allowed (lc : bool) (corpus : list str) : list (list str) :=
  flat_map (fun l => map (piece_words lower is_space allowed lc) (cut (strip is_space l))) corpus.

Definition ascii_space (c : Z) : bool := (c =? 32) || ((9 <=? c) && (c <=? 13)).

Definition witness_opts : opts :=
  {| o_ctx := CtxLine; o_ev := EvConsecutive 2; o_cue := CueW2W; o_lower := false; o_dedup := false |}.
(** "a ---end.of.document--- b" *)
Definition witness_line : str := [97; 32] ++ marker_lo ++ [32; 98].

Lemma line_context_marker_not_a_boundary_refuted :
  exists corpus,
    exec_lines (fun c => [c]) ascii_space (fun _ => true) witness_opts corpus <>
    Some (flat_map (context_lines witness_opts)
                   (contexts_line_cut (fun c => [c]) ascii_space (fun _ => true) false corpus)).
Proof. exists [witness_line]. vm_compute. discriminate. Qed.
