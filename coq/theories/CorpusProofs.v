(** Proofs about the corpus model: the sort does not depend on the walk
    order, Pool.imap delivers in task order for every number of workers and
    every schedule, the output is the concatenation over the sorted readable
    files, missing files are recorded, an existing outfile is never touched. *)
From Coq Require Import ZArith List Bool Arith Lia QArith Qcanon Permutation Sorting.Sorted.
From PV Require Import BinFmt Corpus.
Import ListNotations.

(** * the order on strings *)
Lemma str_leb_refl a : str_leb a a = true.
Proof. induction a as [|x r IH]; cbn; [reflexivity|]. now rewrite Z.ltb_irrefl. Qed.

Lemma str_leb_total a : forall b, str_leb a b = true \/ str_leb b a = true.
Proof.
  induction a as [|x r IH]; intros [|y s]; cbn; auto.
  destruct (x <? y)%Z eqn:E1; [now left|]. destruct (y <? x)%Z eqn:E2; [now right|]. apply IH.
Qed.

Lemma str_leb_antisym a : forall b, str_leb a b = true -> str_leb b a = true -> a = b.
Proof.
  induction a as [|x r IH]; intros [|y s]; cbn; try discriminate; [reflexivity|].
  destruct (x <? y)%Z eqn:E1, (y <? x)%Z eqn:E2; try discriminate.
  - apply Z.ltb_lt in E1, E2. lia.
  - intros H1 H2. apply Z.ltb_ge in E1, E2. assert (x = y) by lia. subst. f_equal. now apply IH.
Qed.

Lemma str_leb_trans a : forall b c, str_leb a b = true -> str_leb b c = true -> str_leb a c = true.
Proof.
  induction a as [|x r IH]; intros [|y s] [|z t]; cbn; try discriminate; try reflexivity.
  destruct (x <? y)%Z eqn:E1, (y <? x)%Z eqn:E2, (y <? z)%Z eqn:E3, (z <? y)%Z eqn:E4,
           (x <? z)%Z eqn:E5, (z <? x)%Z eqn:E6; try discriminate; try reflexivity;
    rewrite ?Z.ltb_lt, ?Z.ltb_ge in *; try lia.
  apply IH.
Qed.

(** * insertion sort *)
Section SortProofs.
  Context {A : Type}.
  Variable key : A -> str.
  Definition kle (a b : A) : Prop := str_leb (key a) (key b) = true.

  Lemma insert_perm x l : Permutation (insert key x l) (x :: l).
  Proof.
    induction l as [|y r IH]; cbn; [apply Permutation_refl|].
    destruct (str_leb (key x) (key y)); [apply Permutation_refl|].
    eapply Permutation_trans; [apply perm_skip, IH|apply perm_swap].
  Qed.

  Lemma isort_perm l : Permutation (isort key l) l.
  Proof.
    induction l as [|x r IH]; cbn; [constructor|].
    eapply Permutation_trans; [apply insert_perm|now apply perm_skip].
  Qed.

  Lemma insert_sorted x l : StronglySorted kle l -> StronglySorted kle (insert key x l).
  Proof.
    induction 1 as [|y r Hr IH Hy]; cbn.
    - constructor; constructor.
    - destruct (str_leb (key x) (key y)) eqn:E.
      + constructor; [constructor; assumption|]. constructor; [exact E|].
        rewrite Forall_forall in *. intros z Hz. unfold kle. eapply str_leb_trans; [exact E|now apply Hy].
      + constructor; [exact IH|]. rewrite Forall_forall in *. intros z Hz.
        apply (Permutation_in _ (insert_perm x r)) in Hz as [<-|Hz]; [|now apply Hy].
        destruct (str_leb_total (key x) (key y)) as [H|H]; [congruence|exact H].
  Qed.

  Lemma isort_sorted l : StronglySorted kle (isort key l).
  Proof. induction l as [|x r IH]; cbn; [constructor|now apply insert_sorted]. Qed.

  Lemma NoDup_map_inj (l : list A) a b :
    NoDup (map key l) -> In a l -> In b l -> key a = key b -> a = b.
  Proof.
    induction l as [|x r IH]; intros Hnd Ha Hb E; [destruct Ha|].
    cbn in Hnd. inversion Hnd as [|? ? Hx Hr]; subst.
    destruct Ha as [->|Ha], Hb as [->|Hb]; auto.
    - exfalso. apply Hx. rewrite E. now apply in_map.
    - exfalso. apply Hx. rewrite <- E. now apply in_map.
  Qed.

  (** two sorted arrangements of the same files with distinct paths are equal *)
  Lemma sorted_perm_eq l1 : forall l2,
    StronglySorted kle l1 -> StronglySorted kle l2 -> Permutation l1 l2 ->
    (forall a b, In a l1 -> In b l1 -> key a = key b -> a = b) -> l1 = l2.
  Proof.
    induction l1 as [|a r1 IH]; intros l2 H1 H2 HP Hinj.
    - apply Permutation_nil in HP. now subst.
    - destruct l2 as [|b r2]; [apply Permutation_sym, Permutation_nil in HP; discriminate|].
      inversion H1 as [|? ? Hs1 Hf1]; subst. inversion H2 as [|? ? Hs2 Hf2]; subst.
      rewrite Forall_forall in Hf1, Hf2.
      assert (Hb : In b (a :: r1)) by (apply (Permutation_in _ (Permutation_sym HP)); now left).
      assert (Ha : In a (b :: r2)) by (apply (Permutation_in _ HP); now left).
      assert (Hab : kle a b) by (destruct Hb as [<-|Hb]; [apply str_leb_refl|now apply Hf1]).
      assert (Hba : kle b a) by (destruct Ha as [<-|Ha]; [apply str_leb_refl|now apply Hf2]).
      assert (E : a = b).
      { apply Hinj; [now left|exact Hb|]. now apply str_leb_antisym. }
      subst b. f_equal. apply IH; try assumption.
      + now apply Permutation_cons_inv in HP.
      + intros x y Hx Hy. apply Hinj; now right.
  Qed.

  Theorem sort_perm_invariant_lemma : forall l l',
    NoDup (map key l) -> Permutation l l' -> isort key l = isort key l'.
  Proof.
    intros l l' Hnd HP. apply sorted_perm_eq; try apply isort_sorted.
    - eapply Permutation_trans; [apply isort_perm|].
      eapply Permutation_trans; [exact HP|apply Permutation_sym, isort_perm].
    - intros a b Ha Hb. apply (NoDup_map_inj l); try assumption;
        eapply Permutation_in; try apply isort_perm; assumption.
  Qed.

  Theorem isort_is_sorted_perm : forall l,
    Permutation (isort key l) l /\ StronglySorted kle (isort key l).
  Proof. intros l. split; [apply isort_perm|apply isort_sorted]. Qed.
End SortProofs.

(** * the word loop *)
Section Clean.
  Variable is_space : Z -> bool.

  Definition decorate (w : str) : str := if is_punct w then w else 32 :: w.

  Lemma word_step_none ws : fold_left word_step ws None = None.
  Proof. induction ws as [|w r IH]; [reflexivity|exact IH]. Qed.

  Lemma fold_word_step ws : forall acc,
    fold_left word_step ws (Some acc) =
    if forallb (fun w => match w with Some _ => true | None => false end) ws
    then Some (acc ++ flat_map (fun w => match w with
                                         | Some t => if is_punct t then [t] else [[32]; t]
                                         | None => [] end) ws)
    else None.
  Proof.
    induction ws as [|w r IH]; intros acc; cbn [fold_left forallb flat_map].
    - now rewrite app_nil_r.
    - destruct w as [t|]; cbn [word_step andb]; [|apply word_step_none].
      destruct (is_punct t); rewrite IH; destruct (forallb _ r); try reflexivity;
        now rewrite <- app_assoc.
  Qed.

  (** punctuation is appended as it is, every other word gets a space before it;
      a word tag without text is an error *)
  Theorem join_words_spec : forall ws,
    (forall texts, ws = map Some texts -> join_words ws = Some (flat_map decorate texts)) /\
    (In None ws -> join_words ws = None).
  Proof.
    intros ws. unfold join_words. rewrite fold_word_step. split.
    - intros texts ->.
      assert (H : forallb (fun w : option str => match w with Some _ => true | None => false end)
                          (map Some texts) = true).
      { induction texts; cbn; auto. }
      rewrite H. f_equal. cbn [app]. clear H. induction texts as [|t r IH]; [reflexivity|].
      cbn [map flat_map]. rewrite concat_app, IH. unfold decorate.
      destruct (is_punct t); cbn [concat app]; rewrite ?app_nil_r; reflexivity.
    - intros Hin.
      assert (H : forallb (fun w : option str => match w with Some _ => true | None => false end) ws = false).
      { induction ws as [|w r IH]; [destruct Hin|]. cbn. destruct Hin as [->|Hin]; [reflexivity|].
        rewrite (IH Hin). now destruct w. }
      now rewrite H.
  Qed.
End Clean.

(** * Pool: whatever the number of workers and the schedule, the completed
      tasks are a permutation of the submitted ones *)
Definition busy_tasks (b : list (option nat)) : list nat :=
  flat_map (fun o => match o with Some t => [t] | None => [] end) b.

Lemma busy_tasks_app a b : busy_tasks (a ++ b) = busy_tasks a ++ busy_tasks b.
Proof. apply flat_map_app. Qed.

Lemma busy_tasks_repeat n : busy_tasks (repeat None n) = [].
Proof. induction n; cbn; auto. Qed.

Lemma nth_error_split' {A} (l : list A) : forall w x,
  nth_error l w = Some x -> l = firstn w l ++ x :: skipn (S w) l.
Proof.
  induction l as [|y r IH]; intros [|w] x H; cbn in *; try discriminate.
  - now injection H as ->.
  - f_equal. now apply IH.
Qed.

Definition pool_inv (n : nat) (p : pool) : Prop :=
  Permutation (pq_done p ++ busy_tasks (pq_busy p) ++ pq_queue p) (seq 0 n).

Lemma pool_step_inv n p w : pool_inv n p -> pool_inv n (pool_step p w).
Proof.
  unfold pool_inv, pool_step. intros H.
  destruct (nth_error (pq_busy p) w) as [[t|]|] eqn:E; [| |exact H].
  - cbn [pq_done pq_busy pq_queue]. apply nth_error_split' in E.
    rewrite E in H. unfold set_nth. rewrite busy_tasks_app in *. cbn [busy_tasks flat_map] in *.
    fold (busy_tasks (skipn (S w) (pq_busy p))) in *. cbn [app] in *.
    eapply Permutation_trans; [|exact H].
    rewrite <- !app_assoc. apply Permutation_app_head. cbn [app].
    set (A := busy_tasks (firstn w (pq_busy p))). set (B := busy_tasks (skipn (S w) (pq_busy p))).
    rewrite <- ?app_assoc. cbn [app].
    apply (Permutation_middle A (B ++ pq_queue p) t).
  - destruct (pq_queue p) as [|t q] eqn:Eq; [now rewrite Eq|].
    cbn [pq_done pq_busy pq_queue]. apply nth_error_split' in E.
    rewrite E in H. unfold set_nth. rewrite busy_tasks_app in *. cbn [busy_tasks flat_map] in *.
    fold (busy_tasks (skipn (S w) (pq_busy p))) in *. cbn [app] in *.
    eapply Permutation_trans; [|exact H]. apply Permutation_app_head.
    set (A := busy_tasks (firstn w (pq_busy p))). set (B := busy_tasks (skipn (S w) (pq_busy p))).
    rewrite <- !app_assoc. apply Permutation_app_head. cbn [app].
    apply Permutation_middle.
Qed.

Lemma pool_run_inv n w sched : pool_inv n (pool_run n w sched).
Proof.
  unfold pool_run.
  assert (H0 : pool_inv n (pool_init n w)).
  { unfold pool_inv, pool_init. cbn. rewrite busy_tasks_repeat. apply Permutation_refl. }
  revert H0. generalize (pool_init n w). induction sched as [|x r IH]; intros p Hp; [exact Hp|].
  cbn [fold_left]. apply IH. now apply pool_step_inv.
Qed.

Theorem pool_completion_perm : forall n_tasks n_workers sched,
  pool_finished (pool_run n_tasks n_workers sched) = true ->
  Permutation (pq_done (pool_run n_tasks n_workers sched)) (seq 0 n_tasks).
Proof.
  intros n w sched Hf. pose proof (pool_run_inv n w sched) as H. unfold pool_inv in H.
  unfold pool_finished in Hf. destruct (pq_queue (pool_run n w sched)); [|discriminate].
  assert (Hb : busy_tasks (pq_busy (pool_run n w sched)) = []).
  { revert Hf. generalize (pq_busy (pool_run n w sched)). intros b. induction b as [|[t|] r IH]; cbn; auto.
    discriminate. }
  now rewrite Hb, !app_nil_r in H.
Qed.

(** * IMapIterator: the results come out in task order *)
Section IMapProofs.
  Context {B : Type}.
  Variable results : nat -> B.
  Variable n : nat.

  Definition im_inv_ge (done : list nat) (s : @imap_state B) : Prop :=
    (forall j, (j < im_index s)%nat -> In j done) /\
    im_items s = map results (seq 0 (im_index s)) /\
    (forall j, (im_index s <= j)%nat ->
       (In j done -> im_unsorted s j = Some (results j)) /\ (~ In j done -> im_unsorted s j = None)) /\
    (forall j, In j done -> (j < n)%nat).

  Definition im_inv (done : list nat) (s : @imap_state B) : Prop :=
    (forall j, (j < im_index s)%nat -> In j done) /\
    ~ In (im_index s) done /\
    im_items s = map results (seq 0 (im_index s)) /\
    (forall j, (im_index s < j)%nat ->
       (In j done -> im_unsorted s j = Some (results j)) /\ (~ In j done -> im_unsorted s j = None)) /\
    (forall j, In j done -> (j < n)%nat).

  Lemma im_drain_inv fuel : forall done s,
    im_inv_ge done s -> (n <= fuel + im_index s)%nat -> im_inv done (im_drain fuel s).
  Proof.
    induction fuel as [|f IH]; intros done s (H1 & H3 & H4 & H5) Hfuel.
    - cbn [im_drain]. split; [exact H1|split; [|split; [exact H3|split; [|exact H5]]]].
      + intros Hin. apply H5 in Hin. cbn in Hfuel. lia.
      + intros j Hj. apply H4. lia.
    - cbn [im_drain]. destruct (im_unsorted s (im_index s)) as [v|] eqn:E.
      + assert (Hin : In (im_index s) done).
        { destruct (in_dec Nat.eq_dec (im_index s) done) as [Hi|Hi]; [exact Hi|].
          rewrite (proj2 (H4 _ (le_n _)) Hi) in E. discriminate. }
        assert (Hv : v = results (im_index s)).
        { rewrite (proj1 (H4 _ (le_n _)) Hin) in E. now injection E. }
        apply IH; [|cbn [im_index]; lia].
        unfold im_inv_ge. cbn [im_index im_items im_unsorted].
        split; [|split; [|split; [|exact H5]]].
        * intros j Hj. destruct (Nat.eq_dec j (im_index s)) as [->|Hne]; [exact Hin|]. apply H1. lia.
        * rewrite seq_S, map_app, H3, Hv. reflexivity.
        * intros j Hj. destruct (j =? im_index s)%nat eqn:Ej; [apply Nat.eqb_eq in Ej; lia|].
          apply H4. lia.
      + split; [exact H1|split; [|split; [exact H3|split; [|exact H5]]]].
        * intros Hin. rewrite (proj1 (H4 _ (le_n _)) Hin) in E. discriminate.
        * intros j Hj. apply H4. lia.
  Qed.

  Lemma im_set_inv done s i :
    im_inv done s -> ~ In i done -> (i < n)%nat -> im_inv (i :: done) (im_set n s (i, results i)).
  Proof.
    intros (H1 & H2 & H3 & H4 & H5) Hi Hn. unfold im_set. cbn [fst snd].
    destruct (i =? im_index s)%nat eqn:E.
    - apply Nat.eqb_eq in E. subst i. apply im_drain_inv; [|cbn [im_index]; lia].
      unfold im_inv_ge. cbn [im_index im_items im_unsorted].
      split; [|split; [|split]].
      + intros j Hj. destruct (Nat.eq_dec j (im_index s)) as [->|Hne]; [now left|]. right. apply H1. lia.
      + now rewrite seq_S, map_app, H3.
      + intros j Hj. destruct (H4 j Hj) as [Ha Hb]. split.
        * intros [Hj'|Hj']; [lia|]. now apply Ha.
        * intros Hj'. apply Hb. intro. apply Hj'. now right.
      + intros j [<-|Hj]; auto.
    - apply Nat.eqb_neq in E.
      assert (Hgt : (im_index s < i)%nat).
      { destruct (Nat.lt_ge_cases (im_index s) i) as [H|H]; [exact H|].
        exfalso. apply Hi. apply H1. lia. }
      unfold im_inv. cbn [im_index im_items im_unsorted].
      split; [|split; [|split; [exact H3|split]]].
      + intros j Hj. right. now apply H1.
      + intros [H|H]; [now apply E|contradiction].
      + intros j Hj. destruct (H4 j Hj) as [Ha Hb]. split.
        * intros [Hj'|Hj'].
          -- subst j. now rewrite Nat.eqb_refl.
          -- destruct (j =? i)%nat eqn:Ej; [apply Nat.eqb_eq in Ej; now subst|]. now apply Ha.
        * intros Hj'. destruct (j =? i)%nat eqn:Ej.
          -- apply Nat.eqb_eq in Ej. subst j. exfalso. apply Hj'. now left.
          -- apply Hb. intro. apply Hj'. now right.
      + intros j [<-|Hj]; auto.
  Qed.

  Lemma im_fold_inv completion : forall done s,
    im_inv done s -> NoDup completion ->
    (forall i, In i completion -> ~ In i done /\ (i < n)%nat) ->
    im_inv (rev completion ++ done)
           (fold_left (im_set n) (map (fun i => (i, results i)) completion) s).
  Proof.
    induction completion as [|i r IH]; intros done s Hinv Hnd Hc; [exact Hinv|].
    inversion Hnd as [|? ? Hi Hr]; subst. cbn [map fold_left rev]. rewrite <- app_assoc. cbn [app].
    apply IH; [|exact Hr|].
    - apply im_set_inv; [exact Hinv|apply Hc; now left|apply Hc; now left].
    - intros j Hj. split; [|apply Hc; now right]. intros [<-|H]; [contradiction|].
      apply (proj1 (Hc j (or_intror Hj))). exact H.
  Qed.

  Theorem imap_deliver_ordered : forall completion,
    Permutation completion (seq 0 n) -> imap_deliver results n completion = map results (seq 0 n).
  Proof.
    intros completion HP. unfold imap_deliver.
    assert (H0 : im_inv [] (@im_init B)).
    { repeat split; cbn; try tauto; try lia. }
    pose proof (im_fold_inv completion [] im_init H0) as H.
    assert (Hnd : NoDup completion) by (eapply Permutation_NoDup; [symmetry; exact HP|apply seq_NoDup]).
    specialize (H Hnd).
    assert (Hc : forall i, In i completion -> ~ In i [] /\ (i < n)%nat).
    { intros i Hi. split; [tauto|]. apply (Permutation_in _ HP) in Hi. apply in_seq in Hi. lia. }
    specialize (H Hc). rewrite app_nil_r in H. destruct H as (H1 & H2 & H3 & _ & H5).
    set (s := fold_left _ _ _) in *.
    assert (Hidx : im_index s = n).
    { destruct (Nat.lt_trichotomy (im_index s) n) as [Hl|[He|Hg]]; [|exact He|].
      - exfalso. apply H2. apply -> in_rev. apply (Permutation_in _ (Permutation_sym HP)).
        apply in_seq. lia.
      - specialize (H1 n Hg). apply H5 in H1. lia. }
    now rewrite H3, Hidx.
  Qed.
End IMapProofs.

(** ordered delivery for every number of workers and every schedule that
    lets the pool finish *)
Theorem imap_any_pool {B} : forall (results : nat -> B) n_tasks n_workers sched,
  pool_finished (pool_run n_tasks n_workers sched) = true ->
  imap_deliver results n_tasks (pq_done (pool_run n_tasks n_workers sched)) = map results (seq 0 n_tasks).
Proof. intros. apply imap_deliver_ordered. now apply pool_completion_perm. Qed.

(** * the consuming loop *)
Lemma map_nth_seq' {A} (l : list A) d : map (fun i => nth i l d) (seq 0 (length l)) = l.
Proof.
  induction l as [|x r IH]; [reflexivity|]. cbn [length seq map nth].
  f_equal. rewrite <- seq_shift, map_map. exact IH.
Qed.

Section Output.
  Variable is_space : Z -> bool.
  Notation job := (job is_space).
  Notation BD := BREAK_DURATION.

  Lemma consume_spec files : forall w nfs,
    all_parse is_space files ->
    consume (map (job BD) files) w nfs =
    (SOk, w ++ spec_corpus is_space files, nfs ++ map (fun f => fst f ++ [10]) (filter is_missing files)).
  Proof.
    induction files as [|f r IH]; intros w nfs Hp.
    - cbn. now rewrite !app_nil_r.
    - assert (Hr : all_parse is_space r) by (intros g Hg; apply Hp; now right).
      specialize (Hp f (or_introl eq_refl)).
      cbn [map]. unfold spec_corpus. cbn [filter].
      assert (Hm : is_missing f = match snd f with Missing => true | Doc _ => false end) by reflexivity.
      destruct (snd f) as [|ss] eqn:Ef.
      + assert (Hj : job BD f = JNotFound (fst f ++ [10])) by (unfold Corpus.job; now rewrite Ef).
        rewrite Hj, Hm. cbn [consume negb map]. rewrite IH by exact Hr. unfold spec_corpus.
        now rewrite <- app_assoc.
      + destruct (read_clean is_space BD ss 0%Qc) as [ls|] eqn:Er.
        * assert (Hj : job BD f = JLines (ls ++ [END_MARKER])) by (unfold Corpus.job; now rewrite Ef, Er).
          assert (Ht : file_text is_space f = concat ls ++ END_MARKER)
            by (unfold file_text; now rewrite Ef, Er).
          rewrite Hj, Hm. cbn [consume negb flat_map]. rewrite IH by exact Hr. rewrite Ht.
          unfold spec_corpus. rewrite concat_app. cbn [concat].
          now rewrite app_nil_r, <- !app_assoc.
        * exfalso. apply Hp. unfold Corpus.job. now rewrite Ef, Er.
  Qed.

  Lemma concat_not_found files :
    concat (map (fun f : str * content => fst f ++ [10%Z]) (filter is_missing files)) = spec_not_found files.
  Proof. unfold spec_not_found. now rewrite flat_map_concat_map. Qed.

  (** the corpus file, for every number of workers and every schedule *)
  Theorem create_corpus_output : forall walk n_workers sched nf_taken nf_fuel,
    let files := isort fst (gz_files_of walk) in
    all_parse is_space files ->
    pool_finished (pool_run (length files) n_workers sched) = true ->
    let o := create_corpus job true false walk (pq_done (pool_run (length files) n_workers sched))
                           nf_taken nf_fuel in
    o_status o = SOk /\
    o_written o = Some (spec_corpus is_space files) /\
    o_not_found o = match filter is_missing files with
                    | [] => None
                    | _ => Some (first_free nf_taken nf_fuel 0, spec_not_found files)
                    end.
  Proof.
    intros walk w sched taken fuel files Hp Hfin o. unfold o, create_corpus. cbn [negb].
    fold files. rewrite (imap_any_pool _ _ _ _ Hfin).
    rewrite <- (map_map (fun i => nth i files ([], Missing)) (job BD)), map_nth_seq'.
    rewrite (consume_spec files [] [] Hp). cbn [app o_status o_written o_not_found].
    repeat split. rewrite <- concat_not_found.
    destruct (filter is_missing files); reflexivity.
  Qed.

  (** the walk order does not matter *)
  Theorem create_corpus_walk_order : forall walk walk' completion nf_taken nf_fuel,
    NoDup (map fst (gz_files_of walk)) ->
    Permutation (gz_files_of walk) (gz_files_of walk') ->
    create_corpus job true false walk completion nf_taken nf_fuel =
    create_corpus job true false walk' completion nf_taken nf_fuel.
  Proof.
    intros walk walk' completion taken fuel Hnd HP. unfold create_corpus. cbn [negb].
    now rewrite (sort_perm_invariant_lemma fst _ _ Hnd HP).
  Qed.

  Lemma filter_missing_nonempty files f :
    In f files -> snd f = Missing -> filter is_missing files <> [].
  Proof.
    intros Hin Hm E. assert (H : In f (filter is_missing files)).
    { apply filter_In. split; [exact Hin|]. unfold is_missing. now rewrite Hm. }
    rewrite E in H. destruct H.
  Qed.
End Output.

(** * safe_write_path *)
Lemma first_free_spec taken : forall fuel c,
  (exists k, (c <= k <= c + fuel)%nat /\ taken k = false) ->
  let r := first_free taken fuel c in
  (c <= r)%nat /\ taken r = false /\ forall j, (c <= j < r)%nat -> taken j = true.
Proof.
  induction fuel as [|f IH]; intros c (k & Hk & Hf); cbn [first_free].
  - assert (k = c) by lia. subst k. repeat split; auto; intros; lia.
  - destruct (taken c) eqn:E.
    + assert (Hk' : exists k, (S c <= k <= S c + f)%nat /\ taken k = false).
      { exists k. split; [|exact Hf]. destruct (Nat.eq_dec k c) as [->|]; [congruence|lia]. }
      destruct (IH (S c) Hk') as (H1 & H2 & H3). repeat split; [lia|exact H2|].
      intros j Hj. destruct (Nat.eq_dec j c) as [->|]; [exact E|]. apply H3. lia.
    + repeat split; auto; intros; lia.
Qed.

Theorem missing_recorded : forall is_space walk n_workers sched nf_taken nf_fuel f,
  let files := isort fst (gz_files_of walk) in
  all_parse is_space files ->
  pool_finished (pool_run (length files) n_workers sched) = true ->
  In f files -> snd f = Missing ->
  (exists k, (k <= nf_fuel)%nat /\ nf_taken k = false) ->
  let o := create_corpus (job is_space) true false walk (pq_done (pool_run (length files) n_workers sched))
                         nf_taken nf_fuel in
  o_status o = SOk /\
  exists k, o_not_found o = Some (k, spec_not_found files) /\
            nf_taken k = false /\ forall j, (j < k)%nat -> nf_taken j = true.
Proof.
  intros is_space walk w sched taken fuel f files Hp Hfin Hin Hm Hfree o.
  destruct (create_corpus_output is_space walk w sched taken fuel Hp Hfin) as (H1 & _ & H3).
  fold files in H3. fold o in H1, H3. split; [exact H1|].
  exists (first_free taken fuel 0).
  pose proof (filter_missing_nonempty files f Hin Hm) as Hne.
  destruct (filter is_missing files) eqn:E; [congruence|].
  destruct (first_free_spec taken fuel 0) as (_ & H4 & H5).
  { destruct Hfree as (k & Hk & Hf). exists k. split; [lia|exact Hf]. }
  split; [exact H3|]. split; [exact H4|]. intros j Hj. apply H5. lia.
Qed.

Theorem never_overwrites : forall the_job dir_exists walk completion nf_taken nf_fuel,
  let o := create_corpus the_job dir_exists true walk completion nf_taken nf_fuel in
  (o_status o = SOutfileExists \/ o_status o = SNoDirectory) /\ o_written o = None /\ o_not_found o = None.
Proof. intros the_job [|] walk completion taken fuel; cbn; auto. Qed.

(** * the logic before the repair: a missing file aborts the run *)
Lemma consume_status_ok rs : forall w nfs,
  fst (fst (consume rs w nfs)) = SOk ->
  Forall (fun r => match r with JLines _ | JNotFound _ => True | _ => False end) rs.
Proof.
  induction rs as [|r rest IH]; intros w nfs H; [constructor|].
  destruct r; cbn [consume] in H; try discriminate H; constructor; try exact I; eapply IH; exact H.
Qed.

Definition ex_walk : list walk_entry :=
  [ ([100], [ ([98; 46; 103; 122], Doc [ {| s_words := [Some [72; 105]; Some [33]];
                                            s_times := [(83, Q2Qc (7 # 1)); (69, Q2Qc (8 # 1))] |} ]);
              ([97; 46; 103; 122], Missing);
              ([99; 46; 116; 120; 116], Missing) ]) ]%Z.

Theorem missing_crashes_refuted : exists walk completion,
  o_status (create_corpus (job_unrepaired (fun _ => false)) true false walk completion (fun _ => false) 1)
  = SUnboundLocal.
Proof. exists ex_walk, [1; 0]%nat. vm_compute. reflexivity. Qed.

Theorem unrepaired_missing_crashes : forall is_space walk completion nf_taken nf_fuel f,
  let files := isort fst (gz_files_of walk) in
  In f files -> snd f = Missing ->
  Permutation completion (seq 0 (length files)) ->
  o_status (create_corpus (job_unrepaired is_space) true false walk completion nf_taken nf_fuel) <> SOk.
Proof.
  intros is_space walk completion taken fuel f files Hin Hm HP.
  unfold create_corpus. cbn [negb]. fold files.
  rewrite (imap_deliver_ordered _ _ _ HP).
  rewrite <- (map_map (fun i => nth i files ([], Missing)) (job_unrepaired is_space BREAK_DURATION)), map_nth_seq'.
  destruct (consume (map (job_unrepaired is_space BREAK_DURATION) files) [] []) as [[st w] nfs] eqn:E.
  destruct st; cbn [o_status]; try discriminate. exfalso.
  assert (H : fst (fst (consume (map (job_unrepaired is_space BREAK_DURATION) files) [] [])) = SOk)
    by now rewrite E.
  apply consume_status_ok in H. rewrite Forall_forall in H.
  specialize (H (job_unrepaired is_space BREAK_DURATION f) (in_map _ _ _ Hin)).
  unfold job_unrepaired in H. now rewrite Hm in H.
Qed.
