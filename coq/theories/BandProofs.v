(** Proofs about the models of bandsample and save_counter/load_counter (Band.v). *)
From Coq Require Import ZArith List Bool QArith Qcanon Lia Permutation Arith Sorted.
From PV Require Import Lists PyText PyTextProofs Band.
Import ListNotations.
Open Scope Z_scope.

(** * Rationals *)
Lemma qc_leb_le a b : qc_leb a b = true <-> (a <= b)%Qc.
Proof. unfold qc_leb, Qcle. apply Qle_bool_iff. Qed.

Lemma qc_of_Z_plus a b : qc_of_Z (a + b) = (qc_of_Z a + qc_of_Z b)%Qc.
Proof.
  unfold qc_of_Z, Qcplus. apply Q2Qc_eq_iff. cbn [this Q2Qc].
  rewrite !Qred_correct. rewrite inject_Z_plus. reflexivity.
Qed.

Lemma qc_of_Z_0 : qc_of_Z 0 = 0%Qc.
Proof. apply Qc_is_canon. reflexivity. Qed.

Lemma qc_of_Z_1 : qc_of_Z 1 = 1%Qc.
Proof. apply Qc_is_canon. reflexivity. Qed.

Lemma qc_of_Z_le a b : a <= b <-> (qc_of_Z a <= qc_of_Z b)%Qc.
Proof.
  unfold Qcle, qc_of_Z. cbn [this Q2Qc]. rewrite !Qred_correct. rewrite Zle_Qle. tauto.
Qed.

Lemma qc_of_Z_lt a b : a < b <-> (qc_of_Z a < qc_of_Z b)%Qc.
Proof.
  unfold Qclt, qc_of_Z. cbn [this Q2Qc]. rewrite !Qred_correct. rewrite Zlt_Qlt. tauto.
Qed.

Definition qn (n : nat) : Qc := qc_of_Z (Z.of_nat n).

Lemma qn_S n : qn (S n) = (qn n + 1)%Qc.
Proof. unfold qn. rewrite Nat2Z.inj_succ, <- Z.add_1_r, qc_of_Z_plus. now rewrite qc_of_Z_1. Qed.

(** x <= s + p from 0 <= a, a + x = s + f, f <= p *)
Lemma ord_bound (a x s f p : Qc) :
  (0 <= a)%Qc -> (a + x = s + f)%Qc -> (f <= p)%Qc -> (x <= s + p)%Qc.
Proof.
  intros Ha E Hf.
  replace x with ((s + f) + - a)%Qc by (rewrite <- E; ring).
  replace (s + p)%Qc with ((s + p) + 0)%Qc by ring.
  apply Qcplus_le_compat.
  - apply Qcplus_le_compat; [apply Qcle_refl|exact Hf].
  - replace 0%Qc with (- 0)%Qc by ring. now apply Qcopp_le_compat.
Qed.

Lemma qc_sub_nonneg (a s : Qc) : (s <= a)%Qc -> (0 <= a - s)%Qc.
Proof. intros H. unfold Qcminus. exact (proj1 (Qcle_minus_iff s a) H). Qed.

Lemma qc_add_nonneg (a b : Qc) : (0 <= a)%Qc -> (0 <= b)%Qc -> (0 <= a + b)%Qc.
Proof.
  intros Ha Hb. replace 0%Qc with (0 + 0)%Qc by ring. now apply Qcplus_le_compat.
Qed.

Section BandProofs.
Context {W : Type}.
Notation entry := (@entry W).

(** * List facts *)
Lemma remove_at_length i (l : list entry) e :
  nth_error l i = Some e -> S (length (remove_at i l)) = length l.
Proof.
  revert i. induction l as [|x r IH]; intros [|i] H; cbn in *; try easy.
  f_equal. eapply IH; eauto.
Qed.

Lemma remove_at_perm i (l : list entry) e :
  nth_error l i = Some e -> Permutation (e :: remove_at i l) l.
Proof.
  revert i. induction l as [|x r IH]; intros [|i] H; cbn in *; try easy.
  - inversion H; subst. apply Permutation_refl.
  - eapply perm_trans; [apply perm_swap|]. apply perm_skip. now apply IH.
Qed.

Lemma remove_at_incl i (l : list entry) x : In x (remove_at i l) -> In x l.
Proof.
  revert i. induction l as [|y r IH]; intros [|i]; cbn; try easy.
  - intros H. now right.
  - intros [H|H]; [now left|]. right. eapply IH; eauto.
Qed.

Lemma firstn_remove_at i (l : list entry) : firstn i (remove_at i l) = firstn i l.
Proof.
  revert i. induction l as [|x r IH]; intros [|i]; cbn; try reflexivity. now rewrite IH.
Qed.

Lemma firstn_S_nth i (l : list entry) e :
  nth_error l i = Some e -> firstn (S i) l = firstn i l ++ [e].
Proof.
  revert i. induction l as [|x r IH]; intros [|i] H; cbn in *; try easy.
  - now inversion H.
  - f_equal. now apply IH.
Qed.

Lemma nth_error_lt i (l : list entry) e : nth_error l i = Some e -> (i < length l)%nat.
Proof. intros H. apply nth_error_Some. congruence. Qed.

(** * Termination: the measure 2*|population| - index strictly decreases *)
Lemma back_walk_measure step index : forall (pop : list entry) acc sample pop' index' acc' sample',
  (index <= length pop)%nat ->
  back_walk step pop index acc sample = (pop', index', acc', sample') ->
  (index' <= length pop')%nat /\ (length pop' + index = length pop + index')%nat /\
  (index' <= index)%nat.
Proof.
  induction index as [|i IH]; intros pop acc sample pop' index' acc' sample' Hle H.
  - cbn in H. inversion H; subst. lia.
  - cbn in H. destruct (qc_leb step acc); [|inversion H; subst; lia].
    destruct (nth_error pop i) as [e|] eqn:En; [|inversion H; subst; lia].
    pose proof (remove_at_length _ _ _ En) as Hl.
    apply IH in H; [|lia]. lia.
Qed.

Lemma band_loop_fuel step fuel : forall (pop : list entry) index acc sample,
  (index <= length pop)%nat -> (2 * length pop < fuel + index)%nat ->
  band_loop fuel step pop index acc sample <> None.
Proof.
  induction fuel as [|f IH]; intros pop index acc sample Hle Hm; [lia|].
  cbn. destruct (nth_error pop index) as [e|] eqn:En; [|easy].
  pose proof (nth_error_lt _ _ _ En) as Hlt.
  destruct (qc_leb step (acc + qc_of_Z (snd e))).
  - pose proof (remove_at_length _ _ _ En) as Hl.
    destruct (back_walk step (remove_at index pop) index (acc + qc_of_Z (snd e) - step)
                        (sample ++ [e])) as [[[pop' index'] acc'] sample'] eqn:Eb.
    apply back_walk_measure in Eb; [|lia]. apply IH; lia.
  - apply IH; lia.
Qed.

(** the out-of-fuel branch is unreachable with fuel 2*|population|+1 *)
Theorem band_fuel_sufficient (population : list entry) sample_size cutoff perm :
  bandsample population sample_size cutoff perm <> BOutOfFuel.
Proof.
  unfold bandsample. destruct (sample_size =? 0); [easy|].
  set (pop := band_prepare population cutoff perm).
  destruct (band_loop (2 * length pop + 1) (band_step pop sample_size) pop 0 0%Qc []) eqn:E; [easy|].
  exfalso. revert E. apply band_loop_fuel; lia.
Qed.

(** * The sample is a sub-multiset of the prepared population *)
Lemma back_walk_perm step index : forall (pop : list entry) acc sample pop' index' acc' sample',
  back_walk step pop index acc sample = (pop', index', acc', sample') ->
  Permutation (sample' ++ pop') (sample ++ pop).
Proof.
  induction index as [|i IH]; intros pop acc sample pop' index' acc' sample' H.
  - cbn in H. inversion H; subst. apply Permutation_refl.
  - cbn in H. destruct (qc_leb step acc); [|inversion H; subst; apply Permutation_refl].
    destruct (nth_error pop i) as [e|] eqn:En; [|inversion H; subst; apply Permutation_refl].
    apply IH in H. eapply perm_trans; [exact H|].
    rewrite <- app_assoc. apply Permutation_app_head. cbn. now apply remove_at_perm.
Qed.

Lemma back_walk_incl step index : forall (pop : list entry) acc sample pop' index' acc' sample' x,
  back_walk step pop index acc sample = (pop', index', acc', sample') ->
  In x pop' -> In x pop.
Proof.
  induction index as [|i IH]; intros pop acc sample pop' index' acc' sample' x H Hx.
  - cbn in H. inversion H; subst. exact Hx.
  - cbn in H. destruct (qc_leb step acc); [|inversion H; subst; exact Hx].
    destruct (nth_error pop i) as [e|] eqn:En; [|inversion H; subst; exact Hx].
    eapply remove_at_incl. eapply IH; eauto.
Qed.

Lemma band_loop_perm step fuel : forall (pop : list entry) index acc sample s,
  band_loop fuel step pop index acc sample = Some s ->
  exists rest, Permutation (s ++ rest) (sample ++ pop).
Proof.
  induction fuel as [|f IH]; intros pop index acc sample s H; [easy|].
  cbn in H. destruct (nth_error pop index) as [e|] eqn:En.
  - destruct (qc_leb step (acc + qc_of_Z (snd e))).
    + destruct (back_walk step (remove_at index pop) index (acc + qc_of_Z (snd e) - step)
                          (sample ++ [e])) as [[[pop' index'] acc'] sample'] eqn:Eb.
      apply IH in H as (rest & Hp). exists rest.
      eapply perm_trans; [exact Hp|]. eapply perm_trans; [eapply back_walk_perm; eauto|].
      rewrite <- app_assoc. apply Permutation_app_head. cbn. now apply remove_at_perm.
    + now apply IH in H.
  - inversion H; subst. exists pop. apply Permutation_refl.
Qed.

Lemma insert_by_freq_perm (x : entry) l : Permutation (insert_by_freq x l) (x :: l).
Proof.
  induction l as [|y r IH]; cbn; [apply Permutation_refl|].
  destruct (snd x <=? snd y); [apply Permutation_refl|].
  eapply perm_trans; [apply perm_skip, IH|]. apply perm_swap.
Qed.

Lemma sort_by_freq_perm (l : list entry) : Permutation (sort_by_freq l) l.
Proof.
  induction l as [|x r IH]; cbn; [apply perm_nil|].
  eapply perm_trans; [apply insert_by_freq_perm|]. now apply perm_skip.
Qed.

(** the sort really sorts, and is stable (ties keep the shuffled order) *)
Lemma insert_by_freq_sorted (x : entry) l :
  Sorted.StronglySorted (fun a b => snd a <= snd b) l ->
  Sorted.StronglySorted (fun a b => snd a <= snd b) (insert_by_freq x l).
Proof.
  induction 1 as [|y r Hs IH Hy]; cbn.
  - constructor; [constructor|constructor].
  - destruct (snd x <=? snd y) eqn:E.
    + apply Z.leb_le in E. constructor; [now constructor|].
      constructor; [exact E|]. eapply Forall_impl; [|exact Hy]. cbn. intros. lia.
    + apply Z.leb_gt in E. constructor; [exact IH|].
      eapply Permutation_Forall; [apply Permutation_sym, insert_by_freq_perm|].
      constructor; [lia|exact Hy].
Qed.

Lemma sort_by_freq_sorted (l : list entry) :
  Sorted.StronglySorted (fun a b => snd a <= snd b) (sort_by_freq l).
Proof. induction l as [|x r IH]; cbn; [constructor|now apply insert_by_freq_sorted]. Qed.

Lemma apply_perm_id (l : list entry) : apply_perm (seq 0 (length l)) l = l.
Proof.
  unfold apply_perm.
  assert (H : forall pre, flat_map (fun i => match nth_error (pre ++ l) i with Some x => [x] | None => [] end)
                                   (seq (length pre) (length l)) = l).
  { induction l as [|x r IH]; intros pre; [reflexivity|].
    cbn [length seq flat_map]. rewrite nth_error_app2 by lia. rewrite Nat.sub_diag. cbn.
    f_equal. specialize (IH (pre ++ [x])). rewrite <- app_assoc in IH. cbn in IH.
    rewrite app_length in IH. cbn in IH. now rewrite Nat.add_1_r in IH. }
  apply (H []).
Qed.

Lemma apply_perm_perm p (l : list entry) :
  Permutation p (seq 0 (length l)) -> Permutation (apply_perm p l) l.
Proof.
  intros H. rewrite <- (apply_perm_id l) at 2. unfold apply_perm. now apply Permutation_flat_map.
Qed.

Lemma apply_perm_incl p (l : list entry) x : In x (apply_perm p l) -> In x l.
Proof.
  unfold apply_perm. intros H. apply in_flat_map in H as (i & _ & Hi).
  destruct (nth_error l i) eqn:E; [|easy]. destruct Hi as [<-|[]]. eapply nth_error_In; eauto.
Qed.

Lemma band_prepare_incl population cutoff perm (x : entry) :
  In x (band_prepare population cutoff perm) -> In x population /\ cutoff <= snd x.
Proof.
  unfold band_prepare. intros H.
  eapply Permutation_in in H; [|apply sort_by_freq_perm].
  apply apply_perm_incl in H. apply filter_In in H as [H1 H2]. split; [exact H1|now apply Z.leb_le].
Qed.

Lemma band_prepare_perm population cutoff perm :
  Permutation perm (seq 0 (length (filter (fun e : entry => cutoff <=? snd e) population))) ->
  Permutation (band_prepare population cutoff perm) (filter (fun e => cutoff <=? snd e) population).
Proof.
  intros H. unfold band_prepare. eapply perm_trans; [apply sort_by_freq_perm|]. now apply apply_perm_perm.
Qed.

(** every sampled pair is a pair of the population with frequency >= cutoff, and
    every entry of the population is used at most once (sub-multiset) - provided
    the shuffle is a permutation *)
Theorem band_subset (population : list entry) sample_size cutoff perm s :
  Permutation perm (seq 0 (length (filter (fun e : entry => cutoff <=? snd e) population))) ->
  bandsample population sample_size cutoff perm = BOk s ->
  exists rest, Permutation (s ++ rest) (filter (fun e => cutoff <=? snd e) population).
Proof.
  intros Hp. unfold bandsample. destruct (sample_size =? 0); [easy|].
  set (pop := band_prepare population cutoff perm).
  destruct (band_loop _ _ pop 0 0%Qc []) as [s'|] eqn:E; [|easy].
  intros H. inversion H; subst s'. apply band_loop_perm in E as (rest & Hr). exists rest.
  eapply perm_trans; [exact Hr|]. cbn. now apply band_prepare_perm.
Qed.

(** whatever the shuffle does: every sampled pair is a population pair at or above the cutoff *)
Theorem band_members (population : list entry) sample_size cutoff perm s e :
  bandsample population sample_size cutoff perm = BOk s -> In e s ->
  In e population /\ cutoff <= snd e.
Proof.
  unfold bandsample. destruct (sample_size =? 0); [easy|].
  set (pop := band_prepare population cutoff perm).
  destruct (band_loop _ _ pop 0 0%Qc []) as [s'|] eqn:E; [|easy].
  intros H He. inversion H; subst s'. apply band_loop_perm in E as (rest & Hr).
  apply band_prepare_incl with (perm := perm). fold pop.
  eapply Permutation_in; [exact Hr|]. apply in_app_iff. now left.
Qed.

Lemma NoDup_map_filter {A B} (f : A -> B) (p : A -> bool) l : NoDup (map f l) -> NoDup (map f (filter p l)).
Proof.
  induction l as [|x r IH]; cbn; intros H; [constructor|].
  inversion H as [|? ? Hx Hr]; subst. destruct (p x); cbn; [|now apply IH].
  constructor; [|now apply IH]. intros Hin. apply Hx.
  apply in_map_iff in Hin as (y & Ey & Hy). apply filter_In in Hy as [Hy _].
  rewrite <- Ey. now apply in_map.
Qed.

(** words are not repeated: the final dict comprehension cannot merge entries *)
Theorem band_words_distinct (population : list entry) sample_size cutoff perm s :
  NoDup (map fst population) ->
  Permutation perm (seq 0 (length (filter (fun e : entry => cutoff <=? snd e) population))) ->
  bandsample population sample_size cutoff perm = BOk s ->
  NoDup (map fst s).
Proof.
  intros Hnd Hp H. destruct (band_subset _ _ _ _ _ Hp H) as (rest & Hr).
  assert (Hn : NoDup (map fst (s ++ rest))).
  { eapply Permutation_NoDup; [apply Permutation_sym, Permutation_map, Hr|].
    now apply NoDup_map_filter. }
  rewrite map_app in Hn. eapply NoDup_app_remove_r; eauto.
Qed.

(** * Size *)
Definition sumq (l : list entry) : Qc := fold_right (fun e s => (qc_of_Z (snd e) + s)%Qc) 0%Qc l.

Lemma sumq_nil : sumq [] = 0%Qc.
Proof. reflexivity. Qed.
Lemma sumq_cons x r : sumq (x :: r) = (qc_of_Z (snd x) + sumq r)%Qc.
Proof. reflexivity. Qed.

Lemma sumq_app l1 l2 : sumq (l1 ++ l2) = (sumq l1 + sumq l2)%Qc.
Proof.
  induction l1 as [|x r IH]; cbn [app]; [rewrite sumq_nil; ring|].
  rewrite !sumq_cons, IH. ring.
Qed.

Lemma sumq_single e : sumq [e] = qc_of_Z (snd e).
Proof. rewrite sumq_cons, sumq_nil. ring. Qed.

Lemma sumq_perm l1 l2 : Permutation l1 l2 -> sumq l1 = sumq l2.
Proof.
  induction 1 as [|x l l' _ IH|x y l|l l' l'' _ IH1 _ IH2].
  - reflexivity.
  - rewrite !sumq_cons, IH. reflexivity.
  - rewrite !sumq_cons. ring.
  - congruence.
Qed.

Lemma sumq_sum_freq l : sumq l = qc_of_Z (sum_freq l).
Proof.
  induction l as [|x r IH]; [rewrite sumq_nil; symmetry; apply qc_of_Z_0|].
  rewrite sumq_cons. change (sum_freq (x :: r)) with (snd x + sum_freq r).
  now rewrite qc_of_Z_plus, IH.
Qed.

Definition nonneg (l : list entry) : Prop := forall e, In e l -> 0 <= snd e.

Lemma sumq_nonneg l : nonneg l -> (0 <= sumq l)%Qc.
Proof.
  induction l as [|x r IH]; intros H; [rewrite sumq_nil; apply Qcle_refl|].
  rewrite sumq_cons. apply qc_add_nonneg.
  - rewrite <- qc_of_Z_0. apply (proj1 (qc_of_Z_le 0 (snd x))). apply H. now left.
  - apply IH. intros e He. apply H. now right.
Qed.

Lemma sumq_firstn_le i l : nonneg l -> (sumq (firstn i l) <= sumq l)%Qc.
Proof.
  intros H. rewrite <- (firstn_skipn i l) at 2. rewrite sumq_app.
  replace (sumq (firstn i l)) with (sumq (firstn i l) + 0)%Qc at 1 by ring.
  apply Qcplus_le_compat; [apply Qcle_refl|]. apply sumq_nonneg.
  intros e He. apply H. eapply In_skipn'; eauto.
Qed.

(** invariant: the accumulator is non-negative and
      accumulator + |sample| * step = freq of the sample + freq of the entries before [index]
    (every frequency is added at most once, every pick subtracts [step]) *)
Definition inv (step : Qc) (pop : list entry) (index : nat) (acc : Qc) (sample : list entry) : Prop :=
  (0 <= acc)%Qc /\ (acc + qn (length sample) * step = sumq sample + sumq (firstn index pop))%Qc.

Lemma inv_pick step pop i acc sample e :
  nth_error pop i = Some e -> (step <= acc)%Qc ->
  (acc + qn (length sample) * step = sumq sample + sumq (firstn (S i) pop))%Qc ->
  inv step (remove_at i pop) i (acc - step)%Qc (sample ++ [e]).
Proof.
  intros En Hs E. split; [now apply qc_sub_nonneg|].
  rewrite app_length, Nat.add_1_r, qn_S, sumq_app, firstn_remove_at, sumq_single.
  rewrite (firstn_S_nth _ _ _ En), sumq_app, sumq_single in E.
  transitivity (acc + qn (length sample) * step)%Qc; [ring|]. rewrite E. ring.
Qed.

Lemma back_walk_inv step index : forall (pop : list entry) acc sample pop' index' acc' sample',
  inv step pop index acc sample ->
  back_walk step pop index acc sample = (pop', index', acc', sample') ->
  inv step pop' index' acc' sample'.
Proof.
  induction index as [|i IH]; intros pop acc sample pop' index' acc' sample' Hi H.
  - cbn in H. inversion H; subst. exact Hi.
  - cbn in H. destruct (qc_leb step acc) eqn:El; [|inversion H; subst; exact Hi].
    destruct (nth_error pop i) as [e|] eqn:En; [|inversion H; subst; exact Hi].
    apply qc_leb_le in El. destruct Hi as [_ E].
    eapply IH; [|exact H]. now apply inv_pick.
Qed.

Lemma band_loop_size step fuel : forall (pop : list entry) index acc sample s,
  nonneg pop -> inv step pop index acc sample ->
  band_loop fuel step pop index acc sample = Some s ->
  (qn (length s) * step <= sumq sample + sumq pop)%Qc.
Proof.
  induction fuel as [|f IH]; intros pop index acc sample s Hnn [Ha E] H; [easy|].
  cbn in H. destruct (nth_error pop index) as [e|] eqn:En.
  - assert (He : 0 <= snd e) by (apply Hnn; eapply nth_error_In; eauto).
    assert (Hqe : (0 <= qc_of_Z (snd e))%Qc) by (rewrite <- qc_of_Z_0; exact (proj1 (qc_of_Z_le 0 (snd e)) He)).
    destruct (qc_leb step (acc + qc_of_Z (snd e))) eqn:El.
    + apply qc_leb_le in El.
      destruct (back_walk step (remove_at index pop) index (acc + qc_of_Z (snd e) - step)
                          (sample ++ [e])) as [[[pop' index'] acc'] sample'] eqn:Eb.
      assert (Hi1 : inv step (remove_at index pop) index (acc + qc_of_Z (snd e) - step) (sample ++ [e])).
      { split; [now apply qc_sub_nonneg|].
        rewrite app_length, Nat.add_1_r, qn_S, sumq_app, firstn_remove_at, sumq_single.
        transitivity (acc + qn (length sample) * step + qc_of_Z (snd e))%Qc; [ring|]. rewrite E. ring. }
      pose proof (back_walk_inv _ _ _ _ _ _ _ _ _ Hi1 Eb) as Hi2.
      pose proof (back_walk_perm _ _ _ _ _ _ _ _ _ Eb) as Hp.
      assert (Hnn' : nonneg pop').
      { intros x Hx. apply Hnn. eapply remove_at_incl. eapply back_walk_incl; eauto. }
      specialize (IH _ _ _ _ _ Hnn' Hi2 H).
      replace (sumq sample + sumq pop)%Qc with (sumq sample' + sumq pop')%Qc; [exact IH|].
      rewrite <- !sumq_app. rewrite (sumq_perm _ _ Hp). rewrite <- app_assoc.
      apply sumq_perm. apply Permutation_app_head. cbn [app]. now apply remove_at_perm.
    + apply (IH pop (S index) (acc + qc_of_Z (snd e))%Qc sample s Hnn); [|exact H].
      split; [now apply qc_add_nonneg|].
      rewrite (firstn_S_nth _ _ _ En), sumq_app, sumq_single.
      transitivity (acc + qn (length sample) * step + qc_of_Z (snd e))%Qc; [ring|]. rewrite E. ring.
  - inversion H; subst s. eapply ord_bound; [exact Ha|exact E|]. now apply sumq_firstn_le.
Qed.

Lemma sum_freq_pos (l : list entry) : l <> [] -> (forall e, In e l -> 1 <= snd e) -> 1 <= sum_freq l.
Proof.
  induction l as [|x r IH]; intros Hne H; [easy|].
  change (sum_freq (x :: r)) with (snd x + sum_freq r).
  assert (1 <= snd x) by (apply H; now left).
  destruct r as [|y r']; [cbn; lia|].
  assert (1 <= sum_freq (y :: r')) by (apply IH; [easy|]; intros e He; apply H; now right). lia.
Qed.

(** |sample| <= sample_size when sample_size >= 1 and the frequencies that pass
    the cutoff are >= 1 (no assumption on the shuffle) *)
Theorem band_size (population : list entry) sample_size cutoff perm s :
  1 <= sample_size ->
  (forall e, In e population -> cutoff <= snd e -> 1 <= snd e) ->
  bandsample population sample_size cutoff perm = BOk s ->
  Z.of_nat (length s) <= sample_size.
Proof.
  intros Hn Hfreq. unfold bandsample. destruct (sample_size =? 0) eqn:E0; [easy|].
  set (pop := band_prepare population cutoff perm).
  assert (Hpop : forall e, In e pop -> 1 <= snd e).
  { intros e He. apply band_prepare_incl in He as [H1 H2]. now apply Hfreq. }
  destruct (band_loop _ _ pop 0 0%Qc []) as [s'|] eqn:E; [|easy].
  intros H. inversion H; subst s'.
  destruct pop as [|x r] eqn:Epop.
  - cbn in E. inversion E; subst. cbn. lia.
  - rewrite <- Epop in *.
    assert (Hnn : nonneg pop) by (intros e He; specialize (Hpop e He); lia).
    assert (HT : 1 <= sum_freq pop) by (apply sum_freq_pos; [rewrite Epop; easy|exact Hpop]).
    set (step := band_step pop sample_size) in *.
    assert (HN : qc_of_Z sample_size <> 0%Qc).
    { rewrite <- qc_of_Z_0. intros Heq. apply Q2Qc_eq_iff in Heq.
      unfold Qeq in Heq. cbn in Heq. lia. }
    assert (Hmul : (qc_of_Z sample_size * step = qc_of_Z (sum_freq pop))%Qc).
    { unfold step, band_step. now apply Qcmult_div_r. }
    assert (Hstep : (0 < step)%Qc).
    { apply Qcnot_le_lt. intros Hle.
      assert (Hc : (step * qc_of_Z sample_size <= 0 * qc_of_Z sample_size)%Qc).
      { apply Qcmult_le_compat_r; [exact Hle|]. rewrite <- qc_of_Z_0.
        apply (proj1 (qc_of_Z_le 0 sample_size)). lia. }
      rewrite Qcmult_comm, Hmul, Qcmult_0_l in Hc. rewrite <- qc_of_Z_0 in Hc.
      apply (proj2 (qc_of_Z_le _ _)) in Hc. lia. }
    assert (Hb : (qn (length s) * step <= sumq [] + sumq pop)%Qc).
    { apply (band_loop_size step (2 * length pop + 1) pop 0%nat 0%Qc [] s Hnn); [|exact E].
      split; [apply Qcle_refl|]. cbn [length firstn]. rewrite sumq_nil. unfold qn.
      change (Z.of_nat 0) with 0. rewrite qc_of_Z_0. ring. }
    rewrite sumq_nil, Qcplus_0_l, sumq_sum_freq, <- Hmul in Hb.
    apply Qcmult_lt_0_le_reg_r in Hb; [|exact Hstep]. unfold qn in Hb.
    exact (proj2 (qc_of_Z_le _ _) Hb).
Qed.

(** the hypothesis on the frequencies is needed: with zero frequencies the step
    is 0 and everything is sampled *)
Lemma band_size_zero_freq_refuted :
  exists (population : list (Z * Z)) sample_size cutoff perm s,
    1 <= sample_size /\ bandsample population sample_size cutoff perm = BOk s /\
    ~ Z.of_nat (length s) <= sample_size.
Proof.
  exists [(1, 0); (2, 0)], 1, 0, [0%nat; 1%nat], [(1, 0); (2, 0)].
  split; [lia|]. split; [vm_compute; reflexivity|cbn; lia].
Qed.

Theorem band_input_unchanged (population : list entry) sample_size cutoff perm :
  band_argument_after population sample_size cutoff perm = population.
Proof. reflexivity. Qed.

End BandProofs.

(** * Counters on disk *)
Lemma mod10_digit n : (48 <=? 48 + n mod 10) && (48 + n mod 10 <=? 57) = true.
Proof.
  pose proof (Z.mod_pos_bound n 10 ltac:(lia)).
  apply andb_true_iff. split; apply Z.leb_le; lia.
Qed.

Lemma parse_digits_dec fuel : forall n acc,
  0 <= n < 2 ^ Z.of_nat fuel -> parse_digits 0 (dec_digits fuel n acc) = parse_digits n acc.
Proof.
  induction fuel as [|f IH]; intros n acc Hn.
  - cbn in Hn. assert (n = 0) by lia. subst. reflexivity.
  - cbn [dec_digits]. destruct (n <? 10) eqn:E.
    + apply Z.ltb_lt in E. cbn [parse_digits]. rewrite mod10_digit.
      f_equal. rewrite Z.mod_small by lia. lia.
    + apply Z.ltb_ge in E. rewrite IH.
      * cbn [parse_digits]. rewrite mod10_digit. f_equal.
        pose proof (Z.div_mod n 10 ltac:(lia)). lia.
      * rewrite Nat2Z.inj_succ, Z.pow_succ_r in Hn by lia.
        split; [apply Z.div_pos; lia|]. apply Z.div_lt_upper_bound; lia.
Qed.

Lemma dec_nonneg_parse n : 0 <= n -> parse_digits 0 (dec_nonneg n) = Some n.
Proof.
  intros Hn. unfold dec_nonneg. rewrite parse_digits_dec; [reflexivity|].
  split; [exact Hn|]. rewrite Nat2Z.inj_succ, Z2Nat.id by apply Z.log2_nonneg.
  destruct (Z.eq_dec n 0) as [->|Hne]; [cbn; lia|]. apply Z.log2_spec. lia.
Qed.

Lemma dec_digits_chars fuel : forall n acc x,
  In x (dec_digits fuel n acc) -> 48 <= x <= 57 \/ In x acc.
Proof.
  induction fuel as [|f IH]; intros n acc x H; [now right|].
  cbn [dec_digits] in H. pose proof (Z.mod_pos_bound n 10 ltac:(lia)).
  destruct (n <? 10).
  - destruct H as [<-|H]; [left; lia|now right].
  - apply IH in H as [H|[<-|H]]; [now left|left; lia|now right].
Qed.

Lemma dec_digits_acc_nonempty fuel : forall n acc, acc <> [] -> dec_digits fuel n acc <> [].
Proof.
  induction fuel as [|f IH]; intros n acc H; [exact H|].
  cbn [dec_digits]. destruct (n <? 10); [easy|]. apply IH. easy.
Qed.

Lemma dec_nonneg_shape n : exists d r, dec_nonneg n = d :: r /\ 48 <= d <= 57.
Proof.
  unfold dec_nonneg. set (f := Z.to_nat (Z.log2 n)).
  destruct (dec_digits (S f) n []) as [|d r] eqn:E.
  - exfalso. revert E. cbn [dec_digits]. destruct (n <? 10); [easy|]. now apply dec_digits_acc_nonempty.
  - exists d, r. split; [reflexivity|].
    destruct (dec_digits_chars (S f) n [] d) as [H|[]]; [rewrite E; now left|exact H].
Qed.

Lemma dec_Z_chars z x : In x (dec_Z z) -> x = 45 \/ 48 <= x <= 57.
Proof.
  unfold dec_Z, dec_nonneg. destruct (z <? 0).
  - intros [<-|H]; [now left|]. apply dec_digits_chars in H as [H|[]]. now right.
  - intros H. apply dec_digits_chars in H as [H|[]]. now right.
Qed.

(** [int(str(z)) == z] *)
Lemma py_int_dec z : py_int (dec_Z z) = Some z.
Proof.
  unfold dec_Z. destruct (z <? 0) eqn:E.
  - apply Z.ltb_lt in E. cbn [py_int]. rewrite Z.eqb_refl.
    destruct (dec_nonneg_shape (- z)) as (d & r & Hs & _).
    rewrite Hs at 1. cbn [is_nil]. rewrite dec_nonneg_parse by lia. cbn. f_equal. lia.
  - apply Z.ltb_ge in E. destruct (dec_nonneg_shape z) as (d & r & Hs & Hd).
    pose proof (dec_nonneg_parse z E) as Hp. rewrite Hs in *. cbn [py_int].
    destruct (d =? 45) eqn:E1; [apply Z.eqb_eq in E1; lia|].
    destruct (d =? 43) eqn:E2; [apply Z.eqb_eq in E2; lia|]. exact Hp.
Qed.

Lemma dec_Z_clean z x : In x (dec_Z z) -> x <> TAB /\ x <> LF /\ x <> CR.
Proof. intros H. apply dec_Z_chars in H. unfold TAB, LF, CR. lia. Qed.

Lemma counter_line_full k n : clean_key k -> full_line (counter_line (k, n)) /\ ~ In CR (counter_line (k, n)).
Proof.
  intros (Ht & Hl & Hc). unfold counter_line. cbn [fst snd]. split.
  - exists (k ++ TAB :: dec_Z n). split; [now rewrite <- app_assoc|].
    intros H. apply in_app_iff in H as [H|[H|H]]; [contradiction|discriminate H|].
    now apply dec_Z_clean in H.
  - intros H. apply in_app_iff in H as [H|[H|H]]; [contradiction|discriminate H|].
    apply in_app_iff in H as [H|[H|[]]]; [now apply dec_Z_clean in H|discriminate H].
Qed.

Lemma counter_line_parse k n :
  clean_key k -> split_on TAB (rstrip_c LF (counter_line (k, n))) = [k; dec_Z n].
Proof.
  intros (Ht & Hl & Hc). unfold counter_line. cbn [fst snd].
  replace (k ++ TAB :: dec_Z n ++ [LF]) with ((k ++ TAB :: dec_Z n) ++ [LF])
    by (rewrite <- app_assoc; reflexivity).
  rewrite rstrip_c_snoc.
  - rewrite split_on_app by exact Ht. rewrite split_on_nosep; [reflexivity|].
    intros H. now apply dec_Z_clean in H.
  - intros H. apply in_app_iff in H as [H|[H|H]]; [contradiction|discriminate H|].
    now apply dec_Z_clean in H.
Qed.

Lemma has_key_false k (c : counter) : ~ In k (map fst c) -> has_key k c = false.
Proof.
  unfold has_key. induction c as [|[k' n] r IH]; cbn; intros H; [reflexivity|].
  rewrite IH by tauto. destruct (str_eqb k' k) eqn:E; [|reflexivity].
  apply str_eqb_eq in E. tauto.
Qed.

Lemma load_lines_saved (l : counter) : forall acc,
  NoDup (map fst (acc ++ l)) -> (forall k, In k (map fst l) -> clean_key k) ->
  load_lines (map counter_line l) acc = Some (acc ++ l).
Proof.
  induction l as [|[k n] r IH]; intros acc Hnd Hcl; [cbn; now rewrite app_nil_r|].
  cbn [map load_lines]. rewrite counter_line_parse by (apply Hcl; now left).
  rewrite has_key_false.
  - rewrite py_int_dec. rewrite IH.
    + now rewrite <- app_assoc.
    + now rewrite <- app_assoc.
    + intros x Hx. apply Hcl. now right.
  - rewrite map_app in Hnd. cbn in Hnd. apply NoDup_remove_2 in Hnd.
    intros H. apply Hnd. apply in_app_iff. now left.
Qed.

Lemma insert_desc_perm x (l : counter) : Permutation (insert_desc x l) (x :: l).
Proof.
  induction l as [|y r IH]; cbn; [apply Permutation_refl|].
  destruct (snd y <=? snd x); [apply Permutation_refl|].
  eapply perm_trans; [apply perm_skip, IH|]. apply perm_swap.
Qed.

Lemma most_common_perm (c : counter) : Permutation (most_common c) c.
Proof.
  induction c as [|x r IH]; cbn; [apply perm_nil|].
  eapply perm_trans; [apply insert_desc_perm|]. now apply perm_skip.
Qed.

(** what is loaded is exactly what was saved, in the order it was written *)
Theorem counter_roundtrip header (c : counter) :
  full_line header -> ~ In CR header ->
  NoDup (map fst c) -> (forall k, In k (map fst c) -> clean_key k) ->
  load_counter (save_counter header c) = Some (most_common c).
Proof.
  intros Hh Hcr Hnd Hcl. unfold load_counter, save_counter.
  pose proof (most_common_perm c) as Hp.
  assert (Hcl' : forall k, In k (map fst (most_common c)) -> clean_key k).
  { intros k Hk. apply Hcl. eapply Permutation_in; [apply Permutation_map, Hp|exact Hk]. }
  change (header ++ concat (map counter_line (most_common c)))
    with (concat (header :: map counter_line (most_common c))).
  rewrite file_lines_of_full.
  - cbn [tl]. apply (load_lines_saved (most_common c) []); [|exact Hcl'].
    cbn. eapply Permutation_NoDup; [apply Permutation_sym, Permutation_map, Hp|exact Hnd].
  - intros l [<-|Hl]; [now split|].
    apply in_map_iff in Hl as ([k n] & <- & Hin). apply counter_line_full. apply Hcl'.
    change k with (fst (k, n)). now apply in_map.
Qed.

Lemma lookup_key_in (c : counter) k n :
  NoDup (map fst c) -> (lookup_key k c = Some n <-> In (k, n) c).
Proof.
  induction c as [|[k' n'] r IH]; cbn; intros Hnd; [split; easy|].
  inversion Hnd as [|? ? Hk Hr]; subst. destruct (str_eqb k' k) eqn:E.
  - apply str_eqb_eq in E. subst k'. split.
    + intros H. inversion H; subst. now left.
    + intros [H|H]; [now inversion H|]. exfalso. apply Hk. change k with (fst (k, n)). now apply in_map.
  - apply str_eqb_neq in E. rewrite (IH Hr). split; [now right|].
    intros [H|H]; [inversion H; congruence|exact H].
Qed.

Lemma lookup_key_perm (c c' : counter) k :
  NoDup (map fst c) -> Permutation c c' -> lookup_key k c = lookup_key k c'.
Proof.
  intros Hnd Hp.
  assert (Hnd' : NoDup (map fst c')) by (eapply Permutation_NoDup; [apply Permutation_map, Hp|exact Hnd]).
  destruct (lookup_key k c) as [n|] eqn:E.
  - symmetry. apply lookup_key_in; [exact Hnd'|]. eapply Permutation_in; [exact Hp|]. now apply lookup_key_in.
  - destruct (lookup_key k c') as [n|] eqn:E'; [|reflexivity].
    apply lookup_key_in in E'; [|exact Hnd'].
    apply (Permutation_in _ (Permutation_sym Hp)) in E'. apply lookup_key_in in E'; [|exact Hnd]. congruence.
Qed.

(** load (save c) = c as finite maps *)
Theorem counter_roundtrip_map header (c : counter) :
  full_line header -> ~ In CR header ->
  NoDup (map fst c) -> (forall k, In k (map fst c) -> clean_key k) ->
  exists c', load_counter (save_counter header c) = Some c' /\ Permutation c' c /\
             forall k, lookup_key k c' = lookup_key k c.
Proof.
  intros Hh Hcr Hnd Hcl. exists (most_common c). split; [now apply counter_roundtrip|].
  split; [apply most_common_perm|]. intros k. symmetry. apply lookup_key_perm; [exact Hnd|].
  apply Permutation_sym, most_common_perm.
Qed.

Lemma default_header_ok : full_line default_header /\ ~ In CR default_header.
Proof.
  split.
  - exists [107; 101; 121; 9; 102; 114; 101; 113]. split; [reflexivity|].
    cbn. unfold LF. intuition discriminate.
  - cbn. unfold CR. intuition discriminate.
Qed.

(** the restriction on the keys is needed: a key with CR, LF or tab is not read back *)
Lemma counter_roundtrip_dirty_key_refuted :
  forall ch, In ch [CR; LF; TAB] ->
    load_counter (save_counter default_header [([97; ch; 98], 1)]) <> Some [([97; ch; 98], 1)].
Proof.
  intros ch [<-|[<-|[<-|[]]]]; vm_compute; discriminate.
Qed.
