(** C14 at the level of the kernel models: the Widrow-Hoff kernels on flat memory, fed one-hot vector tables,
    leave in the renamed cells exactly what the Rescorla-Wagner kernel leaves (alpha = 1, beta1 = beta2 = eta,
    lambda = 1) - for the trained rows, every initial memory that agrees on the valid positions, every event
    sequence with outcomes unique within an event. *)
From Coq Require Import ZArith List Bool Ring.
From PV Require Import Lists Bytes BinFmt Store RWSpec RWExec RWProofs WHSpec WHExec WHProofs RowWise WHMain WHOneHot.
Import ListNotations.

Section Kernels.
  Variable R : Type.
  Variables (rO rI : R) (radd rmul rsub : R -> R -> R) (ropp : R -> R).
  Hypothesis Rth : ring_theory rO rI radd rmul rsub ropp (@eq R).
  Notation kget := (kget R rO).
  Notation kset := (kset R).
  Notation k_learn := (k_learn_events R rO radd rmul rsub).
  Notation rwp := (rw_params R rI).

  Lemma mem_map_inj (h : Z -> Z) o rows : mem_z o rows = true -> mem_z (h o) (map h rows) = true.
  Proof. intros H. apply mem_z_In. apply in_map. now apply mem_z_In. Qed.

  Lemma slice_NoDup (l : list Z) start stop : NoDup l -> NoDup (slice l start stop).
  Proof. intros H. unfold slice. now apply NoDup_firstn, NoDup_skipn. Qed.

  Lemma slice_Forall (P : Z -> Prop) (l : list Z) start stop : Forall P l -> Forall P (slice l start stop).
  Proof.
    intros H. unfold slice. apply Forall_forall. intros x Hx.
    apply In_firstn', In_skipn' in Hx. rewrite Forall_forall in H. now apply H.
  Qed.

  (** binary cues, one-hot outcome vectors: outcome o lives in row (ho o) of the Widrow-Hoff memory *)
  Theorem b2r_kernels_agree (ho : Z -> Z) eta n all start stop es m_wh m_rw o c :
    (0 <= n < two32)%Z -> (forall a b, ho a = ho b -> a = b) ->
    NoDup all -> Forall oko32 all ->
    NoDup (map ho (slice all start stop)) -> Forall oko32 (map ho (slice all start stop)) ->
    cues_ok (okc_n n) es -> outs_unique es ->
    (forall o c, oko32 o /\ oko32 (ho o) -> okc_n n c -> kget n m_wh (ho o) c = kget n m_rw o c) ->
    mem_z o (slice all start stop) = true -> oko32 o -> oko32 (ho o) -> okc_n n c ->
    kget n (b2r_events R rO rI radd rmul rsub (kstore R) (kget n) (kset n) eta (onehot R rO rI ho)
                       (map ho (slice all start stop)) es m_wh) (ho o) c =
    kget n (k_learn (rwp eta) n all start stop es m_rw) o c.
  Proof.
    intros Hn Hinj Hnd Hall Hnd' Hall' Hes Hu HW Hmem Ho Ho' Hc.
    rewrite (b2r_kernel_refines R rO rI radd rmul rsub ropp Rth) by assumption.
    rewrite (kernel_refines R rO rI radd rmul rsub ropp Rth) by assumption.
    rewrite Hmem, (mem_map_inj ho o _ Hmem).
    apply (b2r_onehot_on R rO rI radd rmul rsub ropp Rth (fun o => oko32 o /\ oko32 (ho o)) (okc_n n));
      try assumption. now split.
  Qed.

  (** one-hot cue vectors, binary outcomes: cue c lives in column (hc c) of a memory with n' columns *)
  Theorem r2b_kernels_agree (hc : Z -> Z) eta n n' all start stop es m_wh m_rw o c :
    (0 <= n < two32)%Z -> (0 <= n' < two32)%Z -> (forall a b, hc a = hc b -> a = b) ->
    NoDup all -> Forall oko32 all ->
    cues_ok (okc_n n) es -> cues_sat (fun c => okc_n n c /\ okc_n n' (hc c)) es ->
    (forall o c, oko32 o -> okc_n n c /\ okc_n n' (hc c) -> kget n' m_wh o (hc c) = kget n m_rw o c) ->
    mem_z o (slice all start stop) = true -> oko32 o -> okc_n n c -> okc_n n' (hc c) ->
    kget n' (r2b_events R rO radd rmul rsub (kstore R) (kget n') (kset n') eta eta rI (onehot R rO rI hc)
                        (zrange 0 n') (slice all start stop) es m_wh) o (hc c) =
    kget n (k_learn (rwp eta) n all start stop es m_rw) o c.
  Proof.
    intros Hn Hn' Hinj Hnd Hall Hes Hsat HW Hmem Ho Hc Hc'.
    rewrite (r2b_kernel_refines R rO rI radd rmul rsub ropp Rth);
      [|assumption|now apply slice_NoDup|now apply slice_Forall|assumption|exact Hc'].
    rewrite (kernel_refines R rO rI radd rmul rsub ropp Rth) by assumption.
    rewrite Hmem.
    apply (r2b_onehot_on R rO rI radd rmul rsub ropp Rth oko32 (fun c => okc_n n c /\ okc_n n' (hc c)));
      try assumption.
    - apply zrange_NoDup.
    - unfold cues_in. unfold cues_sat in Hsat. rewrite Forall_forall in *. intros e He c0 Hc0.
      specialize (Hsat e He). rewrite Forall_forall in Hsat. destruct (Hsat c0 Hc0) as [_ H]. now apply zrange_In.
    - now split.
  Qed.

  (** one-hot cue vectors and one-hot outcome vectors *)
  Theorem r2r_kernels_agree (hc ho : Z -> Z) eta n n' all start stop es m_wh m_rw o c :
    (0 <= n < two32)%Z -> (0 <= n' < two32)%Z ->
    (forall a b, hc a = hc b -> a = b) -> (forall a b, ho a = ho b -> a = b) ->
    NoDup all -> Forall oko32 all ->
    NoDup (map ho (slice all start stop)) -> Forall oko32 (map ho (slice all start stop)) ->
    cues_ok (okc_n n) es -> cues_sat (fun c => okc_n n c /\ okc_n n' (hc c)) es -> outs_unique es ->
    (forall o c, oko32 o /\ oko32 (ho o) -> okc_n n c /\ okc_n n' (hc c) ->
                 kget n' m_wh (ho o) (hc c) = kget n m_rw o c) ->
    mem_z o (slice all start stop) = true -> oko32 o -> oko32 (ho o) -> okc_n n c -> okc_n n' (hc c) ->
    kget n' (r2r_events R rO radd rmul rsub (kstore R) (kget n') (kset n') eta (onehot R rO rI hc) (onehot R rO rI ho)
                        (zrange 0 n') (map ho (slice all start stop)) es m_wh) (ho o) (hc c) =
    kget n (k_learn (rwp eta) n all start stop es m_rw) o c.
  Proof.
    intros Hn Hn' Hic Hio Hnd Hall Hnd' Hall' Hes Hsat Hu HW Hmem Ho Ho' Hc Hc'.
    rewrite (r2r_kernel_refines R rO rI radd rmul rsub ropp Rth) by assumption.
    rewrite (kernel_refines R rO rI radd rmul rsub ropp Rth) by assumption.
    rewrite Hmem, (mem_map_inj ho o _ Hmem).
    apply (r2r_onehot_on R rO rI radd rmul rsub ropp Rth (fun o => oko32 o /\ oko32 (ho o))
                         (fun c => okc_n n c /\ okc_n n' (hc c))); try assumption.
    - apply zrange_NoDup.
    - unfold cues_in. unfold cues_sat in Hsat. rewrite Forall_forall in *. intros e He c0 Hc0.
      specialize (Hsat e He). rewrite Forall_forall in Hsat. destruct (Hsat c0 Hc0) as [_ H]. now apply zrange_In.
    - now split.
    - now split.
  Qed.
End Kernels.
