(** The worker threads of method='threading' run to completion: the work queue
    of Sched.qstep combined with the loop of every work item.  A thread in
    [PWork i] performs the atomic actions of item [i] (one outcome row trained
    on one event) one at a time, in program order, counting them in a
    thread-local counter; when none is left it reports the item finished and
    goes back to the queue.  Every other control state steps as in Sched.qstep.

    For EVERY schedule: the trace of tagged actions performed so far is, item
    by item, a prefix of the item's sequence; when all threads are done it is an
    interleaving of the items' sequences (Sched.interleaving) - the hypothesis
    of the schedule-independence theorems - and the number of effective steps
    is bounded. *)
From Coq Require Import List Arith Lia Bool Permutation.
From PV Require Import Lists Sched QueueProofs.
Import ListNotations.

(** ** the machine *)
Section Workers.
  Context {A : Type}.
  Variable seqs : list (list A).

  Record wstate := { qs : qstate; prog : nat -> nat; wtrace : list (nat * A) }.

  Definition upd (f : nat -> nat) (t v : nat) : nat -> nat :=
    fun t' => if Nat.eqb t' t then v else f t'.

  Definition wstep (s : wstate) (t : nat) : wstate :=
    match nth_error (pcs (qs s)) t with
    | Some (PWork i) =>
      match nth_error (nth i seqs []) (prog s t) with
      | Some a => {| qs := qs s; prog := upd (prog s) t (S (prog s t)); wtrace := wtrace s ++ [(i, a)] |}
      | None => {| qs := qstep true (qs s) t; prog := prog s; wtrace := wtrace s |}
      end
    | Some (PGot i) => {| qs := qstep true (qs s) t; prog := upd (prog s) t 0; wtrace := wtrace s |}
    | _ => {| qs := qstep true (qs s) t; prog := prog s; wtrace := wtrace s |}
    end.

  Definition winit (items : list nat) (n_threads : nat) : wstate :=
    {| qs := qinit items n_threads; prog := fun _ => 0; wtrace := [] |}.
  Definition wrun (sched : list nat) (s : wstate) : wstate := fold_left wstep sched s.

  (** number of actions of the given items *)
  Definition total (items : list nat) : nat := list_sum (map (fun i => length (nth i seqs [])) items).
  (** potential: the queue measure plus the actions not performed yet *)
  Definition phi (items : list nat) (s : wstate) : nat := mu (qs s) + (total items - length (wtrace s)).
  Fixpoint weffective (items : list nat) (sched : list nat) (s : wstate) : nat :=
    match sched with
    | [] => 0
    | t :: r => (if Nat.eqb (phi items (wstep s t)) (phi items s) then 0 else 1) + weffective items r (wstep s t)
    end.
End Workers.

(** ** list facts *)
Lemma proj_snoc {A} i (tr : list (nat * A)) j a :
  proj i (tr ++ [(j, a)]) = if Nat.eqb j i then proj i tr ++ [a] else proj i tr.
Proof.
  unfold proj. rewrite filter_app, map_app. cbn. destruct (Nat.eqb j i); cbn; [reflexivity|apply app_nil_r].
Qed.

Lemma proj_cons {A} i (tr : list (nat * A)) j a :
  proj i ((j, a) :: tr) = if Nat.eqb j i then a :: proj i tr else proj i tr.
Proof. unfold proj. cbn. destruct (Nat.eqb j i); reflexivity. Qed.

Lemma nodup_app_disj {B} (a b : list B) x : NoDup (a ++ b) -> In x a -> In x b -> False.
Proof.
  induction a as [|y r IH]; intros Hnd Ha Hb; [destruct Ha|].
  cbn in Hnd. inversion Hnd as [|? ? Hy Hr]; subst. destruct Ha as [->|Ha].
  - apply Hy. apply in_app_iff. now right.
  - now apply IH.
Qed.

Lemma NoDup_app_remove_r {B} (l l' : list B) : NoDup (l ++ l') -> NoDup l.
Proof.
  induction l as [|x r IH]; intros H; [constructor|]. cbn in H. inversion H as [|? ? Hx Hr]; subst.
  constructor; [|now apply IH]. intros Hin. apply Hx. apply in_app_iff. now left.
Qed.

Lemma flat_map_nodup_unique {B C} (f : B -> list C) l : NoDup (flat_map f l) ->
  forall t t' p p' x, nth_error l t = Some p -> nth_error l t' = Some p' -> In x (f p) -> In x (f p') -> t = t'.
Proof.
  induction l as [|y r IH]; intros Hnd t t' p p' x Ht Ht' Hx Hx'.
  - destruct t; discriminate.
  - cbn [flat_map] in Hnd. destruct t as [|t], t' as [|t']; cbn in Ht, Ht'.
    + reflexivity.
    + inversion Ht; subst. exfalso. apply (nodup_app_disj _ _ x Hnd Hx).
      apply in_flat_map. exists p'. split; [eapply nth_error_In; eassumption|exact Hx'].
    + inversion Ht'; subst. exfalso. apply (nodup_app_disj _ _ x Hnd Hx').
      apply in_flat_map. exists p. split; [eapply nth_error_In; eassumption|exact Hx].
    + f_equal. apply (IH (NoDup_app_remove_l _ _ Hnd) t t' p p' x); assumption.
Qed.

Lemma firstn_S_nth_error {B} (l : list B) k a : nth_error l k = Some a -> firstn (S k) l = firstn k l ++ [a].
Proof.
  revert l. induction k as [|k IH]; intros [|x r] H; cbn in H; try discriminate.
  - now inversion H.
  - cbn [firstn app]. f_equal. now apply IH.
Qed.

Lemma list_sum_cons x l : list_sum (x :: l) = x + list_sum l.
Proof. reflexivity. Qed.

Lemma list_sum_map_add {B} (f g : B -> nat) l :
  list_sum (map (fun i => f i + g i) l) = list_sum (map f l) + list_sum (map g l).
Proof. induction l as [|x r IH]; [reflexivity|]. rewrite !map_cons, !list_sum_cons, IH. lia. Qed.

Lemma list_sum_map_le {B} (f g : B -> nat) l :
  (forall i, In i l -> f i <= g i) -> list_sum (map f l) <= list_sum (map g l).
Proof.
  induction l as [|x r IH]; intros H; [cbn; lia|]. rewrite !map_cons, !list_sum_cons.
  pose proof (H x (or_introl eq_refl)). specialize (IH (fun i Hi => H i (or_intror Hi))). lia.
Qed.

Lemma list_sum_indicator j l : NoDup l -> In j l ->
  list_sum (map (fun i => if Nat.eqb j i then 1 else 0) l) = 1.
Proof.
  induction l as [|x r IH]; intros Hnd Hin; [destruct Hin|].
  inversion Hnd as [|? ? Hx Hr]; subst. rewrite map_cons, list_sum_cons.
  destruct (Nat.eqb_spec j x) as [->|Hne].
  - assert (E : list_sum (map (fun i => if Nat.eqb x i then 1 else 0) r) = 0).
    { clear - Hx. induction r as [|y q IHq]; [reflexivity|]. rewrite map_cons, list_sum_cons.
      destruct (Nat.eqb_spec x y) as [->|_]; [exfalso; apply Hx; now left|].
      rewrite IHq; [reflexivity|]. intros H. apply Hx. now right. }
    rewrite E. reflexivity.
  - destruct Hin as [->|Hin]; [congruence|]. rewrite (IH Hr Hin). reflexivity.
Qed.

(** the length of a tagged trace is the sum of the lengths of its projections *)
Lemma length_by_proj {A} (tr : list (nat * A)) items : NoDup items ->
  (forall x, In x tr -> In (fst x) items) ->
  length tr = list_sum (map (fun i => length (proj i tr)) items).
Proof.
  intros Hnd. induction tr as [|[j a] r IH]; intros Htags.
  - cbn. clear Hnd Htags. induction items as [|x q IHq]; [reflexivity|]. rewrite map_cons, list_sum_cons. exact IHq.
  - rewrite (map_ext (fun i => length (proj i ((j, a) :: r)))
                     (fun i => length (proj i r) + (if Nat.eqb j i then 1 else 0))).
    + rewrite list_sum_map_add, <- IH by (intros x Hx; apply Htags; now right).
      rewrite list_sum_indicator; [cbn; lia|exact Hnd|]. apply (Htags (j, a)). now left.
    + intros i. rewrite proj_cons. destruct (Nat.eqb j i); cbn; lia.
Qed.

Lemma proj_nonempty {A} (tr : list (nat * A)) j a : In (j, a) tr -> proj j tr <> [].
Proof.
  induction tr as [|[k b] r IH]; intros Hin; [destruct Hin|].
  rewrite proj_cons. destruct (Nat.eqb_spec k j) as [->|Hne]; [discriminate|].
  destruct Hin as [E|Hin]; [inversion E; congruence|now apply IH].
Qed.

(** ** facts about one step of the queue machine *)
Lemma qstep_other q t t' : t <> t' -> nth_error (pcs (qstep true q t)) t' = nth_error (pcs q) t'.
Proof.
  intros Hne. unfold qstep. destruct (nth_error (pcs q) t) as [p|] eqn:Hp; [|reflexivity].
  destruct p; try reflexivity; cbn;
    repeat match goal with
           | |- context [match ?x with _ => _ end] => destruct x
           end; cbn; try reflexivity; eapply set_pc_other; eassumption.
Qed.

Lemma qstep_work_new q t i :
  nth_error (pcs (qstep true q t)) t = Some (PWork i) -> nth_error (pcs q) t = Some (PGot i).
Proof.
  unfold qstep. destruct (nth_error (pcs q) t) as [p|] eqn:Hp; [|congruence].
  destruct p; cbn;
    repeat match goal with
           | |- context [match ?x with _ => _ end] => destruct x
           end; cbn; try (rewrite Hp; congruence);
      erewrite set_pc_same by eassumption; congruence.
Qed.

Lemma qstep_finished q t :
  finished (qstep true q t) =
  match nth_error (pcs q) t with Some (PWork i) => finished q ++ [i] | _ => finished q end.
Proof.
  unfold qstep. destruct (nth_error (pcs q) t) as [p|] eqn:Hp; [|reflexivity].
  destruct p; try reflexivity; cbn;
    repeat match goal with
           | |- context [match ?x with _ => _ end] => destruct x
           end; reflexivity.
Qed.

Lemma held_in_holding q t p i : nth_error (pcs q) t = Some p -> In i (held p) -> In i (holding q).
Proof.
  intros Hp Hi. unfold holding. apply in_flat_map. exists p. split; [eapply nth_error_In; eassumption|exact Hi].
Qed.

(** with distinct items: an item is held by at most one thread and a held item is not finished *)
Lemma hold_facts items q : Inv items q -> NoDup items ->
  (forall t t' p p' i, nth_error (pcs q) t = Some p -> nth_error (pcs q) t' = Some p' ->
                       In i (held p) -> In i (held p') -> t = t') /\
  (forall t p i, nth_error (pcs q) t = Some p -> In i (held p) -> ~ In i (finished q)).
Proof.
  intros I Hnd.
  assert (N : NoDup (queue q ++ holding q ++ finished q)).
  { eapply Permutation_NoDup; [apply Permutation_sym, (inv_items _ _ I)|exact Hnd]. }
  apply NoDup_app_remove_l in N. split.
  - intros t t' p p' i Hp Hp' Hi Hi'. apply NoDup_app_remove_r in N.
    exact (flat_map_nodup_unique held (pcs q) N t t' p p' i Hp Hp' Hi Hi').
  - intros t p i Hp Hi Hf. exact (nodup_app_disj _ _ i N (held_in_holding q t p i Hp Hi) Hf).
Qed.

Lemma pc_eq_dec (p p' : pc) : {p = p'} + {p <> p'}.
Proof. decide equality; apply Nat.eq_dec. Qed.

Lemma worker_dec (l : list pc) i :
  (exists t, nth_error l t = Some (PWork i)) \/ (forall t, nth_error l t <> Some (PWork i)).
Proof.
  induction l as [|p r IH].
  - right. intros [|t]; discriminate.
  - destruct (pc_eq_dec p (PWork i)) as [->|Hne].
    + left. now exists 0.
    + destruct IH as [[t Ht]|Hno]; [left; now exists (S t)|].
      right. intros [|t]; cbn; [congruence|apply Hno].
Qed.

(** ** the invariant *)
Section WorkersProofs.
  Context {A : Type}.
  Variable seqs : list (list A).
  Notation wstate := (@wstate A).

  Record WInv (items : list nat) (s : wstate) : Prop := {
    w_inv : Inv items (qs s);
    w_fin : forall i, In i (finished (qs s)) -> proj i (wtrace s) = nth i seqs [];
    w_work : forall t i, nth_error (pcs (qs s)) t = Some (PWork i) ->
                         proj i (wtrace s) = firstn (prog s t) (nth i seqs []);
    w_none : forall i, (forall t, nth_error (pcs (qs s)) t <> Some (PWork i)) ->
                       ~ In i (finished (qs s)) -> proj i (wtrace s) = []
  }.

  Lemma winv_init items n : WInv items (winit items n).
  Proof.
    constructor; cbn.
    - apply inv_init.
    - intros i [].
    - intros t i H. apply nth_error_repeat in H. discriminate.
    - reflexivity.
  Qed.

  (** a step that only moves the queue machine, with the counter of [t] reset when it starts an item *)
  Lemma winv_qstep items s t prog' :
    NoDup items -> WInv items s ->
    (forall t', t' <> t -> prog' t' = prog s t') ->
    (forall i, nth_error (pcs (qs s)) t = Some (PGot i) -> prog' t = 0) ->
    (forall i, nth_error (pcs (qs s)) t = Some (PWork i) -> proj i (wtrace s) = nth i seqs []) ->
    WInv items {| qs := qstep true (qs s) t; prog := prog'; wtrace := wtrace s |}.
  Proof.
    intros Hnd W Hprog Hgot Hdone.
    destruct (hold_facts items (qs s) (w_inv _ _ W) Hnd) as [Huniq Hnotfin].
    constructor; cbn [qs prog wtrace].
    - apply inv_step, (w_inv _ _ W).
    - intros i Hi. rewrite qstep_finished in Hi.
      destruct (nth_error (pcs (qs s)) t) as [p|] eqn:Hp; [|now apply (w_fin _ _ W)].
      destruct p; try now apply (w_fin _ _ W).
      apply in_app_iff in Hi as [Hi|[<-|[]]]; [now apply (w_fin _ _ W)|]. now apply Hdone.
    - intros t' i Hw. destruct (Nat.eq_dec t t') as [<-|Hne].
      + apply qstep_work_new in Hw. rewrite (Hgot i Hw). cbn [firstn].
        apply (w_none _ _ W).
        * intros t'' Hw'. assert (t'' = t) by (eapply (Huniq t'' t); try eassumption; now left).
          subst. congruence.
        * eapply Hnotfin; [exact Hw|now left].
      + rewrite qstep_other in Hw by exact Hne. rewrite Hprog by congruence. now apply (w_work _ _ W).
    - intros i Hno Hnf. apply (w_none _ _ W).
      + intros t' Hw. destruct (Nat.eq_dec t t') as [<-|Hne].
        * apply Hnf. rewrite qstep_finished, Hw. apply in_app_iff. right. now left.
        * apply (Hno t'). now rewrite qstep_other by exact Hne.
      + intros Hf. apply Hnf. rewrite qstep_finished.
        destruct (nth_error (pcs (qs s)) t) as [p|]; [|exact Hf].
        destruct p; try exact Hf. apply in_app_iff. now left.
  Qed.

  Lemma winv_step items s t : NoDup items -> WInv items s -> WInv items (wstep seqs s t).
  Proof.
    intros Hnd W. unfold wstep.
    destruct (nth_error (pcs (qs s)) t) as [p|] eqn:Hp.
    2: { apply winv_qstep; try assumption; try reflexivity; intros; congruence. }
    destruct p; try (apply winv_qstep; try assumption; try reflexivity; intros; congruence).
    - (* PGot: the counter of the thread is reset *)
      apply winv_qstep; try assumption.
      + intros t' Hne. unfold upd. destruct (Nat.eqb_spec t' t); congruence.
      + intros _ _. unfold upd. now rewrite Nat.eqb_refl.
      + intros; congruence.
    - (* PWork *)
      destruct (nth_error (nth item seqs []) (prog s t)) as [a|] eqn:Ha.
      + (* one more action of the item *)
        destruct (hold_facts items (qs s) (w_inv _ _ W) Hnd) as [Huniq Hnotfin].
        constructor; cbn [qs prog wtrace].
        * apply (w_inv _ _ W).
        * intros i Hi. rewrite proj_snoc. destruct (Nat.eqb_spec item i) as [->|_]; [|now apply (w_fin _ _ W)].
          exfalso. eapply Hnotfin; [exact Hp| |exact Hi]. now left.
        * intros t' i Hw. rewrite proj_snoc. unfold upd. destruct (Nat.eqb_spec item i) as [->|Hne].
          -- assert (t' = t) by (eapply (Huniq t' t); try eassumption; now left). subst.
             rewrite Nat.eqb_refl. rewrite (w_work _ _ W t i Hp). symmetry. now apply firstn_S_nth_error.
          -- destruct (Nat.eqb_spec t' t) as [->|_]; [congruence|]. now apply (w_work _ _ W).
        * intros i Hno Hnf. rewrite proj_snoc. destruct (Nat.eqb_spec item i) as [->|_]; [|now apply (w_none _ _ W)].
          exfalso. exact (Hno t Hp).
      + (* the item is complete *)
        apply winv_qstep; try assumption; try reflexivity.
        * intros; congruence.
        * intros i Hi. assert (i = item) by congruence. subst.
          rewrite (w_work _ _ W t item Hp). apply firstn_all2. now apply nth_error_None.
  Qed.

  Theorem winv_reachable items n sched : NoDup items -> WInv items (wrun seqs sched (winit items n)).
  Proof.
    intros Hnd. unfold wrun. generalize (winv_init items n). generalize (winit items n : wstate).
    induction sched as [|t r IH]; intros s W; [exact W|]. cbn [fold_left]. apply IH. now apply winv_step.
  Qed.

  (** the queue component of a run is a run of the queue machine (so never blocked, exactly once, ...) *)
  Lemma wstep_qs s t : qs (wstep seqs s t) = qs s \/ qs (wstep seqs s t) = qstep true (qs s) t.
  Proof.
    unfold wstep. destruct (nth_error (pcs (qs s)) t) as [p|]; [|now right].
    destruct p; try now right. destruct (nth_error _ _); [now left|now right].
  Qed.

  Theorem wrun_queue sched s : exists sched', qs (wrun seqs sched s) = qrun true sched' (qs s).
  Proof.
    unfold wrun. revert s. induction sched as [|t r IH]; intros s; [now exists []|].
    cbn [fold_left]. destruct (IH (wstep seqs s t)) as [sched' E]. destruct (wstep_qs s t) as [H|H].
    - exists sched'. now rewrite E, H.
    - exists (t :: sched'). now rewrite E, H.
  Qed.

  (** ** every schedule: the actions performed so far are, per item, a prefix of the item's sequence *)
  Theorem worker_trace_prefixes items n sched i : NoDup items ->
    exists k, proj i (wtrace (wrun seqs sched (winit items n))) = firstn k (nth i seqs []).
  Proof.
    intros Hnd. pose proof (winv_reachable items n sched Hnd) as W.
    set (s := wrun seqs sched (winit items n)) in *.
    destruct (in_dec Nat.eq_dec i (finished (qs s))) as [Hf|Hnf].
    - exists (length (nth i seqs [])). rewrite firstn_all. now apply (w_fin _ _ W).
    - destruct (worker_dec (pcs (qs s)) i) as [[t Ht]|Hno].
      + exists (prog s t). now apply (w_work _ _ W).
      + exists 0. now apply (w_none _ _ W).
  Qed.

  (** ** every schedule that ends with all threads done: the trace is an interleaving of the items' sequences *)
  Lemma winv_interleaving s : WInv (seq 0 (length seqs)) s -> (1 <= length (pcs (qs s)))%nat ->
    all_done (qs s) = true -> interleaving seqs (wtrace s).
  Proof.
    intros W Hn Hd i.
    pose proof (inv_all_done_all_items _ _ (w_inv _ _ W) Hn Hd) as P.
    destruct (in_dec Nat.eq_dec i (finished (qs s))) as [Hf|Hnf]; [now apply (w_fin _ _ W)|].
    rewrite (w_none _ _ W i).
    - symmetry. apply nth_overflow.
      destruct (Nat.lt_ge_cases i (length seqs)) as [Hlt|Hge]; [|exact Hge]. exfalso. apply Hnf.
      apply (Permutation_in _ (Permutation_sym P)). apply in_seq. lia.
    - intros t Ht. pose proof (all_done_spec _ Hd t _ Ht). discriminate.
    - exact Hnf.
  Qed.

  Lemma wstep_length s t : length (pcs (qs (wstep seqs s t))) = length (pcs (qs s)).
  Proof. destruct (wstep_qs s t) as [E|E]; rewrite E; [reflexivity|apply qstep_length]. Qed.

  Lemma wrun_length sched s : length (pcs (qs (wrun seqs sched s))) = length (pcs (qs s)).
  Proof.
    unfold wrun. revert s. induction sched as [|t r IH]; intros s; [reflexivity|].
    cbn [fold_left]. now rewrite IH, wstep_length.
  Qed.

  Theorem worker_trace_interleaving n sched : (1 <= n)%nat ->
    let s := wrun seqs sched (winit (seq 0 (length seqs)) n) in
    all_done (qs s) = true -> interleaving seqs (wtrace s).
  Proof.
    intros Hn s Hd. apply winv_interleaving; [apply winv_reachable, seq_NoDup| |exact Hd].
    unfold s. rewrite wrun_length. cbn. now rewrite repeat_length.
  Qed.

  (** ** bounded work *)
  Lemma trace_tags items s : WInv items s -> forall x, In x (wtrace s) -> In (fst x) items.
  Proof.
    intros W [j a] Hin. cbn [fst].
    pose proof (proj_nonempty _ _ _ Hin) as Hne.
    apply (Permutation_in _ (inv_items _ _ (w_inv _ _ W))).
    destruct (in_dec Nat.eq_dec j (finished (qs s))) as [Hf|Hnf].
    - apply in_app_iff. right. apply in_app_iff. now right.
    - destruct (worker_dec (pcs (qs s)) j) as [[t Ht]|Hno].
      + apply in_app_iff. right. apply in_app_iff. left. eapply held_in_holding; [exact Ht|now left].
      + exfalso. apply Hne. now apply (w_none _ _ W).
  Qed.

  Lemma trace_length_bound items s : NoDup items -> WInv items s -> length (wtrace s) <= total seqs items.
  Proof.
    intros Hnd W. rewrite (length_by_proj (wtrace s) items Hnd (trace_tags items s W)).
    unfold total. apply list_sum_map_le. intros i _.
    assert (H : exists k, proj i (wtrace s) = firstn k (nth i seqs [])).
    { destruct (in_dec Nat.eq_dec i (finished (qs s))) as [Hf|Hnf].
      - exists (length (nth i seqs [])). rewrite firstn_all. now apply (w_fin _ _ W).
      - destruct (worker_dec (pcs (qs s)) i) as [[t Ht]|Hno].
        + exists (prog s t). now apply (w_work _ _ W).
        + exists 0. now apply (w_none _ _ W). }
    destruct H as [k ->]. rewrite firstn_length. lia.
  Qed.

  Lemma wstep_phi items s t : NoDup items -> WInv items s ->
    phi seqs items (wstep seqs s t) <= phi seqs items s /\
    (mu (qstep true (qs s) t) < mu (qs s) -> phi seqs items (wstep seqs s t) < phi seqs items s).
  Proof.
    intros Hnd W. pose proof (winv_step items s t Hnd W) as W'.
    pose proof (trace_length_bound items _ Hnd W') as L'.
    unfold phi. revert W' L'. unfold wstep.
    assert (Q : forall pr : unit, mu (qstep true (qs s) t) + (total seqs items - length (wtrace s))
                           <= mu (qs s) + (total seqs items - length (wtrace s)) /\
                           (mu (qstep true (qs s) t) < mu (qs s) ->
                            mu (qstep true (qs s) t) + (total seqs items - length (wtrace s))
                            < mu (qs s) + (total seqs items - length (wtrace s)))).
    { intros _. destruct (qstep_decreases (qs s) t) as [E|L]; [rewrite E|]; lia. }
    destruct (nth_error (pcs (qs s)) t) as [p|]; [|intros _ _; cbn; exact (Q tt)].
    destruct p; try (intros _ _; cbn; exact (Q tt)).
    destruct (nth_error _ _); [|intros _ _; cbn; exact (Q tt)].
    intros _ L'. cbn [qs wtrace] in *. rewrite app_length in *. cbn [length] in *. lia.
  Qed.

  Theorem worker_bounded_work items sched s : NoDup items -> WInv items s ->
    weffective seqs items sched s + phi seqs items (wrun seqs sched s) <= phi seqs items s.
  Proof.
    intros Hnd. unfold wrun. revert s. induction sched as [|t r IH]; intros s W; cbn [weffective fold_left]; [lia|].
    specialize (IH (wstep seqs s t) (winv_step items s t Hnd W)).
    destruct (wstep_phi items s t Hnd W) as [Hle _].
    destruct (Nat.eqb_spec (phi seqs items (wstep seqs s t)) (phi seqs items s)); lia.
  Qed.

  Theorem worker_progress items s : WInv items s -> NoDup items -> all_done (qs s) = false ->
    exists t, phi seqs items (wstep seqs s t) < phi seqs items s.
  Proof.
    intros W Hnd Hd. destruct (queue_progress items (qs s) (w_inv _ _ W) Hd) as [t Ht].
    exists t. now apply (wstep_phi items s t Hnd W).
  Qed.

  (** every schedule: at most 5*items + 3*threads + (number of actions) effective steps, and while a thread is
      not done some thread can make an effective step *)
  Theorem worker_terminates items n sched : NoDup items ->
    let s := wrun seqs sched (winit items n) in
    weffective seqs items sched (winit items n) <= 5 * length items + 3 * n + total seqs items /\
    (all_done (qs s) = false -> exists t, phi seqs items (wstep seqs s t) < phi seqs items s).
  Proof.
    intros Hnd s. split.
    - pose proof (worker_bounded_work items sched (winit items n) Hnd (winv_init items n)) as H.
      unfold phi at 2 in H. cbn [qs winit wtrace length] in H. rewrite mu_init in H. lia.
    - apply worker_progress; [apply winv_reachable|]; exact Hnd.
  Qed.
End WorkersProofs.
