(** Flat entry points of the run-metadata model (ids 1601..1699).
    Decoding glue only; no proofs. *)
From Coq Require Import ZArith List Bool.
From PV Require Import Flat BinFmt Attrs.
Import ListNotations.
Open Scope Z_scope.

Definition learner_of_z (z : Z) : learner :=
  if z =? 0 then LNdl else if z =? 1 then LDictNdl else if z =? 2 then LWh
  else if z =? 3 then LWhR2B else LDictWh.

Definition alpha_kind_of_z (z : Z) : alpha_kind :=
  if z =? 0 then AFloat else if z =? 1 then AInt else AOther.

(** learner, epf, jobs, numpy, alpha kind; frequencies of the lines; then 15
    strings: path, str(alpha), str(betas), str(lambda), str(method), date,
    cpu, wall, host, user, pyndl, numpy, pandas, xarray, cython *)
Definition rd_invocation (l : list Z) : option (invocation * list Z) :=
  match l with
  | le :: epf :: jobs :: np :: ak :: r =>
    match rd_list r with
    | Some (freqs, r1) =>
      match rd_many rd_list 15 r1 with
      | Some ([path; alpha; betas; lam; meth; date; cpu; wall; host; user;
               v_pyndl; v_numpy; v_pandas; v_xarray; v_cython], r2) =>
        Some ({| i_learner := learner_of_z le; i_path := path;
                 i_lines := map (fun f => (([], []) : event, f)) freqs;
                 i_epf := epf; i_jobs := Z.to_nat jobs; i_numpy := negb (np =? 0);
                 i_alpha_kind := alpha_kind_of_z ak; i_alpha := alpha; i_betas := betas;
                 i_lambda := lam; i_method := meth;
                 i_env := {| e_date := date; e_cpu := cpu; e_wall := wall; e_host := host;
                             e_user := user; e_pyndl := v_pyndl; e_numpy := v_numpy;
                             e_pandas := v_pandas; e_xarray := v_xarray; e_cython := v_cython |} |},
              r2)
      | _ => None
      end
    | None => None
    end
  | _ => None
  end.

Definition wr_attrs (a : attrs) : list Z :=
  Z.of_nat (length a) :: flat_map (fun kv => wr_list (fst kv) ++ wr_list (snd kv)) a.

Definition wr_strs (l : list str) : list Z :=
  Z.of_nat (length l) :: flat_map wr_list l.

(** 1601: [start tag; start attrs]; invocations -> attrs of the last result *)
Definition m_chain (inp : list Z) : list Z :=
  match inp with
  | tag :: r =>
    let start := if tag =? 0 then Some (None, r)
                 else match rd_seq (rd_pair rd_list rd_list) r with
                      | Some (a, r') => Some (Some a, r')
                      | None => None
                      end in
    match start with
    | Some (st, r1) =>
      match rd_seq rd_invocation r1 with
      | Some (is, _) =>
        match run_chain st is with
        | Some a => 0 :: wr_attrs a
        | None => flat_err 1                    (* assert n_events == number_events *)
        end
      | None => bad_case
      end
    | None => bad_case
    end
  | [] => bad_case
  end.

(** 1602: separator, string -> str.split *)
Definition m_split (inp : list Z) : list Z :=
  match rd_pair rd_list rd_list inp with
  | Some ((sp, s), _) => wr_strs (split sp s)
  | None => bad_case
  end.

(** 1603: attribute value -> entries (split on ' | ', right-stripped) *)
Definition m_entries (inp : list Z) : list Z :=
  match rd_list inp with
  | Some (s, _) => wr_strs (entries s)
  | None => bad_case
  end.

(** 1604: frequencies, events_per_file, jobs -> chunk total, count, loop counter *)
Definition m_counts (inp : list Z) : list Z :=
  match rd_list inp with
  | Some (freqs, epf :: jobs :: _) =>
    let lines := map (fun f => (([], []) : event, f)) freqs in
    [chunk_total (expand lines) epf (Z.to_nat jobs); count_events lines; loop_count lines]
  | _ => bad_case
  end.

(** 1605: width, tag (0 str / 1 int), value -> _format *)
Definition m_format (inp : list Z) : list Z :=
  match inp with
  | w :: 0 :: r => match rd_list r with Some (s, _) => format_ w (FStr s) | None => bad_case end
  | w :: 1 :: n :: _ => format_ w (FInt n)
  | _ => bad_case
  end.

(** 1606: string -> sep_free flag *)
Definition m_sep_free (inp : list Z) : list Z :=
  match rd_list inp with
  | Some (s, _) => [if sep_free s then 1 else 0]
  | None => bad_case
  end.

Definition run_c16 (id : Z) (inp : list Z) : option (list Z) :=
  if id =? 1601 then Some (m_chain inp)
  else if id =? 1602 then Some (m_split inp)
  else if id =? 1603 then Some (m_entries inp)
  else if id =? 1604 then Some (m_counts inp)
  else if id =? 1605 then Some (m_format inp)
  else if id =? 1606 then Some (m_sep_free inp)
  else None.
