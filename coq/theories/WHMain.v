(** Closed statements about the Widrow-Hoff kernels on flat 64-bit indexed memory. *)
From Coq Require Import ZArith List Bool Arith Lia Ring.
From PV Require Import Lists Bytes BinFmt BinFmtProofs Store RWSpec RWExec RWProofs Sched SchedProofs
     WHSpec WHExec RowWise WHProofs.
Import ListNotations.

Section WHMain.
  Variable R : Type.
  Variables (rO rI : R) (radd rmul rsub : R -> R -> R) (ropp : R -> R).
  Hypothesis Rth : ring_theory rO rI radd rmul rsub ropp (@eq R).

  Notation kget := (kget R rO).
  Notation kset := (kset R).
  Notation kst := (kstore R).

  Lemma zrange_valid n : Forall (okc_n n) (zrange 0 n).
  Proof. apply Forall_forall. intros k Hk. apply zrange_In in Hk. unfold okc_n. lia. Qed.

  (** real cues -> real outcomes *)
  Theorem r2r_kernel_refines eta cv ov n rows es m r k :
    (0 <= n < two32)%Z -> NoDup rows -> Forall oko32 rows -> oko32 r -> (0 <= k < n)%Z ->
    kget n (r2r_events R rO radd rmul rsub kst (kget n) (kset n) eta cv ov (zrange 0 n) rows es m) r k =
    if mem_z r rows
    then r2r_learn R rO radd rmul rsub eta cv ov (zrange 0 n) es (kget n m) r k
    else kget n m r k.
  Proof.
    intros Hn Hnd Hrows Hr Hk.
    apply (real_events_spec R rO rI radd rmul rsub ropp Rth kst (kget n) (kset n) oko32 (okc_n n));
      try assumption.
    - intros; apply kget_kset_same.
    - intros; now apply kget_kset_other.
    - apply zrange_valid.
    - apply zrange_NoDup.
    - apply zrange_In. lia.
  Qed.

  Theorem r2r_kernel_any_schedule eta cv ov n parts es tr m r k :
    (0 <= n < two32)%Z -> NoDup (concat parts) -> Forall oko32 (concat parts) ->
    interleaving (map (fun part => gitem_actions part es) parts) tr ->
    oko32 r -> (0 <= k < n)%Z ->
    kget n (run_tr kst event
                   (fun e s d => vx_row R rO radd rmul kst (kget n) (kset n) (zrange 0 n)
                                        (summed R rO radd cv (fst e))
                                        (fun d a => rmul eta (rsub (summed R rO radd ov (snd e) d) a)) s d)
                   tr m) r k =
    if mem_z r (concat parts)
    then r2r_learn R rO radd rmul rsub eta cv ov (zrange 0 n) es (kget n m) r k
    else kget n m r k.
  Proof.
    intros Hn Hnd Hparts Hint Hr Hk.
    apply (real_any_schedule R rO rI radd rmul rsub ropp Rth kst (kget n) (kset n) oko32 (okc_n n));
      try assumption.
    - intros; apply kget_kset_same.
    - intros; now apply kget_kset_other.
    - apply zrange_valid.
    - apply zrange_NoDup.
    - apply zrange_In. lia.
  Qed.

  (** real cues -> binary outcomes *)
  Theorem r2b_kernel_refines b1 b2 la cv n rows es m r k :
    (0 <= n < two32)%Z -> NoDup rows -> Forall oko32 rows -> oko32 r -> (0 <= k < n)%Z ->
    kget n (r2b_events R rO radd rmul rsub kst (kget n) (kset n) b1 b2 la cv (zrange 0 n) rows es m) r k =
    if mem_z r rows
    then r2b_learn R rO radd rmul rsub b1 b2 la cv (zrange 0 n) es (kget n m) r k
    else kget n m r k.
  Proof.
    intros Hn Hnd Hrows Hr Hk.
    apply (real_events_spec R rO rI radd rmul rsub ropp Rth kst (kget n) (kset n) oko32 (okc_n n));
      try assumption.
    - intros; apply kget_kset_same.
    - intros; now apply kget_kset_other.
    - apply zrange_valid.
    - apply zrange_NoDup.
    - apply zrange_In. lia.
  Qed.

  Theorem r2b_kernel_any_schedule b1 b2 la cv n parts es tr m r k :
    (0 <= n < two32)%Z -> NoDup (concat parts) -> Forall oko32 (concat parts) ->
    interleaving (map (fun part => gitem_actions part es) parts) tr ->
    oko32 r -> (0 <= k < n)%Z ->
    kget n (run_tr kst event
                   (fun e s d => vx_row R rO radd rmul kst (kget n) (kset n) (zrange 0 n)
                                        (summed R rO radd cv (fst e))
                                        (fun o a => if mem_z o (snd e) then rmul b1 (rsub la a)
                                                    else rmul b2 (rsub rO a)) s d)
                   tr m) r k =
    if mem_z r (concat parts)
    then r2b_learn R rO radd rmul rsub b1 b2 la cv (zrange 0 n) es (kget n m) r k
    else kget n m r k.
  Proof.
    intros Hn Hnd Hparts Hint Hr Hk.
    apply (real_any_schedule R rO rI radd rmul rsub ropp Rth kst (kget n) (kset n) oko32 (okc_n n));
      try assumption.
    - intros; apply kget_kset_same.
    - intros; now apply kget_kset_other.
    - apply zrange_valid.
    - apply zrange_NoDup.
    - apply zrange_In. lia.
  Qed.

  (** binary cues -> real outcomes *)
  Theorem b2r_kernel_refines eta ov n rows es m d c :
    (0 <= n < two32)%Z -> NoDup rows -> Forall oko32 rows -> cues_ok (okc_n n) es ->
    oko32 d -> okc_n n c ->
    kget n (b2r_events R rO rI radd rmul rsub kst (kget n) (kset n) eta ov rows es m) d c =
    if mem_z d rows
    then b2r_learn R rO rI radd rmul rsub eta ov es (kget n m) d c
    else kget n m d c.
  Proof.
    intros Hn Hnd Hrows Hes Hd Hc.
    apply (bin_events_spec R rO rI radd rmul rsub ropp Rth kst (kget n) (kset n) oko32 (okc_n n));
      try assumption.
    - intros; apply kget_kset_same.
    - intros; now apply kget_kset_other.
  Qed.

  Theorem b2r_kernel_any_schedule eta ov n parts es tr m d c :
    (0 <= n < two32)%Z -> NoDup (concat parts) -> Forall oko32 (concat parts) -> cues_ok (okc_n n) es ->
    interleaving (map (fun part => gitem_actions part es) parts) tr ->
    oko32 d -> okc_n n c ->
    kget n (run_tr kst event
                   (fun e s d => bx_row R rO rI radd rmul kst (kget n) (kset n)
                                        (fun d a => rmul eta (rsub (tvec R rO radd ov (snd e) d) a)) (fst e) s d)
                   tr m) d c =
    if mem_z d (concat parts)
    then b2r_learn R rO rI radd rmul rsub eta ov es (kget n m) d c
    else kget n m d c.
  Proof.
    intros Hn Hnd Hparts Hes Hint Hd Hc.
    apply (bin_any_schedule R rO rI radd rmul rsub ropp Rth kst (kget n) (kset n) oko32 (okc_n n));
      try assumption.
    - intros; apply kget_kset_same.
    - intros; now apply kget_kset_other.
  Qed.
End WHMain.
