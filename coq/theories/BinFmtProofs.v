(** Proofs about the binary event format model ([BinFmt.v]). *)
From Coq Require Import ZArith List Bool Lia.
From PV Require Import Bytes BinFmt.
Import ListNotations.
Open Scope Z_scope.

Lemma fits32_spec n : fits32 n = true <-> 0 <= n < two32.
Proof. unfold fits32. rewrite andb_true_iff, Z.leb_le, Z.ltb_lt. tauto. Qed.

Lemma to_integer_to_bytes n : 0 <= n < two32 -> to_integer (to_bytes n) = n.
Proof.
  unfold two32, to_bytes, to_integer. intros H.
  Z.div_mod_to_equations. lia.
Qed.

Lemma to_bytes_length n : length (to_bytes n) = 4%nat.
Proof. reflexivity. Qed.

Lemma to_bytes_are_bytes n b : In b (to_bytes n) -> is_byte b = true.
Proof.
  unfold to_bytes, is_byte. simpl. rewrite andb_true_iff, Z.leb_le, Z.ltb_lt.
  intros [<-|[<-|[<-|[<-|[]]]]]; Z.div_mod_to_equations; lia.
Qed.

Lemma read4_to_bytes n r : fits32 n = true -> read4 (to_bytes n ++ r) = (n, r).
Proof.
  intros H. apply fits32_spec in H. unfold read4.
  change (firstn 4 (to_bytes n ++ r)) with (to_bytes n).
  change (skipn 4 (to_bytes n ++ r)) with r.
  now rewrite to_integer_to_bytes.
Qed.

Lemma read_ids_enc ids r :
  forallb fits32 ids = true ->
  read_ids (length ids) (flat_map to_bytes ids ++ r) = (ids, r).
Proof.
  induction ids as [|x xs IH]; intros H; [reflexivity|].
  cbn [forallb] in H. apply andb_true_iff in H as [Hx Hxs].
  cbn [length flat_map read_ids]. rewrite <- app_assoc.
  rewrite read4_to_bytes by exact Hx. now rewrite IH.
Qed.

Lemma ids_ok_spec ids :
  ids_ok ids = true -> forallb fits32 ids = true /\ fits32 (Z.of_nat (length ids)) = true.
Proof. unfold ids_ok. now rewrite andb_true_iff. Qed.

Lemma read_counted_ids ids r :
  ids_ok ids = true ->
  (let (n, r0) := read4 (enc_ids ids ++ r) in read_ids (Z.to_nat n) r0) = (ids, r).
Proof.
  intros H. apply ids_ok_spec in H as [Hi Hl]. unfold enc_ids.
  rewrite <- app_assoc, read4_to_bytes by exact Hl.
  rewrite Nat2Z.id. now apply read_ids_enc.
Qed.

Lemma read_event_enc e r : event_ok e = true -> read_event (enc_event e ++ r) = (e, r).
Proof.
  destruct e as [cs os]. unfold event_ok, enc_event, read_event. cbn [fst snd].
  rewrite andb_true_iff. intros [Hc Ho].
  rewrite <- app_assoc.
  pose proof (read_counted_ids cs (enc_ids os ++ r) Hc) as E1.
  destruct (read4 (enc_ids cs ++ enc_ids os ++ r)) as [nc r0]. rewrite E1.
  pose proof (read_counted_ids os r Ho) as E2.
  destruct (read4 (enc_ids os ++ r)) as [no r1]. now rewrite E2.
Qed.

Lemma read_events_enc es r :
  forallb event_ok es = true ->
  read_events (length es) (enc_body es ++ r) = es.
Proof.
  induction es as [|e es IH]; intros H; [reflexivity|].
  cbn [forallb] in H. apply andb_true_iff in H as [He Hes].
  unfold enc_body in *. cbn [length flat_map read_events]. rewrite <- app_assoc.
  rewrite read_event_enc by exact He. now rewrite IH.
Qed.

Lemma header_reads r :
  read4 (header ++ r) = (MAGIC, to_bytes VERSION ++ r).
Proof. reflexivity. Qed.

(** ** C06 (a): the Python reader reads back what the writer wrote *)
Theorem py_read_encode es : events_ok es = true -> py_read (encode es) = RdOk es.
Proof.
  unfold events_ok. rewrite andb_true_iff. intros [He Hn].
  unfold py_read, encode, encode_n. rewrite header_reads.
  rewrite Z.eqb_refl.
  rewrite (read4_to_bytes VERSION) by reflexivity. rewrite Z.eqb_refl.
  rewrite read4_to_bytes by exact Hn. rewrite Nat2Z.id.
  rewrite <- (app_nil_r (enc_body es)). now rewrite read_events_enc.
Qed.

(** ** C06 (b): the kernel parser consumes exactly the same events, for every
    number of ids per event (the buffer is replaced before it is too small) *)
Lemma k_read_ids_enc cap ids r :
  ids_ok ids = true ->
  k_read_ids cap (enc_ids ids ++ r) =
  (Z.max cap (Z.of_nat (length ids)), Some ids, r).
Proof.
  intros H. pose proof (read_counted_ids ids r H) as E.
  unfold k_read_ids. apply ids_ok_spec in H as [Hi Hl].
  unfold enc_ids in *. rewrite <- app_assoc in *.
  rewrite read4_to_bytes in * by exact Hl. rewrite E.
  set (n := Z.of_nat (length ids)).
  destruct (cap <? n) eqn:Hc.
  - apply Z.ltb_lt in Hc. rewrite Z.max_r by lia. now rewrite Z.leb_refl.
  - apply Z.ltb_ge in Hc. rewrite Z.max_l by lia.
    destruct (n <=? cap) eqn:Hd; [reflexivity|]. apply Z.leb_gt in Hd. lia.
Qed.

Lemma k_events_enc es capc capo r :
  forallb event_ok es = true ->
  k_events (length es) capc capo (enc_body es ++ r) = Some es.
Proof.
  revert capc capo. induction es as [|[cs os] es IH]; intros capc capo H; [reflexivity|].
  cbn [forallb] in H. apply andb_true_iff in H as [He Hes].
  unfold event_ok in He. cbn [fst snd] in He. apply andb_true_iff in He as [Hc Ho].
  unfold enc_body in *. cbn [length flat_map k_events]. unfold enc_event. cbn [fst snd].
  rewrite <- !app_assoc.
  rewrite k_read_ids_enc by exact Hc. rewrite k_read_ids_enc by exact Ho.
  now rewrite IH.
Qed.

Theorem k_parse_encode es : events_ok es = true -> k_parse (encode es) = KOk es.
Proof.
  unfold events_ok. rewrite andb_true_iff. intros [He Hn].
  unfold k_parse, encode, encode_n. rewrite header_reads.
  rewrite Z.eqb_refl.
  rewrite (read4_to_bytes VERSION) by reflexivity. rewrite Z.eqb_refl.
  rewrite read4_to_bytes by exact Hn. rewrite Nat2Z.id.
  rewrite <- (app_nil_r (enc_body es)). now rewrite k_events_enc.
Qed.

(** the two readers take the same decision on the header *)
Lemma readers_agree_on_header l :
  (py_read l = RdBadMagic <-> hdr_error l = 1) /\
  (py_read l = RdBadVersion <-> hdr_error l = 2).
Proof.
  unfold hdr_error, py_read, k_parse.
  destruct (read4 l) as [m r]. destruct (m =? MAGIC).
  - destruct (read4 r) as [v r1]. destruct (v =? VERSION).
    + destruct (read4 r1) as [n r2].
      destruct (k_events _ _ _ _); split; split; intros H; discriminate H.
    + split; split; intros H; try discriminate H; reflexivity.
  - split; split; intros H; try discriminate H; reflexivity.
Qed.

Lemma hdr_error_range l : hdr_error l = 0 \/ hdr_error l = 1 \/ hdr_error l = 2.
Proof. unfold hdr_error. destruct (k_parse l); auto. Qed.

(** ** C06 (c): a chunk with a bad header is rejected wherever it stands *)
Theorem bad_chunk_rejected files f :
  In f files -> hdr_error f <> 0 ->
  entry_first_error files = 1 \/ entry_first_error files = 2.
Proof.
  induction files as [|g r IH]; intros Hin Hbad; [destruct Hin|].
  cbn [entry_first_error].
  destruct (hdr_error g =? 0) eqn:Hg.
  - apply Z.eqb_eq in Hg. destruct Hin as [->|Hin]; [contradiction|].
    destruct r as [|g' r']; [destruct Hin|]. now apply IH.
  - apply Z.eqb_neq in Hg. destruct (hdr_error_range g) as [H|[H|H]]; auto. contradiction.
Qed.

Theorem good_chunks_accepted files :
  files <> [] -> (forall f, In f files -> hdr_error f = 0) -> entry_first_error files = 0.
Proof.
  induction files as [|g r IH]; intros Hne Hall; [contradiction|].
  cbn [entry_first_error]. rewrite (Hall g (or_introl eq_refl)). cbn.
  destruct r as [|g' r']; [reflexivity|].
  apply IH; [discriminate|]. intros f Hf. apply Hall. now right.
Qed.

Definition bad_chunk : list Z := to_bytes 0 ++ to_bytes VERSION ++ to_bytes 0.

(** the logic of the OpenMP entry points before the repair (finding F4) *)
Theorem last_error_masks_bad_chunk_refuted :
  exists files f, In f files /\ hdr_error f <> 0 /\ entry_last_error files = 0.
Proof.
  exists [bad_chunk; encode []], bad_chunk.
  split; [now left|]. split; [vm_compute; discriminate | vm_compute; reflexivity].
Qed.

(** ** C06 (d): the flat index never wraps in 64 bits and is injective, for
    every matrix whose two dimensions fit 32 bits (more than 2^32 cells) *)
Theorem flat_index_no_wrap n_cues o c :
  0 <= n_cues < two32 -> 0 <= o < two32 -> 0 <= c < two32 ->
  flat_index n_cues o c = n_cues * o + c.
Proof.
  unfold flat_index, two32, two64. intros Hn Ho Hc.
  apply Z.mod_small. nia.
Qed.

Theorem flat_index_injective n_cues o c o' c' :
  0 <= n_cues < two32 -> 0 <= o < two32 -> 0 <= o' < two32 ->
  0 <= c < n_cues -> 0 <= c' < n_cues ->
  flat_index n_cues o c = flat_index n_cues o' c' -> o = o' /\ c = c'.
Proof.
  intros Hn Ho Ho' Hc Hc'.
  rewrite !flat_index_no_wrap by (unfold two32 in *; lia).
  intros H. assert (o = o') by nia. subst. split; [reflexivity|lia].
Qed.

(** a 32-bit index would collide on matrices with more than 2^32 cells *)
Theorem flat_index_u32_collides_refuted :
  exists n o c o' c', 0 <= c < n /\ 0 <= c' < n /\ n < two32 /\ 0 <= o < two32 /\ 0 <= o' < two32 /\
    (o, c) <> (o', c') /\ flat_index_u32 n o c = flat_index_u32 n o' c'.
Proof.
  exists 65536, 65536, 0, 0, 0. unfold two32. repeat split; try lia; try discriminate.
Qed.

(** ** window of [write_events] *)
Lemma window_spec es start stop :
  0 <= start -> window es start stop = firstn (Z.to_nat (stop - start)) (skipn (Z.to_nat start) es).
Proof.
  intros H0. unfold window.
  destruct (Z.le_gt_cases start (Z.of_nat (length es))) as [Hs|Hs].
  - rewrite (Z.min_l start) by lia.
    destruct (Z.le_gt_cases (stop - start) (Z.of_nat (length es))) as [Ht|Ht].
    + now rewrite Z.min_l by lia.
    + rewrite Z.min_r by lia. rewrite !firstn_all2; [reflexivity| |]; rewrite skipn_length; lia.
  - rewrite (Z.min_r start) by lia. rewrite Nat2Z.id.
    rewrite skipn_all. rewrite (skipn_all2 es) by lia. now rewrite !firstn_nil.
Qed.

Lemma window_full es start stop :
  0 <= start -> start <= stop -> (Z.to_nat stop <= length es)%nat ->
  length (window es start stop) = Z.to_nat (stop - start).
Proof.
  intros H0 H1 H2. rewrite window_spec by exact H0. rewrite firstn_length, skipn_length. lia.
Qed.
