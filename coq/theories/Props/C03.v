(** C03 - continuing from earlier weights equals learning everything in one pass. *)
From Coq Require Import ZArith List Bool Ring.
From PV Require Import Bytes BinFmt Store RWSpec RWExec RWProofs RWLaws Labels WHSpec WHExec WHContinue.
Import ListNotations.

(** the Rescorla-Wagner map of a concatenation is the composition *)
Theorem C03_learn_split : forall R rO rI radd rmul rsub (p : params R) es1 es2 W,
  learn R rO rI radd rmul rsub p (es1 ++ es2) W =
  learn R rO rI radd rmul rsub p es2 (learn R rO rI radd rmul rsub p es1 W).
Proof. intros. apply learn_app. Qed.
Print Assumptions C03_learn_split.

(** any k-way split, at any positions: chaining through the weights argument
    equals one pass over the concatenation *)
Theorem C03_chain : forall R rO rI radd rmul rsub (p : params R) parts W,
    learn_chain R rO rI radd rmul rsub p parts W = learn R rO rI radd rmul rsub p (concat parts) W.
Proof. exact learn_chain_concat. Qed.
Print Assumptions C03_chain.

(** dict_ndl: two calls chained through the returned weights are one call,
    including the error case *)
Theorem C03_dict_run_app : forall R rO radd rmul rsub (p : params R) po es1 es2 st,
  dict_run R rO radd rmul rsub p po (es1 ++ es2) st =
  match dict_run R rO radd rmul rsub p po es1 st with
  | Some st' => dict_run R rO radd rmul rsub p po es2 st'
  | None => None
  end.
Proof. exact dict_run_app. Qed.
Print Assumptions C03_dict_run_app.

(** dict_ndl started from any weights it can be handed computes [learn] from
    those weights, also when later parts bring new cues and outcomes (rows
    that are not yet listed are zero and are created lazily) *)
Theorem C03_dict_continue : forall R rO rI radd rmul rsub ropp,
  ring_theory rO rI radd rmul rsub ropp (@eq R) ->
  forall (p : params R) po es stt W,
    dict_inv R rO stt W ->
    match dict_run R rO radd rmul rsub p po es stt, prep_all po es with
    | Some stt', Some es' =>
      forall o c, dget R rO (snd stt') o c = learn R rO rI radd rmul rsub p es' W o c
    | None, None => True
    | _, _ => False
    end.
Proof. exact dict_continue. Qed.
Print Assumptions C03_dict_continue.

(** the compiled kernel continues from the memory a previous pass left *)
Theorem C03_kernel_continue : forall R rO radd rmul rsub (p : params R) n_cues outs start stop es1 es2 m,
  k_learn_events R rO radd rmul rsub p n_cues outs start stop (es1 ++ es2) m =
  k_learn_events R rO radd rmul rsub p n_cues outs start stop es2
    (k_learn_events R rO radd rmul rsub p n_cues outs start stop es1 m).
Proof. exact kernel_continue. Qed.
Print Assumptions C03_kernel_continue.

(** the kernel computes [learn] from ANY initial memory (not only zero) on the
    trained rows - this is what a continued parallel call relies on *)
Theorem C03_kernel_from_any_weights :
  forall (R : Type) (rO rI : R) (radd rmul rsub : R -> R -> R) (ropp : R -> R),
    ring_theory rO rI radd rmul rsub ropp (@eq R) ->
  forall p n_cues all_outcomes start stop es m o c,
    (0 <= n_cues < two32)%Z ->
    NoDup all_outcomes -> Forall oko32 all_outcomes ->
    cues_ok (okc_n n_cues) es -> oko32 o -> okc_n n_cues c ->
    kget R rO n_cues (k_learn_events R rO radd rmul rsub p n_cues all_outcomes start stop es m) o c =
    if mem_z o (slice all_outcomes start stop)
    then learn R rO rI radd rmul rsub p es (kget R rO n_cues m) o c
    else kget R rO n_cues m o c.
Proof. exact kernel_refines. Qed.
Print Assumptions C03_kernel_from_any_weights.

(** how old and new labels are numbered (old labels first, new ones appended in
    any order, e.g. hash order) is irrelevant: any injective numbering of cues
    and outcomes gives the same weights at the level of names *)
Theorem C03_labelling_irrelevant : forall R rO rI radd rmul rsub ropp,
  ring_theory rO rI radd rmul rsub ropp (@eq R) ->
  forall (f g : Z -> Z) (p p' : params R) es W W',
    (forall a b, f a = f b -> a = b) -> (forall a b, g a = g b -> a = b) ->
    (forall c, alpha p' (f c) = alpha p c) ->
    beta1 p' = beta1 p -> beta2 p' = beta2 p -> lam p' = lam p ->
    (forall o c, W' (g o) (f c) = W o c) ->
    forall o c, learn R rO rI radd rmul rsub p' (map (rename_event f g) es) W' (g o) (f c) =
                learn R rO rI radd rmul rsub p es W o c.
Proof. exact equivariance. Qed.
Print Assumptions C03_labelling_irrelevant.

(** the labelled matrix a continued parallel call builds (old labels first, new
    labels appended in any order, zero blocks below and to the right) is, read
    through its labels, the matrix it was handed - for every pair of names *)
Theorem C03_zero_extension : forall (R : Type) (rO : R) (m : lmatrix R) new_o new_c o c,
  view R rO (extend R rO m new_o new_c) o c = view R rO m o c.
Proof. exact extend_view. Qed.
Print Assumptions C03_zero_extension.

(** ... and the positions it hands to the kernel are an injective numbering of the labels *)
Theorem C03_label_positions_injective : forall l x y i,
  index_of x l = Some i -> index_of y l = Some i -> x = y.
Proof. exact index_of_injective. Qed.
Print Assumptions C03_label_positions_injective.

(** Widrow-Hoff, the three vector flavours: the delta-rule map of a concatenation is the composition, so any
    k-way split chained through the weights argument is one pass (same vector tables in every part; a
    continued call handed the same labelled vectors in another order is the same table after renaming) *)
Theorem C03_wh_r2r_chain : forall R rO radd rmul rsub eta cv ov cdims parts (W : wfun R),
  chain R (r2r_learn R rO radd rmul rsub eta cv ov cdims) parts W =
  r2r_learn R rO radd rmul rsub eta cv ov cdims (concat parts) W.
Proof. exact r2r_chain. Qed.
Print Assumptions C03_wh_r2r_chain.

Theorem C03_wh_r2b_chain : forall R rO radd rmul rsub b1 b2 la cv cdims parts (W : wfun R),
  chain R (r2b_learn R rO radd rmul rsub b1 b2 la cv cdims) parts W =
  r2b_learn R rO radd rmul rsub b1 b2 la cv cdims (concat parts) W.
Proof. exact r2b_chain. Qed.
Print Assumptions C03_wh_r2b_chain.

Theorem C03_wh_b2r_chain : forall R rO rI radd rmul rsub eta ov parts (W : wfun R),
  chain R (b2r_learn R rO rI radd rmul rsub eta ov) parts W =
  b2r_learn R rO rI radd rmul rsub eta ov (concat parts) W.
Proof. exact b2r_chain. Qed.
Print Assumptions C03_wh_b2r_chain.

(** ... and for the kernel models on flat memory: a second kernel run on the memory the first one left *)
Theorem C03_wh_r2r_kernel_continue :
  forall (R : Type) (rO rI : R) (radd rmul rsub : R -> R -> R) (ropp : R -> R),
    ring_theory rO rI radd rmul rsub ropp (@eq R) ->
  forall eta cv ov n rows es1 es2 m r k,
    (0 <= n < two32)%Z -> NoDup rows -> Forall oko32 rows -> oko32 r -> (0 <= k < n)%Z ->
    kget R rO n (r2r_events R rO radd rmul rsub (kstore R) (kget R rO n) (kset R n) eta cv ov (zrange 0 n) rows es2
                   (r2r_events R rO radd rmul rsub (kstore R) (kget R rO n) (kset R n) eta cv ov (zrange 0 n) rows es1 m)) r k =
    if mem_z r rows
    then r2r_learn R rO radd rmul rsub eta cv ov (zrange 0 n) (es1 ++ es2) (kget R rO n m) r k
    else kget R rO n m r k.
Proof. exact r2r_kernel_continue. Qed.
Print Assumptions C03_wh_r2r_kernel_continue.

Theorem C03_wh_r2b_kernel_continue :
  forall (R : Type) (rO rI : R) (radd rmul rsub : R -> R -> R) (ropp : R -> R),
    ring_theory rO rI radd rmul rsub ropp (@eq R) ->
  forall b1 b2 la cv n rows es1 es2 m r k,
    (0 <= n < two32)%Z -> NoDup rows -> Forall oko32 rows -> oko32 r -> (0 <= k < n)%Z ->
    kget R rO n (r2b_events R rO radd rmul rsub (kstore R) (kget R rO n) (kset R n) b1 b2 la cv (zrange 0 n) rows es2
                   (r2b_events R rO radd rmul rsub (kstore R) (kget R rO n) (kset R n) b1 b2 la cv (zrange 0 n) rows es1 m)) r k =
    if mem_z r rows
    then r2b_learn R rO radd rmul rsub b1 b2 la cv (zrange 0 n) (es1 ++ es2) (kget R rO n m) r k
    else kget R rO n m r k.
Proof. exact r2b_kernel_continue. Qed.
Print Assumptions C03_wh_r2b_kernel_continue.

Theorem C03_wh_b2r_kernel_continue :
  forall (R : Type) (rO rI : R) (radd rmul rsub : R -> R -> R) (ropp : R -> R),
    ring_theory rO rI radd rmul rsub ropp (@eq R) ->
  forall eta ov n rows es1 es2 m d c,
    (0 <= n < two32)%Z -> NoDup rows -> Forall oko32 rows -> cues_ok (okc_n n) (es1 ++ es2) ->
    oko32 d -> okc_n n c ->
    kget R rO n (b2r_events R rO rI radd rmul rsub (kstore R) (kget R rO n) (kset R n) eta ov rows es2
                   (b2r_events R rO rI radd rmul rsub (kstore R) (kget R rO n) (kset R n) eta ov rows es1 m)) d c =
    if mem_z d rows
    then b2r_learn R rO rI radd rmul rsub eta ov (es1 ++ es2) (kget R rO n m) d c
    else kget R rO n m d c.
Proof. exact b2r_kernel_continue. Qed.
Print Assumptions C03_wh_b2r_kernel_continue.
