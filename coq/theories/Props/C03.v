(** C03 - continuing from earlier weights equals learning everything in one pass. *)
From Coq Require Import ZArith List Bool Ring.
From PV Require Import Bytes BinFmt Store RWSpec RWExec RWProofs RWLaws Labels.
Import ListNotations.

(** the Rescorla-Wagner map of a concatenation is the composition *)
Theorem C03_learn_split : forall R rO rI radd rmul rsub (p : params R) es1 es2 W,
  learn R rO rI radd rmul rsub p (es1 ++ es2) W =
  learn R rO rI radd rmul rsub p es2 (learn R rO rI radd rmul rsub p es1 W).
Proof. intros. apply learn_app. Qed.
Print Assumptions C03_learn_split.

(** any k-way split, at any positions: chaining through the weights argument
    equals one pass over the concatenation *)
Theorem C03_chain : forall R rO rI radd rmul rsub (p : params R) parts W,
    learn_chain R rO rI radd rmul rsub p parts W = learn R rO rI radd rmul rsub p (concat parts) W.
Proof. exact learn_chain_concat. Qed.
Print Assumptions C03_chain.

(** dict_ndl: two calls chained through the returned weights are one call,
    including the error case *)
Theorem C03_dict_run_app : forall R rO radd rmul rsub (p : params R) po es1 es2 st,
  dict_run R rO radd rmul rsub p po (es1 ++ es2) st =
  match dict_run R rO radd rmul rsub p po es1 st with
  | Some st' => dict_run R rO radd rmul rsub p po es2 st'
  | None => None
  end.
Proof. exact dict_run_app. Qed.
Print Assumptions C03_dict_run_app.

(** dict_ndl started from any weights it can be handed computes [learn] from
    those weights, also when later parts bring new cues and outcomes (rows
    that are not yet listed are zero and are created lazily) *)
Theorem C03_dict_continue : forall R rO rI radd rmul rsub ropp,
  ring_theory rO rI radd rmul rsub ropp (@eq R) ->
  forall (p : params R) po es stt W,
    dict_inv R rO stt W ->
    match dict_run R rO radd rmul rsub p po es stt, prep_all po es with
    | Some stt', Some es' =>
      forall o c, dget R rO (snd stt') o c = learn R rO rI radd rmul rsub p es' W o c
    | None, None => True
    | _, _ => False
    end.
Proof. exact dict_continue. Qed.
Print Assumptions C03_dict_continue.

(** the compiled kernel continues from the memory a previous pass left *)
Theorem C03_kernel_continue : forall R rO radd rmul rsub (p : params R) n_cues outs start stop es1 es2 m,
  k_learn_events R rO radd rmul rsub p n_cues outs start stop (es1 ++ es2) m =
  k_learn_events R rO radd rmul rsub p n_cues outs start stop es2
    (k_learn_events R rO radd rmul rsub p n_cues outs start stop es1 m).
Proof. exact kernel_continue. Qed.
Print Assumptions C03_kernel_continue.

(** the kernel computes [learn] from ANY initial memory (not only zero) on the
    trained rows - this is what a continued parallel call relies on *)
Theorem C03_kernel_from_any_weights :
  forall (R : Type) (rO rI : R) (radd rmul rsub : R -> R -> R) (ropp : R -> R),
    ring_theory rO rI radd rmul rsub ropp (@eq R) ->
  forall p n_cues all_outcomes start stop es m o c,
    (0 <= n_cues < two32)%Z ->
    NoDup all_outcomes -> Forall oko32 all_outcomes ->
    cues_ok (okc_n n_cues) es -> oko32 o -> okc_n n_cues c ->
    kget R rO n_cues (k_learn_events R rO radd rmul rsub p n_cues all_outcomes start stop es m) o c =
    if mem_z o (slice all_outcomes start stop)
    then learn R rO rI radd rmul rsub p es (kget R rO n_cues m) o c
    else kget R rO n_cues m o c.
Proof. exact kernel_refines. Qed.
Print Assumptions C03_kernel_from_any_weights.

(** how old and new labels are numbered (old labels first, new ones appended in
    any order, e.g. hash order) is irrelevant: any injective numbering of cues
    and outcomes gives the same weights at the level of names *)
Theorem C03_labelling_irrelevant : forall R rO rI radd rmul rsub ropp,
  ring_theory rO rI radd rmul rsub ropp (@eq R) ->
  forall (f g : Z -> Z) (p p' : params R) es W W',
    (forall a b, f a = f b -> a = b) -> (forall a b, g a = g b -> a = b) ->
    (forall c, alpha p' (f c) = alpha p c) ->
    beta1 p' = beta1 p -> beta2 p' = beta2 p -> lam p' = lam p ->
    (forall o c, W' (g o) (f c) = W o c) ->
    forall o c, learn R rO rI radd rmul rsub p' (map (rename_event f g) es) W' (g o) (f c) =
                learn R rO rI radd rmul rsub p es W o c.
Proof. exact equivariance. Qed.
Print Assumptions C03_labelling_irrelevant.

(** the labelled matrix a continued parallel call builds (old labels first, new
    labels appended in any order, zero blocks below and to the right) is, read
    through its labels, the matrix it was handed - for every pair of names *)
Theorem C03_zero_extension : forall (R : Type) (rO : R) (m : lmatrix R) new_o new_c o c,
  view R rO (extend R rO m new_o new_c) o c = view R rO m o c.
Proof. exact extend_view. Qed.
Print Assumptions C03_zero_extension.

(** ... and the positions it hands to the kernel are an injective numbering of the labels *)
Theorem C03_label_positions_injective : forall l x y i,
  index_of x l = Some i -> index_of y l = Some i -> x = y.
Proof. exact index_of_injective. Qed.
Print Assumptions C03_label_positions_injective.
