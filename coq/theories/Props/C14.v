(** C14 - Widrow-Hoff with unit vectors reproduces Rescorla-Wagner learning
    (alpha = 1, beta1 = beta2 = eta, lambda = 1), after renaming vector dimensions
    to cue / outcome names by the injective maps that define the one-hot tables. *)
From Coq Require Import ZArith List Bool Ring.
From PV Require Import Bytes BinFmt Store RWSpec RWExec RWProofs WHSpec WHExec WHOneHot WHOneHotKernel.
Import ListNotations.

Theorem C14_b2r_onehot :
  forall (R : Type) (rO rI : R) (radd rmul rsub : R -> R -> R) (ropp : R -> R),
    ring_theory rO rI radd rmul rsub ropp (@eq R) ->
  forall (ho : Z -> Z) eta es (W W' : wfun R),
    (forall a b, ho a = ho b -> a = b) -> outs_unique es ->
    (forall o c, W' (ho o) c = W o c) ->
    forall o c, b2r_learn R rO rI radd rmul rsub eta (onehot R rO rI ho) es W' (ho o) c =
                learn R rO rI radd rmul rsub (rw_params R rI eta) es W o c.
Proof. exact b2r_onehot. Qed.
Print Assumptions C14_b2r_onehot.

Theorem C14_r2b_onehot :
  forall (R : Type) (rO rI : R) (radd rmul rsub : R -> R -> R) (ropp : R -> R),
    ring_theory rO rI radd rmul rsub ropp (@eq R) ->
  forall (hc : Z -> Z) eta cdims es (W W' : wfun R),
    (forall a b, hc a = hc b -> a = b) -> NoDup cdims -> cues_in hc cdims es ->
    (forall o c, W' o (hc c) = W o c) ->
    forall o c, r2b_learn R rO radd rmul rsub eta eta rI (onehot R rO rI hc) cdims es W' o (hc c) =
                learn R rO rI radd rmul rsub (rw_params R rI eta) es W o c.
Proof. exact r2b_onehot. Qed.
Print Assumptions C14_r2b_onehot.

Theorem C14_r2r_onehot :
  forall (R : Type) (rO rI : R) (radd rmul rsub : R -> R -> R) (ropp : R -> R),
    ring_theory rO rI radd rmul rsub ropp (@eq R) ->
  forall (hc ho : Z -> Z) eta cdims es (W W' : wfun R),
    (forall a b, hc a = hc b -> a = b) -> (forall a b, ho a = ho b -> a = b) ->
    NoDup cdims -> cues_in hc cdims es -> outs_unique es ->
    (forall o c, W' (ho o) (hc c) = W o c) ->
    forall o c, r2r_learn R rO radd rmul rsub eta (onehot R rO rI hc) (onehot R rO rI ho) cdims es W' (ho o) (hc c) =
                learn R rO rI radd rmul rsub (rw_params R rI eta) es W o c.
Proof. exact r2r_onehot. Qed.
Print Assumptions C14_r2r_onehot.

(** the same at the level of the kernel models on flat memory: fed one-hot tables, the Widrow-Hoff kernels leave in
    the renamed cells exactly what the Rescorla-Wagner kernel leaves, for the trained rows and every pair of initial
    memories that agree on the valid positions (what wh.wh and ndl.ndl are compared on by the check) *)
Theorem C14_b2r_kernels_agree :
  forall (R : Type) (rO rI : R) (radd rmul rsub : R -> R -> R) (ropp : R -> R),
    ring_theory rO rI radd rmul rsub ropp (@eq R) ->
  forall (ho : Z -> Z) eta n all start stop es m_wh m_rw o c,
  (0 <= n < two32)%Z -> (forall a b, ho a = ho b -> a = b) ->
  NoDup all -> Forall oko32 all ->
  NoDup (map ho (slice all start stop)) -> Forall oko32 (map ho (slice all start stop)) ->
  cues_ok (okc_n n) es -> outs_unique es ->
  (forall o c, oko32 o /\ oko32 (ho o) -> okc_n n c -> kget R rO n m_wh (ho o) c = kget R rO n m_rw o c) ->
  mem_z o (slice all start stop) = true -> oko32 o -> oko32 (ho o) -> okc_n n c ->
  kget R rO n (b2r_events R rO rI radd rmul rsub (kstore R) (kget R rO n) (kset R n) eta (onehot R rO rI ho)
                     (map ho (slice all start stop)) es m_wh) (ho o) c =
  kget R rO n (k_learn_events R rO radd rmul rsub (rw_params R rI eta) n all start stop es m_rw) o c.
Proof. exact b2r_kernels_agree. Qed.
Print Assumptions C14_b2r_kernels_agree.

Theorem C14_r2b_kernels_agree :
  forall (R : Type) (rO rI : R) (radd rmul rsub : R -> R -> R) (ropp : R -> R),
    ring_theory rO rI radd rmul rsub ropp (@eq R) ->
  forall (hc : Z -> Z) eta n n' all start stop es m_wh m_rw o c,
  (0 <= n < two32)%Z -> (0 <= n' < two32)%Z -> (forall a b, hc a = hc b -> a = b) ->
  NoDup all -> Forall oko32 all ->
  cues_ok (okc_n n) es -> cues_sat (fun c => okc_n n c /\ okc_n n' (hc c)) es ->
  (forall o c, oko32 o -> okc_n n c /\ okc_n n' (hc c) -> kget R rO n' m_wh o (hc c) = kget R rO n m_rw o c) ->
  mem_z o (slice all start stop) = true -> oko32 o -> okc_n n c -> okc_n n' (hc c) ->
  kget R rO n' (r2b_events R rO radd rmul rsub (kstore R) (kget R rO n') (kset R n') eta eta rI (onehot R rO rI hc)
                      (zrange 0 n') (slice all start stop) es m_wh) o (hc c) =
  kget R rO n (k_learn_events R rO radd rmul rsub (rw_params R rI eta) n all start stop es m_rw) o c.
Proof. exact r2b_kernels_agree. Qed.
Print Assumptions C14_r2b_kernels_agree.

Theorem C14_r2r_kernels_agree :
  forall (R : Type) (rO rI : R) (radd rmul rsub : R -> R -> R) (ropp : R -> R),
    ring_theory rO rI radd rmul rsub ropp (@eq R) ->
  forall (hc ho : Z -> Z) eta n n' all start stop es m_wh m_rw o c,
  (0 <= n < two32)%Z -> (0 <= n' < two32)%Z ->
  (forall a b, hc a = hc b -> a = b) -> (forall a b, ho a = ho b -> a = b) ->
  NoDup all -> Forall oko32 all ->
  NoDup (map ho (slice all start stop)) -> Forall oko32 (map ho (slice all start stop)) ->
  cues_ok (okc_n n) es -> cues_sat (fun c => okc_n n c /\ okc_n n' (hc c)) es -> outs_unique es ->
  (forall o c, oko32 o /\ oko32 (ho o) -> okc_n n c /\ okc_n n' (hc c) ->
               kget R rO n' m_wh (ho o) (hc c) = kget R rO n m_rw o c) ->
  mem_z o (slice all start stop) = true -> oko32 o -> oko32 (ho o) -> okc_n n c -> okc_n n' (hc c) ->
  kget R rO n' (r2r_events R rO radd rmul rsub (kstore R) (kget R rO n') (kset R n') eta (onehot R rO rI hc) (onehot R rO rI ho)
                      (zrange 0 n') (map ho (slice all start stop)) es m_wh) (ho o) (hc c) =
  kget R rO n (k_learn_events R rO radd rmul rsub (rw_params R rI eta) n all start stop es m_rw) o c.
Proof. exact r2r_kernels_agree. Qed.
Print Assumptions C14_r2r_kernels_agree.

(** the hypothesis "outcomes unique within an event" is needed: summed outcome
    vectors count a repeated outcome twice, presence is binary *)
Example C14_repeated_outcome_differs :
  tvec Z 0%Z Z.add (onehot Z 0%Z 1%Z (fun o => o)) [5%Z; 5%Z] 5%Z = 2%Z.
Proof. reflexivity. Qed.

(** non-vacuity of the kernel-level statements: two empty memories agree on every position, outcome o of the
    Rescorla-Wagner side lives in row o + 10 of the Widrow-Hoff side; the table rows and the events below meet
    every hypothesis of [C14_b2r_kernels_agree] *)
Example C14_kernels_agree_nonvacuous :
  let ho := fun o => (o + 10)%Z in
  let es := [([0%Z; 1%Z], [2%Z]); ([1%Z], [0%Z; 1%Z])] in
  (forall a b, ho a = ho b -> a = b) /\
  NoDup (map ho (slice [0%Z; 1%Z; 2%Z] 0 3)) /\ outs_unique es /\ cues_ok (okc_n 2) es /\
  (forall o c, kget Z 0%Z 2 (ZM.empty Z) (ho o) c = kget Z 0%Z 2 (ZM.empty Z) o c) /\
  mem_z 1%Z (slice [0%Z; 1%Z; 2%Z] 0 3) = true.
Proof.
  cbv zeta. repeat split.
  - intros a b H. now apply Z.add_cancel_r in H.
  - vm_compute. repeat constructor; cbn; intuition discriminate.
  - repeat constructor; cbn; intuition discriminate.
  - repeat constructor; unfold okc_n; cbn; intuition discriminate.
Qed.
