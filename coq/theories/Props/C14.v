(** C14 - Widrow-Hoff with unit vectors reproduces Rescorla-Wagner learning
    (alpha = 1, beta1 = beta2 = eta, lambda = 1), after renaming vector dimensions
    to cue / outcome names by the injective maps that define the one-hot tables. *)
From Coq Require Import ZArith List Bool Ring.
From PV Require Import BinFmt RWSpec WHSpec WHOneHot.
Import ListNotations.

Theorem C14_b2r_onehot :
  forall (R : Type) (rO rI : R) (radd rmul rsub : R -> R -> R) (ropp : R -> R),
    ring_theory rO rI radd rmul rsub ropp (@eq R) ->
  forall (ho : Z -> Z) eta es (W W' : wfun R),
    (forall a b, ho a = ho b -> a = b) -> outs_unique es ->
    (forall o c, W' (ho o) c = W o c) ->
    forall o c, b2r_learn R rO rI radd rmul rsub eta (onehot R rO rI ho) es W' (ho o) c =
                learn R rO rI radd rmul rsub (rw_params R rI eta) es W o c.
Proof. exact b2r_onehot. Qed.
Print Assumptions C14_b2r_onehot.

Theorem C14_r2b_onehot :
  forall (R : Type) (rO rI : R) (radd rmul rsub : R -> R -> R) (ropp : R -> R),
    ring_theory rO rI radd rmul rsub ropp (@eq R) ->
  forall (hc : Z -> Z) eta cdims es (W W' : wfun R),
    (forall a b, hc a = hc b -> a = b) -> NoDup cdims -> cues_in hc cdims es ->
    (forall o c, W' o (hc c) = W o c) ->
    forall o c, r2b_learn R rO radd rmul rsub eta eta rI (onehot R rO rI hc) cdims es W' o (hc c) =
                learn R rO rI radd rmul rsub (rw_params R rI eta) es W o c.
Proof. exact r2b_onehot. Qed.
Print Assumptions C14_r2b_onehot.

Theorem C14_r2r_onehot :
  forall (R : Type) (rO rI : R) (radd rmul rsub : R -> R -> R) (ropp : R -> R),
    ring_theory rO rI radd rmul rsub ropp (@eq R) ->
  forall (hc ho : Z -> Z) eta cdims es (W W' : wfun R),
    (forall a b, hc a = hc b -> a = b) -> (forall a b, ho a = ho b -> a = b) ->
    NoDup cdims -> cues_in hc cdims es -> outs_unique es ->
    (forall o c, W' (ho o) (hc c) = W o c) ->
    forall o c, r2r_learn R rO radd rmul rsub eta (onehot R rO rI hc) (onehot R rO rI ho) cdims es W' (ho o) (hc c) =
                learn R rO rI radd rmul rsub (rw_params R rI eta) es W o c.
Proof. exact r2r_onehot. Qed.
Print Assumptions C14_r2r_onehot.

(** the hypothesis "outcomes unique within an event" is needed: summed outcome
    vectors count a repeated outcome twice, presence is binary *)
Example C14_repeated_outcome_differs :
  tvec Z 0%Z Z.add (onehot Z 0%Z 1%Z (fun o => o)) [5%Z; 5%Z] 5%Z = 2%Z.
Proof. reflexivity. Qed.
