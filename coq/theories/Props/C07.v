(** C07 - text event files round-trip; the frequency column and the input form keep their meaning. *)
From Coq Require Import ZArith List Bool.
From PV Require Import TextFmt TextFmtProofs.
Import ListNotations.
Open Scope Z_scope.

(** [sep.join(ws).split(sep) == ws] for a non-empty list of tokens that do not contain the separator *)
Theorem C07_split_join : forall sep ws,
  ws <> [] -> (forall w, In w ws -> ~ In sep w) -> split sep (join sep ws) = ws.
Proof. exact split_join. Qed.
Print Assumptions C07_split_join.

(** the exception the property makes: an empty cue/outcome list is written as the empty
    field and read back as the single token '' *)
Theorem C07_join_nil_is_empty_name : forall sep, split sep (join sep []) = [[]].
Proof. exact join_nil_is_empty_name. Qed.
Print Assumptions C07_join_nil_is_empty_name.

(** the other direction holds for every string (an already joined column is written unchanged) *)
Theorem C07_join_split : forall sep s, join sep (split sep s) = s.
Proof. exact join_split. Qed.
Print Assumptions C07_join_split.

(** events with at least one cue and one outcome whose tokens contain no tab, LF, CR,
    underscore (empty tokens allowed) are read back unchanged, with and without the
    ndl2-compatible third column *)
Theorem C07_read_write : forall compatible es,
  forallb clean_event es = true -> parse_file (write_file compatible es) = Some es.
Proof. exact read_write. Qed.
Print Assumptions C07_read_write.

(** reading with [start]/[step] gives the corresponding slice of the events *)
Theorem C07_read_write_slice : forall compatible es start step,
  forallb clean_event es = true ->
  read_events (write_file compatible es) start step = Some (islice es start step).
Proof. exact read_write_slice. Qed.
Print Assumptions C07_read_write_slice.

(** every container form (token lists or joined strings per column: list of lists, list of
    strings, generator, DataFrame rows) of the same events writes a file that reads back as them *)
Theorem C07_read_write_container : forall compatible l es,
  forallb clean_event es = true -> Forall2 represents l es ->
  parse_file (events_to_file compatible l) = Some es.
Proof. exact read_write_container. Qed.
Print Assumptions C07_read_write_container.

(** a hand-written file whose rows have an optional third field that [int()] accepts reads as
    every event repeated frequency-many times, the slice being taken over the rows first *)
Theorem C07_frequency : forall hdr rows start step,
  ~ In LF hdr -> ~ In CR hdr -> forallb clean_row rows = true ->
  read_events (rows_file hdr rows) start step = Some (flat_map row_copies (islice rows start step)).
Proof. exact read_rows. Qed.
Print Assumptions C07_frequency.

Theorem C07_frequency_copies : forall r k,
  row_freq r = Some k -> row_copies r = repeat (fst r) (Z.to_nat k).
Proof. exact row_copies_spec. Qed.
Print Assumptions C07_frequency_copies.

Theorem C07_frequency_zero : forall r k, row_freq r = Some k -> k <= 0 -> row_copies r = [].
Proof. exact row_copies_zero. Qed.
Print Assumptions C07_frequency_zero.

(** every frequency has a numeral: the hypothesis of C07_frequency is satisfiable for all k >= 0 *)
Theorem C07_numerals : forall k, 0 <= k -> int_of_str (digits k) = Some k.
Proof. exact int_of_str_digits. Qed.
Print Assumptions C07_numerals.

(** counting: cue and outcome frequencies of the file are the frequency-weighted sums over the rows *)
Theorem C07_frequency_counts : forall hdr rows,
  ~ In LF hdr -> ~ In CR hdr -> forallb clean_row rows = true ->
  exists es, parse_file (rows_file hdr rows) = Some es /\
             es = flat_map row_copies rows /\
             (forall t, cue_count es t = weighted_count fst rows t) /\
             (forall t, outcome_count es t = weighted_count snd rows t).
Proof. exact frequency_counts. Qed.
Print Assumptions C07_frequency_counts.

(** input form: whatever a learner computes from a list of events, it computes the same from
    the file that the writer spools for any container form of these events (path string, path
    object and generator for ndl.ndl; path and iterable for dict_ndl) *)
Theorem C07_input_form : forall (W : Type) (learn : list event -> W) compatible l es,
  forallb clean_event es = true -> Forall2 represents l es ->
  option_map learn (parse_file (events_to_file compatible l)) = Some (learn es).
Proof. exact input_form. Qed.
Print Assumptions C07_input_form.

(** non-vacuity *)
Example C07_ex_events :
  let es := [([[97; 98]; [128512]], [[120]]); ([[]; [32; 8232]], [[1114111]; [0]])] in
  forallb clean_event es = true /\
  parse_file (write_file true es) = Some es /\ parse_file (write_file false es) = Some es.
Proof. vm_compute. repeat split. Qed.

Example C07_ex_container :
  let es := [([[97]; [98]], [[120]])] in
  Forall2 represents [(FStr [97; 95; 98], FList [[120]])] es /\
  parse_file (events_to_file false [(FStr [97; 95; 98], FList [[120]])]) = Some es.
Proof.
  split; [|vm_compute; reflexivity].
  constructor; [|constructor]. split; [right|left]; reflexivity.
Qed.

Example C07_ex_rows :
  let a := ([[97]], [[120]]) in let b := ([[98]], [[121]]) in
  let rows := [(a, Some [51]); (b, Some [48]); (a, None); (b, Some [43; 50])] in
  forallb clean_row rows = true /\
  parse_file (rows_file [104] rows) = Some [a; a; a; a; b; b] /\
  read_events (rows_file [104] rows) 1 2 = Some [b; b].
Proof. vm_compute. repeat split. Qed.

(** what the property excludes really breaks the round trip: an event without outcomes, a token
    with an underscore, a CR inside a token *)
Example C07_ex_excluded :
  parse_file (write_file false [([[97]], [])]) = Some [([[97]], [[]])] /\
  parse_file (write_file false [([[97; 95; 98]], [[120]])]) = Some [([[97]; [98]], [[120]])] /\
  parse_file (write_file false [([[97; 13; 98]], [[120]])]) = None.
Proof. vm_compute. repeat split. Qed.
