(** C15 - every stage's output is valid input for the next stage.
    Composition theorems over the EXISTING stage models: creation (WindowSpec / Preproc, C09),
    filter (Filter, C10), writer and reader (TextFmt, C07), counting (Count, C11), learners
    (RWSpec / RWExec / kernels, C01).  Vocabulary: Pipeline.v; proofs: PipelineProofs.v.
    The oracles [lower], [is_space], [allowed] are universally quantified; the only thing
    needed from them is that [lower] creates no line break ([lower_ok]; no hypothesis on
    [is_space] and [allowed]), checked on every table the harness passes (model 1502). *)
From Coq Require Import ZArith List Bool Ring Permutation.
From PV Require Import Bytes BinFmt Store RWSpec RWExec RWProofs RWLaws Sched SchedProofs RWMain.
From PV Require Import WindowSpec Preproc PreprocProofs PyText Filter TextFmt Count RunC09.
From PV Require Import Pipeline PipelineProofs.
Import ListNotations.
Open Scope Z_scope.

(** * well-formed event lines *)

(** the literal reading: exactly one tab, no LF, no CR, a non-empty cue field, every '_'-piece
    of the cue field is a fine token (non-empty, no tab / LF / CR / underscore), the outcome
    field is empty or all its '_'-pieces are fine tokens *)
Theorem C15_wf_line_shape : forall l,
  wf_line l ->
  count_occ Z.eq_dec l TextFmt.TAB = 1%nat /\ ~ In TextFmt.LF l /\ ~ In TextFmt.CR l /\
  exists cf of, l = cf ++ TextFmt.TAB :: of /\ cf <> [] /\
                (forall t, In t (TextFmt.split TextFmt.US cf) -> tok_okb t = true) /\
                (of = [] \/ forall t, In t (TextFmt.split TextFmt.US of) -> tok_okb t = true).
Proof. exact wf_line_shape. Qed.
Print Assumptions C15_wf_line_shape.

Theorem C15_token_ok : forall t,
  tok_okb t = true <->
  t <> [] /\ forall c, In c t -> c <> TextFmt.TAB /\ c <> TextFmt.LF /\ c <> TextFmt.CR /\ c <> TextFmt.US.
Proof. exact tok_okb_spec. Qed.
Print Assumptions C15_token_ok.

(** a line is well-formed iff it is the line of well-formed token lists *)
Theorem C15_wf_line_of_event : forall e, wf_event e -> wf_line (event_line e).
Proof. exact wf_line_of_event. Qed.
Print Assumptions C15_wf_line_of_event.

Theorem C15_wf_line_is_event_line : forall l,
  wf_line l -> exists e, wf_event e /\ snd e <> [[]] /\ l = event_line e.
Proof. exact wf_line_is_event_line. Qed.
Print Assumptions C15_wf_line_is_event_line.

(** * creation *)

(** every line written by the creation model - for every corpus whose lines contain no line
    break, every one of the 2x3x3 structure combinations, lower_case, remove_duplicates, window
    sizes, every [is_space] and [allowed] oracle - is a well-formed event line *)
Theorem C15_create_output_wellformed : forall lower is_space allowed (o : opts) corpus,
  (o_lower o = true -> lower_ok lower) -> corpus_ok corpus ->
  Forall wf_line (spec_lines lower is_space allowed o corpus).
Proof. exact create_lines_wellformed. Qed.
Print Assumptions C15_create_output_wellformed.

(** ... with its token lists: the lines are the lines of [spec_events], all well-formed *)
Theorem C15_create_events_wellformed : forall lower is_space allowed (o : opts) corpus,
  (o_lower o = true -> lower_ok lower) -> corpus_ok corpus ->
  Forall wf_event (spec_events lower is_space allowed o corpus).
Proof. exact create_wellformed. Qed.
Print Assumptions C15_create_events_wellformed.

Theorem C15_create_lines_are_event_lines : forall lower is_space allowed (o : opts) corpus,
  spec_lines lower is_space allowed o corpus = map event_line (spec_events lower is_space allowed o corpus).
Proof. exact spec_lines_events. Qed.
Print Assumptions C15_create_lines_are_event_lines.

(** the table the harness hands to the models satisfies the oracle hypothesis when its check says so *)
Theorem C15_oracle_table_ok : forall tab, lower_tab_okb tab = true -> lower_ok (lookup_lower tab).
Proof. exact lower_table_ok. Qed.
Print Assumptions C15_oracle_table_ok.

Theorem C15_corpus_check : forall corpus, corpus_okb corpus = true <-> corpus_ok corpus.
Proof. exact corpus_okb_spec. Qed.
Print Assumptions C15_corpus_check.

(** the hypothesis on [lower] is needed *)
Theorem C15_lower_creating_linebreak_refuted :
  exists lower o corpus, corpus_ok corpus /\
    ~ Forall wf_event (spec_events lower (fun _ => false) (fun _ => true) o corpus).
Proof. exact lower_creating_linebreak_refuted. Qed.
Print Assumptions C15_lower_creating_linebreak_refuted.

(** * filter *)

(** a well-formed line is dropped or mapped to a well-formed line (rename values without separators) *)
Theorem C15_filter_preserves_wellformed : forall rc ro l,
  rule_ok rc -> rule_ok ro -> wf_line l ->
  job rc ro (l ++ [TextFmt.LF]) = JDrop \/
  exists l', job rc ro (l ++ [TextFmt.LF]) = JLine (l' ++ [TextFmt.LF]) /\ wf_line l'.
Proof. exact filter_line_wellformed. Qed.
Print Assumptions C15_filter_preserves_wellformed.

(** the file of well-formed events is mapped, for every chunk size, to the file of the filtered
    events (read as the reader reads them, rules applied, dropped iff no cue is left), which are
    well-formed again; the filter never raises on such a file *)
Theorem C15_filter_stage : forall rc ro k es,
  (1 <= k)%nat -> rule_ok rc -> rule_ok ro -> Forall wf_event es ->
  filter_text_pool rc ro k (write_file false es) = Some (write_file false (filter_events rc ro es)) /\
  Forall wf_event (filter_events rc ro es).
Proof. exact filter_stage. Qed.
Print Assumptions C15_filter_stage.

Theorem C15_filter_map_value_with_separator_refuted :
  exists rc ro e e', wf_event e /\ job_event rc ro (denote e) = Some e' /\ ~ wf_event e'.
Proof. exact filter_map_value_with_separator_refuted. Qed.
Print Assumptions C15_filter_map_value_with_separator_refuted.

(** the three-column output of the ndl2-compatible writer is read, counted and learned from
    (C15_stage_roundtrip with compatible = true) but the filter raises on it *)
Theorem C15_filter_rejects_compatible_file_refuted :
  exists es, Forall wf_event es /\ filter_text RAll RAll (write_file true es) = None /\
             parse_file (write_file true es) = Some (map denote es).
Proof. exact filter_rejects_compatible_file_refuted. Qed.
Print Assumptions C15_filter_rejects_compatible_file_refuted.

(** * round trip of every stage *)

(** a file of well-formed events is parsed into exactly the events its token lists denote:
    cues = the cue tokens, outcomes = the outcome tokens, [''] for an empty outcome list *)
Theorem C15_stage_roundtrip : forall compatible es,
  Forall wf_event es -> parse_file (write_file compatible es) = Some (map denote es).
Proof. exact stage_roundtrip. Qed.
Print Assumptions C15_stage_roundtrip.

Theorem C15_stage_roundtrip_slice : forall compatible es start step,
  Forall wf_event es ->
  read_events (write_file compatible es) start step = Some (islice (map denote es) start step).
Proof. exact stage_roundtrip_slice. Qed.
Print Assumptions C15_stage_roundtrip_slice.

(** creation output: the file written by the loop-faithful creation model *)
Theorem C15_stage_roundtrip_create : forall lower is_space allowed (o : opts) corpus,
  opts_ok o -> (o_lower o = true -> lower_ok lower) -> corpus_ok corpus ->
  exists lines,
    create_event_file lower is_space allowed o false corpus = RFile lines /\
    Forall wf_line (tl lines) /\
    parse_file (text_of_lines lines) = Some (map denote (spec_events lower is_space allowed o corpus)).
Proof. exact create_roundtrip. Qed.
Print Assumptions C15_stage_roundtrip_create.

(** writer output: every container form of the events *)
Theorem C15_stage_roundtrip_writer : forall compatible l es,
  Forall wf_event es -> Forall2 represents l (map denote es) ->
  parse_file (events_to_file compatible l) = Some (map denote es).
Proof. exact writer_roundtrip. Qed.
Print Assumptions C15_stage_roundtrip_writer.

(** a REAL file that passes the executable check (model 1501) is parsed into the events its lines denote *)
Theorem C15_checked_file_parses : forall text,
  wf_textb text = true ->
  exists es, Forall wf_event es /\
             tl (TextFmt.lines (unl text)) = map (fun e => event_line e ++ [TextFmt.LF]) es /\
             parse_file text = Some (map denote es).
Proof. exact wf_text_parses. Qed.
Print Assumptions C15_checked_file_parses.

(** * the pipeline *)

(** creation -> filter -> reader -> counting, for every corpus / options / rules / chunk size /
    number of counting processes: the filter accepts the created file and writes the file of the
    filtered events; the reader returns exactly the events these token lists denote; the counts
    are the direct counts of these events (C11_cues_outcomes) *)
Theorem C15_pipeline : forall lower is_space allowed (o : opts) corpus rc ro k,
  opts_ok o -> (o_lower o = true -> lower_ok lower) -> corpus_ok corpus ->
  rule_ok rc -> rule_ok ro -> (1 <= k)%nat ->
  let E1 := spec_events lower is_space allowed o corpus in
  let E2 := filter_events rc ro E1 in
  Forall wf_event E1 /\ Forall wf_event E2 /\
  pipeline_text lower is_space allowed o corpus rc ro k = Some (write_file false E2) /\
  pipeline_events lower is_space allowed o corpus rc ro k = Some (map denote E2) /\
  (forall n, (1 <= n)%nat ->
     exists ne cc oc, cues_outcomes (write_file false E2) n = Some (ne, cc, oc) /\
                      exact_counts ne cc oc (map denote E2)).
Proof. exact pipeline. Qed.
Print Assumptions C15_pipeline.

(** counting the file of any stage (creation, filter, writer; with or without frequency column) *)
Theorem C15_stage_counts : forall compatible es n,
  Forall wf_event es -> (1 <= n)%nat ->
  exists ne cc oc, cues_outcomes (write_file compatible es) n = Some (ne, cc, oc) /\
                   exact_counts ne cc oc (map denote es).
Proof. exact stage_counts. Qed.
Print Assumptions C15_stage_counts.

(** dict_ndl on the numbered events of a stage file returns the Rescorla-Wagner weights of
    exactly those events (C01_dict), or raises exactly when the policy is None and an event
    repeats a token - over every commutative ring *)
Theorem C15_stage_dict_learn :
  forall (R : Type) (rO rI : R) (radd rmul rsub : R -> R -> R) (ropp : R -> R),
    ring_theory rO rI radd rmul rsub ropp (@eq R) ->
  forall (p : params R) (po : pol) (fc fo : str -> Z) compatible (es : list tevent),
    Forall wf_event es ->
    exists evs, parse_file (write_file compatible es) = Some evs /\ evs = map denote es /\
      let ids := map (number_event fc fo) evs in
      match dict_run R rO radd rmul rsub p po ids ([], ZZM.empty R), prep_all po ids with
      | Some (_, s), Some ids' =>
        forall o c, dget R rO s o c = learn R rO rI radd rmul rsub p ids' (zero_w R rO) o c
      | None, None => True
      | _, _ => False
      end.
Proof. exact stage_dict_learn. Qed.
Print Assumptions C15_stage_dict_learn.

(** the whole chain: corpus -> creation -> filter -> reader -> dict_ndl returns the Rescorla-Wagner
    weights of exactly the (numbered) events that the token lists of the composed model denote *)
Theorem C15_pipeline_dict_learn :
  forall (R : Type) (rO rI : R) (radd rmul rsub : R -> R -> R) (ropp : R -> R),
    ring_theory rO rI radd rmul rsub ropp (@eq R) ->
  forall lower is_space allowed (o : opts) corpus rc ro k (p : params R) (po : pol) (fc fo : str -> Z),
    opts_ok o -> (o_lower o = true -> lower_ok lower) -> corpus_ok corpus ->
    rule_ok rc -> rule_ok ro -> (1 <= k)%nat ->
    exists evs,
      pipeline_events lower is_space allowed o corpus rc ro k = Some evs /\
      evs = map denote (filter_events rc ro (spec_events lower is_space allowed o corpus)) /\
      let ids := map (number_event fc fo) evs in
      match dict_run R rO radd rmul rsub p po ids ([], ZZM.empty R), prep_all po ids with
      | Some (_, s), Some ids' =>
        forall ou c, dget R rO s ou c = learn R rO rI radd rmul rsub p ids' (zero_w R rO) ou c
      | None, None => True
      | _, _ => False
      end.
Proof. exact pipeline_dict_learn. Qed.
Print Assumptions C15_pipeline_dict_learn.

(** ndl.ndl(method='threading') and ndl.ndl(method='openmp') on the numbered events of a stage
    file: every schedule gives [learn] of exactly those events (C01_parallel_threading / _openmp) *)
Theorem C15_stage_threading_learn :
  forall (R : Type) (rO rI : R) (radd rmul rsub : R -> R -> R) (ropp : R -> R),
    ring_theory rO rI radd rmul rsub ropp (@eq R) ->
  forall (fc fo : str -> Z) compatible (es : list tevent) p n_cues all n tr m o c,
    Forall wf_event es ->
    let ids := map (number_event fc fo) (map denote es) in
    (0 <= n_cues < two32)%Z -> NoDup all -> Forall oko32 all ->
    cues_ok (okc_n n_cues) ids -> (1 <= n)%nat ->
    interleaving (map (fun part => item_actions part ids) (slice_list all n)) tr ->
    oko32 o -> okc_n n_cues c ->
    parse_file (write_file compatible es) = Some (map denote es) /\
    kget R rO n_cues (run_trace R rO radd rmul rsub (kstore R) (kget R rO n_cues) (kset R n_cues) p tr m) o c =
    if mem_z o all then learn R rO rI radd rmul rsub p ids (kget R rO n_cues m) o c
    else kget R rO n_cues m o c.
Proof. exact stage_threading_learn. Qed.
Print Assumptions C15_stage_threading_learn.

Theorem C15_stage_openmp_learn :
  forall (R : Type) (rO rI : R) (radd rmul rsub : R -> R -> R) (ropp : R -> R),
    ring_theory rO rI radd rmul rsub ropp (@eq R) ->
  forall (fc fo : str -> Z) compatible (es : list tevent) p n_cues all parts files trs m o c,
    Forall wf_event es ->
    let ids := map (number_event fc fo) (map denote es) in
    (0 <= n_cues < two32)%Z -> NoDup all -> Forall oko32 all ->
    concat parts = all -> concat files = ids ->
    Forall (cues_ok (okc_n n_cues)) files ->
    files_interleaved parts files trs ->
    oko32 o -> okc_n n_cues c ->
    parse_file (write_file compatible es) = Some (map denote es) /\
    kget R rO n_cues (run_files R rO radd rmul rsub (kstore R) (kget R rO n_cues) (kset R n_cues)
                                p parts files trs m) o c =
    if mem_z o all then learn R rO rI radd rmul rsub p ids (kget R rO n_cues m) o c
    else kget R rO n_cues m o c.
Proof. exact stage_openmp_learn. Qed.
Print Assumptions C15_stage_openmp_learn.

(** the numbering of the names is irrelevant (C03_labelling_irrelevant / C13_equivariance at the
    level of tokens): numbering with [f . fc], [g . fo] for injective [f], [g] renames the result *)
Theorem C15_numbering_irrelevant :
  forall (R : Type) (rO rI : R) (radd rmul rsub : R -> R -> R) (ropp : R -> R),
    ring_theory rO rI radd rmul rsub ropp (@eq R) ->
  forall (fc fo : str -> Z) (f g : Z -> Z) (p p' : params R) (evs : list tevent) W W',
    injective f -> injective g ->
    (forall c, alpha p' (f c) = alpha p c) ->
    beta1 p' = beta1 p -> beta2 p' = beta2 p -> lam p' = lam p ->
    (forall o c, W' (g o) (f c) = W o c) ->
    forall o c,
      learn R rO rI radd rmul rsub p' (map (number_event (fun t => f (fc t)) (fun t => g (fo t))) evs) W' (g o) (f c) =
      learn R rO rI radd rmul rsub p (map (number_event fc fo) evs) W o c.
Proof. exact numbering_irrelevant. Qed.
Print Assumptions C15_numbering_irrelevant.

(** the order of the tokens inside an event is irrelevant for the weights (the real creation
    stage writes the sets of remove_duplicates=True in hash order; C13_cue_order) *)
Theorem C15_token_order_irrelevant :
  forall (R : Type) (rO rI : R) (radd rmul rsub : R -> R -> R) (ropp : R -> R),
    ring_theory rO rI radd rmul rsub ropp (@eq R) ->
  forall (fc fo : str -> Z) (p : params R) (evs evs' : list tevent) W,
    Forall2 tperm evs evs' ->
    forall o c, learn R rO rI radd rmul rsub p (map (number_event fc fo) evs) W o c =
                learn R rO rI radd rmul rsub p (map (number_event fc fo) evs') W o c.
Proof. exact token_order_irrelevant. Qed.
Print Assumptions C15_token_order_irrelevant.

(** * Non-vacuity *)
(** oracles as the harness passes them: a table for [lower] (A -> a, U+0130 -> i + U+0307),
    white space = {space, tab, NBSP}, allowed = everything but '!' *)
Definition ex_ltab : list (Z * list Z) := [(65, [97]); (304, [105; 775])].
Definition ex_space (c : Z) : bool := (c =? 32) || (c =? 9) || (c =? 160).
Definition ex_allowed (c : Z) : bool := negb (c =? 33).
Definition ex_opts : opts :=
  {| o_ctx := CtxDocument; o_ev := EvConsecutive 2; o_cue := CueW2W; o_lower := true; o_dedup := false |}.
(** "A b_c\td#", "İ!x  y z " *)
Definition ex_corpus : list str := [[65; 32; 98; 95; 99; 9; 100; 35]; [304; 33; 120; 32; 160; 121; 8232; 122; 32]].
(** keep the cues a, b, c, y<U+2028>z (drops events without such a cue), rename nothing on the outcome side *)
Definition ex_rc : rule := RKeep [[97]; [98]; [99]; [121; 8232; 122]].

Example C15_ex_hypotheses :
  opts_ok ex_opts /\ lower_ok (lookup_lower ex_ltab) /\ corpus_ok ex_corpus /\ rule_ok ex_rc /\ rule_ok RAll.
Proof.
  split; [vm_compute; discriminate|]. split; [apply lower_table_ok; reflexivity|].
  split; [apply corpus_okb_spec; reflexivity|]. split; reflexivity.
Qed.

(** the created events: a | a_b | b_c | c_d | d_i̇ | i̇_x | x_y z | y z ; after the filter the
    non-kept cues are gone and the events d_i̇ / i̇_x (no kept cue) are dropped; all outcome fields are
    empty, so every event has the single outcome '' *)
Example C15_ex_pipeline :
  pipeline_events (lookup_lower ex_ltab) ex_space ex_allowed ex_opts ex_corpus ex_rc RAll 2 =
  Some [ ([[97]], [[]]); ([[97]; [98]], [[]]); ([[98]; [99]], [[]]); ([[99]], [[]]);
         ([[121; 8232; 122]], [[]]); ([[121; 8232; 122]], [[]]) ].
Proof. vm_compute. reflexivity. Qed.

Example C15_ex_wf_text :
  wf_textb [104; 10; 97; 95; 98; 9; 120; 10; 99; 9; 10] = true /\      (* "h\na_b\tx\nc\t\n" *)
  wf_textb [104; 10; 97; 95; 95; 98; 9; 120; 10] = false /\            (* empty cue token *)
  wf_textb [104; 10; 97; 9; 120; 9; 49; 10] = false /\                 (* three columns *)
  wf_textb [104; 10; 9; 120; 10] = false /\                            (* empty cue field *)
  wf_textb [104; 10; 97; 9; 120] = false.                              (* last line not terminated *)
Proof. vm_compute. repeat split. Qed.

(** trigram cues of a two-word window, duplicates removed; the words are also the outcomes *)
Example C15_ex_trigrams :
  spec_events (fun c => [c]) ex_space (fun _ => true)
    {| o_ctx := CtxLine; o_ev := EvLine; o_cue := CueTrigrams; o_lower := false; o_dedup := true |} [[97; 97; 32; 97; 97]]
  = [([[35; 97; 97]; [97; 97; 35]; [97; 35; 97]], [[97; 97]])].
Proof. vm_compute. reflexivity. Qed.
