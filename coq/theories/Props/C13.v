(** C13 - the learners obey the algebraic laws of the Rescorla-Wagner map.
    The laws are proved for [RWSpec.learn] over every commutative ring; the
    learner models compute [learn] (C01), and the check evaluates each law as a
    relation between runs of the real learners. *)
From Coq Require Import ZArith List Bool Ring Permutation.
From PV Require Import Bytes BinFmt RWSpec RWLaws.
Import ListNotations.

Section Statements.
  Variable R : Type.
  Variables (rO rI : R) (radd rmul rsub : R -> R -> R) (ropp : R -> R).
  Hypothesis Rth : ring_theory rO rI radd rmul rsub ropp (@eq R).
  Notation learn := (learn R rO rI radd rmul rsub).

  (** the row of outcome [o] depends only on the cues of each event and on
      whether [o] is present: other outcomes may be removed, added or renamed *)
  Definition row_locality_stmt := forall p es es' W W' o,
    Forall2 (same_for o) es es' -> (forall c, W o c = W' o c) ->
    forall c, learn p es W o c = learn p es' W' o c.

  (** injective renaming of cues and outcomes renames the result *)
  Definition equivariance_stmt := forall (f g : Z -> Z) p p' es W W',
    (forall a b, f a = f b -> a = b) -> (forall a b, g a = g b -> a = b) ->
    (forall c, alpha p' (f c) = alpha p c) ->
    beta1 p' = beta1 p -> beta2 p' = beta2 p -> lam p' = lam p ->
    (forall o c, W' (g o) (f c) = W o c) ->
    forall o c, learn p' (map (rename_event f g) es) W' (g o) (f c) = learn p es W o c.

  (** the order of cues (and of outcomes) inside an event is irrelevant *)
  Definition cue_order_stmt := forall p es es' W,
    Forall2 perm_event es es' -> forall o c, learn p es W o c = learn p es' W o c.

  (** affine in the initial weights: learn_lambda es W = learn_0 es W + learn_lambda es 0,
      and learn_0 es is additive *)
  Definition affine_stmt := forall p es W o c,
    learn p es W o c =
    radd (learn (with_lam R p rO) es W o c) (learn p es (zero_w R rO) o c).
  Definition additive_stmt := forall p es W1 W2 o c,
    learn (with_lam R p rO) es (wadd R radd W1 W2) o c =
    radd (learn (with_lam R p rO) es W1 o c) (learn (with_lam R p rO) es W2 o c).

  (** proportional to lambda when starting from zero *)
  Definition proportional_stmt := forall p k es o c,
    learn (with_lam R p (rmul k (lam p))) es (zero_w R rO) o c = rmul k (learn p es (zero_w R rO) o c).

  (** beta2 = 0 leaves rows of absent outcomes, alpha_c = 0 leaves column c untouched *)
  Definition beta2_zero_stmt := forall p es W o,
    beta2 p = rO -> Forall (fun e => mem_z o (snd e) = false) es -> forall c, learn p es W o c = W o c.
  Definition alpha_zero_stmt := forall p es W c,
    alpha p c = rO -> forall o, learn p es W o c = W o c.
End Statements.

Theorem C13_row_locality : forall R rO rI radd rmul rsub ropp,
  ring_theory rO rI radd rmul rsub ropp (@eq R) -> row_locality_stmt R rO rI radd rmul rsub.
Proof. exact row_locality. Qed.
Print Assumptions C13_row_locality.

Theorem C13_equivariance : forall R rO rI radd rmul rsub ropp,
  ring_theory rO rI radd rmul rsub ropp (@eq R) -> equivariance_stmt R rO rI radd rmul rsub.
Proof. exact equivariance. Qed.
Print Assumptions C13_equivariance.

Theorem C13_cue_order : forall R rO rI radd rmul rsub ropp,
  ring_theory rO rI radd rmul rsub ropp (@eq R) -> cue_order_stmt R rO rI radd rmul rsub.
Proof. exact cue_order. Qed.
Print Assumptions C13_cue_order.

Theorem C13_affine_in_W0 : forall R rO rI radd rmul rsub ropp,
  ring_theory rO rI radd rmul rsub ropp (@eq R) -> affine_stmt R rO rI radd rmul rsub.
Proof. exact affine_in_W0. Qed.
Print Assumptions C13_affine_in_W0.

Theorem C13_learn0_additive : forall R rO rI radd rmul rsub ropp,
  ring_theory rO rI radd rmul rsub ropp (@eq R) -> additive_stmt R rO rI radd rmul rsub.
Proof. exact learn0_additive. Qed.
Print Assumptions C13_learn0_additive.

Theorem C13_proportional_to_lambda : forall R rO rI radd rmul rsub ropp,
  ring_theory rO rI radd rmul rsub ropp (@eq R) -> proportional_stmt R rO rI radd rmul rsub.
Proof. exact proportional_to_lambda. Qed.
Print Assumptions C13_proportional_to_lambda.

Theorem C13_beta2_zero_absent_rows_fixed : forall R rO rI radd rmul rsub ropp,
  ring_theory rO rI radd rmul rsub ropp (@eq R) -> beta2_zero_stmt R rO rI radd rmul rsub.
Proof. exact beta2_zero_absent_rows_fixed. Qed.
Print Assumptions C13_beta2_zero_absent_rows_fixed.

Theorem C13_alpha_zero_column_fixed : forall R rO rI radd rmul rsub ropp,
  ring_theory rO rI radd rmul rsub ropp (@eq R) -> alpha_zero_stmt R rO rI radd rmul rsub.
Proof. exact alpha_zero_column_fixed. Qed.
Print Assumptions C13_alpha_zero_column_fixed.
