(** C04 - events are chunked completely and in order, and chunking terminates. *)
From Coq Require Import ZArith List Bool Arith Permutation.
From PV Require Import Bytes BinFmt Proto ProtoProofs.
Import ListNotations.
Open Scope nat_scope.

(** what conversion job k reports for a file of n events (after the duplicate
    policy succeeded): full chunk, partially filled last chunk (StopIteration),
    or nothing *)
Theorem C04_job_result : forall es es' per po k,
  prep_all po es = Some es' -> 1 <= per ->
  job_result es per po k = res_spec (length es) per k.
Proof. exact job_result_spec. Qed.
Print Assumptions C04_job_result.

(** chunk k holds exactly events k*per .. (k+1)*per-1 and is absent exactly when
    that range is empty *)
Theorem C04_job_file : forall es es' per po k,
  prep_all po es = Some es' -> 1 <= per ->
  let w := firstn per (skipn (k * per) es') in
  job_file es per po k = if Nat.eqb (length w) 0 then None else Some (encode_n (Z.of_nat (length w)) w).
Proof. exact job_file_spec. Qed.
Print Assumptions C04_job_file.

(** the chunks taken in numeric order concatenate to the event list *)
Theorem C04_chunks_concat : forall (es : list event) per m,
  length es <= m * per ->
  concat (map (fun k => firstn per (skipn (k * per) es)) (seq 0 m)) = es.
Proof. exact chunks_concat. Qed.
Print Assumptions C04_chunks_concat.

(** for EVERY order in which the jobs are submitted, finish and are delivered
    (any number of worker processes, any per-job delay): when the call returns
    it reports exactly n events, no error, and every non-empty chunk was written *)
Theorem C04_reports_all_events : forall n per B sched,
  1 <= per -> 1 <= B ->
  let s := prun repaired (res_spec n per) B sched pinit in
  pfinished s = true -> total s = n /\ errors s = [] /\ n <= next s * per.
Proof. exact proto_reports_all_events. Qed.
Print Assumptions C04_reports_all_events.

(** ... and the call terminates: at most n/per + 4*n_jobs jobs are ever submitted,
    and while it has not returned some step (a submission, the delivery of a
    result) is enabled and decreases a measure - in particular when n is an exact
    multiple of the chunk size *)
Theorem C04_conversion_terminates : forall n per B sched,
  1 <= per -> 1 <= B ->
  let res := res_spec n per in
  let s := prun repaired res B sched pinit in
  next s <= n / per + B /\
  (pfinished s = false -> exists a, mu B (n / per) (pstep repaired res B s a) < mu B (n / per) s).
Proof. exact proto_conversion_terminates. Qed.
Print Assumptions C04_conversion_terminates.

(** the same for any jobs (errors included) as long as from some index on every
    job closes the pool: bounded work and progress, for every schedule *)
Theorem C04_protocol_terminates : forall (res : nat -> jres) (B : nat), 1 <= B ->
  forall K, (forall k, K <= k -> closes repaired (res k) = true) ->
  forall sched,
  let s := prun repaired res B sched pinit in
  effective res B K sched pinit <= 2 * (m0 B K + B) + 1 /\
  next s <= K + B /\
  (pfinished s = false -> exists a, mu B K (pstep repaired res B s a) < mu B K s).
Proof. exact proto_terminates. Qed.
Print Assumptions C04_protocol_terminates.

(** int(str(i)) = i, and sorting the chunk names by the parsed integer restores
    the order whatever order the directory listing has; sorting them as strings
    does not, from 11 chunks on *)
Theorem C04_decimal_roundtrip : forall n, undigits (digits n) = n.
Proof. exact decimal_roundtrip. Qed.
Print Assumptions C04_decimal_roundtrip.

Theorem C04_numeric_sort_restores_order : forall m names,
  Permutation names (map digits (seq 0 m)) -> numeric_sort names = map digits (seq 0 m).
Proof. exact numeric_sort_restores_order. Qed.
Print Assumptions C04_numeric_sort_restores_order.

Theorem C04_lexicographic_sort_refuted :
  exists m, lexicographic_sort (map digits (seq 0 m)) <> map digits (seq 0 m).
Proof. exact lexicographic_sort_refuted. Qed.
Print Assumptions C04_lexicographic_sort_refuted.

(** the logic before the repair (finding F1): with n an exact multiple of the
    chunk size - or n = 0 - the submit loop is never left, for every schedule *)
Theorem C04_exact_multiple_hangs : forall q per B sched, 1 <= per ->
  loop_done (prun unrepaired (res_spec (q * per) per) B sched pinit) = false.
Proof. exact exact_multiple_never_returns. Qed.
Print Assumptions C04_exact_multiple_hangs.

Theorem C04_exact_multiple_hangs_refuted :
  exists n per, 2 <= per /\ n mod per = 0 /\
    forall B sched, loop_done (prun unrepaired (res_spec n per) B sched pinit) = false.
Proof. exact exact_multiple_never_returns_refuted. Qed.
Print Assumptions C04_exact_multiple_hangs_refuted.

(** non-vacuity: a concrete run with the last job delivered first *)
Example C04_run_finishes :
  let s := prun repaired (res_spec 4 2) 4
                [Submit; Submit; Submit; Submit; Process 2; Process 0; Process 3; Submit; Process 1] pinit in
  pfinished s = true /\ total s = 4.
Proof. vm_compute. split; reflexivity. Qed.
