(** C11 - counting is exact and independent of the number of processes. *)
From Coq Require Import ZArith List Bool Permutation.
From PV Require Import TextFmt Count CountProofs.
Import ListNotations.
Open Scope Z_scope.

(** for every number of processes n >= 1 (also more than there are lines) the slices
    [islice(l, k, None, n)], k = 0 .. n-1, together are a permutation of [l] *)
Theorem C11_strided_slices_partition : forall (A : Type) (l : list A) n,
  (1 <= n)%nat -> Permutation (concat (strided_slices l n)) l.
Proof. exact @strided_slices_partition. Qed.
Print Assumptions C11_strided_slices_partition.

(** a process whose start lies behind the last line gets the empty slice *)
Theorem C11_slice_beyond_end : forall (A : Type) (l : list A) k n,
  (length l <= k)%nat -> islice l k n = [].
Proof. exact @islice_beyond. Qed.
Print Assumptions C11_slice_beyond_end.

(** [cues_outcomes] with n processes returns the number of events and the cue and outcome
    frequencies of the frequency-expanded file (every key once, no zero counts), and raises
    exactly when reading the file sequentially raises *)
Theorem C11_cues_outcomes : forall text n,
  (1 <= n)%nat ->
  match parse_file text, cues_outcomes text n with
  | Some evs, Some (n_events, cues, outcomes) =>
    n_events = Z.of_nat (length evs) /\
    (forall t, lookup cues t = Z.of_nat (cue_count evs t)) /\
    (forall t, lookup outcomes t = Z.of_nat (outcome_count evs t)) /\
    NoDup (keys cues) /\ NoDup (keys outcomes) /\
    positive_counts cues /\ positive_counts outcomes
  | None, None => True
  | _, _ => False
  end.
Proof. exact cues_outcomes_exact. Qed.
Print Assumptions C11_cues_outcomes.

Theorem C11_cues_outcomes_n_jobs_irrelevant : forall text n m,
  (1 <= n)%nat -> (1 <= m)%nat ->
  match cues_outcomes text n, cues_outcomes text m with
  | Some (ne, cc, oc), Some (ne', cc', oc') =>
    ne = ne' /\ (forall t, lookup cc t = lookup cc' t) /\ (forall t, lookup oc t = lookup oc' t)
  | None, None => True
  | _, _ => False
  end.
Proof. exact cues_outcomes_n_jobs_irrelevant. Qed.
Print Assumptions C11_cues_outcomes_n_jobs_irrelevant.

(** [words_symbols] with n processes returns the frequencies of the words of the file (split on
    white space, punctuation stripped, optionally lower-cased, empty words dropped) and of their
    characters, for any white-space predicate and lower-casing table *)
Theorem C11_words_symbols : forall (is_space : Z -> bool) (lower : Z -> list Z) lower_case text n,
  (1 <= n)%nat ->
  let r := words_symbols is_space lower text n lower_case in
  let ws := file_words is_space lower lower_case text in
  (NoDup (keys (fst r)) /\ positive_counts (fst r)) /\
  (forall w, lookup (fst r) w = Z.of_nat (count_occ str_eq_dec ws w)) /\
  (NoDup (keys (snd r)) /\ positive_counts (snd r)) /\
  (forall s, lookup (snd r) s = Z.of_nat (count_occ str_eq_dec (flat_map symbols_of ws) s)).
Proof. exact words_symbols_exact_unfolded. Qed.
Print Assumptions C11_words_symbols.

Theorem C11_words_symbols_n_jobs_irrelevant :
  forall (is_space : Z -> bool) (lower : Z -> list Z) lower_case text n m t,
  (1 <= n)%nat -> (1 <= m)%nat ->
  lookup (fst (words_symbols is_space lower text n lower_case)) t =
  lookup (fst (words_symbols is_space lower text m lower_case)) t /\
  lookup (snd (words_symbols is_space lower text n lower_case)) t =
  lookup (snd (words_symbols is_space lower text m lower_case)) t.
Proof. exact words_symbols_n_jobs_irrelevant. Qed.
Print Assumptions C11_words_symbols_n_jobs_irrelevant.

(** non-vacuity.  File: header, "a_b<TAB>x<TAB>2", "a<TAB>y", "b<TAB>x<TAB>0" *)
Definition ex_file : str :=
  [104; 10; 97; 95; 98; 9; 120; 9; 50; 10; 97; 9; 121; 10; 98; 9; 120; 9; 48; 10].

Example C11_ex_counts :
  cues_outcomes ex_file 1 = Some (3, [([97], 3); ([98], 2)], [([120], 2); ([121], 1)]) /\
  cues_outcomes ex_file 2 = Some (3, [([97], 3); ([98], 2)], [([120], 2); ([121], 1)]) /\
  cues_outcomes ex_file 7 = Some (3, [([97], 3); ([98], 2)], [([120], 2); ([121], 1)]) /\
  (* header only and completely empty file *)
  cues_outcomes [104; 10] 3 = Some (0, [], []) /\ cues_outcomes [] 3 = Some (0, [], []) /\
  (* a malformed line (one field) makes every process count raise *)
  cues_outcomes (ex_file ++ [97; 10]) 1 = None /\ cues_outcomes (ex_file ++ [97; 10]) 5 = None.
Proof. vm_compute. repeat split. Qed.

Example C11_ex_slices :
  strided_slices [1; 2; 3; 4; 5] 3 = [[1; 4]; [2; 5]; [3]] /\
  strided_slices [1; 2] 4 = [[1]; [2]; []; []].
Proof. vm_compute. split; reflexivity. Qed.

(** "Ab, ab.  (c)" / "" / "ab" with space = {32, 10}, lower A -> a *)
Example C11_ex_words :
  let sp := fun c => (c =? 32) || (c =? 10) in
  let lo := fun c => if c =? 65 then [97] else [c] in
  let text := [65; 98; 44; 32; 97; 98; 46; 32; 32; 40; 99; 41; 10; 10; 97; 98] in
  words_symbols sp lo text 3 true = ([([97; 98], 3); ([99], 1)], [([97], 3); ([98], 3); ([99], 1)]) /\
  words_symbols sp lo text 1 false =
    ([([65; 98], 1); ([97; 98], 2); ([99], 1)], [([65], 1); ([98], 3); ([97], 2); ([99], 1)]).
Proof. vm_compute. split; reflexivity. Qed.
