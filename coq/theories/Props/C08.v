(** C08 - the Widrow-Hoff learners follow the delta rule W += eta*(t - W x) x^T in all vector flavours.
    [r2r_learn], [r2b_learn], [b2r_learn] (WHSpec.v) are the rule; the theorems say that the loop-faithful
    kernel models on flat 64-bit indexed memory compute it on exactly the trained rows, for every
    commutative ring, every table, every eta, every chunking of the row range and every interleaving. *)
From Coq Require Import ZArith List Bool Ring.
From PV Require Import Bytes BinFmt Store RWSpec RWExec RWProofs Sched QueueProofs QueueTrace WHSpec WHExec RowWise WHMain WHWorkers.
Import ListNotations.

Theorem C08_r2r :
  forall (R : Type) (rO rI : R) (radd rmul rsub : R -> R -> R) (ropp : R -> R),
    ring_theory rO rI radd rmul rsub ropp (@eq R) ->
  forall eta cv ov n rows es m r k,
    (0 <= n < two32)%Z -> NoDup rows -> Forall oko32 rows -> oko32 r -> (0 <= k < n)%Z ->
    kget R rO n (r2r_events R rO radd rmul rsub (kstore R) (kget R rO n) (kset R n) eta cv ov (zrange 0 n) rows es m) r k =
    if mem_z r rows
    then r2r_learn R rO radd rmul rsub eta cv ov (zrange 0 n) es (kget R rO n m) r k
    else kget R rO n m r k.
Proof. exact r2r_kernel_refines. Qed.
Print Assumptions C08_r2r.

Theorem C08_r2b :
  forall (R : Type) (rO rI : R) (radd rmul rsub : R -> R -> R) (ropp : R -> R),
    ring_theory rO rI radd rmul rsub ropp (@eq R) ->
  forall b1 b2 la cv n rows es m r k,
    (0 <= n < two32)%Z -> NoDup rows -> Forall oko32 rows -> oko32 r -> (0 <= k < n)%Z ->
    kget R rO n (r2b_events R rO radd rmul rsub (kstore R) (kget R rO n) (kset R n) b1 b2 la cv (zrange 0 n) rows es m) r k =
    if mem_z r rows
    then r2b_learn R rO radd rmul rsub b1 b2 la cv (zrange 0 n) es (kget R rO n m) r k
    else kget R rO n m r k.
Proof. exact r2b_kernel_refines. Qed.
Print Assumptions C08_r2b.

Theorem C08_b2r :
  forall (R : Type) (rO rI : R) (radd rmul rsub : R -> R -> R) (ropp : R -> R),
    ring_theory rO rI radd rmul rsub ropp (@eq R) ->
  forall eta ov n rows es m d c,
    (0 <= n < two32)%Z -> NoDup rows -> Forall oko32 rows -> cues_ok (okc_n n) es ->
    oko32 d -> okc_n n c ->
    kget R rO n (b2r_events R rO rI radd rmul rsub (kstore R) (kget R rO n) (kset R n) eta ov rows es m) d c =
    if mem_z d rows
    then b2r_learn R rO rI radd rmul rsub eta ov es (kget R rO n m) d c
    else kget R rO n m d c.
Proof. exact b2r_kernel_refines. Qed.
Print Assumptions C08_b2r.

(** independence of thread count and chunk size: ANY partition of the rows into
    parts and ANY interleaving of the parts' atomic row updates *)
Theorem C08_r2r_any_schedule :
  forall (R : Type) (rO rI : R) (radd rmul rsub : R -> R -> R) (ropp : R -> R),
    ring_theory rO rI radd rmul rsub ropp (@eq R) ->
  forall eta cv ov n parts es tr m r k,
    (0 <= n < two32)%Z -> NoDup (concat parts) -> Forall oko32 (concat parts) ->
    interleaving (map (fun part => gitem_actions part es) parts) tr ->
    oko32 r -> (0 <= k < n)%Z ->
    kget R rO n (run_tr (kstore R) event
                   (fun e s d => vx_row R rO radd rmul (kstore R) (kget R rO n) (kset R n) (zrange 0 n)
                                        (summed R rO radd cv (fst e))
                                        (fun d a => rmul eta (rsub (summed R rO radd ov (snd e) d) a)) s d)
                   tr m) r k =
    if mem_z r (concat parts)
    then r2r_learn R rO radd rmul rsub eta cv ov (zrange 0 n) es (kget R rO n m) r k
    else kget R rO n m r k.
Proof. exact r2r_kernel_any_schedule. Qed.
Print Assumptions C08_r2r_any_schedule.

Theorem C08_r2b_any_schedule :
  forall (R : Type) (rO rI : R) (radd rmul rsub : R -> R -> R) (ropp : R -> R),
    ring_theory rO rI radd rmul rsub ropp (@eq R) ->
  forall b1 b2 la cv n parts es tr m r k,
    (0 <= n < two32)%Z -> NoDup (concat parts) -> Forall oko32 (concat parts) ->
    interleaving (map (fun part => gitem_actions part es) parts) tr ->
    oko32 r -> (0 <= k < n)%Z ->
    kget R rO n (run_tr (kstore R) event
                   (fun e s d => vx_row R rO radd rmul (kstore R) (kget R rO n) (kset R n) (zrange 0 n)
                                        (summed R rO radd cv (fst e))
                                        (fun o a => if mem_z o (snd e) then rmul b1 (rsub la a)
                                                    else rmul b2 (rsub rO a)) s d)
                   tr m) r k =
    if mem_z r (concat parts)
    then r2b_learn R rO radd rmul rsub b1 b2 la cv (zrange 0 n) es (kget R rO n m) r k
    else kget R rO n m r k.
Proof. exact r2b_kernel_any_schedule. Qed.
Print Assumptions C08_r2b_any_schedule.

Theorem C08_b2r_any_schedule :
  forall (R : Type) (rO rI : R) (radd rmul rsub : R -> R -> R) (ropp : R -> R),
    ring_theory rO rI radd rmul rsub ropp (@eq R) ->
  forall eta ov n parts es tr m d c,
    (0 <= n < two32)%Z -> NoDup (concat parts) -> Forall oko32 (concat parts) -> cues_ok (okc_n n) es ->
    interleaving (map (fun part => gitem_actions part es) parts) tr ->
    oko32 d -> okc_n n c ->
    kget R rO n (run_tr (kstore R) event
                   (fun e s d => bx_row R rO rI radd rmul (kstore R) (kget R rO n) (kset R n)
                                        (fun d a => rmul eta (rsub (tvec R rO radd ov (snd e) d) a)) (fst e) s d)
                   tr m) d c =
    if mem_z d (concat parts)
    then b2r_learn R rO rI radd rmul rsub eta ov es (kget R rO n m) d c
    else kget R rO n m d c.
Proof. exact b2r_kernel_any_schedule. Qed.
Print Assumptions C08_b2r_any_schedule.

(** end to end with the worker threads of the parallel region (QueueTrace: dynamic schedule, an idle thread
    takes the next part atomically): every schedule that ends with all threads done *)
Theorem C08_r2r_workers_end_to_end :
  forall (R : Type) (rO rI : R) (radd rmul rsub : R -> R -> R) (ropp : R -> R),
    ring_theory rO rI radd rmul rsub ropp (@eq R) ->
  forall eta cv ov n parts es n_threads sched m r k,
    (0 <= n < two32)%Z -> NoDup (concat parts) -> Forall oko32 (concat parts) ->
    (1 <= n_threads)%nat ->
    all_done (qs (wrun (map (fun part => gitem_actions part es) parts) sched
                        (winit (seq 0 (length parts)) n_threads))) = true ->
    oko32 r -> (0 <= k < n)%Z ->
    kget R rO n (run_tr (kstore R) event
                   (fun e s d => vx_row R rO radd rmul (kstore R) (kget R rO n) (kset R n) (zrange 0 n)
                                        (summed R rO radd cv (fst e))
                                        (fun d a => rmul eta (rsub (summed R rO radd ov (snd e) d) a)) s d)
                   (wtrace (wrun (map (fun part => gitem_actions part es) parts) sched
                                 (winit (seq 0 (length parts)) n_threads))) m) r k =
    if mem_z r (concat parts)
    then r2r_learn R rO radd rmul rsub eta cv ov (zrange 0 n) es (kget R rO n m) r k
    else kget R rO n m r k.
Proof. exact r2r_workers_any_schedule. Qed.
Print Assumptions C08_r2r_workers_end_to_end.

Theorem C08_r2b_workers_end_to_end :
  forall (R : Type) (rO rI : R) (radd rmul rsub : R -> R -> R) (ropp : R -> R),
    ring_theory rO rI radd rmul rsub ropp (@eq R) ->
  forall b1 b2 la cv n parts es n_threads sched m r k,
    (0 <= n < two32)%Z -> NoDup (concat parts) -> Forall oko32 (concat parts) ->
    (1 <= n_threads)%nat ->
    all_done (qs (wrun (map (fun part => gitem_actions part es) parts) sched
                        (winit (seq 0 (length parts)) n_threads))) = true ->
    oko32 r -> (0 <= k < n)%Z ->
    kget R rO n (run_tr (kstore R) event
                   (fun e s d => vx_row R rO radd rmul (kstore R) (kget R rO n) (kset R n) (zrange 0 n)
                                        (summed R rO radd cv (fst e))
                                        (fun o a => if mem_z o (snd e) then rmul b1 (rsub la a)
                                                    else rmul b2 (rsub rO a)) s d)
                   (wtrace (wrun (map (fun part => gitem_actions part es) parts) sched
                                 (winit (seq 0 (length parts)) n_threads))) m) r k =
    if mem_z r (concat parts)
    then r2b_learn R rO radd rmul rsub b1 b2 la cv (zrange 0 n) es (kget R rO n m) r k
    else kget R rO n m r k.
Proof. exact r2b_workers_any_schedule. Qed.
Print Assumptions C08_r2b_workers_end_to_end.

Theorem C08_b2r_workers_end_to_end :
  forall (R : Type) (rO rI : R) (radd rmul rsub : R -> R -> R) (ropp : R -> R),
    ring_theory rO rI radd rmul rsub ropp (@eq R) ->
  forall eta ov n parts es n_threads sched m d c,
    (0 <= n < two32)%Z -> NoDup (concat parts) -> Forall oko32 (concat parts) -> cues_ok (okc_n n) es ->
    (1 <= n_threads)%nat ->
    all_done (qs (wrun (map (fun part => gitem_actions part es) parts) sched
                        (winit (seq 0 (length parts)) n_threads))) = true ->
    oko32 d -> okc_n n c ->
    kget R rO n (run_tr (kstore R) event
                   (fun e s d => bx_row R rO rI radd rmul (kstore R) (kget R rO n) (kset R n)
                                        (fun d a => rmul eta (rsub (tvec R rO radd ov (snd e) d) a)) (fst e) s d)
                   (wtrace (wrun (map (fun part => gitem_actions part es) parts) sched
                                 (winit (seq 0 (length parts)) n_threads))) m) d c =
    if mem_z d (concat parts)
    then b2r_learn R rO rI radd rmul rsub eta ov es (kget R rO n m) d c
    else kget R rO n m d c.
Proof. exact b2r_workers_any_schedule. Qed.
Print Assumptions C08_b2r_workers_end_to_end.

(** [r2r_learn] IS the delta rule: one event moves row d by eta*(t_d - (W x)_d) * x *)
Theorem C08_delta_rule :
  forall (R : Type) (rO : R) (radd rmul rsub : R -> R -> R) eta cv ov cdims e (W : wfun R) d k,
    r2r_step R rO radd rmul rsub eta cv ov cdims e W d k =
    radd (W d k)
         (rmul (rmul eta (rsub (tvec R rO radd ov (snd e) d) (dotv R rO radd rmul cdims (W d) (xvec R rO radd cv (fst e)))))
               (xvec R rO radd cv (fst e) k)).
Proof. reflexivity. Qed.
Print Assumptions C08_delta_rule.
