(** C09 - event-file creation follows the documented windowing model.
    [Preproc.create_event_file] is the loop-faithful model of the code (tied to /repo by the
    correspondence X-window), [WindowSpec.spec_create] the documented model.  The oracles
    [lower], [is_space], [allowed] (CPython's str.lower, str.isspace, the allowed_symbols
    filter) are universally quantified. *)
From Coq Require Import ZArith List Bool.
From PV Require Import WindowSpec Preproc PreprocProofs.
Import ListNotations.
Open Scope Z_scope.

(** for every corpus, every option combination with non-negative window sizes, every oracle:
    the state machine writes exactly the file of the documented model (for
    remove_duplicates=True both sides use the same deterministic first-occurrence order;
    the real code's set order is compared token-wise by the harness) *)
Theorem C09_state_machine_eq_spec : forall lower is_space allowed (o : opts),
  match o_ev o with
  | EvConsecutive n => 0 <= n
  | EvW2W before after => 0 <= before /\ 0 <= after
  | EvLine => True
  end ->
  forall target_exists corpus,
  create_event_file lower is_space allowed o target_exists corpus =
  spec_create lower is_space allowed o target_exists corpus.
Proof. exact create_eq_spec. Qed.
Print Assumptions C09_state_machine_eq_spec.

(** in particular the IndexError branches of the loop are unreachable *)
Theorem C09_lines_eq_spec : forall lower is_space allowed (o : opts), opts_ok o -> forall corpus,
  exec_lines lower is_space allowed o corpus = Some (spec_lines lower is_space allowed o corpus).
Proof. exact exec_eq_spec. Qed.
Print Assumptions C09_lines_eq_spec.

(** the loops of gen_occurrences produce the documented windows *)
Theorem C09_loops_eq_windows : forall (o : opts) words, opts_ok o ->
  gen_occurrences o words =
  map (fun p => (join US (fst p), join US (snd p))) (spec_occurrences o words).
Proof. exact gen_occurrences_refines. Qed.
Print Assumptions C09_loops_eq_windows.

(** a line that consists of a marker separates the events completely *)
Theorem C09_no_context_bleeding : forall lower is_space allowed (o : opts) d1 m d2,
  opts_ok o -> o_ctx o = CtxDocument ->
  marker_at (strip is_space m) = true /\ length (strip is_space m) = MLEN ->
  exists l1 l2, exec_lines lower is_space allowed o d1 = Some l1 /\
                exec_lines lower is_space allowed o d2 = Some l2 /\
                exec_lines lower is_space allowed o (d1 ++ [m] ++ d2) = Some (l1 ++ l2).
Proof. exact exec_no_bleeding. Qed.
Print Assumptions C09_no_context_bleeding.

(** ... and every written line stems from one occurrence all of whose words lie in ONE document *)
Theorem C09_window_within_one_document : forall lower is_space allowed (o : opts) corpus line,
  opts_ok o -> o_ctx o = CtxDocument ->
  (exists L, exec_lines lower is_space allowed o corpus = Some L /\ In line L) ->
  exists d cues outcomes,
    In d (documents lower is_space allowed (o_lower o) corpus) /\
    In (cues, outcomes) (spec_occurrences o d) /\ incl (cues ++ outcomes) d /\
    In line (spec_line o (cues, outcomes)).
Proof. exact exec_lines_within_document. Qed.
Print Assumptions C09_window_within_one_document.

(** the windows of consecutive words: the leading partial runs, every full run of length
    L = min(n,|ws|) exactly once, the trailing partial runs - also when n > |ws| *)
Theorem C09_windows_consecutive_char : forall n (ws : list str),
  let len := length ws in
  let L := Nat.min n len in
  (1 <= L)%nat ->
  windows_consecutive n ws =
       map (fun k => firstn k ws) (seq 1 (L - 1))
    ++ map (fun i => firstn L (skipn i ws)) (seq 0 (len - L + 1))
    ++ map (fun i => skipn i ws) (seq (len - L + 1) (L - 1)).
Proof. exact windows_consecutive_char. Qed.
Print Assumptions C09_windows_consecutive_char.

(** the n-grams are exactly the |s|-n+1 contiguous substrings of length n, left to right *)
Theorem C09_ngrams_char : forall n s,
  ngrams n s = map (fun i => firstn n (skipn i s)) (seq 0 (length s + 1 - n)).
Proof. exact ngrams_char_eq. Qed.
Print Assumptions C09_ngrams_char.

Theorem C09_ngrams_in : forall n s g, (1 <= n)%nat ->
  (In g (ngrams n s) <-> exists a b, s = a ++ g ++ b /\ length g = n).
Proof. exact ngrams_in. Qed.
Print Assumptions C09_ngrams_in.

Theorem C09_ngrams_none : forall n s, (length s < n)%nat -> ngrams n s = [].
Proof. exact ngrams_none. Qed.
Print Assumptions C09_ngrams_none.

(** the index loop of ngrams_to_word computes them *)
Theorem C09_ngrams_exec : forall n s, 0 <= n -> ngrams_exec n s = ngrams (Z.to_nat n) s.
Proof. exact ngrams_exec_eq. Qed.
Print Assumptions C09_ngrams_exec.

(** two allowed_symbols arguments (a regex class and a callable, say) that agree on the
    characters of the text (after lower-casing, if requested) give the same file *)
Theorem C09_callable_eq_regex : forall lower is_space (allowed1 allowed2 : Z -> bool) (o : opts)
                                       target_exists corpus,
  opts_ok o ->
  (forall l, In l corpus ->
     forall c, In c (if o_lower o then lower_str lower l else l) -> allowed1 c = allowed2 c) ->
  create_event_file lower is_space allowed1 o target_exists corpus =
  create_event_file lower is_space allowed2 o target_exists corpus.
Proof. exact create_ext. Qed.
Print Assumptions C09_callable_eq_regex.

(** an existing target: error, nothing written; a fresh target: header + events, no crash *)
Theorem C09_never_overwrites : forall lower is_space allowed (o : opts) corpus,
  create_event_file lower is_space allowed o true corpus = ROSError.
Proof. exact never_overwrites. Qed.
Print Assumptions C09_never_overwrites.

Theorem C09_fresh_target_written : forall lower is_space allowed (o : opts) corpus, opts_ok o ->
  create_event_file lower is_space allowed o false corpus =
  RFile (header_line :: spec_lines lower is_space allowed o corpus).
Proof. exact fresh_target_written. Qed.
Print Assumptions C09_fresh_target_written.

(** context_structure='line' does not look for document markers: the reading "a marker ends a
    context also inside a line" is refuted by  a ---end.of.document--- b  (reported) *)
Theorem C09_line_context_marker_not_a_boundary_refuted :
  exists corpus,
    exec_lines (fun c => [c]) ascii_space (fun _ => true) witness_opts corpus <>
    Some (flat_map (context_lines witness_opts)
                   (contexts_line_cut (fun c => [c]) ascii_space (fun _ => true) false corpus)).
Proof. exact line_context_marker_not_a_boundary_refuted. Qed.
Print Assumptions C09_line_context_marker_not_a_boundary_refuted.

(** * Non-vacuity *)
Definition ex_lower (c : Z) : list Z :=
  if (65 <=? c) && (c <=? 90) then [c + 32] else if c =? 304 then [105; 775] else [c].
Definition ex_allowed (c : Z) : bool := ((97 <=? c) && (c <=? 122)) || ((65 <=? c) && (c <=? 90)) || (c =? 775).
Definition ex_opts : opts :=
  {| o_ctx := CtxDocument; o_ev := EvConsecutive 2; o_cue := CueW2W; o_lower := true; o_dedup := false |}.
(** "A b_c ---END.OF.DOCUMENT--- d ---endXofYdocument------end.of.document---"; "e"; "---End.of.Document--- f" *)
Definition ex_corpus : list str :=
  [ [65;32;98;95;99;32] ++ marker_up ++ [32;100;32;45;45;45;101;110;100;88;111;102;89;100;111;99;117;109;101;110;116;45;45;45] ++ marker_lo;
    [101];
    [45;45;45;69;110;100;46;111;102;46;68;111;99;117;109;101;110;116;45;45;45;32;102] ].

(** three markers on the first line (one with X/Y for the dots, two glued), an empty context
    between the glued ones, a context running over the line break ("e" joins what follows),
    the mixed-case non-marker is an ordinary word that the filter cuts into end / of / document *)
Example C09_example_run :
  create_event_file ex_lower ascii_space ex_allowed ex_opts false ex_corpus =
  RFile [ header_line;
          [97;9]; [97;95;98;9]; [98;95;99;9]; [99;9];                           (* a | a_b | b_c | c *)
          [100;9];                                                               (* d *)
          [101;9]; [101;95;101;110;100;9]; [101;110;100;95;111;102;9];           (* e | e_end | end_of *)
          [111;102;95;100;111;99;117;109;101;110;116;9];                         (* of_document *)
          [100;111;99;117;109;101;110;116;95;102;9]; [102;9] ].                 (* document_f | f *)
Proof. vm_compute. reflexivity. Qed.

Example C09_example_opts_ok : opts_ok ex_opts.
Proof. vm_compute. discriminate. Qed.

Example C09_example_marker_line :
  marker_at (strip ascii_space (32 :: marker_up ++ [9])) = true /\
  length (strip ascii_space (32 :: marker_up ++ [9])) = MLEN.
Proof. split; vm_compute; reflexivity. Qed.

Example C09_example_windows :
  windows_consecutive 3 [[1];[2];[3];[4]] = [[[1]]; [[1];[2]]; [[1];[2];[3]]; [[2];[3];[4]]; [[3];[4]]; [[4]]]
  /\ windows_consecutive 9 [[1];[2]] = [[[1]]; [[1];[2]]; [[2]]].
Proof. split; vm_compute; reflexivity. Qed.

Example C09_example_ngrams : ngrams 3 [35;97;98;35] = [[35;97;98];[97;98;35]] /\ ngrams 3 [35;35] = [].
Proof. split; vm_compute; reflexivity. Qed.

(** lower-casing U+0130 lengthens the word; the callable-style and the table-style filter agree on the text *)
Example C09_example_lower_changes_length :
  spec_lines ex_lower ascii_space ex_allowed
             {| o_ctx := CtxLine; o_ev := EvLine; o_cue := CueBigrams; o_lower := true; o_dedup := true |}
             [[304; 120]] = [[35;105;95;105;775;95;775;120;95;120;35;9;105;775;120]].
Proof. vm_compute. reflexivity. Qed.
