(** C05 - a failed training run raises in bounded time and never returns weights. *)
From Coq Require Import List Bool Arith ZArith.
From PV Require Import BinFmt Store RWSpec RWExec RWProofs RWMain Sched QueueProofs QueueTrace QueueFaults QueueNowait QueueNowaitProofs Proto ProtoProofs Faults FaultsProofs.
Import ListNotations.
Open Scope nat_scope.

(** exception propagation through the phases of a call: if any phase fails the
    call raises at the first failing phase - it never returns *)
Theorem C05_failed_phase_raises : forall phases,
  In false phases -> exists k, run_phases 0 phases = Raise k /\ nth k phases true = false /\
                               forall j, j < k -> nth j phases true = true.
Proof. exact failed_phase_raises. Qed.
Print Assumptions C05_failed_phase_raises.

Theorem C05_returns_only_if_all_phases_ok : forall i phases,
  run_phases i phases = Return <-> forallb (fun b => b) phases = true.
Proof. exact run_phases_return. Qed.
Print Assumptions C05_returns_only_if_all_phases_ok.

(** chunk conversion with a failing job (a duplicate under the default policy, a
    full disk, ...) at ANY chunk position, for EVERY order of submissions and
    deliveries: when the call is over it raises ... *)
Theorem C05_conversion_fault_raises : forall (res : nat -> jres) (B : nat), 1 <= B ->
  forall k0, res k0 = JError ->
  (forall k, k < k0 -> (exists n, res k = JReturn (S n)) \/ res k = JError) ->
  forall sched,
  let s := prun repaired res B sched pinit in
  pfinished s = true -> conversion_outcome s = Raise 2.
Proof. exact conversion_fault_raises. Qed.
Print Assumptions C05_conversion_fault_raises.

(** ... and it is over after a bounded number of steps: it never blocks *)
Theorem C05_conversion_fault_terminates : forall (res : nat -> jres) (B : nat), 1 <= B ->
  forall K, (forall k, K <= k -> closes repaired (res k) = true) ->
  forall sched,
  let s := prun repaired res B sched pinit in
  effective res B K sched pinit <= 2 * (m0 B K + B) + 1 /\
  next s <= K + B /\
  (pfinished s = false -> exists a, mu B K (pstep repaired res B s a) < mu B K s).
Proof. exact proto_terminates. Qed.
Print Assumptions C05_conversion_fault_terminates.

(** before the repair (finding F2) the error was raised inside the pool's result
    handler thread: nothing is delivered any more and the call never finishes *)
Theorem C05_error_in_handler_blocks_refuted :
  exists res B prefix, forall sched,
    pfinished (prun unrepaired res B (prefix ++ sched) pinit) = false.
Proof. exact error_in_handler_blocks_refuted. Qed.
Print Assumptions C05_error_in_handler_blocks_refuted.

(** method='threading': an exception in any worker thread is raised by the call *)
Theorem C05_thread_errors_raised : forall workers,
  (exists e, In (Some e) workers) <-> exists e, join_workers true workers = Some e.
Proof. exact thread_errors_raised. Qed.
Print Assumptions C05_thread_errors_raised.

(** the same operationally (QueueFaults.fstep: the worker threads of C02 when an atomic action may raise;
    the thread that meets the exception records it and ends, the others go on, the call raises the
    first recorded error after the join).  For every number of threads, every set of failing actions and
    EVERY schedule: when all threads have ended the call returns normally only if every action of every
    work item was performed and none of them raises ... *)
Theorem C05_threading_returns_only_if_no_failure :
  forall (A : Type) (seqs : list (list A)) (fails : nat -> nat -> bool) n sched, 1 <= n ->
  let s := frun seqs fails sched (finit (seq 0 (length seqs)) n) in
  f_all_done s = true -> call_raises s = None ->
  interleaving seqs (wtrace (ws s)) /\
  (forall i k, i < length seqs -> k < length (nth i seqs []) -> fails i k = false).
Proof. exact @returns_only_if_no_failure. Qed.
Print Assumptions C05_threading_returns_only_if_no_failure.

(** ... so a failure in any action of any work item makes the finished call raise ... *)
Theorem C05_threading_failure_raises :
  forall (A : Type) (seqs : list (list A)) (fails : nat -> nat -> bool) n sched i k, 1 <= n ->
  i < length seqs -> k < length (nth i seqs []) -> fails i k = true ->
  let s := frun seqs fails sched (finit (seq 0 (length seqs)) n) in
  f_all_done s = true -> exists j, call_raises s = Some j.
Proof. exact @failure_raises. Qed.
Print Assumptions C05_threading_failure_raises.

(** ... and the call never blocks: at most 5*items + 4*threads + (number of actions) steps change the
    state, and while a thread has neither left the loop nor died some live thread can make such a step *)
Theorem C05_threading_faults_terminate :
  forall (A : Type) (seqs : list (list A)) (fails : nat -> nat -> bool) items n sched, NoDup items ->
  let s := frun seqs fails sched (finit items n) in
  feffective seqs fails items n sched (finit items n) <= 5 * length items + 4 * n + QueueTrace.total seqs items /\
  (f_all_done s = false -> exists t, fphi seqs items n (fstep seqs fails s t) < fphi seqs items n s).
Proof. exact @fworker_terminates. Qed.
Print Assumptions C05_threading_faults_terminate.

(** non-vacuity: two threads, three items of two actions, the first action of item 1 raises: the thread
    that took item 1 dies, the other one finishes items 0 and 2, the call raises the error of item 1 *)
Example C05_threading_run_raises :
  let seqs := [[10; 11]; [20; 21]; [30; 31]] in
  let fails := fun i k => Nat.eqb i 1 && Nat.eqb k 0 in
  let s := frun seqs fails (concat (repeat [0; 1] 30)) (finit (seq 0 (length seqs)) 2) in
  f_all_done s = true /\ call_raises s = Some 1 /\ dead s = [1] /\
  map fst (wtrace (ws s)) = [0; 0; 2; 2] /\ finished (qs (ws s)) = [0; 2].
Proof. vm_compute. repeat split; reflexivity. Qed.

(** before the repair (finding F3) they were dropped and untrained weights returned *)
Theorem C05_thread_errors_swallowed_refuted :
  exists workers e, In (Some e) workers /\ join_workers false workers = None.
Proof. exact thread_errors_swallowed_refuted. Qed.
Print Assumptions C05_thread_errors_swallowed_refuted.

(** the pure-Python learner raises exactly when an event repeats a cue or an
    outcome under the default policy - there is no partial result *)
Theorem C05_dict_duplicate_raises :
  forall (R : Type) (rO rI : R) (radd rmul rsub : R -> R -> R) (ropp : R -> R),
    ring_theory rO rI radd rmul rsub ropp (@eq R) ->
  forall (p : params R) (es : list event),
    dict_run R rO radd rmul rsub p PNone es ([], ZZM.empty R) = None <-> prep_all PNone es = None.
Proof. exact dict_duplicate_raises. Qed.
Print Assumptions C05_dict_duplicate_raises.

(** non-vacuity: a failing middle chunk with its delivery reordered *)
Example C05_run_raises :
  let res := fun k => match k with 0 => JReturn 2 | 1 => JError | _ => JReturn 0 end in
  let s := prun repaired res 4 [Submit; Submit; Submit; Submit; Process 3; Process 2; Process 1; Process 0; Submit] pinit in
  pfinished s = true /\ conversion_outcome s = Raise 2.
Proof. vm_compute. split; reflexivity. Qed.

(** * The same three claims for the lock-free worker protocol (get_nowait until queue.Empty, QueueNowait.v) *)
Theorem C05_nowait_returns_only_if_no_failure :
  forall (A : Type) (seqs : list (list A)) (fails : nat -> nat -> bool) n sched, 1 <= n ->
  let s := nrun seqs fails sched (finit (seq 0 (length seqs)) n) in
  f_all_done s = true -> call_raises s = None ->
  interleaving seqs (wtrace (ws s)) /\
  (forall i k, i < length seqs -> k < length (nth i seqs []) -> fails i k = false).
Proof. exact @nowait_returns_only_if_no_failure. Qed.
Print Assumptions C05_nowait_returns_only_if_no_failure.

Theorem C05_nowait_failure_raises :
  forall (A : Type) (seqs : list (list A)) (fails : nat -> nat -> bool) n sched i k, 1 <= n ->
  i < length seqs -> k < length (nth i seqs []) -> fails i k = true ->
  let s := nrun seqs fails sched (finit (seq 0 (length seqs)) n) in
  f_all_done s = true -> exists j, call_raises s = Some j.
Proof. exact @nowait_failure_raises. Qed.
Print Assumptions C05_nowait_failure_raises.

Theorem C05_nowait_terminates :
  forall (A : Type) (seqs : list (list A)) (fails : nat -> nat -> bool) items n sched, NoDup items ->
  let s := nrun seqs fails sched (finit items n) in
  feffective seqs fails items n (expand seqs fails (finit items n) sched) (finit items n)
    <= 5 * length items + 4 * n + QueueTrace.total seqs items /\
  (f_all_done s = false -> exists t, fphi seqs items n (fstep seqs fails s t) < fphi seqs items n s).
Proof. exact @nowait_terminates. Qed.
Print Assumptions C05_nowait_terminates.
