(** C10 - event filtering is an order-preserving per-event map independent of parallelism. *)
From Coq Require Import ZArith List Bool Permutation.
From PV Require Import PyText Filter FilterProofs.
Import ListNotations.
Open Scope Z_scope.

(** Pool.imap with chunk size k: the chunk results concatenated in chunk order
    are the plain map, for every k >= 1 *)
Theorem C10_imap_chunked_eq_map : forall (A B : Type) (k : nat) (f : A -> B) (l : list A),
  (1 <= k)%nat -> imap_chunked k f l = map f l.
Proof. exact @imap_chunked_eq_map. Qed.
Print Assumptions C10_imap_chunked_eq_map.

(** ... and for every order in which the workers complete the tasks (hence for
    every number of workers and every assignment of chunks to workers) *)
Theorem C10_imap_pool_eq_map : forall (A B : Type) (k : nat) (f : A -> B) (l : list A) order,
  (1 <= k)%nat -> Permutation order (tasks k l) -> imap_pool k f l order = map f l.
Proof. exact @imap_pool_eq_map. Qed.
Print Assumptions C10_imap_pool_eq_map.

(** contrast: yielding in completion order (imap_unordered) does reorder *)
Theorem C10_imap_unordered_reorders_refuted :
  exists (k : nat) (l : list Z) (order : list (nat * list Z)),
    (1 <= k)%nat /\ Permutation order (tasks k l) /\
    imap_unordered (fun x => x) order <> map (fun x => x) l.
Proof. exact imap_unordered_reorders_refuted. Qed.
Print Assumptions C10_imap_unordered_reorders_refuted.

(** the output file is the header followed by the processed lines of exactly the
    events that keep a cue, in input order, each once - for every chunk size,
    completion order and rule pair *)
Theorem C10_filter_eq_filter_map : forall rc ro k order h body,
  (1 <= k)%nat -> Permutation order (tasks k body) ->
  (forall l, In l body -> line_ok l) ->
  filter_lines_pool rc ro k order (h :: body) = Some (h :: filter_map (job_opt rc ro) body).
Proof. exact filter_pool_eq_filter_map. Qed.
Print Assumptions C10_filter_eq_filter_map.

(** a line that does not have exactly two tab separated fields ends the call with ValueError *)
Theorem C10_malformed_line_raises : forall rc ro k order h body l,
  (1 <= k)%nat -> Permutation order (tasks k body) ->
  In l body -> parse_line l = None ->
  filter_lines_pool rc ro k order (h :: body) = None.
Proof. exact filter_pool_malformed_line. Qed.
Print Assumptions C10_malformed_line_raises.

(** the model the harness executes (pool, reverse completion order) is the sequential one *)
Theorem C10_parallel_eq_sequential : forall rc ro k text,
  (1 <= k)%nat -> filter_text_pool rc ro k text = filter_text rc ro text.
Proof. exact filter_text_pool_eq. Qed.
Print Assumptions C10_parallel_eq_sequential.

Theorem C10_dropped_iff_no_cue_left : forall rc ro e,
  job_event rc ro e = None <-> process rc (fst e) = [].
Proof. exact dropped_iff_no_cue_left. Qed.
Print Assumptions C10_dropped_iff_no_cue_left.

Theorem C10_line_dropped_iff : forall rc ro l,
  job rc ro l = JDrop <-> exists e, parse_line l = Some e /\ process rc (fst e) = [].
Proof. exact line_dropped_iff. Qed.
Print Assumptions C10_line_dropped_iff.

(** events left without outcomes are kept (written with an empty outcome field) *)
Theorem C10_outcome_less_kept : forall rc ro e,
  process rc (fst e) <> [] ->
  job_event rc ro e = Some (process rc (fst e), process ro (snd e)).
Proof. exact outcome_less_kept. Qed.
Print Assumptions C10_outcome_less_kept.

Theorem C10_line_without_outcomes_kept : forall rc ro l e,
  parse_line l = Some e -> process rc (fst e) <> [] -> process ro (snd e) = [] ->
  job rc ro l = JLine (join USCORE (process rc (fst e)) ++ [TAB; LF]).
Proof. exact line_without_outcomes_kept. Qed.
Print Assumptions C10_line_without_outcomes_kept.

(** keep K = remove (U \ K) on events whose tokens lie in U: tokens, lines, files *)
Theorem C10_keep_eq_remove_complement : forall U K ts,
  (forall t, In t ts -> In t U) ->
  process (RKeep K) ts = process (RRemove (tok_diff U K)) ts.
Proof. exact keep_eq_remove_complement. Qed.
Print Assumptions C10_keep_eq_remove_complement.

Theorem C10_keep_eq_remove_complement_file : forall U Kc Ko text,
  (forall l, In l (tl (file_lines text)) -> line_tokens_in U l) ->
  filter_text (RKeep Kc) (RKeep Ko) text =
  filter_text (RRemove (tok_diff U Kc)) (RRemove (tok_diff U Ko)) text.
Proof. exact keep_eq_remove_complement_text. Qed.
Print Assumptions C10_keep_eq_remove_complement_file.

(** renaming with the identity map on K = keeping K, provided '' is not in K *)
Theorem C10_identity_map_eq_keep : forall K ts,
  ~ In [] K -> process (RMap (id_map K)) ts = process (RKeep K) ts.
Proof. exact identity_map_eq_keep. Qed.
Print Assumptions C10_identity_map_eq_keep.

Theorem C10_identity_map_eq_keep_file : forall Kc Ko text,
  ~ In [] Kc -> ~ In [] Ko ->
  filter_text (RMap (id_map Kc)) (RMap (id_map Ko)) text = filter_text (RKeep Kc) (RKeep Ko) text.
Proof. exact identity_map_eq_keep_text. Qed.
Print Assumptions C10_identity_map_eq_keep_file.

(** the side condition is needed: with '' in K the two differ *)
Theorem C10_identity_map_with_empty_refuted :
  exists K ts, In [] K /\ process (RMap (id_map K)) ts <> process (RKeep K) ts.
Proof. exact identity_map_with_empty_refuted. Qed.
Print Assumptions C10_identity_map_with_empty_refuted.

(** twice = once on token lists ... *)
Theorem C10_keep_idempotent : forall K ts,
  process (RKeep K) (process (RKeep K) ts) = process (RKeep K) ts.
Proof. exact keep_idempotent_tokens. Qed.
Print Assumptions C10_keep_idempotent.

Theorem C10_remove_idempotent : forall K ts,
  process (RRemove K) (process (RRemove K) ts) = process (RRemove K) ts.
Proof. exact remove_idempotent_tokens. Qed.
Print Assumptions C10_remove_idempotent.

(** ... and through the text (format, then parse again): an outcome list that
    became empty is written as an empty field and read back as [''], and still
    the second pass writes the same line.  For all / keep / remove rules on
    either side, any line of a file. *)
Theorem C10_line_idempotent : forall rc ro l o,
  selects rc -> selects ro -> ~ In LF (strip_c LF l) ->
  job rc ro l = JLine o -> job rc ro o = JLine o.
Proof. exact job_idempotent. Qed.
Print Assumptions C10_line_idempotent.

Theorem C10_file_idempotent : forall rc ro text out,
  selects rc -> selects ro ->
  filter_text rc ro text = Some out -> filter_text rc ro out = Some out.
Proof. exact filter_text_idempotent. Qed.
Print Assumptions C10_file_idempotent.

(** rename rules are not idempotent (not claimed by the property) *)
Theorem C10_map_not_idempotent_refuted :
  exists m l o, job (RMap m) RAll l = JLine o /\ job (RMap m) RAll o <> JLine o.
Proof. exact map_not_idempotent_refuted. Qed.
Print Assumptions C10_map_not_idempotent_refuted.

(** non-vacuity.  "a_b\tx_y\n" / "\tx\n" (the cue list [''] is not empty) /
    "b__a\t\n" / "c\ty\n" under keep_cues=['a',''], keep_outcomes=['q']:
    the fourth event is dropped, the others are kept without outcomes *)
Example C10_example_file :
  filter_text_pool (RKeep [[97]; []]) (RKeep [[113]]) 2
    [104; 10;  97; 95; 98; 9; 120; 95; 121; 10;  9; 120; 10;  98; 95; 95; 97; 9; 10;  99; 9; 121; 10]
  = Some [104; 10;  97; 9; 10;  9; 10;  95; 97; 9; 10].
Proof. vm_compute. reflexivity. Qed.

Example C10_example_idempotent_hyps :
  selects (RKeep [[97]; []]) /\ selects (RRemove [[113]]) /\
  ~ In LF (strip_c LF [98; 95; 95; 97; 9; 10]).
Proof. split; [exact I|split; [exact I|]]. vm_compute. intuition discriminate. Qed.

Example C10_example_chunks : chunks 2 [1; 2; 3; 4; 5] = [[1; 2]; [3; 4]; [5]].
Proof. reflexivity. Qed.

Example C10_example_cr_splits_line :
  filter_text RAll RAll [104; 10; 97; 9; 98; 13; 99; 9; 100; 10] = Some [104; 10; 97; 9; 98; 10; 99; 9; 100; 10].
Proof. vm_compute. reflexivity. Qed.

(** the hypotheses of C10_filter_eq_filter_map are satisfiable: three well-formed
    lines, chunk size 2, the two tasks completed in reverse order *)
Example C10_example_filter_eq_filter_map_hyps :
  let body := [[97; 9; 120; 10]; [9; 10]; [98; 95; 99; 9; 10]] in
  (forall l, In l body -> line_ok l) /\ Permutation (rev (tasks 2 body)) (tasks 2 body) /\
  filter_lines_pool (RRemove [[97]]) RAll 2 (rev (tasks 2 body)) ([104; 10] :: body)
  = Some [[104; 10]; [9; 10]; [98; 95; 99; 9; 10]].
Proof.
  cbn zeta. split; [|split].
  - intros l [<-|[<-|[<-|[]]]]; vm_compute; discriminate.
  - apply Permutation_sym, Permutation_rev.
  - vm_compute. reflexivity.
Qed.
