(** C01 - learned weights follow the Rescorla-Wagner rule for every event sequence. *)
From Coq Require Import ZArith List Bool Ring QArith Qcanon.
From PV Require Import Bytes BinFmt Store RWSpec RWExec RWProofs Sched SchedProofs RWMain Proto NdlPipeline.
Import ListNotations.

(** the pure-Python learner ([dict_ndl], scalar or per-cue alpha, lazily
    growing outcome set), started from empty weights, returns at every
    (outcome, cue) the documented rule applied event by event to the events
    prepared by the duplicate policy - and raises exactly when the policy is
    None and an event repeats a cue or an outcome *)
Theorem C01_dict :
  forall (R : Type) (rO rI : R) (radd rmul rsub : R -> R -> R) (ropp : R -> R),
    ring_theory rO rI radd rmul rsub ropp (@eq R) ->
  forall (p : params R) (po : pol) (es : list event),
    match dict_run R rO radd rmul rsub p po es ([], ZZM.empty R), prep_all po es with
    | Some (_, s), Some es' =>
      forall o c, dget R rO s o c = learn R rO rI radd rmul rsub p es' (zero_w R rO) o c
    | None, None => True
    | _, _ => False
    end.
Proof. exact dict_from_zero. Qed.
Print Assumptions C01_dict.

(** what the three duplicate policies do to an event *)
Theorem C01_policies : forall e,
  (prep PNone e = Some e <-> NoDup (fst e) /\ NoDup (snd e)) /\
  (prep PNone e = None <-> ~ (NoDup (fst e) /\ NoDup (snd e))) /\
  (exists cs os, prep PTrue e = Some (cs, os) /\ NoDup cs /\ NoDup os /\
                 (forall x, In x cs <-> In x (fst e)) /\ (forall x, In x os <-> In x (snd e))) /\
  prep PFalse e = Some e.
Proof. exact prep_policies. Qed.
Print Assumptions C01_policies.

(** [learn] is the documented rule: without repeated cues each present cue
    moves by alpha*beta*(target - activation), absent cues stay; with repeated
    cues (policy False) [step] counts every repetition (factor [countz], and
    the activation sums with multiplicity) by definition *)
Theorem C01_documented_rule :
  forall (R : Type) (rO rI : R) (radd rmul rsub : R -> R -> R) (ropp : R -> R),
    ring_theory rO rI radd rmul rsub ropp (@eq R) ->
  forall p e W o c, NoDup (fst e) ->
    step R rO rI radd rmul rsub p e W o c =
    if mem_z c (fst e)
    then radd (W o c) (rmul (alpha p c) (delta R rO radd rmul rsub p W e o))
    else W o c.
Proof. exact step_nodup. Qed.
Print Assumptions C01_documented_rule.

(** the compiled kernel on its flat memory trains exactly the rows
    all_outcomes[start..end) with the rule and touches nothing else, for every
    matrix whose dimensions fit 32 bits *)
Theorem C01_kernel :
  forall (R : Type) (rO rI : R) (radd rmul rsub : R -> R -> R) (ropp : R -> R),
    ring_theory rO rI radd rmul rsub ropp (@eq R) ->
  forall p n_cues all_outcomes start stop es m o c,
    (0 <= n_cues < two32)%Z ->
    NoDup all_outcomes -> Forall oko32 all_outcomes ->
    cues_ok (okc_n n_cues) es -> oko32 o -> okc_n n_cues c ->
    kget R rO n_cues (k_learn_events R rO radd rmul rsub p n_cues all_outcomes start stop es m) o c =
    if mem_z o (slice all_outcomes start stop)
    then learn R rO rI radd rmul rsub p es (kget R rO n_cues m) o c
    else kget R rO n_cues m o c.
Proof. exact kernel_refines. Qed.
Print Assumptions C01_kernel.

(** parallel learner, method='threading': every sublist length, every number
    of threads and every interleaving of the work items gives the rule *)
Theorem C01_parallel_threading :
  forall (R : Type) (rO rI : R) (radd rmul rsub : R -> R -> R) (ropp : R -> R),
    ring_theory rO rI radd rmul rsub ropp (@eq R) ->
  forall p n_cues all n es tr m o c,
    (0 <= n_cues < two32)%Z -> NoDup all -> Forall oko32 all ->
    cues_ok (okc_n n_cues) es -> (1 <= n)%nat ->
    interleaving (map (fun part => item_actions part es) (slice_list all n)) tr ->
    oko32 o -> okc_n n_cues c ->
    kget R rO n_cues (run_trace R rO radd rmul rsub (kstore R) (kget R rO n_cues) (kset R n_cues) p tr m) o c =
    if mem_z o all then learn R rO rI radd rmul rsub p es (kget R rO n_cues m) o c
    else kget R rO n_cues m o c.
Proof. exact threading_any_schedule. Qed.
Print Assumptions C01_parallel_threading.

(** parallel learner, method='openmp': any partition of the outcomes into
    parts, a barrier after every chunk file, any interleaving inside a file *)
Theorem C01_parallel_openmp :
  forall (R : Type) (rO rI : R) (radd rmul rsub : R -> R -> R) (ropp : R -> R),
    ring_theory rO rI radd rmul rsub ropp (@eq R) ->
  forall p n_cues all parts files trs m o c,
    (0 <= n_cues < two32)%Z -> NoDup all -> Forall oko32 all ->
    concat parts = all ->
    Forall (cues_ok (okc_n n_cues)) files ->
    files_interleaved parts files trs ->
    oko32 o -> okc_n n_cues c ->
    kget R rO n_cues (run_files R rO radd rmul rsub (kstore R) (kget R rO n_cues) (kset R n_cues)
                                p parts files trs m) o c =
    if mem_z o all then learn R rO rI radd rmul rsub p (concat files) (kget R rO n_cues m) o c
    else kget R rO n_cues m o c.
Proof. exact openmp_any_schedule. Qed.
Print Assumptions C01_parallel_openmp.

(** the whole parallel call at the level of ids: duplicate policy, chunk files of
    any size written by the conversion jobs, each parsed by the kernel as exactly
    its events, chunks consumed in numeric order, any partition of the outcomes,
    a barrier per chunk file and any interleaving inside it *)
Theorem C01_chunk_file_parsed : forall es es' per po k,
  prep_all po es = Some es' -> events_ok es' = true -> (1 <= per)%nat ->
  match job_file es per po k with
  | Some f => chunk per es' k <> [] /\ k_parse f = KOk (chunk per es' k)
  | None => chunk per es' k = []
  end.
Proof. exact chunk_file_parsed. Qed.
Print Assumptions C01_chunk_file_parsed.

Theorem C01_ndl_pipeline :
  forall (R : Type) (rO rI : R) (radd rmul rsub : R -> R -> R) (ropp : R -> R),
    ring_theory rO rI radd rmul rsub ropp (@eq R) ->
  forall p n_cues all parts es es' per po m trs mem o c,
    prep_all po es = Some es' -> (1 <= per)%nat -> (length es <= m * per)%nat ->
    (0 <= n_cues < two32)%Z -> NoDup all -> Forall oko32 all -> concat parts = all ->
    cues_ok (okc_n n_cues) es' ->
    files_interleaved parts (map (chunk per es') (seq 0 m)) trs ->
    oko32 o -> okc_n n_cues c ->
    kget R rO n_cues
         (run_files R rO radd rmul rsub (kstore R) (kget R rO n_cues) (kset R n_cues) p parts
                    (map (chunk per es') (seq 0 m)) trs mem) o c =
    if mem_z o all then learn R rO rI radd rmul rsub p es' (kget R rO n_cues mem) o c
    else kget R rO n_cues mem o c.
Proof. exact ndl_openmp_pipeline. Qed.
Print Assumptions C01_ndl_pipeline.

(** non-vacuity: the rationals are such a ring, and a concrete run with a
    repeated cue, a late outcome and an outcome-less event succeeds *)
Example C01_Qc_is_a_ring : ring_theory 0%Qc 1%Qc Qcplus Qcmult Qcminus Qcopp (@eq Qc).
Proof. exact Qcrt. Qed.
