(** C19 - corpus extraction is deterministic, complete and records missing files. *)
From Coq Require Import ZArith List Bool Arith QArith Qcanon Permutation Sorting.Sorted.
From PV Require Import BinFmt Corpus CorpusProofs.
Import ListNotations.

(** sorting any enumeration of the same files (distinct paths) gives the same
    list: the order in which os.walk reports directories and files is irrelevant *)
Theorem C19_sort_perm_invariant : forall (l l' : list (str * content)),
  NoDup (map fst l) -> Permutation l l' -> isort fst l = isort fst l'.
Proof. exact (sort_perm_invariant_lemma fst). Qed.
Print Assumptions C19_sort_perm_invariant.

(** ... and that list is the input sorted by code points *)
Theorem C19_sort_sorted : forall (l : list (str * content)),
  Permutation (isort fst l) l /\
  StronglySorted (fun a b => str_leb (fst a) (fst b) = true) (isort fst l).
Proof. exact (isort_is_sorted_perm fst). Qed.
Print Assumptions C19_sort_sorted.

(** cleaning: punctuation marks are appended as they are, every other word
    gets one space before it; a word tag without text is an error *)
Theorem C19_cleaning : forall ws,
  (forall texts, ws = map Some texts ->
     join_words ws = Some (flat_map (fun w => if is_punct w then w else 32%Z :: w) texts)) /\
  (In None ws -> join_words ws = None).
Proof. exact join_words_spec. Qed.
Print Assumptions C19_cleaning.

(** Pool.imap: for every number of workers and every schedule that lets the
    pool finish, the results reach the loop in task order *)
Theorem C19_imap_ordered : forall (B : Type) (results : nat -> B) n_tasks n_workers sched,
  pool_finished (pool_run n_tasks n_workers sched) = true ->
  imap_deliver results n_tasks (pq_done (pool_run n_tasks n_workers sched)) = map results (seq 0 n_tasks).
Proof. exact @imap_any_pool. Qed.
Print Assumptions C19_imap_ordered.

(** the corpus: for every walk, every number of worker processes and every
    schedule, if every readable file parses, the run succeeds and the output is
    the concatenation, over the sorted readable files, of their cleaned lines
    followed by the end-of-document marker; the missing files are listed, one
    per line and in sorted order, under the first free .not_found name *)
Theorem C19_output : forall is_space walk n_workers sched nf_taken nf_fuel,
  let files := isort fst (gz_files_of walk) in
  all_parse is_space files ->
  pool_finished (pool_run (length files) n_workers sched) = true ->
  let o := create_corpus (job is_space) true false walk (pq_done (pool_run (length files) n_workers sched))
                         nf_taken nf_fuel in
  o_status o = SOk /\
  o_written o = Some (spec_corpus is_space files) /\
  o_not_found o = match filter is_missing files with
                  | [] => None
                  | _ => Some (first_free nf_taken nf_fuel 0, spec_not_found files)
                  end.
Proof. exact create_corpus_output. Qed.
Print Assumptions C19_output.

Theorem C19_walk_order_irrelevant : forall is_space walk walk' completion nf_taken nf_fuel,
  NoDup (map fst (gz_files_of walk)) ->
  Permutation (gz_files_of walk) (gz_files_of walk') ->
  create_corpus (job is_space) true false walk completion nf_taken nf_fuel =
  create_corpus (job is_space) true false walk' completion nf_taken nf_fuel.
Proof. exact create_corpus_walk_order. Qed.
Print Assumptions C19_walk_order_irrelevant.

(** a missing file does not abort the run: it is recorded *)
Theorem C19_missing_recorded : forall is_space walk n_workers sched nf_taken nf_fuel f,
  let files := isort fst (gz_files_of walk) in
  all_parse is_space files ->
  pool_finished (pool_run (length files) n_workers sched) = true ->
  In f files -> snd f = Missing ->
  (exists k, (k <= nf_fuel)%nat /\ nf_taken k = false) ->
  let o := create_corpus (job is_space) true false walk (pq_done (pool_run (length files) n_workers sched))
                         nf_taken nf_fuel in
  o_status o = SOk /\
  exists k, o_not_found o = Some (k, spec_not_found files) /\
            nf_taken k = false /\ forall j, (j < k)%nat -> nf_taken j = true.
Proof. exact missing_recorded. Qed.
Print Assumptions C19_missing_recorded.

(** an existing outfile (or a missing directory) is an error before anything is written *)
Theorem C19_never_overwrites : forall the_job dir_exists walk completion nf_taken nf_fuel,
  let o := create_corpus the_job dir_exists true walk completion nf_taken nf_fuel in
  (o_status o = SOutfileExists \/ o_status o = SNoDirectory) /\ o_written o = None /\ o_not_found o = None.
Proof. exact never_overwrites. Qed.
Print Assumptions C19_never_overwrites.

(** finding F7: with the logic before the repair ([lines] unbound on the
    FileNotFoundError branch) any missing file aborts the run *)
Theorem C19_unrepaired_missing_crashes : forall is_space walk completion nf_taken nf_fuel f,
  let files := isort fst (gz_files_of walk) in
  In f files -> snd f = Missing ->
  Permutation completion (seq 0 (length files)) ->
  o_status (create_corpus (job_unrepaired is_space) true false walk completion nf_taken nf_fuel) <> SOk.
Proof. exact unrepaired_missing_crashes. Qed.
Print Assumptions C19_unrepaired_missing_crashes.

Theorem C19_missing_crashes_refuted : exists walk completion,
  o_status (create_corpus (job_unrepaired (fun _ => false)) true false walk completion (fun _ => false) 1)
  = SUnboundLocal.
Proof. exact missing_crashes_refuted. Qed.
Print Assumptions C19_missing_crashes_refuted.

(** non-vacuity: on the same tree the current logic succeeds with two workers
    (worker 1 finishes the second file first), writes "\nHi!\n" and the
    marker, and lists d/a.gz *)
Example C19_output_example :
  let sched := [0; 1; 1; 0]%nat in
  pool_finished (pool_run 2 2 sched) = true /\
  pq_done (pool_run 2 2 sched) = [1; 0]%nat /\
  let o := create_corpus (job (fun c => Z.eqb c 32)) true false ex_walk (pq_done (pool_run 2 2 sched))
                         (fun k => Nat.eqb k 0) 3 in
  o_status o = SOk /\
  o_written o = Some ([10; 72; 105; 33; 10] ++ END_MARKER)%Z /\
  o_not_found o = Some (1%nat, [100; 47; 97; 46; 103; 122; 10]%Z).
Proof. vm_compute. repeat split. Qed.
