(** C17 - learner calls leave no temporary files behind and never touch their inputs.
    Partial: the theorems are about the bracket structure (TemporaryDirectory blocks, every
    failure point of their bodies); the file system itself, rmtree and races between
    Pool.terminate and rmtree are observed by the correspondence run, not modelled. *)
From Coq Require Import List Bool Arith.
From PV Require Import Faults FaultsProofs.
Import ListNotations.

(** a [with TemporaryDirectory() as d] block: whatever the body creates inside d
    and wherever it fails, the file system afterwards is the one before *)
Theorem C17_bracket_restores : forall d steps f, 0 < d -> fresh d f -> fst (bracket d steps f) = f.
Proof. exact bracket_restores. Qed.
Print Assumptions C17_bracket_restores.

Theorem C17_bracket_reports_failure : forall d steps f,
  snd (bracket d steps f) = negb (existsb (fun s => match s with BFail => true | _ => false end) steps).
Proof. exact bracket_reports_failure. Qed.
Print Assumptions C17_bracket_reports_failure.

(** generator input: spool directory and chunk directory, success and failure of
    either stage at any point: nothing is left *)
Theorem C17_learner_clean : forall ds db spool_ok body f,
  0 < ds -> 0 < db -> ds <> db -> fresh ds f -> fresh db f ->
  fst (learner_call_generator ds db spool_ok body f) = f.
Proof. exact learner_clean_generator. Qed.
Print Assumptions C17_learner_clean.

(** before the repair (finding F6) every call with a generator leaked its spool file *)
Theorem C17_generator_leaks_refuted :
  exists spool db body f, fst (learner_call_generator_unrepaired spool db body f) <> f.
Proof. exact generator_leaks_refuted. Qed.
Print Assumptions C17_generator_leaks_refuted.

Example C17_nonvacuous :
  fresh 7 [(0, 3); (3, 1)] /\ bracket 7 [BCreate 1; BCreate 2; BFail; BCreate 3] [(0, 3); (3, 1)] = ([(0, 3); (3, 1)], false).
Proof. split; [intros p [<-|[<-|[]]]; split; cbn; congruence|vm_compute; reflexivity]. Qed.
