(** C06 - binary event chunks round-trip and are read identically by every reader. *)
From Coq Require Import ZArith List Bool.
From PV Require Import Bytes BinFmt BinFmtProofs.
Import ListNotations.
Open Scope Z_scope.

(** 32-bit little-endian words round-trip *)
Theorem C06_le32_roundtrip : forall n, 0 <= n < two32 -> to_integer (to_bytes n) = n.
Proof. exact to_integer_to_bytes. Qed.
Print Assumptions C06_le32_roundtrip.

(** every encodable event list (ids, lengths, number of events below 2^32; any
    number of ids per event; events without outcomes) is read back unchanged *)
Theorem C06_decode_encode : forall es, events_ok es = true -> py_read (encode es) = RdOk es.
Proof. exact py_read_encode. Qed.
Print Assumptions C06_decode_encode.

(** the parser shared by the four compiled kernels consumes exactly the same
    events and never reads more ids than its (re-allocated) buffer holds *)
Theorem C06_kernel_reads_same : forall es, events_ok es = true -> k_parse (encode es) = KOk es.
Proof. exact k_parse_encode. Qed.
Print Assumptions C06_kernel_reads_same.

(** Python reader and kernels take the same decision on the header *)
Theorem C06_readers_agree_on_header : forall l,
  (py_read l = RdBadMagic <-> hdr_error l = 1) /\ (py_read l = RdBadVersion <-> hdr_error l = 2).
Proof. exact readers_agree_on_header. Qed.
Print Assumptions C06_readers_agree_on_header.

(** a chunk with a bad header is rejected wherever it stands in the list *)
Theorem C06_bad_header_rejected : forall files f,
  In f files -> hdr_error f <> 0 -> entry_first_error files = 1 \/ entry_first_error files = 2.
Proof. exact bad_chunk_rejected. Qed.
Print Assumptions C06_bad_header_rejected.

Theorem C06_good_chunks_accepted : forall files,
  files <> [] -> (forall f, In f files -> hdr_error f = 0) -> entry_first_error files = 0.
Proof. exact good_chunks_accepted. Qed.
Print Assumptions C06_good_chunks_accepted.

(** the logic of the OpenMP entry points before the repair masks a bad chunk (finding F4) *)
Theorem C06_omp_bad_header_masked_refuted :
  exists files f, In f files /\ hdr_error f <> 0 /\ entry_last_error files = 0.
Proof. exact last_error_masks_bad_chunk_refuted. Qed.
Print Assumptions C06_omp_bad_header_masked_refuted.

(** the 64-bit flat index neither wraps nor collides for any matrix whose
    dimensions fit 32 bits (more than 2^32 cells included) *)
Theorem C06_flat_index_no_wrap : forall n_cues o c,
  0 <= n_cues < two32 -> 0 <= o < two32 -> 0 <= c < two32 ->
  flat_index n_cues o c = n_cues * o + c.
Proof. exact flat_index_no_wrap. Qed.
Print Assumptions C06_flat_index_no_wrap.

Theorem C06_flat_index_injective : forall n_cues o c o' c',
  0 <= n_cues < two32 -> 0 <= o < two32 -> 0 <= o' < two32 ->
  0 <= c < n_cues -> 0 <= c' < n_cues ->
  flat_index n_cues o c = flat_index n_cues o' c' -> o = o' /\ c = c'.
Proof. exact flat_index_injective. Qed.
Print Assumptions C06_flat_index_injective.

Theorem C06_flat_index_u32_collides_refuted :
  exists n o c o' c', 0 <= c < n /\ 0 <= c' < n /\ n < two32 /\ 0 <= o < two32 /\ 0 <= o' < two32 /\
    (o, c) <> (o', c') /\ flat_index_u32 n o c = flat_index_u32 n o' c'.
Proof. exact flat_index_u32_collides_refuted. Qed.
Print Assumptions C06_flat_index_u32_collides_refuted.

(** non-vacuity: an event with 1500 cues and one without outcomes is encodable *)
Example C06_nonvacuous :
  events_ok [(map Z.of_nat (seq 0 1500), [7]); ([4294967295; 0], [])] = true.
Proof. vm_compute. reflexivity. Qed.
