(** C16 - run metadata is truthful, accumulates one entry per call and (checked,
    not proved) survives netCDF. *)
From Coq Require Import String.
From Coq Require Import ZArith List Bool.
From PV Require Import BinFmt Attrs AttrsProofs.
Import ListNotations.
Open Scope Z_scope.

(** [_format] pads on the right and never truncates *)
Theorem C16_format_pads : forall w s,
  exists n, pad w s = s ++ repeat SP n /\ len (pad w s) = Z.max w (len s).
Proof. exact pad_never_truncates. Qed.
Print Assumptions C16_format_pads.

(** split/join: values that do not contain ' | ' and do not end in ' |'
    ([sep_free]), padded with any number of spaces and joined with ' | ' the
    way the code joins them (left nested), are exactly what [str.split(' | ')]
    returns *)
Theorem C16_split_join : forall (v : str * nat) (vs : list (str * nat)),
  let padn := fun p : str * nat => fst p ++ repeat SP (snd p) in
  (forall p, In p (v :: vs) -> sep_free (fst p) = true) ->
  split sep (joinl (padn v) (map padn vs)) = map padn (v :: vs).
Proof. exact split_join_padded. Qed.
Print Assumptions C16_split_join.

Theorem C16_sep_free_meaning : forall v, sep_free v = negb (occurs sep (v ++ [SP])).
Proof. exact sep_free_spec. Qed.
Print Assumptions C16_sep_free_meaning.

(** after a chain of k >= 1 calls of one family (constant key set) with
    readable values, every attribute of the family splits on ' | ' into
    exactly k entries; the i-th one is call i's formatted value, i.e. stripped
    of its padding call i's value - call order *)
Theorem C16_entries : forall c0 rest k,
  (forall c, In c rest -> c_family c = c_family c0) ->
  (forall c, In c (c0 :: rest) -> values_ok c = true) ->
  In k (keys_of (c_family c0)) ->
  exists A v, chain None (c0 :: rest) = Some A /\ lookup k A = Some v /\
    split sep v = map (entry k) (c0 :: rest) /\
    entries v = map (fun c => rstrip (raw_str k c)) (c0 :: rest) /\
    length (entries v) = length (c0 :: rest).
Proof. exact entries_same_family. Qed.
Print Assumptions C16_entries.

(** differing key sets: when the first call is of the ndl family (17 keys)
    and later calls are of either family (the wh family lacks alpha and
    betas), every key of the union still has exactly k entries, those of the
    calls that do not have the key being empty *)
Theorem C16_mixed_keys : forall c0 rest k,
  c_family c0 = FamNdl ->
  (forall c, In c (c0 :: rest) -> values_ok c = true) ->
  In k ndl_keys ->
  (exists A v, chain None (c0 :: rest) = Some A /\ lookup k A = Some v /\
    split sep v = map (entry k) (c0 :: rest) /\
    entries v = map (fun c => rstrip (raw_str k c)) (c0 :: rest) /\
    length (entries v) = length (c0 :: rest)) /\
  (forall c, c_family c = FamWh -> ~ In k wh_keys -> entry k c = [] /\ raw_str k c = []).
Proof. exact entries_ndl_first. Qed.
Print Assumptions C16_mixed_keys.

(** ... but not when the key first appears in the third call or later: two
    Widrow-Hoff calls followed by an ndl-family call leave 'alpha' with two
    entries after three calls (finding) *)
Theorem C16_mixed_keys_late_key_refuted :
  exists is, length is = 3%nat /\
    (forall i, In i is -> chunks_ok i /\ values_ok (the_call i) = true) /\
    ex_entries "alpha" (run_chain None is) = [[]; lit "varying"] /\
    ex_entries "lambda" (run_chain None is) = [lit "0.1"; lit "0.2"; lit "1.0"].
Proof. exact late_key_refuted. Qed.
Print Assumptions C16_mixed_keys_late_key_refuted.

(** weights without attributes (attrs = {}) count as one empty entry *)
Theorem C16_attrless_start_two_entries :
  exists i, chunks_ok i /\ values_ok (the_call i) = true /\
    ex_entries "date" (run_chain (Some []) [i]) = [[]; lit "2026-09-30 20:33:02"].
Proof. exact attrless_start_two_entries. Qed.
Print Assumptions C16_attrless_start_two_entries.

(** the three places the number comes from agree with the number of events of
    the file after frequency expansion: the sum of what the chunk jobs report
    (whatever events_per_file >= 1 and however many jobs were submitted, as
    long as they cover the file), the count of [count.cues_outcomes] it is
    asserted against, and the loop counter of the pure-Python learners *)
Theorem C16_number_events_sources : forall i,
  chunks_ok i -> number_events i = Some (true_count (i_lines i)).
Proof. exact number_events_true. Qed.
Print Assumptions C16_number_events_sources.

(** in a chain of learner calls the i-th entry of 'number_events' is the
    decimal numeral of the number of events of call i's file after frequency
    expansion (the sum of the non-negative frequencies), and the numeral
    determines the number *)
Theorem C16_number_events : forall i0 rest,
  (forall i, In i (i0 :: rest) -> chunks_ok i) ->
  families_ok i0 rest ->
  exists A v, run_chain None (i0 :: rest) = Some A /\
    lookup (lit "number_events") A = Some v /\
    entries v = map (fun i => str_of_Z (true_count (i_lines i))) (i0 :: rest) /\
    (forall i, true_count (i_lines i) = fold_right (fun l s => Z.max 0 (snd l) + s) 0 (i_lines i)) /\
    (forall n m, str_of_Z n = str_of_Z m -> n = m).
Proof. exact number_events_entries. Qed.
Print Assumptions C16_number_events.

(** parallel Rescorla-Wagner learner ([ndl.ndl] with a Python float or int
    alpha): the entries of alpha, betas, lambda, method and event_path are the
    str() of the arguments of the respective call *)
Theorem C16_parameters : forall i0 rest,
  (forall i, In i (i0 :: rest) ->
     rw_par i /\ chunks_ok i /\
     forall key field, In (key, field) param_table -> sep_free (field i) = true) ->
  exists A, run_chain None (i0 :: rest) = Some A /\
    forall key field, In (key, field) param_table ->
      exists v, lookup key A = Some v /\
        entries v = map (fun i => rstrip (field i)) (i0 :: rest) /\
        length (entries v) = length (i0 :: rest).
Proof. exact parameters_entries. Qed.
Print Assumptions C16_parameters.

(** ... but an alpha that is not a Python float/int (numpy.float32(0.5)) is
    recorded as 'varying' (finding) *)
Theorem C16_parameters_alpha_not_python_number_refuted :
  exists i, i_learner i = LNdl /\ chunks_ok i /\ values_ok (the_call i) = true /\
    i_alpha i = lit "0.5" /\
    ex_entries "alpha" (run_chain None [i]) = [lit "varying"].
Proof. exact alpha_not_python_number_refuted. Qed.
Print Assumptions C16_parameters_alpha_not_python_number_refuted.

(** [dict_ndl] never records a float alpha *)
Theorem C16_dict_ndl_float_alpha_is_varying : forall i n,
  i_learner i = LDictNdl -> i_alpha_kind i = AFloat ->
  raw_str (lit "alpha") (mk_call i n) = lit "varying".
Proof. exact dict_ndl_float_alpha_is_varying. Qed.
Print Assumptions C16_dict_ndl_float_alpha_is_varying.

(** every attribute value is a string (of valid code points when the inputs
    are), also number_events, which the code formats from an int - so netCDF
    can store every attribute as a string *)
Theorem C16_attrs_are_strings : forall cs start A,
  match start with Some a => attrs_valid a = true | None => True end ->
  (forall c, In c cs -> inputs_valid c = true) ->
  chain start cs = Some A -> attrs_valid A = true.
Proof. exact chain_valid. Qed.
Print Assumptions C16_attrs_are_strings.

(** the hypothesis on the values cannot be dropped *)
Theorem C16_separator_in_path_refuted :
  exists i, chunks_ok i /\
    ex_entries "event_path" (run_chain None [i]) = [lit "/data/a"; lit "b.tab.gz"].
Proof. exact separator_in_path_refuted. Qed.
Print Assumptions C16_separator_in_path_refuted.

(** non-vacuity: ndl (threading) -> dict_ndl on a file with a frequency
    column -> ndl (openmp) satisfies all hypotheses, and the entries are what
    the unchanged implementation returns for this chain *)
Example C16_nonvacuous :
  (forall i, In i ex_chain -> chunks_ok i /\ values_ok (the_call i) = true) /\
  ex_entries "number_events" (run_chain None ex_chain) = [lit "3"; lit "5"; lit "5"] /\
  ex_entries "alpha" (run_chain None ex_chain) = [lit "0.1"; lit "varying"; lit "0.25"] /\
  ex_entries "method" (run_chain None ex_chain) = [lit "threading"; lit "None"; lit "openmp"] /\
  ex_entries "event_path" (run_chain None ex_chain) =
    [lit "/data/e1.tab.gz"; lit "/data/e2.tab.gz"; lit "/data/e2.tab.gz"] /\
  ex_entries "function" (run_chain None ex_chain) =
    [lit "pyndl.ndl.ndl"; lit "pyndl.ndl.dict_ndl"; lit "pyndl.ndl.ndl"].
Proof. exact ex_chain_ok. Qed.

Example C16_nonvacuous_inputs_valid :
  forallb (fun i => inputs_valid (the_call i)) ex_chain = true.
Proof. vm_compute. reflexivity. Qed.
