(** C02 - parallel learning is independent of the schedule and always terminates. *)
From Coq Require Import ZArith List Bool Ring Permutation.
From PV Require Import Bytes BinFmt Store RWSpec RWExec RWProofs Sched SchedProofs QueueProofs QueueTrace RWMain
     QueueFaults QueueNowait QueueNowaitProofs RWNowait.
Import ListNotations.

(** [ndl.slice_list]: for every n >= 1 (also n > len) the parts concatenate to
    the list, none is empty, none is longer than n *)
Theorem C02_slice_list_partition : forall (l : list Z) n, (1 <= n)%nat ->
  concat (slice_list l n) = l /\
  (forall part, In part (slice_list l n) -> part <> [] /\ (length part <= n)%nat).
Proof. intros l n Hn. split; [now apply slice_list_concat|intros; now apply (slice_list_parts l n)]. Qed.
Print Assumptions C02_slice_list_partition.

(** the OpenMP parts (ceil(len/chunk) ranges computed in 32-bit words) tile the
    outcome list whenever len + chunk <= 2^32 *)
Theorem C02_omp_parts_partition : forall (all : list Z) (chunk : Z),
  (1 <= chunk)%Z -> (Z.of_nat (length all) + chunk <= two32)%Z ->
  concat (omp_parts all chunk) = all.
Proof. exact omp_parts_concat. Qed.
Print Assumptions C02_omp_parts_partition.

(** the shared work queue, for every number of threads, every number of items
    (also fewer items than threads) and EVERY schedule: *)
Theorem C02_queue_never_blocks : forall items n sched,
  some_blocked (qrun true sched (qinit items n)) = false.
Proof. exact queue_never_blocks. Qed.
Print Assumptions C02_queue_never_blocks.

Theorem C02_queue_exactly_once : forall items n sched,
  let s := qrun true sched (qinit items n) in
  Permutation (queue s ++ holding s ++ finished s) items.
Proof. exact queue_exactly_once. Qed.
Print Assumptions C02_queue_exactly_once.

Theorem C02_queue_all_done_all_items : forall items n sched, (1 <= n)%nat ->
  let s := qrun true sched (qinit items n) in
  all_done s = true -> Permutation (finished s) items.
Proof. exact queue_all_done_all_items. Qed.
Print Assumptions C02_queue_all_done_all_items.

Theorem C02_queue_terminates : forall items n sched,
  let s := qrun true sched (qinit items n) in
  (effective sched (qinit items n) <= 5 * length items + 3 * n)%nat /\
  (all_done s = false -> exists t, (mu (qstep true s t) < mu s)%nat).
Proof. exact queue_terminates. Qed.
Print Assumptions C02_queue_terminates.

(** contrast (the search template for a hang): without the lock a thread can block in get() *)
Theorem C02_unlocked_queue_blocks_refuted :
  exists items n sched, some_blocked (qrun false sched (qinit items n)) = true.
Proof. exact unlocked_queue_blocks_refuted. Qed.
Print Assumptions C02_unlocked_queue_blocks_refuted.

(** the worker threads run to completion (QueueTrace.wstep: lock, queue and the loop over the atomic
    row updates of the item a thread holds).  For every number of threads and EVERY schedule: what has
    been performed so far is, item by item, a prefix of the item's program order ... *)
Theorem C02_workers_trace_prefixes : forall (A : Type) (seqs : list (list A)) items n sched i, NoDup items ->
  exists k, proj i (wtrace (wrun seqs sched (winit items n))) = firstn k (nth i seqs []).
Proof. exact @worker_trace_prefixes. Qed.
Print Assumptions C02_workers_trace_prefixes.

(** ... when all threads are done it is an interleaving of the items' sequences: the hypothesis of
    C02_threading_schedule_independent is what the threads produce ... *)
Theorem C02_workers_trace_interleaving : forall (A : Type) (seqs : list (list A)) n sched, (1 <= n)%nat ->
  let s := wrun seqs sched (winit (seq 0 (length seqs)) n) in
  all_done (qs s) = true -> interleaving seqs (wtrace s).
Proof. exact @worker_trace_interleaving. Qed.
Print Assumptions C02_workers_trace_interleaving.

(** ... the queue component is a run of the queue machine above (never blocked, exactly once) ... *)
Theorem C02_workers_queue_component : forall (A : Type) (seqs : list (list A)) sched (s : @wstate A),
  exists sched', qs (wrun seqs sched s) = qrun true sched' (qs s).
Proof. exact @wrun_queue. Qed.
Print Assumptions C02_workers_queue_component.

(** ... and at most 5*items + 3*threads + (number of row updates) steps change the state, while some
    thread can make such a step as long as a thread is not done: every fair run terminates *)
Theorem C02_workers_terminate : forall (A : Type) (seqs : list (list A)) items n sched, NoDup items ->
  let s := wrun seqs sched (winit items n) in
  (weffective seqs items sched (winit items n) <= 5 * length items + 3 * n + total seqs items)%nat /\
  (all_done (qs s) = false -> exists t, (phi seqs items (wstep seqs s t) < phi seqs items s)%nat).
Proof. exact @worker_terminates. Qed.
Print Assumptions C02_workers_terminate.

(** end to end: whatever the schedule of the threads' steps, once all are done the kernel memory
    holds the sequential result for the outcomes of the call and is untouched elsewhere *)
Theorem C02_threading_workers_end_to_end :
  forall (R : Type) (rO rI : R) (radd rmul rsub : R -> R -> R) (ropp : R -> R),
    ring_theory rO rI radd rmul rsub ropp (@eq R) ->
  forall p n_cues all n es n_threads sched m o c,
    (0 <= n_cues < two32)%Z -> NoDup all -> Forall oko32 all ->
    cues_ok (okc_n n_cues) es -> (1 <= n)%nat -> (1 <= n_threads)%nat ->
    let seqs := map (fun part => item_actions part es) (slice_list all n) in
    let s := wrun seqs sched (winit (seq 0 (length seqs)) n_threads) in
    all_done (qs s) = true ->
    oko32 o -> okc_n n_cues c ->
    kget R rO n_cues (run_trace R rO radd rmul rsub (kstore R) (kget R rO n_cues) (kset R n_cues) p (wtrace s) m) o c =
    if mem_z o all then learn R rO rI radd rmul rsub p es (kget R rO n_cues m) o c
    else kget R rO n_cues m o c.
Proof. exact threading_workers_any_schedule. Qed.
Print Assumptions C02_threading_workers_end_to_end.

(** non-vacuity: two threads, three items, a round-robin schedule ends with all threads done and a
    trace in which the items' actions alternate *)
Example C02_workers_run_exists :
  let seqs := map (fun part => item_actions part (repeat ([1%Z], [5%Z]) 6)) (slice_list [5%Z; 6%Z; 7%Z] 1) in
  let s := wrun seqs (concat (repeat [0; 1]%nat 40)) (winit (seq 0 (length seqs)) 2) in
  all_done (qs s) = true /\ map fst (wtrace s) = [0; 0; 0; 0; 1; 0; 1; 0; 1; 1; 1; 1; 2; 2; 2; 2; 2; 2]%nat.
Proof. vm_compute. split; reflexivity. Qed.

(** every interleaving of the work items' atomic row updates: threading ... *)
Theorem C02_threading_schedule_independent :
  forall (R : Type) (rO rI : R) (radd rmul rsub : R -> R -> R) (ropp : R -> R),
    ring_theory rO rI radd rmul rsub ropp (@eq R) ->
  forall p n_cues all n es tr m o c,
    (0 <= n_cues < two32)%Z -> NoDup all -> Forall oko32 all ->
    cues_ok (okc_n n_cues) es -> (1 <= n)%nat ->
    interleaving (map (fun part => item_actions part es) (slice_list all n)) tr ->
    oko32 o -> okc_n n_cues c ->
    kget R rO n_cues (run_trace R rO radd rmul rsub (kstore R) (kget R rO n_cues) (kset R n_cues) p tr m) o c =
    if mem_z o all then learn R rO rI radd rmul rsub p es (kget R rO n_cues m) o c
    else kget R rO n_cues m o c.
Proof. exact threading_any_schedule. Qed.
Print Assumptions C02_threading_schedule_independent.

(** ... and OpenMP with the parts of the entry point, a barrier per chunk file *)
Theorem C02_openmp_schedule_independent :
  forall (R : Type) (rO rI : R) (radd rmul rsub : R -> R -> R) (ropp : R -> R),
    ring_theory rO rI radd rmul rsub ropp (@eq R) ->
  forall p n_cues all chunk files trs m o c,
    (0 <= n_cues < two32)%Z -> NoDup all -> Forall oko32 all ->
    (1 <= chunk)%Z -> (Z.of_nat (length all) + chunk <= two32)%Z ->
    Forall (cues_ok (okc_n n_cues)) files ->
    files_interleaved (omp_parts all chunk) files trs ->
    oko32 o -> okc_n n_cues c ->
    kget R rO n_cues (run_files R rO radd rmul rsub (kstore R) (kget R rO n_cues) (kset R n_cues) p
                                (omp_parts all chunk) files trs m) o c =
    if mem_z o all then learn R rO rI radd rmul rsub p (concat files) (kget R rO n_cues m) o c
    else kget R rO n_cues m o c.
Proof. exact openmp_any_chunksize. Qed.
Print Assumptions C02_openmp_schedule_independent.

(** ... end to end with the threads of the parallel regions ([schedule="dynamic", chunksize=1]: an idle thread
    takes the next part atomically; one region and one barrier per chunk file; one schedule per region) *)
Theorem C02_openmp_workers_end_to_end :
  forall (R : Type) (rO rI : R) (radd rmul rsub : R -> R -> R) (ropp : R -> R),
    ring_theory rO rI radd rmul rsub ropp (@eq R) ->
  forall p n_cues all chunk files n_threads scheds m o c,
    (0 <= n_cues < two32)%Z -> NoDup all -> Forall oko32 all ->
    (1 <= chunk)%Z -> (Z.of_nat (length all) + chunk <= two32)%Z ->
    Forall (cues_ok (okc_n n_cues)) files -> (1 <= n_threads)%nat ->
    files_done (omp_parts all chunk) n_threads files scheds ->
    oko32 o -> okc_n n_cues c ->
    kget R rO n_cues (run_files R rO radd rmul rsub (kstore R) (kget R rO n_cues) (kset R n_cues) p
                                (omp_parts all chunk) files
                                (file_traces (omp_parts all chunk) n_threads files scheds) m) o c =
    if mem_z o all then learn R rO rI radd rmul rsub p (concat files) (kget R rO n_cues m) o c
    else kget R rO n_cues m o c.
Proof. exact openmp_workers_any_schedule. Qed.
Print Assumptions C02_openmp_workers_end_to_end.

(** non-vacuity: two chunk files, three parts, two threads; both regions end *)
Example C02_openmp_regions_end :
  files_done (omp_parts [5%Z; 6%Z; 7%Z] 1) 2 [[([1%Z], [5%Z])]; [([2%Z], [6%Z]); ([1%Z], [7%Z])]]
             [concat (repeat [0; 1]%nat 30); concat (repeat [1; 0]%nat 30)].
Proof. vm_compute. repeat split; reflexivity. Qed.

(** non-vacuity: a real interleaving of two work items *)
Example C02_interleaving_exists :
  interleaving (map (fun part => item_actions part [([1%Z], [5%Z])]) (slice_list [5%Z; 6%Z; 7%Z] 2))
               [(1%nat, (7%Z, ([1%Z], [5%Z]))); (0%nat, (5%Z, ([1%Z], [5%Z]))); (0%nat, (6%Z, ([1%Z], [5%Z])))].
Proof.
  intros [|[|[|i]]]; vm_compute; reflexivity.
Qed.

(** * A second worker protocol: no lock, [get_nowait()] until [queue.Empty] (QueueNowait.v).
      One step of a thread that asks the queue for work is one atomic queue operation; the machine is the lock machine
      on a stretched schedule, so every theorem above that holds for every schedule holds for it.  The check aligns the
      real worker threads step by step with the lock machine (model 205) and, if the code does not follow that one,
      with this machine (model 206). *)
Theorem C02_nowait_is_a_lock_run : forall (A : Type) (seqs : list (list A)) fails sched (s : @fstate A),
  nrun seqs fails sched s = frun seqs fails (expand seqs fails s sched) s.
Proof. exact @nrun_is_frun. Qed.
Print Assumptions C02_nowait_is_a_lock_run.

(** in every reachable state the lock is free and every thread is between two queue operations ... *)
Theorem C02_nowait_quiet : forall (A : Type) (seqs : list (list A)) fails items n sched,
  quiet (nrun seqs fails sched (@finit A items n)).
Proof. exact @quiet_reachable. Qed.
Print Assumptions C02_nowait_quiet.

(** ... so the step of a live thread that asks for work takes the head of the queue and starts on it, in one move, or,
    on an empty queue, leaves the loop: nothing else changes *)
Theorem C02_nowait_take_is_atomic : forall (A : Type) (seqs : list (list A)) fails (s : @fstate A) t,
  quiet s -> at_start s t = true ->
  nstep seqs fails s t =
  match queue (qs (ws s)) with
  | i :: r => {| ws := {| qs := {| queue := r; lock := None; pcs := set_pc (pcs (qs (ws s))) t (PWork i);
                                   finished := finished (qs (ws s)) |};
                          prog := QueueTrace.upd (prog (ws s)) t 0; wtrace := wtrace (ws s) |};
                 dead := dead s; errs := errs s |}
  | [] => {| ws := {| qs := {| queue := []; lock := None; pcs := set_pc (pcs (qs (ws s))) t PDone;
                               finished := finished (qs (ws s)) |};
                      prog := prog (ws s); wtrace := wtrace (ws s) |};
             dead := dead s; errs := errs s |}
  end.
Proof.
  intros A seqs fails s t [Hl _] Hst. destruct (queue (qs (ws s))) as [|i r] eqn:Hq.
  - now apply nstep_take_empty.
  - now apply nstep_take_item.
Qed.
Print Assumptions C02_nowait_take_is_atomic.

(** end to end: whatever the schedule and whichever kernel calls fail, if all threads ended and no error was recorded
    the memory holds the sequential result for the call's outcomes and is untouched elsewhere *)
Theorem C02_nowait_workers_end_to_end :
  forall (R : Type) (rO rI : R) (radd rmul rsub : R -> R -> R) (ropp : R -> R),
    ring_theory rO rI radd rmul rsub ropp (@eq R) ->
  forall p n_cues all n es n_threads (fails : nat -> nat -> bool) sched m o c,
    (0 <= n_cues < two32)%Z -> NoDup all -> Forall oko32 all ->
    cues_ok (okc_n n_cues) es -> (1 <= n)%nat -> (1 <= n_threads)%nat ->
    let seqs := map (fun part => item_actions part es) (slice_list all n) in
    let s := nrun seqs fails sched (finit (seq 0 (length seqs)) n_threads) in
    f_all_done s = true -> call_raises s = None ->
    oko32 o -> okc_n n_cues c ->
    kget R rO n_cues (run_trace R rO radd rmul rsub (kstore R) (kget R rO n_cues) (kset R n_cues) p (wtrace (ws s)) m) o c =
    if mem_z o all then learn R rO rI radd rmul rsub p es (kget R rO n_cues m) o c
    else kget R rO n_cues m o c.
Proof. exact threading_nowait_workers_any_schedule. Qed.
Print Assumptions C02_nowait_workers_end_to_end.

(** non-vacuity: two threads, three one-action items; twelve steps end the run (the lock machine needs more) *)
Example C02_nowait_run_exists :
  let seqs := repeat [tt] 3 in
  let s := nrun seqs (fun _ _ => false) [0; 0; 0; 1; 1; 1; 0; 0; 0; 1; 0; 1]%nat (finit (seq 0 3) 2) in
  f_all_done s = true /\ map fst (wtrace (ws s)) = [0; 1; 2]%nat /\ finished (qs (ws s)) = [0; 1; 2]%nat /\
  f_all_done (frun seqs (fun _ _ => false) [0; 0; 0; 1; 1; 1; 0; 0; 0; 1; 0; 1]%nat (finit (seq 0 3) 2)) = false.
Proof. vm_compute. repeat split; reflexivity. Qed.
