(** C12 - activations are the cue-wise sums of weights on every code path.
    Model: Activation.v (pyndl/activation.py, line by line).  [act] / [sum_over]
    / [step] are the functions of RWSpec.v that C01 and C13 speak about. *)
From Coq Require Import ZArith List Bool Ring Permutation QArith Qcanon.
From PV Require Import BinFmt RWSpec Activation ActivationProofs RunC12.
Import ListNotations.
Open Scope Z_scope.

(** what reaches the summation under the three duplicate policies: None raises
    exactly on a repeated cue and otherwise passes the cues on, True passes the
    SET of cues, False the list with every repetition *)
Theorem C12_duplicate_policy : forall cs : list Z,
  (prep_cues PNone cs = None <-> ~ NoDup cs) /\
  (NoDup cs -> prep_cues PNone cs = Some cs) /\
  (exists s, prep_cues PTrue cs = Some s /\ NoDup s /\ forall c, In c s <-> In c cs) /\
  prep_cues PFalse cs = Some cs /\
  (forall p s, prep_cues p cs = Some s -> s = prep_list p cs).
Proof. exact prep_cues_policies. Qed.
Print Assumptions C12_duplicate_policy.

(** labelled-matrix weights, one process or a pool: for EVERY matrix (labels may
    even repeat), every event list, every policy, both ignore settings, every
    n_jobs >= 1, every content of the uninitialised buffer and every run of the
    pool (any assignment of the events to workers, any completion order), the
    call either returns a table with the outcome labels of the weights, one
    column per event, and in cell (i, e) the sum over the prepared cues of event
    e (those the weights know, when missing cues are ignored) of the weight
    labelled with that cue in row i - each cue once under True/None, with
    multiplicity under False (C12_multiplicity), 0 for an empty cue list - or it
    raises because some event is not acceptable (C12_first_bad_event) *)
Theorem C12_matrix :
  forall (R : Type) (rO rI : R) (radd rmul rsub : R -> R -> R) (ropp : R -> R),
    ring_theory rO rI radd rmul rsub ropp (@eq R) ->
  forall (M : matrix R) (p : pol) (ign : bool) (n_jobs : Z) (junk : buf2 R)
         (tr : list (nat * task)) (evs : list (list Z)),
    shape_ok R M = true -> valid_run R M p ign n_jobs tr evs ->
    match activation_matrix R rO radd M p ign n_jobs junk tr evs with
    | Ok A =>
      Forall (event_ok p ign (m_cues M)) evs /\
      a_outcomes A = m_outcomes M /\ a_events A = zlen evs /\
      forall i e, 0 <= i < zlen (m_outcomes M) -> 0 <= e < zlen evs ->
        a_val A i e = act R rO radd (Wlab R rO M) i
                          (known (m_cues M) ign (prep_list p (nth (Z.to_nat e) evs [])))
    | Err x => (x = EDup \/ x = EKey) /\ ~ Forall (event_ok p ign (m_cues M)) evs
    end.
Proof. exact act_matrix_spec. Qed.
Print Assumptions C12_matrix.

(** "with multiplicity": a sum over a cue list is the sum over the cue set of
    (number of occurrences) x weight; the empty list sums to 0 *)
Theorem C12_multiplicity :
  forall (R : Type) (rO rI : R) (radd rmul rsub : R -> R -> R) (ropp : R -> R),
    ring_theory rO rI radd rmul rsub ropp (@eq R) ->
  forall (f : Z -> R) (cs : list Z),
    sum_over R rO radd f cs =
    sum_over R rO radd (fun c => rmul (of_nat R rO rI radd (countz c cs)) (f c)) (dedup cs).
Proof. exact sum_over_multiplicity. Qed.
Print Assumptions C12_multiplicity.

Theorem C12_empty_event : forall (R : Type) (rO : R) (radd : R -> R -> R) (W : wfun R) o,
  act R rO radd W o [] = rO.
Proof. reflexivity. Qed.
Print Assumptions C12_empty_event.

(** the iteration order of the Python set of cues is irrelevant *)
Theorem C12_set_order :
  forall (R : Type) (rO rI : R) (radd rmul rsub : R -> R -> R) (ropp : R -> R),
    ring_theory rO rI radd rmul rsub ropp (@eq R) ->
  forall (W : wfun R) o cs cs', Permutation cs cs' -> act R rO radd W o cs = act R rO radd W o cs'.
Proof. exact act_set_order. Qed.
Print Assumptions C12_set_order.

(** single process and every run of the pool agree: same table, same exception *)
Theorem C12_paths_agree :
  forall (R : Type) (rO rI : R) (radd rmul rsub : R -> R -> R) (ropp : R -> R),
    ring_theory rO rI radd rmul rsub ropp (@eq R) ->
  forall (M : matrix R) p ign nj1 (junk1 : buf2 R) tr1 nj2 (junk2 : buf2 R) tr2 evs,
    shape_ok R M = true ->
    valid_run R M p ign nj1 tr1 evs -> valid_run R M p ign nj2 tr2 evs ->
    same_res R (activation_matrix R rO radd M p ign nj1 junk1 tr1 evs)
               (activation_matrix R rO radd M p ign nj2 junk2 tr2 evs).
Proof. exact act_paths_agree. Qed.
Print Assumptions C12_paths_agree.

(** the dictionary path agrees with the matrix path on a dict of dicts that
    holds the same weights: plain rows behave like ignore_missing_cues=False,
    defaultdict / WeightDict rows like ignore_missing_cues=True (the flag
    itself is not looked at on this path).  When both raise, the class may
    differ: the dictionary path finds every repeated cue before it reads a row
    (C12_dict_errors), the matrix path goes event by event (C12_first_bad_event) *)
Theorem C12_paths_agree_dict :
  forall (R : Type) (rO rI : R) (radd rmul rsub : R -> R -> R) (ropp : R -> R),
    ring_theory rO rI radd rmul rsub ropp (@eq R) ->
  forall (D : dict R) (M : matrix R) p ign n_jobs (junk : buf2 R) tr evs,
    shape_ok R M = true -> valid_run R M p ign n_jobs tr evs -> represents R rO D M ->
    ((ign = false /\ plain_rows R D M /\ D <> []) \/ (ign = true /\ default_rows R D)) ->
    same_res_upto_error R (activation_matrix R rO radd M p ign n_jobs junk tr evs)
                          (dict_res R rO (zlen evs) (activation_dict R rO radd D p 1 evs)).
Proof. exact dict_agrees. Qed.
Print Assumptions C12_paths_agree_dict.

Theorem C12_dict_errors :
  forall (R : Type) (rO rI : R) (radd rmul rsub : R -> R -> R) (ropp : R -> R),
    ring_theory rO rI radd rmul rsub ropp (@eq R) ->
  forall (D : dict R) p n_jobs evs,
    (n_jobs <> 1 -> activation_dict R rO radd D p n_jobs evs = Err EAssert) /\
    (activation_dict R rO radd D p 1 evs = Err EDup <-> p = PNone /\ exists e, In e evs /\ ~ NoDup e) /\
    (activation_dict R rO radd D p 1 evs = Err EKey <->
     (p = PNone -> Forall (@NoDup Z) evs) /\
     exists o r e c, In (o, r) D /\ d_default r = false /\ In e evs /\ In c e /\ ~ In c (d_keys r)).
Proof. exact dict_errors. Qed.
Print Assumptions C12_dict_errors.

(** unknown cues with labelled-matrix weights: (when no event repeats a cue
    under None) a KeyError iff ignore_missing_cues is false and some cue of
    some event is not a cue label of the weights; with ignore_missing_cues the
    call succeeds and an unknown cue contributes nothing - the cell is the sum
    over ALL prepared cues of the labelled weight, which is 0 for an unknown cue *)
Theorem C12_missing_cue :
  forall (R : Type) (rO rI : R) (radd rmul rsub : R -> R -> R) (ropp : R -> R),
    ring_theory rO rI radd rmul rsub ropp (@eq R) ->
  forall (M : matrix R) p ign n_jobs (junk : buf2 R) tr evs,
    shape_ok R M = true -> valid_run R M p ign n_jobs tr evs ->
    (p = PNone -> Forall (@NoDup Z) evs) ->
    (activation_matrix R rO radd M p ign n_jobs junk tr evs = Err EKey <->
     ign = false /\ exists e c, In e evs /\ In c e /\ ~ In c (m_cues M)) /\
    (ign = true ->
     exists A, activation_matrix R rO radd M p ign n_jobs junk tr evs = Ok A /\
       forall i e, 0 <= i < zlen (m_outcomes M) -> 0 <= e < zlen evs ->
         a_val A i e = act R rO radd (Wlab R rO M) i (prep_list p (nth (Z.to_nat e) evs []))) /\
    (forall i c, ~ In c (m_cues M) -> Wlab R rO M i c = rO).
Proof. exact act_missing_cue. Qed.
Print Assumptions C12_missing_cue.

(** which exception in general: the generators are consumed event by event, the
    first event that is not acceptable decides - a repeated cue under None is
    the ValueError, an unknown cue without ignore_missing_cues the KeyError *)
Theorem C12_first_bad_event :
  forall (R : Type) (rO rI : R) (radd rmul rsub : R -> R -> R) (ropp : R -> R),
    ring_theory rO rI radd rmul rsub ropp (@eq R) ->
  forall (M : matrix R) p ign n_jobs (junk : buf2 R) tr evs x,
    shape_ok R M = true -> 1 <= n_jobs ->
    (activation_matrix R rO radd M p ign n_jobs junk tr evs = Err x <->
     exists good bad rest, evs = good ++ bad :: rest /\ Forall (event_ok p ign (m_cues M)) good /\
       ((x = EDup /\ p = PNone /\ ~ NoDup bad) \/
        (x = EKey /\ (p = PNone -> NoDup bad) /\ ign = false /\
         exists c, In c bad /\ ~ In c (m_cues M)))).
Proof. exact act_errors. Qed.
Print Assumptions C12_first_bad_event.

(** weights whose values do not have the shape (outcomes, cues) are refused *)
Theorem C12_shape :
  forall (R : Type) (rO : R) (radd : R -> R -> R) (M : matrix R) p ign n_jobs (junk : buf2 R) tr evs,
    shape_ok R M = false -> activation_matrix R rO radd M p ign n_jobs junk tr evs = Err EShape.
Proof. exact act_shape_error. Qed.
Print Assumptions C12_shape.

(** link to learning (C01): for an event without repeated cues whose cues the
    weights know, [activation] returns in cell (i, 0) the activation
    [act W o cues] that the Rescorla-Wagner step uses, and the step moves every
    present cue by alpha_c * beta * (target - that cell), beta/target being
    beta1/lambda for a present and beta2/0 for an absent outcome; absent cues
    do not move *)
Theorem C12_one_step :
  forall (R : Type) (rO rI : R) (radd rmul rsub : R -> R -> R) (ropp : R -> R),
    ring_theory rO rI radd rmul rsub ropp (@eq R) ->
  forall (p : params R) (e : event) (W : wfun R) o (M : matrix R) i pl ign n_jobs (junk : buf2 R) tr,
    shape_ok R M = true -> valid_run R M pl ign n_jobs tr [fst e] ->
    0 <= i < zlen (m_outcomes M) -> NoDup (fst e) ->
    (forall c, In c (fst e) -> In c (m_cues M) /\ Wlab R rO M i c = W o c) ->
    exists A, activation_matrix R rO radd M pl ign n_jobs junk tr [fst e] = Ok A /\
      a_val A i 0 = act R rO radd W o (fst e) /\
      (forall c, In c (fst e) ->
         rsub (step R rO rI radd rmul rsub p e W o c) (W o c) =
         rmul (alpha p c) (rmul (if mem_z o (snd e) then beta1 p else beta2 p)
                                (rsub (if mem_z o (snd e) then lam p else rO) (a_val A i 0)))) /\
      (forall c, ~ In c (fst e) -> step R rO rI radd rmul rsub p e W o c = W o c).
Proof. exact act_one_step. Qed.
Print Assumptions C12_one_step.

(** * non-vacuity *)
Example C12_Qc_is_a_ring : ring_theory 0%Qc 1%Qc Qcplus Qcmult Qcminus Qcopp (@eq Qc).
Proof. exact Qcrt. Qed.

(** a 2 x 3 matrix whose cue label 7 occurs twice (columns 0 and 2: the last
    one counts), values [i][k] = (3 i + k + 1) / 8 *)
Definition exM : matrix Qc :=
  {| m_outcomes := [100; 101]; m_cues := [7; 8; 7]; m_rows := 2; m_cols := 3;
     m_val := fun i k => Q2Qc ((3 * i + k + 1) # 8) |}.
Definition ex_events : list (list Z) := [[8; 7; 8]; []; [9]; [7; 9; 7]].
Definition ex_cells (r : res (atable Qc)) : option (list (list Z)) :=
  match r with
  | Ok A => Some (map (fun i => flat_map (fun e => [Qnum (this (a_val A i e)); Zpos (Qden (this (a_val A i e)))])
                                         (zrange (a_events A))) (zrange (zlen (a_outcomes A))))
  | Err _ => None
  end.

Example C12_ex_shape : shape_ok Qc exM = true.
Proof. reflexivity. Qed.

(** remove_duplicates=False keeps the multiplicity (event 0: 2/8+3/8+2/8, event
    3: 3/8+3/8), True does not; the unknown cue 9 is skipped; [] gives 0 *)
Example C12_ex_false_ignore :
  ex_cells (activation_matrix Qc 0%Qc Qcplus exM PFalse true 1 (fun _ _ => Q2Qc (5 # 1)) [] ex_events)
  = Some [[7; 8; 0; 1; 0; 1; 3; 4]; [2; 1; 0; 1; 0; 1; 3; 2]].
Proof. vm_compute. reflexivity. Qed.

Example C12_ex_true_ignore :
  ex_cells (activation_matrix Qc 0%Qc Qcplus exM PTrue true 1 (fun _ _ => Q2Qc (5 # 1)) [] ex_events)
  = Some [[5; 8; 0; 1; 0; 1; 3; 8]; [11; 8; 0; 1; 0; 1; 3; 4]].
Proof. vm_compute. reflexivity. Qed.

(** the pool with 3 workers finishing the four events in the order 2, 0, 3, 1 *)
Definition ex_trace : list (nat * task) :=
  [(2%nat, (2, [])); (0%nat, (0, [1; 2; 1])); (1%nat, (3, [2; 2])); (0%nat, (1, []))].

Example C12_ex_valid_run : valid_run Qc exM PFalse true 3 ex_trace ex_events.
Proof.
  split; [discriminate|]. intros _ ixs H. vm_compute in H. injection H as <-.
  unfold pool_trace. cbn.
  apply Permutation_trans with (l' := [(0, [1; 2; 1]); (2, []); (3, [2; 2]); (1, [])]); [apply perm_swap|].
  apply perm_skip.
  apply Permutation_trans with (l' := [(2, []); (1, []); (3, [2; 2])]); [apply perm_skip, perm_swap|].
  apply perm_swap.
Qed.

Example C12_ex_pool :
  ex_cells (activation_matrix Qc 0%Qc Qcplus exM PFalse true 3 (fun _ _ => 0%Qc) ex_trace ex_events)
  = Some [[7; 8; 0; 1; 0; 1; 3; 4]; [2; 1; 0; 1; 0; 1; 3; 2]].
Proof. vm_compute. reflexivity. Qed.

(** without ignore_missing_cues the third event raises the KeyError; under None
    the first event (cue 8 twice) raises the ValueError before that *)
Example C12_ex_keyerror :
  activation_matrix Qc 0%Qc Qcplus exM PTrue false 1 (fun _ _ => 0%Qc) [] ex_events = Err EKey.
Proof. vm_compute. reflexivity. Qed.

Example C12_ex_valueerror :
  activation_matrix Qc 0%Qc Qcplus exM PNone false 1 (fun _ _ => 0%Qc) [] ex_events = Err EDup.
Proof. vm_compute. reflexivity. Qed.

(** the dictionary path: a WeightDict-like row grows by the cues it did not have,
    a plain row raises *)
Definition ex_row (dflt : bool) : drow Qc :=
  {| d_keys := [7; 8]; d_get := fun c => if c =? 7 then Q2Qc (3 # 8) else Q2Qc (2 # 8); d_default := dflt |}.

Example C12_ex_dict_default :
  match activation_dict Qc 0%Qc Qcplus [(100, ex_row true)] PFalse 1 ex_events with
  | Ok (L, D') => (map (fun ov => (fst ov, map (fun q => (Qnum (this q), Zpos (Qden (this q)))) (snd ov))) L,
                   map (fun orow => d_keys (snd orow)) D')
  | Err _ => ([], [])
  end = ([(100, [(7, 8); (0, 1); (0, 1); (3, 4)])], [[7; 8; 9]]).
Proof. vm_compute. reflexivity. Qed.

Example C12_ex_dict_plain :
  activation_dict Qc 0%Qc Qcplus [(100, ex_row false)] PFalse 1 ex_events = Err EKey.
Proof. vm_compute. reflexivity. Qed.

(** the flat entry point used by the harness computes the same thing *)
Example C12_ex_runner :
  m_act_matrix [2; 1; 1; 2; 3;  2; 100; 101;  3; 7; 8; 7;
                1; 8; 2; 8; 3; 8; 4; 8; 5; 8; 6; 8;  5; 1;  0;
                4;  3; 8; 7; 8;  0;  1; 9;  3; 7; 9; 7]
  = [0; 2; 100; 101; 4;  7; 8; 0; 1; 0; 1; 3; 4;  2; 1; 0; 1; 0; 1; 3; 2].
Proof. vm_compute. reflexivity. Qed.
