(** C18 - the parallel correlation equals Pearson's correlation. *)
From Coq Require Import ZArith List Bool Arith QArith Qcanon Permutation.
From PV Require Import Sched Corr CorrProofs.
Import ListNotations.
Open Scope Qc_scope.

(** the numerator of the kernel cell is the sum of the products of the
    deviations as soon as the means it is handed are the column means *)
Theorem C18_cov_identity : forall xs ys mx my,
  length xs = length ys -> (0 < length xs)%nat ->
  mx = qsum xs / qn (length xs) -> my = qsum ys / qn (length xs) ->
  dot xs ys - qn (length xs) * mx * my = sdp mx my xs ys.
Proof. exact cov_identity_lemma. Qed.
Print Assumptions C18_cov_identity.

(** square-root-free characterisation of Pearson's r: with the true means and
    ANY positive numbers whose squares are the sample variances (ddof = 1), the
    kernel cell r satisfies  r^2 * SSx * SSy = Sxy^2  and has the sign of Sxy *)
Theorem C18_pearson : forall xs ys mx my sx sy,
  length ys = length xs -> (2 <= length xs)%nat ->
  mx = qsum xs / qn (length xs) -> my = qsum ys / qn (length xs) ->
  sx * sx = ssd mx xs / (qn (length xs) - 1) ->
  sy * sy = ssd my ys / (qn (length xs) - 1) ->
  0 < sx -> 0 < sy ->
  let r := cell_cols (length xs) xs ys mx sx my sy in
  r * r * ssd mx xs * ssd my ys = sdp mx my xs ys * sdp mx my xs ys /\
  sgn r = sgn (sdp mx my xs ys).
Proof. exact pearson_char. Qed.
Print Assumptions C18_pearson.

(** ... hence r^2 and sign r are the two numbers the executable wrapper model reports *)
Theorem C18_pearson_r2 : forall xs ys sx sy,
  length ys = length xs -> (2 <= length xs)%nat ->
  sx * sx = ssd (mean xs) xs / (qn (length xs) - 1) ->
  sy * sy = ssd (mean ys) ys / (qn (length xs) - 1) ->
  0 < sx -> 0 < sy ->
  let r := cell_cols (length xs) xs ys (mean xs) sx (mean ys) sy in
  r * r = pearson_r2 xs ys /\ sgn r = sgn (cov_of xs ys).
Proof. exact pearson_r2_char. Qed.
Print Assumptions C18_pearson_r2.

(** cell (j,i) of the kernel is a function of column j of the semantics,
    column i of the activations and the j-th / i-th statistics only *)
Theorem C18_cell_local : forall sem sem' act act' n st st' j i,
  column sem n j = column sem' n j -> column act n i = column act' n i ->
  nth j (s_means st) 0 = nth j (s_means st') 0 -> nth j (s_stds st) 0 = nth j (s_stds st') 0 ->
  nth i (a_means st) 0 = nth i (a_means st') 0 -> nth i (a_stds st) 0 = nth i (a_stds st') 0 ->
  cell sem act n st j i = cell sem' act' n st' j i.
Proof. exact cell_local. Qed.
Print Assumptions C18_cell_local.

Theorem C18_cell_is_column_function : forall sem act n st j i,
  cell sem act n st j i =
  cell_cols n (column sem n j) (column act n i)
            (nth j (s_means st) 0) (nth j (s_stds st) 0) (nth i (a_means st) 0) (nth i (a_stds st) 0).
Proof. exact cell_is_cell_cols. Qed.
Print Assumptions C18_cell_is_column_function.

(** the chunks of [schedule='dynamic', chunksize=c] partition the event range *)
Theorem C18_omp_chunks_partition : forall n_events c,
  (1 <= c)%nat -> concat (omp_chunks n_events c) = seq 0 n_events.
Proof. exact omp_chunks_concat. Qed.
Print Assumptions C18_omp_chunks_partition.

(** for every chunk size, every number of threads ([length asg]), every
    assignment of the chunks to the threads and every interleaving of the
    threads: every cell of the result is written exactly once, nothing else is
    written, and the result matrix holds the cell values *)
Theorem C18_schedule_independent : forall cellf n_out n_ev c asg tr,
  (1 <= c)%nat ->
  Permutation (concat asg) (seq 0 (length (omp_chunks n_ev c))) ->
  interleaving (thread_seqs n_out (omp_chunks n_ev c) asg) tr ->
  NoDup (map snd tr) /\
  (forall j i, In (j, i) (map snd tr) <-> (j < n_out)%nat /\ (i < n_ev)%nat) /\
  (forall j i, run_writes cellf (map snd tr) zeros j i =
               if (j <? n_out)%nat && (i <? n_ev)%nat then cellf j i else 0).
Proof. exact prange_schedule_independent. Qed.
Print Assumptions C18_schedule_independent.

(** the model that is executed against the implementation (one thread, chunk
    after chunk) is that same matrix *)
Theorem C18_kernel_chunked : forall cellf n_out n_ev c j i,
  (1 <= c)%nat ->
  kernel_chunked cellf n_out n_ev c j i =
  if (j <? n_out)%nat && (i <? n_ev)%nat then cellf j i else 0.
Proof. exact kernel_chunked_spec. Qed.
Print Assumptions C18_kernel_chunked.

(** the wrapper raises iff NaN results were not allowed and some deviation is 0 or NaN *)
Theorem C18_degenerate : forall allow sdevs adevs,
  wrapper_decide allow sdevs adevs <> WCall <->
  allow = false /\ exists d, In d (sdevs ++ adevs) /\ (d = DZero \/ d = DNaN).
Proof. exact wrapper_raises_iff. Qed.
Print Assumptions C18_degenerate.

(** which of the two errors: the semantics are looked at first *)
Theorem C18_degenerate_which : forall allow sdevs adevs,
  (wrapper_decide allow sdevs adevs = WErrSemantics <->
     allow = false /\ exists d, In d sdevs /\ dev_bad d = true) /\
  (wrapper_decide allow sdevs adevs = WErrActivations <->
     allow = false /\ (forall d, In d sdevs -> dev_bad d = false) /\ exists d, In d adevs /\ dev_bad d = true) /\
  (wrapper_decide allow sdevs adevs = WCall <->
     allow = true \/ forall d, In d (sdevs ++ adevs) -> dev_bad d = false).
Proof. exact wrapper_decide_spec. Qed.
Print Assumptions C18_degenerate_which.

(** a deviation is zero exactly for a constant column of >= 2 finite numbers,
    NaN exactly for a column with a NaN or with at most one entry *)
Theorem C18_zero_deviation_iff_constant : forall col,
  col_dev col = DZero <->
  existsb is_nan col = false /\ (2 <= length col)%nat /\ exists c, Forall (fun v => v = Fin c) col.
Proof. exact col_dev_zero_iff. Qed.
Print Assumptions C18_zero_deviation_iff_constant.

Theorem C18_nan_deviation_iff : forall col,
  col_dev col = DNaN <-> existsb is_nan col = true \/ (length col <= 1)%nat.
Proof. exact col_dev_nan_iff. Qed.
Print Assumptions C18_nan_deviation_iff.

(** with a constant column the unchecked kernel divides 0 by 0 *)
Theorem C18_constant_column_zero_numerator : forall xs ys c,
  length xs = length ys -> (0 < length xs)%nat -> Forall (fun y => y = c) ys ->
  dot xs ys - qn (length xs) * mean xs * c = 0.
Proof. exact const_column_numerator_zero. Qed.
Print Assumptions C18_constant_column_zero_numerator.

(** non-vacuity: five points with sample deviations 2 and 2 and r = 1/4 satisfy
    every hypothesis of C18_pearson *)
Definition zq (z : Z) : Qc := Q2Qc (inject_Z z).
Definition ex_xs : list Qc := map zq [0; 0; 2; 4; 4]%Z.
Definition ex_ys : list Qc := map zq [0; 4; 0; 4; 2]%Z.
Example C18_pearson_nonvacuous :
  length ex_ys = length ex_xs /\ (2 <= length ex_xs)%nat /\
  zq 2 = qsum ex_xs / qn (length ex_xs) /\ zq 2 = qsum ex_ys / qn (length ex_xs) /\
  zq 2 * zq 2 = ssd (zq 2) ex_xs / (qn (length ex_xs) - 1) /\
  zq 2 * zq 2 = ssd (zq 2) ex_ys / (qn (length ex_xs) - 1) /\
  0 < zq 2 /\
  cell_cols (length ex_xs) ex_xs ex_ys (zq 2) (zq 2) (zq 2) (zq 2) = Q2Qc (1 # 4) /\
  pearson_r2 ex_xs ex_ys = Q2Qc (1 # 16) /\ sgn (cov_of ex_xs ex_ys) = 1%Z.
Proof.
  repeat split; try (apply Qc_is_canon; vm_compute; reflexivity); try (vm_compute; reflexivity).
  cbn. auto.
Qed.

(** a constant column, a NaN column and a one-entry column are degenerate; a
    two-valued column is not *)
Example C18_degenerate_examples :
  col_dev [Fin (zq 3); Fin (zq 3); Fin (zq 3)] = DZero /\
  col_dev [Fin (zq 3); NaN; Fin (zq 1)] = DNaN /\
  col_dev [Fin (zq 3)] = DNaN /\
  col_dev [Fin (zq 3); Fin (zq 3); Fin (zq 4)] = DPos /\
  wrapper_decide false [DPos; DZero] [DNaN] = WErrSemantics /\
  wrapper_decide false [DPos; DPos] [DPos; DNaN] = WErrActivations /\
  wrapper_decide true [DPos; DZero] [DNaN] = WCall.
Proof. repeat split; vm_compute; reflexivity. Qed.

(** a schedule with 3 events, 2 outcomes, chunk size 2, two threads (thread 0
    gets chunk 1 = [2], thread 1 gets chunk 0 = [0;1]) interleaved *)
Example C18_schedule_nonvacuous :
  let tr := [(1, (0, 0)); (0, (0, 2)); (1, (1, 0)); (1, (0, 1)); (0, (1, 2)); (1, (1, 1))]%nat in
  Permutation (concat [[1]; [0]]%nat) (seq 0 (length (omp_chunks 3 2))) /\
  interleaving (thread_seqs 2 (omp_chunks 3 2) [[1]; [0]]%nat) tr.
Proof.
  split.
  - vm_compute. apply perm_swap.
  - intros [|[|i]]; vm_compute; try reflexivity. destruct i; reflexivity.
Qed.
