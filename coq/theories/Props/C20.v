(** C20 - band sampling returns a valid sub-table; frequency tables persist exactly. *)
From Coq Require Import ZArith List Bool QArith Qcanon Permutation.
From PV Require Import PyText PyTextProofs Band BandProofs.
Import ListNotations.
Open Scope Z_scope.

(** termination: with fuel 2*|population|+1 the loop never runs out of fuel
    (2*|population| - index strictly decreases in every iteration), for every
    population, sample size (also negative), cutoff and shuffle *)
Theorem C20_band_fuel_sufficient : forall (W : Type) (population : list (W * Z)) sample_size cutoff perm,
  bandsample population sample_size cutoff perm <> BOutOfFuel.
Proof. exact @band_fuel_sufficient. Qed.
Print Assumptions C20_band_fuel_sufficient.

(** the sample is a sub-multiset of the entries at or above the cutoff: every
    sampled pair is a pair of the population, frequency unchanged, each entry at
    most once (the shuffle being a permutation) *)
Theorem C20_band_subset : forall (W : Type) (population : list (W * Z)) sample_size cutoff perm s,
  Permutation perm (seq 0 (length (filter (fun e : W * Z => cutoff <=? snd e) population))) ->
  bandsample population sample_size cutoff perm = BOk s ->
  exists rest, Permutation (s ++ rest) (filter (fun e => cutoff <=? snd e) population).
Proof. exact @band_subset. Qed.
Print Assumptions C20_band_subset.

(** whatever the shuffle does, every sampled pair is a population pair at or above the cutoff *)
Theorem C20_band_members : forall (W : Type) (population : list (W * Z)) sample_size cutoff perm s e,
  bandsample population sample_size cutoff perm = BOk s -> In e s ->
  In e population /\ cutoff <= snd e.
Proof. exact @band_members. Qed.
Print Assumptions C20_band_members.

(** the words of the sample are distinct (so Counter(dict(sample)) loses nothing) *)
Theorem C20_band_words_distinct : forall (W : Type) (population : list (W * Z)) sample_size cutoff perm s,
  NoDup (map fst population) ->
  Permutation perm (seq 0 (length (filter (fun e : W * Z => cutoff <=? snd e) population))) ->
  bandsample population sample_size cutoff perm = BOk s ->
  NoDup (map fst s).
Proof. exact @band_words_distinct. Qed.
Print Assumptions C20_band_words_distinct.

(** never more than the requested size (exact arithmetic): sample_size >= 1 and
    every frequency that passes the cutoff is >= 1; no assumption on the shuffle *)
Theorem C20_band_size : forall (W : Type) (population : list (W * Z)) sample_size cutoff perm s,
  1 <= sample_size ->
  (forall e, In e population -> cutoff <= snd e -> 1 <= snd e) ->
  bandsample population sample_size cutoff perm = BOk s ->
  Z.of_nat (length s) <= sample_size.
Proof. exact @band_size. Qed.
Print Assumptions C20_band_size.

(** the hypothesis on the frequencies is needed (zero frequencies: step = 0, everything is sampled) *)
Theorem C20_band_size_zero_freq_refuted :
  exists (population : list (Z * Z)) sample_size cutoff perm s,
    1 <= sample_size /\ bandsample population sample_size cutoff perm = BOk s /\
    ~ Z.of_nat (length s) <= sample_size.
Proof. exact band_size_zero_freq_refuted. Qed.
Print Assumptions C20_band_size_zero_freq_refuted.

(** the argument is only read (pure model; the aliasing fact itself is monitored by the harness) *)
Theorem C20_band_input_unchanged : forall (W : Type) (population : list (W * Z)) sample_size cutoff perm,
  band_argument_after population sample_size cutoff perm = population.
Proof. exact @band_input_unchanged. Qed.
Print Assumptions C20_band_input_unchanged.

(** load_counter (save_counter c) returns exactly the items of c, in most_common
    order, for distinct keys free of tab, LF and CR - the empty key included,
    any other character (surrounding blanks, U+0085, U+2028, ...) allowed, any
    integer count (zero, negative) *)
Theorem C20_counter_roundtrip : forall header (c : counter),
  full_line header -> ~ In CR header ->
  NoDup (map fst c) -> (forall k, In k (map fst c) -> clean_key k) ->
  load_counter (save_counter header c) = Some (most_common c).
Proof. exact counter_roundtrip. Qed.
Print Assumptions C20_counter_roundtrip.

(** ... hence the same finite map *)
Theorem C20_counter_roundtrip_map : forall header (c : counter),
  full_line header -> ~ In CR header ->
  NoDup (map fst c) -> (forall k, In k (map fst c) -> clean_key k) ->
  exists c', load_counter (save_counter header c) = Some c' /\ Permutation c' c /\
             forall k, lookup_key k c' = lookup_key k c.
Proof. exact counter_roundtrip_map. Qed.
Print Assumptions C20_counter_roundtrip_map.

Theorem C20_default_header_ok : full_line default_header /\ ~ In CR default_header.
Proof. exact default_header_ok. Qed.
Print Assumptions C20_default_header_ok.

(** a key containing CR, LF or tab is not read back *)
Theorem C20_counter_roundtrip_dirty_key_refuted :
  forall ch, In ch [CR; LF; TAB] ->
    load_counter (save_counter default_header [([97; ch; 98], 1)]) <> Some [([97; ch; 98], 1)].
Proof. exact counter_roundtrip_dirty_key_refuted. Qed.
Print Assumptions C20_counter_roundtrip_dirty_key_refuted.

Theorem C20_int_of_str : forall z, py_int (dec_Z z) = Some z.
Proof. exact py_int_dec. Qed.
Print Assumptions C20_int_of_str.

(** non-vacuity: six words, cutoff 2 drops one, sample size 2; the back-walk
    picks an earlier word; then the round trip of a counter with the empty key,
    a blank-surrounded key and a negative count *)
Example C20_example_band :
  bandsample [(1, 5); (2, 1); (3, 2); (4, 9); (5, 2); (6, 30)] 2 2 [4; 0; 3; 1; 2]%nat
  = BOk [(6, 30); (4, 9)].
Proof. vm_compute. reflexivity. Qed.

Example C20_example_backwalk :
  bandsample [(1, 1); (2, 1); (3, 10)] 4 0 [0; 1; 2]%nat = BOk [(3, 10); (2, 1); (1, 1)].
Proof. vm_compute. reflexivity. Qed.

Example C20_example_counter :
  load_counter (save_counter default_header [([], 2); ([32; 97; 32], -7); ([8232], 0); ([98], 2)])
  = Some [([], 2); ([98], 2); ([8232], 0); ([32; 97; 32], -7)].
Proof. vm_compute. reflexivity. Qed.

(** the hypotheses of C20_band_subset / C20_band_size hold for the second example *)
Example C20_example_band_hyps :
  Permutation [0; 1; 2]%nat
    (seq 0 (length (filter (fun e : Z * Z => 0 <=? snd e) [(1, 1); (2, 1); (3, 10)]))) /\
  1 <= 4 /\ (forall e : Z * Z, In e [(1, 1); (2, 1); (3, 10)] -> 0 <= snd e -> 1 <= snd e).
Proof.
  split; [apply Permutation_refl|]. split; [discriminate|].
  intros e [<-|[<-|[<-|[]]]] _; discriminate.
Qed.

(** ... and those of the round trip for the counter of the third example *)
Example C20_example_counter_hyps :
  let c : counter := [([], 2); ([32; 97; 32], -7); ([8232], 0); ([98], 2)] in
  NoDup (map fst c) /\ (forall k, In k (map fst c) -> clean_key k).
Proof.
  cbn zeta. split.
  - repeat constructor; cbn; intuition discriminate.
  - intros k [<-|[<-|[<-|[<-|[]]]]]; unfold clean_key, TAB, LF, CR; cbn; intuition discriminate.
Qed.
