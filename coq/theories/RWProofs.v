(** Refinement proofs: the executable learner models compute [RWSpec.learn].
    Everything is proved for an arbitrary commutative ring. *)
From Coq Require Import ZArith List Bool Lia Ring.
From PV Require Import Lists Bytes BinFmt BinFmtProofs Store RWSpec RWExec.
Import ListNotations.

Lemma mem_z_In x l : mem_z x l = true <-> In x l.
Proof.
  induction l as [|y r IH]; cbn; [split; [discriminate|tauto]|].
  rewrite orb_true_iff, Z.eqb_eq, IH. split; intros [H|H]; auto.
Qed.

Lemma mem_z_not_In x l : mem_z x l = false <-> ~ In x l.
Proof. rewrite <- mem_z_In. destruct (mem_z x l); split; congruence. Qed.

Section RWProofs.
  Variable R : Type.
  Variables (rO rI : R) (radd rmul rsub : R -> R -> R) (ropp : R -> R).
  Hypothesis Rth : ring_theory rO rI radd rmul rsub ropp (@eq R).
  Add Ring Rring : Rth.

  Notation params := (params R).
  Notation wfun := (wfun R).
  Notation step := (step R rO rI radd rmul rsub).
  Notation learn := (learn R rO rI radd rmul rsub).
  Notation act := (act R rO radd).
  Notation delta := (delta R rO radd rmul rsub).
  Notation sum_over := (sum_over R rO radd).
  Notation of_nat := (of_nat R rO rI radd).
  Local Infix "+r" := radd (at level 50, left associativity).
  Local Infix "*r" := rmul (at level 40, left associativity).
  Local Infix "-r" := rsub (at level 50, left associativity).

  (** ** sums *)
  Lemma fold_sum_acc (f : Z -> R) cs a :
    fold_left (fun a c => a +r f c) cs a = a +r sum_over f cs.
  Proof.
    unfold RWSpec.sum_over. revert a. induction cs as [|x r IH]; intros a; cbn [fold_left].
    - ring.
    - rewrite IH, (IH (rO +r f x)). ring.
  Qed.

  Lemma sum_over_cons f x r : sum_over f (x :: r) = f x +r sum_over f r.
  Proof. unfold RWSpec.sum_over at 1. cbn [fold_left]. rewrite fold_sum_acc. ring. Qed.

  Lemma sum_over_ext f g cs :
    (forall c, In c cs -> f c = g c) -> sum_over f cs = sum_over g cs.
  Proof.
    induction cs as [|x r IH]; intros H; [reflexivity|].
    rewrite !sum_over_cons. rewrite (H x) by now left.
    rewrite IH; [reflexivity|]. intros c Hc. apply H. now right.
  Qed.

  Lemma sum_over_zero cs : sum_over (fun _ => rO) cs = rO.
  Proof. induction cs as [|x r IH]; [reflexivity|]. rewrite sum_over_cons, IH. ring. Qed.

  Lemma sum_over_app f a b : sum_over f (a ++ b) = sum_over f a +r sum_over f b.
  Proof.
    induction a as [|x r IH]; cbn [app].
    - unfold RWSpec.sum_over at 2. cbn. ring.
    - rewrite !sum_over_cons, IH. ring.
  Qed.

  (** ** the spec is row local *)
  Lemma delta_row_ext p e W W' o :
    (forall c, In c (fst e) -> W o c = W' o c) -> delta p W e o = delta p W' e o.
  Proof.
    intros H. unfold RWSpec.delta, RWSpec.act. now rewrite (sum_over_ext (W o) (W' o)).
  Qed.

  Lemma step_row_ext p e W W' o c :
    (forall c', In c' (fst e) \/ c' = c -> W o c' = W' o c') ->
    step p e W o c = step p e W' o c.
  Proof.
    intros H. unfold RWSpec.step. rewrite (H c) by now right.
    rewrite (delta_row_ext p e W W' o); [reflexivity|]. intros c' Hc'. apply H. now left.
  Qed.

  Definition cues_ok (okc : Z -> Prop) (es : list event) : Prop :=
    Forall (fun e => Forall okc (fst e)) es.

  Lemma learn_row_ext (okc : Z -> Prop) p es W W' o :
    cues_ok okc es ->
    (forall c, okc c -> W o c = W' o c) ->
    forall c, okc c -> learn p es W o c = learn p es W' o c.
  Proof.
    revert W W'. induction es as [|e r IH]; intros W W' Hok H c Hc; cbn [RWSpec.learn fold_left].
    - now apply H.
    - inversion Hok as [|? ? He Hr]; subst.
      apply (IH (step p e W) (step p e W')); [exact Hr| |exact Hc].
      intros c' Hc'. apply step_row_ext. intros c'' [Hin| ->]; apply H; [|exact Hc'].
      rewrite Forall_forall in He. now apply He.
  Qed.

  Lemma learn_app p es1 es2 W : learn p (es1 ++ es2) W = learn p es2 (learn p es1 W).
  Proof. unfold RWSpec.learn. now rewrite fold_left_app. Qed.

  (** rows of outcomes that never occur and start at zero stay zero *)
  Lemma step_zero_row p e W o :
    mem_z o (snd e) = false -> (forall c, W o c = rO) -> forall c, step p e W o c = rO.
  Proof.
    intros Ho Hz c. unfold RWSpec.step, RWSpec.delta, RWSpec.act. rewrite Ho, Hz.
    rewrite (sum_over_ext (W o) (fun _ => rO)) by (intros; apply Hz).
    rewrite sum_over_zero. ring.
  Qed.

  (** ** the loops over an abstract matrix store *)
  Section Mx.
    Variable S : Type.
    Variable g : S -> Z -> Z -> R.
    Variable st : S -> Z -> Z -> R -> S.
    Variables (oko okc : Z -> Prop).
    Hypothesis gss : forall s o c v, oko o -> okc c -> g (st s o c v) o c = v.
    Hypothesis gso : forall s o c v o' c', oko o -> okc c -> oko o' -> okc c' ->
        (o, c) <> (o', c') -> g (st s o c v) o' c' = g s o' c'.

    Notation mx_bump := (mx_bump R radd rmul S g st).
    Notation mx_outcome := (mx_outcome R rO radd rmul rsub S g st).
    Notation mx_event := (mx_event R rO radd rmul rsub S g st).
    Notation mx_events := (mx_events R rO radd rmul rsub S g st).

    Lemma bump_same al u o cs s c :
      oko o -> Forall okc cs -> okc c ->
      g (mx_bump al u o cs s) o c = g s o c +r of_nat (countz c cs) *r (al c *r u).
    Proof.
      intros Ho Hcs Hc. revert s. induction Hcs as [|x r Hx Hr IH]; intros s.
      - cbn. ring.
      - unfold RWExec.mx_bump in *. cbn [fold_left countz]. rewrite IH.
        destruct (Z.eqb_spec c x) as [->|Hne].
        + rewrite gss by assumption. cbn [RWSpec.of_nat]. ring.
        + rewrite gso by (try assumption; congruence). reflexivity.
    Qed.

    Lemma bump_other al u o cs s o' c' :
      oko o -> Forall okc cs -> oko o' -> okc c' -> o' <> o ->
      g (mx_bump al u o cs s) o' c' = g s o' c'.
    Proof.
      intros Ho Hcs Ho' Hc' Hne. revert s. induction Hcs as [|x r Hx Hr IH]; intros s; [reflexivity|].
      unfold RWExec.mx_bump in *. cbn [fold_left]. rewrite IH.
      apply gso; try assumption. congruence.
    Qed.

    Lemma outcome_same p e s o c :
      oko o -> Forall okc (fst e) -> okc c ->
      g (mx_outcome p e s o) o c = step p e (g s) o c.
    Proof.
      intros Ho He Hc. unfold RWExec.mx_outcome. rewrite bump_same by assumption.
      reflexivity.
    Qed.

    Lemma outcome_other p e s o o' c' :
      oko o -> Forall okc (fst e) -> oko o' -> okc c' -> o' <> o ->
      g (mx_outcome p e s o) o' c' = g s o' c'.
    Proof. intros. unfold RWExec.mx_outcome. now apply bump_other. Qed.

    Lemma event_spec p outs s e o c :
      NoDup outs -> Forall oko outs -> Forall okc (fst e) -> oko o -> okc c ->
      g (mx_event p outs s e) o c =
      if mem_z o outs then step p e (g s) o c else g s o c.
    Proof.
      intros Hnd Houts He Ho Hc. revert s.
      induction outs as [|x r IH]; intros s; [reflexivity|].
      inversion Hnd as [|? ? Hx Hr]; subst. inversion Houts as [|? ? Hox Hor]; subst.
      unfold RWExec.mx_event in *. cbn [fold_left mem_z]. rewrite (IH Hr Hor).
      destruct (Z.eqb_spec o x) as [->|Hne]; cbn [orb].
      - apply mem_z_not_In in Hx. rewrite Hx. now apply outcome_same.
      - destruct (mem_z o r).
        + apply step_row_ext. intros c' [Hin| ->]; apply outcome_other; auto.
          rewrite Forall_forall in He. now apply He.
        + now apply outcome_other.
    Qed.

    Theorem events_spec p outs es s o c :
      NoDup outs -> Forall oko outs -> cues_ok okc es -> oko o -> okc c ->
      g (mx_events p outs es s) o c =
      if mem_z o outs then learn p es (g s) o c else g s o c.
    Proof.
      intros Hnd Houts Hes Ho Hc. revert s.
      induction Hes as [|e r He Hr IH]; intros s.
      - cbn. now destruct (mem_z o outs).
      - unfold RWExec.mx_events in *. cbn [fold_left RWSpec.learn]. rewrite IH.
        destruct (mem_z o outs) eqn:Hm.
        + apply (learn_row_ext okc); [exact Hr| |exact Hc].
          intros c' Hc'. rewrite event_spec by assumption. now rewrite Hm.
        + rewrite event_spec by assumption. now rewrite Hm.
    Qed.
  End Mx.

  (** ** dict_ndl *)
  Notation dget := (dget R rO).
  Notation dict_event := (dict_event R rO radd rmul rsub).
  Notation dict_run := (dict_run R rO radd rmul rsub).

  Lemma union_outs_spec all os :
    NoDup all ->
    NoDup (union_outs all os) /\ (forall o, In o (union_outs all os) <-> In o all \/ In o os).
  Proof.
    unfold union_outs. revert all. induction os as [|x r IH]; intros all Hnd; cbn [fold_left].
    - split; [exact Hnd|]. intros o. cbn. tauto.
    - destruct (mem_z x all) eqn:Hx.
      + destruct (IH all Hnd) as [H1 H2]. split; [exact H1|]. intros o. rewrite H2.
        apply mem_z_In in Hx. cbn. split; [tauto|]. intros [H|[<-|H]]; auto.
      + apply mem_z_not_In in Hx.
        assert (Hnd' : NoDup (all ++ [x])) by (now apply NoDup_snoc).
        destruct (IH _ Hnd') as [H1 H2]. split; [exact H1|]. intros o. rewrite H2, in_app_iff.
        cbn. tauto.
  Qed.

  Definition dict_inv (stt : list Z * dstore R) (W : wfun) : Prop :=
    NoDup (fst stt) /\
    (forall o c, dget (snd stt) o c = W o c) /\
    (forall o, ~ In o (fst stt) -> forall c, W o c = rO).

  Lemma dict_event_inv p stt e W :
    dict_inv stt W -> dict_inv (dict_event p stt e) (step p e W).
  Proof.
    intros (Hnd & Hrep & Hz). destruct stt as [all s]. cbn [fst snd] in *.
    destruct (union_outs_spec all (snd e) Hnd) as [Hnd' Hin].
    unfold dict_inv, RWExec.dict_event. cbn [fst snd]. split; [exact Hnd'|]. split.
    - intros o c.
      rewrite (event_spec (dstore R) dget (dset R) (fun _ => True) (fun _ => True)).
      + destruct (mem_z o (union_outs all (snd e))) eqn:Hm.
        * apply step_row_ext. intros; apply Hrep.
        * apply mem_z_not_In in Hm. rewrite Hrep.
          assert (Ho : ~ In o all) by (intro; apply Hm, Hin; auto).
          assert (Hos : mem_z o (snd e) = false) by (apply mem_z_not_In; intro; apply Hm, Hin; auto).
          rewrite (step_zero_row p e W o Hos (Hz o Ho)). now apply Hz.
      + intros; apply mget_mset_same.
      + intros; now apply mget_mset_other.
      + exact Hnd'.
      + apply Forall_forall; auto.
      + apply Forall_forall; auto.
      + exact I.
      + exact I.
    - intros o Ho c.
      assert (Ho' : ~ In o all) by (intro; apply Ho, Hin; auto).
      assert (Hos : mem_z o (snd e) = false) by (apply mem_z_not_In; intro; apply Ho, Hin; auto).
      apply step_zero_row; auto.
  Qed.

  Theorem dict_refines p po es stt W :
    dict_inv stt W ->
    match dict_run p po es stt, prep_all po es with
    | Some stt', Some es' => dict_inv stt' (learn p es' W)
    | None, None => True
    | _, _ => False
    end.
  Proof.
    revert stt W. induction es as [|e r IH]; intros stt W Hinv; cbn [RWExec.dict_run prep_all].
    - exact Hinv.
    - destruct (prep po e) as [e'|]; [|exact I].
      specialize (IH (dict_event p stt e') (step p e' W) (dict_event_inv p stt e' W Hinv)).
      destruct (dict_run p po r (dict_event p stt e')), (prep_all po r); auto.
  Qed.

  Lemma dict_inv_empty : dict_inv ([], ZZM.empty R) (zero_w R rO).
  Proof.
    split; [constructor|]. split; [|reflexivity].
    intros o c. apply mget_empty.
  Qed.

  (** ** the binary-to-binary kernel on flat memory *)
  Notation kget := (kget R rO).
  Notation kset := (kset R).

  Definition oko32 (o : Z) : Prop := (0 <= o < two32)%Z.
  Definition okc_n (n_cues c : Z) : Prop := (0 <= c < n_cues)%Z.

  Lemma kget_kset_same n m o c v : kget n (kset n m o c v) o c = v.
  Proof. apply fget_fset_same. Qed.

  Lemma kget_kset_other n m o c v o' c' :
    (0 <= n < two32)%Z -> oko32 o -> okc_n n c -> oko32 o' -> okc_n n c' ->
    (o, c) <> (o', c') -> kget n (kset n m o c v) o' c' = kget n m o' c'.
  Proof.
    intros Hn Ho Hc Ho' Hc' Hne. apply fget_fset_other. intros E.
    apply flat_index_injective in E; try assumption. destruct E; subst. now apply Hne.
  Qed.

  Notation k_learn_events := (k_learn_events R rO radd rmul rsub).

  (** the kernel trains exactly the rows all_outcomes[start..end) with the RW
      rule and leaves every other cell of the matrix alone *)
  Theorem kernel_refines p n_cues all_outcomes start stop es m o c :
    (0 <= n_cues < two32)%Z ->
    NoDup all_outcomes -> Forall oko32 all_outcomes ->
    cues_ok (okc_n n_cues) es -> oko32 o -> okc_n n_cues c ->
    kget n_cues (k_learn_events p n_cues all_outcomes start stop es m) o c =
    if mem_z o (slice all_outcomes start stop)
    then learn p es (kget n_cues m) o c
    else kget n_cues m o c.
  Proof.
    intros Hn Hnd Hall Hes Ho Hc. unfold RWExec.k_learn_events.
    apply (events_spec (kstore R) (kget n_cues) (kset n_cues) oko32 (okc_n n_cues)); try assumption.
    - intros; apply kget_kset_same.
    - intros; now apply kget_kset_other.
    - unfold slice. now apply NoDup_firstn, NoDup_skipn.
    - unfold slice. apply Forall_forall. intros x Hx.
      apply In_firstn', In_skipn' in Hx.
      rewrite Forall_forall in Hall. now apply Hall.
  Qed.
End RWProofs.
