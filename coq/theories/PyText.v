(** Text primitives of CPython that pyndl's text-file code relies on, on strings
    as lists of Unicode code points: [str.split(sep)] for a one-character
    separator, [sep.join], [str.strip(c)] / [rstrip(c)] for a one-character
    set, the universal-newline translation of text-mode reading and the line
    iteration of a text file.  Definitions only (proofs: PyTextProofs.v).
    Used by Filter.v (C10) and Band.v (C20). *)
From Coq Require Import ZArith List Bool.
Import ListNotations.
Open Scope Z_scope.

Definition str := list Z.

Definition LF : Z := 10.
Definition CR : Z := 13.
Definition TAB : Z := 9.
Definition USCORE : Z := 95.

Fixpoint str_eqb (a b : str) : bool :=
  match a, b with
  | [], [] => true
  | x :: a', y :: b' => (x =? y) && str_eqb a' b'
  | _, _ => false
  end.

Definition is_nil {A} (l : list A) : bool := match l with [] => true | _ => false end.

(** [s.split(sep)]: never returns the empty list, [''.split(sep) == ['']] *)
Fixpoint split_on (sep : Z) (s : str) : list str :=
  match s with
  | [] => [[]]
  | c :: r => if c =? sep then [] :: split_on sep r
              else match split_on sep r with
                   | [] => [[c]]                      (* unreachable *)
                   | t :: ts => (c :: t) :: ts
                   end
  end.

(** [sep.join(ts)] *)
Fixpoint join (sep : Z) (ts : list str) : str :=
  match ts with
  | [] => []
  | t :: r => match r with [] => t | _ => t ++ sep :: join sep r end
  end.

(** [s.lstrip(c)], [s.rstrip(c)], [s.strip(c)] for a single character [c] *)
Fixpoint lstrip_c (c : Z) (s : str) : str :=
  match s with
  | [] => []
  | x :: r => if x =? c then lstrip_c c r else s
  end.

Fixpoint rstrip_c (c : Z) (s : str) : str :=
  match s with
  | [] => []
  | x :: r => let r' := rstrip_c c r in
              if (x =? c) && is_nil r' then [] else x :: r'
  end.

Definition strip_c (c : Z) (s : str) : str := rstrip_c c (lstrip_c c s).

(** text-mode reading with [newline=None]: "\r\n" and "\r" become "\n" *)
Fixpoint univ_nl (s : str) : str :=
  match s with
  | [] => []
  | c :: r =>
    if c =? CR then
      LF :: match r with
            | d :: r' => if d =? LF then univ_nl r' else univ_nl r
            | [] => []
            end
    else c :: univ_nl r
  end.

(** iteration over a text file / [readline]: lines end after every LF, the
    terminator is kept, a last line without terminator is a line, the empty
    text has no line *)
Fixpoint split_lines (s : str) : list str :=
  match s with
  | [] => []
  | c :: r => if c =? LF then [LF] :: split_lines r
              else match split_lines r with
                   | [] => [[c]]
                   | l :: ls => (c :: l) :: ls
                   end
  end.

(** the lines a text-mode reader yields for the decoded file content *)
Definition file_lines (text : str) : list str := split_lines (univ_nl text).


(** a line as the reader yields it: terminated by the only LF it contains, or
    (last line only) non-empty without LF *)
Definition full_line (l : str) : Prop := exists b, l = b ++ [LF] /\ ~ In LF b.
Definition open_line (l : str) : Prop := l <> [] /\ ~ In LF l.

