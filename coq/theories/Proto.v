(** [preprocess.create_binary_event_files]: the submit loop with its throttle,
    conversion jobs completing in any order, the callbacks that close the
    pool, the reported number of events; chunk names and their numeric sort.
    Definitions only. *)
From Coq Require Import ZArith List Bool Arith.
From PV Require Import Bytes BinFmt.
Import ListNotations.

(** result of one conversion job as the pool's result handler sees it *)
Inductive jres :=
| JReturn (n : nat)     (* write_events returned n (n = 0: file removed) *)
| JStop (n : nat)       (* StopIteration((msg, n)): partially filled last file *)
| JError.               (* any other exception (duplicates under None, OSError, ...) *)

Definition job_result (es : list event) (per : nat) (po : pol) (k : nat) : jres :=
  match write_events es (Z.of_nat (k * per)) (Z.of_nat ((k + 1) * per)) po with
  | WReturn n _ => JReturn (Z.to_nat n)
  | WStop n _ => JStop (Z.to_nat n)
  | WValueError => JError
  end.

Definition job_file (es : list event) (per : nat) (po : pol) (k : nat) : option (list Z) :=
  match write_events es (Z.of_nat (k * per)) (Z.of_nat ((k + 1) * per)) po with
  | WReturn _ f => f
  | WStop _ f => Some f
  | WValueError => None
  end.

Definition jcount (r : jres) : nat := match r with JReturn n | JStop n => n | JError => 0 end.

(** which logic is modelled: [f1] = a job that reports 0 events closes the pool
    (repair of finding F1), [f2] = an error is remembered and closes the pool
    instead of being re-raised inside the result handler thread (repair of F2) *)
Record fixes := { f1 : bool; f2 : bool }.
Definition repaired : fixes := {| f1 := true; f2 := true |}.
Definition unrepaired : fixes := {| f1 := false; f2 := false |}.

Record pstate := {
  next : nat;               (* ii: jobs 0 .. next-1 have been submitted *)
  processed : list nat;     (* jobs whose result the handler has delivered *)
  closed : bool;            (* pool.close() was called from a callback *)
  total : nat;              (* number_events *)
  errors : list nat;        (* job_errors (after F2) *)
  waiting : option nat;     (* the submit loop polls result.ready() of this job *)
  loop_done : bool;         (* apply_async raised 'Pool not running': loop left *)
  handler_dead : bool       (* a callback raised inside the result handler thread *)
}.

Inductive pact := Submit | Process (k : nat).

Definition pinit : pstate :=
  {| next := 0; processed := []; closed := false; total := 0; errors := []; waiting := None;
     loop_done := false; handler_dead := false |}.

Fixpoint mem_nat (x : nat) (l : list nat) : bool :=
  match l with [] => false | y :: r => Nat.eqb x y || mem_nat x r end.

Definition pstep (fx : fixes) (res : nat -> jres) (B : nat) (s : pstate) (a : pact) : pstate :=
  match a with
  | Submit =>
    if loop_done s then s else
    match waiting s with
    | Some _ => s                                   (* throttled: sleeps and polls *)
    | None =>
      if closed s
      then {| next := next s; processed := processed s; closed := true; total := total s;
              errors := errors s; waiting := None; loop_done := true; handler_dead := handler_dead s |}
      else let nx := S (next s) in
           {| next := nx; processed := processed s; closed := false; total := total s;
              errors := errors s;
              waiting := (if Nat.eqb (Nat.modulo nx B) 0 then Some (next s) else None);
              loop_done := false; handler_dead := handler_dead s |}
    end
  | Process k =>
    if handler_dead s then s else
    if Nat.ltb k (next s) && negb (mem_nat k (processed s)) then
      let w' := match waiting s with
                | Some w => if Nat.eqb w k then None else Some w
                | None => None
                end in
      match res k with
      | JReturn n =>
        {| next := next s; processed := k :: processed s;
           closed := closed s || (f1 fx && Nat.eqb n 0); total := total s + n;
           errors := errors s; waiting := w'; loop_done := loop_done s; handler_dead := false |}
      | JStop n =>
        {| next := next s; processed := k :: processed s; closed := true; total := total s + n;
           errors := errors s; waiting := w'; loop_done := loop_done s; handler_dead := false |}
      | JError =>
        if f2 fx
        then {| next := next s; processed := k :: processed s; closed := true; total := total s;
                errors := errors s ++ [k]; waiting := w'; loop_done := loop_done s; handler_dead := false |}
        else (* the error is raised in the handler thread: it dies, the result is never set *)
             {| next := next s; processed := processed s; closed := closed s; total := total s;
                errors := errors s; waiting := waiting s; loop_done := loop_done s; handler_dead := true |}
      end
    else s
  end.

Definition prun (fx : fixes) (res : nat -> jres) (B : nat) (sched : list pact) (s : pstate) : pstate :=
  fold_left (pstep fx res B) sched s.

(** the call returns (or raises the remembered error) when the loop was left and
    join() saw every submitted job delivered *)
Definition pfinished (s : pstate) : bool :=
  loop_done s && forallb (fun k => mem_nat k (processed s)) (seq 0 (next s)).

(** * chunk names: "events_0_<i>.dat", sorted by int(basename[9:-4]) *)
Fixpoint digits_fuel (fuel n : nat) (acc : list nat) : list nat :=
  match fuel with
  | O => acc
  | S f => if Nat.ltb n 10 then n :: acc else digits_fuel f (Nat.div n 10) (Nat.modulo n 10 :: acc)
  end.
Definition digits (n : nat) : list nat := digits_fuel (S n) n [].
Definition undigits (ds : list nat) : nat := fold_left (fun a d => (10 * a + d)%nat) ds 0%nat.

(** lexicographic order on digit strings (what sorting the file names as
    strings would use) *)
Fixpoint lex_le (a b : list nat) : bool :=
  match a, b with
  | [], _ => true
  | _ :: _, [] => false
  | x :: a', y :: b' => if Nat.ltb x y then true else if Nat.ltb y x then false else lex_le a' b'
  end.

Fixpoint insert_by {A} (le : A -> A -> bool) (x : A) (l : list A) : list A :=
  match l with
  | [] => [x]
  | y :: r => if le x y then x :: l else y :: insert_by le x r
  end.
Definition sort_by {A} (le : A -> A -> bool) (l : list A) : list A := fold_right (insert_by le) [] l.

(** [binary_files.sort(key=int(...))] on any listing order *)
Definition numeric_sort (names : list (list nat)) : list (list nat) :=
  sort_by (fun a b => Nat.leb (undigits a) (undigits b)) names.
Definition lexicographic_sort (names : list (list nat)) : list (list nat) := sort_by lex_le names.
