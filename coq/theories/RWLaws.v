(** Algebraic laws of the Rescorla-Wagner map [RWSpec.learn], for every
    commutative ring (property C13) and the continuation law (C03). *)
From Coq Require Import ZArith List Bool Lia Ring Permutation.
From PV Require Import Lists Bytes BinFmt Store RWSpec RWExec RWProofs.
Import ListNotations.

Lemma mem_z_perm x l l' : Permutation l l' -> mem_z x l = mem_z x l'.
Proof.
  intros H. destruct (mem_z x l) eqn:E1, (mem_z x l') eqn:E2; try reflexivity.
  - apply mem_z_In in E1. apply mem_z_not_In in E2. exfalso. apply E2. now apply (Permutation_in _ H).
  - apply mem_z_In in E2. apply mem_z_not_In in E1. exfalso. apply E1.
    now apply (Permutation_in _ (Permutation_sym H)).
Qed.

Lemma countz_perm c l l' : Permutation l l' -> countz c l = countz c l'.
Proof.
  induction 1 as [|x l l' _ IH|x y l|l l' l'' _ IH1 _ IH2]; cbn; try congruence.
  - destruct (Z.eqb c x); congruence.
  - destruct (Z.eqb c y), (Z.eqb c x); reflexivity.
Qed.

Lemma mem_z_map_inj (f : Z -> Z) x l :
  (forall a b, f a = f b -> a = b) -> mem_z (f x) (map f l) = mem_z x l.
Proof.
  intros Hinj. induction l as [|y r IH]; [reflexivity|]. cbn. rewrite IH. f_equal.
  destruct (Z.eqb_spec x y) as [->|Hne]; [apply Z.eqb_refl|].
  apply Z.eqb_neq. intro E. now apply Hne, Hinj.
Qed.

Lemma countz_map_inj (f : Z -> Z) x l :
  (forall a b, f a = f b -> a = b) -> countz (f x) (map f l) = countz x l.
Proof.
  intros Hinj. induction l as [|y r IH]; [reflexivity|]. cbn. rewrite IH.
  destruct (Z.eqb_spec x y) as [->|Hne]; [now rewrite Z.eqb_refl|].
  replace (Z.eqb (f x) (f y)) with false; [reflexivity|].
  symmetry. apply Z.eqb_neq. intro E. now apply Hne, Hinj.
Qed.

Section Laws.
  Variable R : Type.
  Variables (rO rI : R) (radd rmul rsub : R -> R -> R) (ropp : R -> R).
  Hypothesis Rth : ring_theory rO rI radd rmul rsub ropp (@eq R).
  Add Ring RringL : Rth.

  Notation params := (params R).
  Notation wfun := (wfun R).
  Notation step := (step R rO rI radd rmul rsub).
  Notation learn := (learn R rO rI radd rmul rsub).
  Notation act := (act R rO radd).
  Notation delta := (delta R rO radd rmul rsub).
  Notation sum_over := (sum_over R rO radd).
  Notation of_nat := (of_nat R rO rI radd).
  Local Infix "+r" := radd (at level 50, left associativity).
  Local Infix "*r" := rmul (at level 40, left associativity).
  Local Infix "-r" := rsub (at level 50, left associativity).

  Local Lemma so_cons f x r : sum_over f (x :: r) = f x +r sum_over f r.
  Proof. eapply sum_over_cons with (ropp := ropp); eauto. Qed.
  Local Lemma so_ext f g cs : (forall c, In c cs -> f c = g c) -> sum_over f cs = sum_over g cs.
  Proof. eapply sum_over_ext with (ropp := ropp); eauto. Qed.

  Lemma learn_cons p e es W : learn p (e :: es) W = learn p es (step p e W).
  Proof. reflexivity. Qed.

  Lemma learn_ext p es W W' :
    (forall o c, W o c = W' o c) -> forall o c, learn p es W o c = learn p es W' o c.
  Proof.
    intros H o c.
    eapply (learn_row_ext R rO rI radd rmul rsub ropp Rth (fun _ => True)); auto.
    unfold cues_ok. apply Forall_forall. intros e _. apply Forall_forall. auto.
  Qed.

  Lemma step_ext p e W W' :
    (forall o c, W o c = W' o c) -> forall o c, step p e W o c = step p e W' o c.
  Proof. intros H o c. apply (step_row_ext R rO rI radd rmul rsub ropp Rth). intros; apply H. Qed.

  (** ** C03: continuing = learning in one pass *)
  Theorem learn_split p es1 es2 W : learn p (es1 ++ es2) W = learn p es2 (learn p es1 W).
  Proof. apply (learn_app R rO rI radd rmul rsub). Qed.

  Fixpoint learn_chain p (parts : list (list event)) (W : wfun) : wfun :=
    match parts with
    | [] => W
    | es :: r => learn_chain p r (learn p es W)
    end.

  Theorem learn_chain_concat p parts W : learn_chain p parts W = learn p (concat parts) W.
  Proof.
    revert W. induction parts as [|es r IH]; intros W; [reflexivity|].
    cbn [learn_chain concat]. now rewrite IH, learn_split.
  Qed.

  (** ** sums *)
  Lemma sum_over_perm f l l' : Permutation l l' -> sum_over f l = sum_over f l'.
  Proof.
    induction 1 as [|x l l' _ IH|x y l|l l' l'' _ IH1 _ IH2].
    - reflexivity.
    - rewrite !so_cons, IH. reflexivity.
    - rewrite !so_cons. ring.
    - congruence.
  Qed.

  Lemma sum_over_map f (h : Z -> Z) l : sum_over f (map h l) = sum_over (fun c => f (h c)) l.
  Proof. induction l as [|x r IH]; [reflexivity|]. cbn [map]. now rewrite !so_cons, IH. Qed.

  Lemma sum_over_add f g l : sum_over (fun c => f c +r g c) l = sum_over f l +r sum_over g l.
  Proof.
    induction l as [|x r IH].
    - unfold RWSpec.sum_over. cbn. ring.
    - rewrite !so_cons, IH. ring.
  Qed.

  Lemma sum_over_scale k f l : sum_over (fun c => k *r f c) l = k *r sum_over f l.
  Proof.
    induction l as [|x r IH].
    - unfold RWSpec.sum_over. cbn. ring.
    - rewrite !so_cons, IH. ring.
  Qed.

  (** ** row locality: the row of an outcome depends only on the cues of each
      event and on whether that outcome is present *)
  Definition same_for (o : Z) (e e' : event) : Prop :=
    fst e = fst e' /\ mem_z o (snd e) = mem_z o (snd e').

  Theorem row_locality p es es' W W' o :
    Forall2 (same_for o) es es' -> (forall c, W o c = W' o c) ->
    forall c, learn p es W o c = learn p es' W' o c.
  Proof.
    intros H. revert W W'. induction H as [|e e' es es' [Hc Hm] _ IH]; intros W W' HW c.
    - apply HW.
    - rewrite !learn_cons. apply IH. intros c'.
      unfold RWSpec.step, RWSpec.delta, RWSpec.act. rewrite <- Hc, <- Hm, HW.
      rewrite (so_ext (W o) (W' o)) by (intros; apply HW). reflexivity.
  Qed.

  (** ** equivariance under injective renamings of cues and outcomes *)
  Definition rename_event (f g : Z -> Z) (e : event) : event := (map f (fst e), map g (snd e)).

  Theorem equivariance (f g : Z -> Z) p p' es W W' :
    (forall a b, f a = f b -> a = b) -> (forall a b, g a = g b -> a = b) ->
    (forall c, alpha p' (f c) = alpha p c) ->
    beta1 p' = beta1 p -> beta2 p' = beta2 p -> lam p' = lam p ->
    (forall o c, W' (g o) (f c) = W o c) ->
    forall o c, learn p' (map (rename_event f g) es) W' (g o) (f c) = learn p es W o c.
  Proof.
    intros Hf Hg Ha Hb1 Hb2 Hl. revert W W'.
    induction es as [|e r IH]; intros W W' HW o c; [apply HW|].
    cbn [map RWSpec.learn fold_left]. apply IH. intros o' c'.
    unfold RWSpec.step, RWSpec.delta, RWSpec.act, rename_event. cbn [fst snd].
    rewrite countz_map_inj, mem_z_map_inj, sum_over_map by assumption.
    rewrite Ha, Hb1, Hb2, Hl, HW.
    rewrite (so_ext (fun c0 => W' (g o') (f c0)) (W o')) by (intros; apply HW). reflexivity.
  Qed.

  (** ** the order of cues (and outcomes) inside an event is irrelevant *)
  Definition perm_event (e e' : event) : Prop :=
    Permutation (fst e) (fst e') /\ Permutation (snd e) (snd e').

  Theorem cue_order p es es' W :
    Forall2 perm_event es es' -> forall o c, learn p es W o c = learn p es' W o c.
  Proof.
    intros H. revert W. induction H as [|e e' es es' [Hc Ho] _ IH]; intros W o c; [reflexivity|].
    rewrite !learn_cons. rewrite IH. apply learn_ext. intros o' c'.
    unfold RWSpec.step, RWSpec.delta, RWSpec.act.
    rewrite (countz_perm c' _ _ Hc), (mem_z_perm o' _ _ Ho), (sum_over_perm (W o') _ _ Hc). reflexivity.
  Qed.

  (** ** affine in the initial weights *)
  Definition with_lam (p : params) (l : R) : params :=
    {| alpha := alpha p; beta1 := beta1 p; beta2 := beta2 p; lam := l |}.
  Definition wadd (W1 W2 : wfun) : wfun := fun o c => W1 o c +r W2 o c.
  Definition wscale (k : R) (W : wfun) : wfun := fun o c => k *r W o c.

  Lemma step0_additive p e W1 W2 o c :
    step (with_lam p rO) e (wadd W1 W2) o c =
    step (with_lam p rO) e W1 o c +r step (with_lam p rO) e W2 o c.
  Proof.
    unfold RWSpec.step, RWSpec.delta, RWSpec.act, wadd, with_lam. cbn [alpha beta1 beta2 lam].
    rewrite sum_over_add. destruct (mem_z o (snd e)); ring.
  Qed.

  Lemma learn0_additive p es W1 W2 o c :
    learn (with_lam p rO) es (wadd W1 W2) o c =
    learn (with_lam p rO) es W1 o c +r learn (with_lam p rO) es W2 o c.
  Proof.
    revert W1 W2 o c. induction es as [|e r IH]; intros W1 W2 o c; [reflexivity|].
    rewrite !learn_cons.
    rewrite <- IH. apply learn_ext. intros o' c'. apply step0_additive.
  Qed.

  Lemma step_affine p e W o c :
    step p e W o c = step (with_lam p rO) e W o c +r step p e (zero_w R rO) o c.
  Proof.
    unfold RWSpec.step, RWSpec.delta, RWSpec.act, with_lam, zero_w. cbn [alpha beta1 beta2 lam].
    rewrite (sum_over_zero R rO rI radd rmul rsub ropp Rth). destruct (mem_z o (snd e)); ring.
  Qed.

  Lemma learn0_zero p es o c : learn (with_lam p rO) es (zero_w R rO) o c = rO.
  Proof.
    revert o c. induction es as [|e r IH]; intros o c; [reflexivity|].
    rewrite learn_cons. transitivity (learn (with_lam p rO) r (zero_w R rO) o c); [|apply IH].
    apply learn_ext. intros o' c'.
    unfold RWSpec.step, RWSpec.delta, RWSpec.act, with_lam, zero_w. cbn [alpha beta1 beta2 lam].
    rewrite (sum_over_zero R rO rI radd rmul rsub ropp Rth). destruct (mem_z o' (snd e)); ring.
  Qed.

  Theorem affine_in_W0 p es W o c :
    learn p es W o c = learn (with_lam p rO) es W o c +r learn p es (zero_w R rO) o c.
  Proof.
    revert W o c. induction es as [|e r IH]; intros W o c.
    - cbn. unfold zero_w. ring.
    - rewrite !learn_cons.
      rewrite (IH (step p e W)), (IH (step p e (zero_w R rO))).
      rewrite (learn_ext (with_lam p rO) r (step p e W)
                         (wadd (step (with_lam p rO) e W) (step p e (zero_w R rO))))
        by (intros; apply step_affine).
      rewrite learn0_additive.
      ring.
  Qed.

  (** ** proportional to lambda when starting from zero *)
  Lemma learn_scale p k es W o c :
    learn (with_lam p (k *r lam p)) es (wscale k W) o c = k *r learn p es W o c.
  Proof.
    revert W o c. induction es as [|e r IH]; intros W o c; [reflexivity|].
    rewrite !learn_cons. rewrite <- IH. apply learn_ext. intros o' c'.
    unfold RWSpec.step, RWSpec.delta, RWSpec.act, wscale, with_lam. cbn [alpha beta1 beta2 lam].
    rewrite sum_over_scale. destruct (mem_z o' (snd e)); ring.
  Qed.

  Theorem proportional_to_lambda p k es o c :
    learn (with_lam p (k *r lam p)) es (zero_w R rO) o c = k *r learn p es (zero_w R rO) o c.
  Proof.
    rewrite <- learn_scale. apply learn_ext. intros o' c'. unfold wscale, zero_w. ring.
  Qed.

  (** ** beta2 = 0: rows of outcomes that are absent from every event do not move;
      alpha_c = 0: column c does not move *)
  Theorem beta2_zero_absent_rows_fixed p es W o :
    beta2 p = rO -> Forall (fun e => mem_z o (snd e) = false) es ->
    forall c, learn p es W o c = W o c.
  Proof.
    intros Hb H. revert W. induction H as [|e r He _ IH]; intros W c; [reflexivity|].
    rewrite !learn_cons. rewrite IH.
    unfold RWSpec.step, RWSpec.delta. rewrite He, Hb. ring.
  Qed.

  Theorem alpha_zero_column_fixed p es W c :
    alpha p c = rO -> forall o, learn p es W o c = W o c.
  Proof.
    intros Ha. revert W. induction es as [|e r IH]; intros W o; [reflexivity|].
    rewrite !learn_cons. rewrite IH. unfold RWSpec.step. rewrite Ha. ring.
  Qed.
End Laws.

(** ** continuation of the executable models *)
Section Continue.
  Variable R : Type.
  Variables (rO rI : R) (radd rmul rsub : R -> R -> R) (ropp : R -> R).
  Hypothesis Rth : ring_theory rO rI radd rmul rsub ropp (@eq R).

  Notation dict_run := (dict_run R rO radd rmul rsub).
  Notation learn := (learn R rO rI radd rmul rsub).

  (** running dict_ndl on es1 and continuing on es2 from the returned weights is
      running it on es1 ++ es2 (also for the error case) *)
  Theorem dict_run_app p po es1 es2 st :
    dict_run p po (es1 ++ es2) st =
    match dict_run p po es1 st with
    | Some st' => dict_run p po es2 st'
    | None => None
    end.
  Proof.
    revert st. induction es1 as [|e r IH]; intros st; [reflexivity|].
    cbn [app RWExec.dict_run]. destruct (prep po e); [apply IH|reflexivity].
  Qed.

  (** dict_ndl started from ANY weights it can be handed (a WeightDict, or a
      labelled matrix turned into one: every row it contains is listed) computes
      [learn] from those weights *)
  Theorem dict_continue p po es stt W :
    dict_inv R rO stt W ->
    match dict_run p po es stt, prep_all po es with
    | Some stt', Some es' => forall o c, dget R rO (snd stt') o c = learn p es' W o c
    | None, None => True
    | _, _ => False
    end.
  Proof.
    intros H. pose proof (dict_refines R rO rI radd rmul rsub ropp Rth p po es stt W H) as D.
    destruct (dict_run p po es stt), (prep_all po es); auto. destruct D as (_ & D & _). exact D.
  Qed.

  (** the kernel run over es1 and then, from the memory it left, over es2 *)
  Theorem kernel_continue p n_cues outs start stop es1 es2 m :
    k_learn_events R rO radd rmul rsub p n_cues outs start stop (es1 ++ es2) m =
    k_learn_events R rO radd rmul rsub p n_cues outs start stop es2
      (k_learn_events R rO radd rmul rsub p n_cues outs start stop es1 m).
  Proof. unfold k_learn_events, mx_events. apply fold_left_app. Qed.
End Continue.
