(** Failure handling of a learner call (C05) and its temporary files (C17).
    Definitions only. *)
From Coq Require Import List Bool Arith.
From PV Require Import Proto.
Import ListNotations.

(** * a call as a sequence of phases: count, id maps, chunk conversion,
      learning, labelling.  Python's exception propagation: the first failing
      phase ends the call with its error, later phases do not run *)
Inductive outcome := Return | Raise (phase : nat).

Fixpoint run_phases (i : nat) (phases : list bool) : outcome :=
  match phases with
  | [] => Return
  | ok :: r => if ok then run_phases (S i) r else Raise i
  end.

(** * the learning phase of method='threading': every worker thread either
      finishes or dies with an exception.  [collect = true]: the exceptions are
      collected and the first is re-raised after join (repair of finding F3);
      [collect = false]: they are printed by the threading module and dropped *)
Definition join_workers (collect : bool) (workers : list (option nat)) : option nat :=
  if collect
  then match filter (fun w => match w with Some _ => true | None => false end) workers with
       | Some e :: _ => Some e
       | _ => None
       end
  else None.

(** * the conversion phase under faults: what the caller sees when the call
      of create_binary_event_files is over *)
Definition conversion_outcome (s : pstate) : outcome :=
  match errors s with [] => Return | _ :: _ => Raise 2 end.

(** * temporary files: a file system as the list of existing paths; a path is
      (directory id, name id), top-level entries have directory 0 *)
Definition path := (nat * nat)%type.
Definition fs := list path.

Definition path_eqb (a b : path) : bool := Nat.eqb (fst a) (fst b) && Nat.eqb (snd a) (snd b).
Definition fs_add (p : path) (f : fs) : fs := p :: f.
(** rmtree of directory d: the directory entry itself and everything in it *)
Definition fs_rmtree (d : nat) (f : fs) : fs :=
  filter (fun p => negb (Nat.eqb (fst p) d) && negb (path_eqb p (0, d))) f.

(** the body of a [with TemporaryDirectory() as d] block: it creates files
    inside d and may fail at any point *)
Inductive bstep := BCreate (name : nat) | BFail.

Fixpoint run_body (d : nat) (steps : list bstep) (f : fs) : fs * bool :=
  match steps with
  | [] => (f, true)
  | BCreate n :: r => run_body d r (fs_add (d, n) f)
  | BFail :: _ => (f, false)
  end.

(** with tempfile.TemporaryDirectory(dir=...) as d: body  -- cleanup runs on
    normal exit and on an exception alike *)
Definition bracket (d : nat) (steps : list bstep) (f : fs) : fs * bool :=
  let (f', ok) := run_body d steps (fs_add (0, d) f) in (fs_rmtree d f', ok).

(** generator input after the repair: the spool file lives in its own
    temporary directory [ds], the learner proper in [db] *)
Definition learner_call_generator (ds db : nat) (spool_ok : bool) (body : list bstep) (f : fs) : fs * bool :=
  let (f1, ok1) := run_body ds (if spool_ok then [BCreate 1] else [BFail]) (fs_add (0, ds) f) in
  if ok1 then
    let (f2, ok2) := bracket db body f1 in (fs_rmtree ds f2, ok2)
  else (fs_rmtree ds f1, false).

(** generator input before the repair (finding F6): the spool file is created
    at top level under a name obtained from NamedTemporaryFile().name and never removed *)
Definition learner_call_generator_unrepaired (spool db : nat) (body : list bstep) (f : fs) : fs * bool :=
  bracket db body (fs_add (0, spool) f).
