(** The Widrow-Hoff kernels run by the worker threads of a parallel region (QueueTrace): every schedule that
    ends with all threads done leaves the delta-rule result - the interleaving hypothesis of the
    [*_kernel_any_schedule] theorems is what the threads produce. *)
From Coq Require Import ZArith List Bool Ring.
From PV Require Import Bytes BinFmt Store RWSpec RWExec RWProofs Sched QueueProofs QueueTrace WHSpec WHExec RowWise WHMain.
Import ListNotations.

Lemma r2r_workers_any_schedule :
  forall (R : Type) (rO rI : R) (radd rmul rsub : R -> R -> R) (ropp : R -> R),
    ring_theory rO rI radd rmul rsub ropp (@eq R) ->
  forall eta cv ov n parts es n_threads sched m r k,
    (0 <= n < two32)%Z -> NoDup (concat parts) -> Forall oko32 (concat parts) ->
    (1 <= n_threads)%nat ->
    all_done (qs (wrun (map (fun part => gitem_actions part es) parts) sched
                        (winit (seq 0 (length parts)) n_threads))) = true ->
    oko32 r -> (0 <= k < n)%Z ->
    kget R rO n (run_tr (kstore R) event
                   (fun e s d => vx_row R rO radd rmul (kstore R) (kget R rO n) (kset R n) (zrange 0 n)
                                        (summed R rO radd cv (fst e))
                                        (fun d a => rmul eta (rsub (summed R rO radd ov (snd e) d) a)) s d)
                   (wtrace (wrun (map (fun part => gitem_actions part es) parts) sched
                                 (winit (seq 0 (length parts)) n_threads))) m) r k =
    if mem_z r (concat parts)
    then r2r_learn R rO radd rmul rsub eta cv ov (zrange 0 n) es (kget R rO n m) r k
    else kget R rO n m r k.
Proof.
  intros R rO rI radd rmul rsub ropp Rth. intros.
  eapply r2r_kernel_any_schedule; eauto.
  match goal with Hn : (1 <= n_threads)%nat |- _ =>
    pose proof (worker_trace_interleaving (map (fun part => gitem_actions part es) parts) n_threads sched Hn) as W end.
  cbn zeta in W. rewrite map_length in W. now apply W.
Qed.

Lemma r2b_workers_any_schedule :
  forall (R : Type) (rO rI : R) (radd rmul rsub : R -> R -> R) (ropp : R -> R),
    ring_theory rO rI radd rmul rsub ropp (@eq R) ->
  forall b1 b2 la cv n parts es n_threads sched m r k,
    (0 <= n < two32)%Z -> NoDup (concat parts) -> Forall oko32 (concat parts) ->
    (1 <= n_threads)%nat ->
    all_done (qs (wrun (map (fun part => gitem_actions part es) parts) sched
                        (winit (seq 0 (length parts)) n_threads))) = true ->
    oko32 r -> (0 <= k < n)%Z ->
    kget R rO n (run_tr (kstore R) event
                   (fun e s d => vx_row R rO radd rmul (kstore R) (kget R rO n) (kset R n) (zrange 0 n)
                                        (summed R rO radd cv (fst e))
                                        (fun o a => if mem_z o (snd e) then rmul b1 (rsub la a)
                                                    else rmul b2 (rsub rO a)) s d)
                   (wtrace (wrun (map (fun part => gitem_actions part es) parts) sched
                                 (winit (seq 0 (length parts)) n_threads))) m) r k =
    if mem_z r (concat parts)
    then r2b_learn R rO radd rmul rsub b1 b2 la cv (zrange 0 n) es (kget R rO n m) r k
    else kget R rO n m r k.
Proof.
  intros R rO rI radd rmul rsub ropp Rth. intros.
  eapply r2b_kernel_any_schedule; eauto.
  match goal with Hn : (1 <= n_threads)%nat |- _ =>
    pose proof (worker_trace_interleaving (map (fun part => gitem_actions part es) parts) n_threads sched Hn) as W end.
  cbn zeta in W. rewrite map_length in W. now apply W.
Qed.

Lemma b2r_workers_any_schedule :
  forall (R : Type) (rO rI : R) (radd rmul rsub : R -> R -> R) (ropp : R -> R),
    ring_theory rO rI radd rmul rsub ropp (@eq R) ->
  forall eta ov n parts es n_threads sched m d c,
    (0 <= n < two32)%Z -> NoDup (concat parts) -> Forall oko32 (concat parts) -> cues_ok (okc_n n) es ->
    (1 <= n_threads)%nat ->
    all_done (qs (wrun (map (fun part => gitem_actions part es) parts) sched
                        (winit (seq 0 (length parts)) n_threads))) = true ->
    oko32 d -> okc_n n c ->
    kget R rO n (run_tr (kstore R) event
                   (fun e s d => bx_row R rO rI radd rmul (kstore R) (kget R rO n) (kset R n)
                                        (fun d a => rmul eta (rsub (tvec R rO radd ov (snd e) d) a)) (fst e) s d)
                   (wtrace (wrun (map (fun part => gitem_actions part es) parts) sched
                                 (winit (seq 0 (length parts)) n_threads))) m) d c =
    if mem_z d (concat parts)
    then b2r_learn R rO rI radd rmul rsub eta ov es (kget R rO n m) d c
    else kget R rO n m d c.
Proof.
  intros R rO rI radd rmul rsub ropp Rth. intros.
  eapply b2r_kernel_any_schedule; eauto.
  match goal with Hn : (1 <= n_threads)%nat |- _ =>
    pose proof (worker_trace_interleaving (map (fun part => gitem_actions part es) parts) n_threads sched Hn) as W end.
  cbn zeta in W. rewrite map_length in W. now apply W.
Qed.
