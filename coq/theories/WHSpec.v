(** The Widrow-Hoff delta rule  W += eta * (t - W x) x^T  in the three vector
    flavours of pyndl.wh, as functions on weight functions over an arbitrary
    carrier with ring operations (declarative spec). *)
From Coq Require Import ZArith List Bool.
From PV Require Import BinFmt RWSpec.
Import ListNotations.

Section WHSpec.
  Variable R : Type.
  Variables (rO rI : R) (radd rmul rsub : R -> R -> R).
  Notation wfun := (wfun R).
  Notation sum_over := (sum_over R rO radd).
  Notation of_nat := (of_nat R rO rI radd).

  (** vector tables: name id -> dimension -> value *)
  Definition vtable := Z -> Z -> R.

  (** x = sum of the cue vectors of the event (repetitions count) *)
  Definition xvec (cv : vtable) (cues : list Z) : Z -> R := fun k => sum_over (fun c => cv c k) cues.
  (** t = sum of the outcome vectors of the event (a repeated outcome counts twice) *)
  Definition tvec (ov : vtable) (outs : list Z) : Z -> R := fun d => sum_over (fun o => ov o d) outs.
  (** (W x)_r for a column list *)
  Definition dotv (cols : list Z) (w x : Z -> R) : R := sum_over (fun k => rmul (x k) (w k)) cols.

  (** one event of the generic rule: row r moves by u(r, (W x)_r) * x *)
  Definition vstep (cols : list Z) (x : Z -> R) (uf : Z -> R -> R) (W : wfun) : wfun :=
    fun r k => radd (W r k) (rmul (uf r (dotv cols (W r) x)) (x k)).

  (** real cues -> real outcomes:  u = eta * (t_d - (W x)_d) *)
  Definition r2r_step (eta : R) (cv ov : vtable) (cdims : list Z) (e : event) : wfun -> wfun :=
    vstep cdims (xvec cv (fst e)) (fun d a => rmul eta (rsub (tvec ov (snd e) d) a)).
  (** real cues -> binary outcomes: u = beta1*(lambda - a) if the outcome is present, beta2*(0 - a) otherwise *)
  Definition r2b_step (b1 b2 la : R) (cv : vtable) (cdims : list Z) (e : event) : wfun -> wfun :=
    vstep cdims (xvec cv (fst e))
          (fun o a => if mem_z o (snd e) then rmul b1 (rsub la a) else rmul b2 (rsub rO a)).
  (** binary cues -> real outcomes: x is the multiplicity vector of the cues *)
  Definition b2r_step (eta : R) (ov : vtable) (e : event) (W : wfun) : wfun :=
    fun d c => radd (W d c)
                    (rmul (of_nat (countz c (fst e)))
                          (rmul eta (rsub (tvec ov (snd e) d) (act R rO radd W d (fst e))))).

  Definition r2r_learn eta cv ov cdims (es : list event) (W : wfun) : wfun :=
    fold_left (fun W e => r2r_step eta cv ov cdims e W) es W.
  Definition r2b_learn b1 b2 la cv cdims (es : list event) (W : wfun) : wfun :=
    fold_left (fun W e => r2b_step b1 b2 la cv cdims e W) es W.
  Definition b2r_learn eta ov (es : list event) (W : wfun) : wfun :=
    fold_left (fun W e => b2r_step eta ov e W) es W.
End WHSpec.
