(** Little-endian 32-bit words, as [pyndl.preprocess.to_bytes]/[to_integer]. *)
From Coq Require Import ZArith List.
Import ListNotations.
Open Scope Z_scope.

Definition two32 : Z := 4294967296.
Definition two64 : Z := 18446744073709551616.

(** [int.to_bytes(4, 'little')]; raises OverflowError outside [0, 2^32) -
    the caller guards with [fits32]. *)
Definition to_bytes (n : Z) : list Z :=
  [n mod 256; (n / 256) mod 256; (n / 65536) mod 256; (n / 16777216) mod 256].

Definition fits32 (n : Z) : bool := (0 <=? n) && (n <? two32).

(** [int.from_bytes(b, 'little')] for a byte string of any length (the Python
    reader hands it whatever [read(4)] returned, also fewer than 4 bytes). *)
Fixpoint to_integer (bs : list Z) : Z :=
  match bs with
  | [] => 0
  | b :: r => b + 256 * to_integer r
  end.

Definition is_byte (b : Z) : bool := (0 <=? b) && (b <? 256).
