(** Flat entry points of the corpus models (C19).  Decoding glue only.
    1901: create_corpus_from_gz.
      input : mode (0 current source, 1 logic before the repair) ; spaces (list of code points with
              str.isspace) ; dir_exists ; outfile_exists ; taken (list of counters k whose name
              "<outfile>.not_found[-k]" exists, 0 = plain name) ; n_workers ; schedule (list of worker
              numbers) ; walk = seq of (root (list) ; seq of (name (list) ; content))
              content = 0 (gzip.open raises FileNotFoundError) | 1 ; seq of sentences
              sentence = seq of words (0 | 1 ; list) ; seq of time tags (kind num den)
      output: status (0 ok, 1 no directory, 2 outfile exists, 3 ValueError, 4 UnboundLocalError) ;
              written? ; list ; not_found? ; counter ; list          ([-2] if the schedule does not
              let the pool finish)
    1902: list(read_clean_gzfile(file, break_duration=bd)).
      input : spaces ; bd num den ; seq of sentences
      output: [-1;3] ValueError | 0 :: seq of lines *)
From Coq Require Import ZArith List Bool QArith Qcanon.
From PV Require Import Flat BinFmt RWQc Corpus.
Import ListNotations.
Open Scope Z_scope.

Definition rd_word (l : list Z) : option (option str * list Z) :=
  match l with
  | 0 :: r => Some (None, r)
  | _ :: r => match rd_list r with Some (w, r') => Some (Some w, r') | None => None end
  | [] => None
  end.
Definition rd_time (l : list Z) : option (time_tag * list Z) :=
  match l with k :: n :: d :: r => Some ((k, qc_of n d), r) | _ => None end.
Definition rd_sentence (l : list Z) : option (sentence * list Z) :=
  match rd_pair (rd_seq rd_word) (rd_seq rd_time) l with
  | Some ((ws, ts), r) => Some ({| s_words := ws; s_times := ts |}, r)
  | None => None
  end.
Definition rd_content (l : list Z) : option (content * list Z) :=
  match l with
  | 0 :: r => Some (Missing, r)
  | _ :: r => match rd_seq rd_sentence r with Some (ss, r') => Some (Doc ss, r') | None => None end
  | [] => None
  end.
Definition rd_file := rd_pair rd_list rd_content.
Definition rd_entry := rd_pair rd_list (rd_seq rd_file).

Definition status_code (s : status) : Z :=
  match s with SOk => 0 | SNoDirectory => 1 | SOutfileExists => 2 | SValueError => 3 | SUnboundLocal => 4 end.

Definition wr_outcome (o : outcome) : list Z :=
  status_code (o_status o) ::
  (match o_written o with Some w => 1 :: wr_list w | None => [0; 0] end) ++
  (match o_not_found o with Some (k, nf) => 1 :: Z.of_nat k :: wr_list nf | None => [0; 0; 0] end).

Definition m_create_corpus (inp : list Z) : list Z :=
  match inp with
  | mode :: r0 =>
    match rd_list r0 with | Some (spaces, de :: oe :: r1) =>
    match rd_list r1 with | Some (taken, nw :: r2) =>
    match rd_list r2 with | Some (sched, r3) =>
    match rd_seq rd_entry r3 with | Some (walk, _) =>
      let is_space := fun c => mem_z c spaces in
      let the_job := if mode =? 1 then job_unrepaired is_space else job is_space in
      let n_tasks := length (gz_files_of walk) in
      let p := pool_run n_tasks (Z.to_nat nw) (map Z.to_nat sched) in
      if pool_finished p then
        wr_outcome (create_corpus the_job (de =? 1) (oe =? 1) walk (pq_done p)
                                  (fun k => mem_z (Z.of_nat k) taken) (S (length taken)))
      else bad_case
    | None => bad_case end | None => bad_case end | _ => bad_case end | _ => bad_case end
  | _ => bad_case
  end.

Definition m_read_clean (inp : list Z) : list Z :=
  match rd_list inp with
  | Some (spaces, n :: d :: r) =>
    match rd_seq rd_sentence r with
    | Some (ss, _) =>
      match read_clean (fun c => mem_z c spaces) (qc_of n d) ss 0%Qc with
      | Some ls => 0 :: Z.of_nat (length ls) :: flat_map wr_list ls
      | None => flat_err 3
      end
    | None => bad_case
    end
  | _ => bad_case
  end.

Definition run_c19 (id : Z) (inp : list Z) : option (list Z) :=
  if id =? 1901 then Some (m_create_corpus inp)
  else if id =? 1902 then Some (m_read_clean inp)
  else None.
