(** Labelled weight matrices and the zero extension that a continued parallel
    learner call builds (pyndl.ndl.ndl with weights=DataArray): old labels keep
    their positions, new labels are appended in ANY order (hash order of a set
    difference), the new rows and columns are zero.  Read through the labels the
    extended matrix is the old one. *)
From Coq Require Import ZArith List Bool Arith Lia.
Import ListNotations.

Section Labels.
  Variable R : Type.
  Variable rO : R.

  Fixpoint index_of (x : Z) (l : list Z) : option nat :=
    match l with
    | [] => None
    | y :: r => if Z.eqb x y then Some O else option_map S (index_of x r)
    end.

  Record lmatrix := { l_outs : list Z; l_cues : list Z; l_val : nat -> nat -> R }.

  (** weights.loc[outcome, cue], 0 for labels the matrix does not have *)
  Definition view (m : lmatrix) (o c : Z) : R :=
    match index_of o (l_outs m), index_of c (l_cues m) with
    | Some i, Some j => l_val m i j
    | _, _ => rO
    end.

  (** np.concatenate with zero blocks below and to the right *)
  Definition extend (m : lmatrix) (new_o new_c : list Z) : lmatrix :=
    {| l_outs := l_outs m ++ new_o; l_cues := l_cues m ++ new_c;
       l_val := fun i j => if Nat.ltb i (length (l_outs m)) && Nat.ltb j (length (l_cues m))
                           then l_val m i j else rO |}.

  Lemma index_of_app_l x l l' i : index_of x l = Some i -> index_of x (l ++ l') = Some i.
  Proof.
    revert i. induction l as [|y r IH]; intros i H; [discriminate|]. cbn in *.
    destruct (Z.eqb x y); [exact H|]. destruct (index_of x r) as [k|]; [|discriminate].
    cbn in *. now rewrite (IH k eq_refl).
  Qed.

  Lemma index_of_lt x l i : index_of x l = Some i -> i < length l.
  Proof.
    revert i. induction l as [|y r IH]; intros i H; [discriminate|]. cbn in *.
    destruct (Z.eqb x y); [inversion H; lia|]. destruct (index_of x r) as [k|]; [|discriminate].
    cbn in H. inversion H; subst. specialize (IH k eq_refl). lia.
  Qed.

  Lemma index_of_app_r x l l' : index_of x l = None ->
    index_of x (l ++ l') = option_map (fun k => length l + k) (index_of x l').
  Proof.
    induction l as [|y r IH]; intros H; cbn in *.
    - destruct (index_of x l'); reflexivity.
    - destruct (Z.eqb x y); [discriminate|]. destruct (index_of x r); [discriminate|].
      rewrite (IH eq_refl). destruct (index_of x l'); reflexivity.
  Qed.

  (** the extended matrix, read through its labels, is the old matrix read
      through the old labels - for every pair of names, old, new or unknown *)
  Theorem extend_view m new_o new_c o c :
    view (extend m new_o new_c) o c = view m o c.
  Proof.
    unfold view, extend. cbn [l_outs l_cues l_val].
    destruct (index_of o (l_outs m)) as [i|] eqn:Ho.
    - rewrite (index_of_app_l _ _ new_o _ Ho).
      destruct (index_of c (l_cues m)) as [j|] eqn:Hc.
      + rewrite (index_of_app_l _ _ new_c _ Hc).
        apply index_of_lt in Ho. apply index_of_lt in Hc.
        destruct (Nat.ltb_spec i (length (l_outs m))), (Nat.ltb_spec j (length (l_cues m))); try lia. reflexivity.
      + rewrite (index_of_app_r _ _ new_c Hc). destruct (index_of c new_c) as [k|]; cbn [option_map]; [|reflexivity].
        assert (E : Nat.ltb (length (l_cues m) + k) (length (l_cues m)) = false) by (apply Nat.ltb_ge; lia).
        rewrite E, andb_false_r. reflexivity.
    - rewrite (index_of_app_r _ _ new_o Ho). destruct (index_of o new_o) as [k|]; cbn [option_map]; [|reflexivity].
      destruct (index_of c (l_cues m ++ new_c)); [|reflexivity].
      assert (E : Nat.ltb (length (l_outs m) + k) (length (l_outs m)) = false) by (apply Nat.ltb_ge; lia).
      rewrite E. reflexivity.
  Qed.

  (** positions of distinct labels are distinct: the numbering handed to the kernel is injective *)
  Theorem index_of_injective l x y i : index_of x l = Some i -> index_of y l = Some i -> x = y.
  Proof.
    revert i. induction l as [|z r IH]; intros i Hx Hy; [discriminate|]. cbn in *.
    destruct (Z.eqb_spec x z) as [->|Nx], (Z.eqb_spec y z) as [->|Ny]; try reflexivity.
    - inversion Hx; subst. destruct (index_of y r); cbn in Hy; discriminate.
    - inversion Hy; subst. destruct (index_of x r); cbn in Hx; discriminate.
    - destruct (index_of x r) as [a|], (index_of y r) as [b|]; cbn in *; try discriminate.
      inversion Hx; inversion Hy; subst. inversion H1; subst. now apply (IH a).
  Qed.
End Labels.
