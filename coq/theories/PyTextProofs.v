(** Proofs about the text primitives of PyText.v. *)
From Coq Require Import ZArith List Bool Lia.
From PV Require Import PyText.
Import ListNotations.
Open Scope Z_scope.

Lemma str_eqb_eq a b : str_eqb a b = true <-> a = b.
Proof.
  revert b. induction a as [|x a IH]; intros [|y b]; cbn; split; intros H; try easy.
  - apply andb_true_iff in H as [H1 H2]. apply Z.eqb_eq in H1. apply IH in H2. now subst.
  - inversion H; subst. rewrite Z.eqb_refl. cbn. now apply IH.
Qed.

Lemma str_eqb_refl a : str_eqb a a = true.
Proof. now apply str_eqb_eq. Qed.

Lemma str_eqb_neq a b : str_eqb a b = false <-> a <> b.
Proof.
  split; intros H.
  - intros E. apply str_eqb_eq in E. congruence.
  - destruct (str_eqb a b) eqn:E; [|reflexivity]. apply str_eqb_eq in E. contradiction.
Qed.

Lemma is_nil_true {A} (l : list A) : is_nil l = true <-> l = [].
Proof. destruct l; cbn; split; easy. Qed.

(** ** split / join *)
Lemma split_on_nonempty sep s : split_on sep s <> [].
Proof.
  induction s as [|c r IH]; cbn; [easy|].
  destruct (c =? sep); [easy|]. destruct (split_on sep r); easy.
Qed.

Lemma split_on_no_sep sep s t : In t (split_on sep s) -> ~ In sep t.
Proof.
  revert t. induction s as [|c r IH]; cbn; intros t H.
  - destruct H as [<-|[]]. easy.
  - destruct (c =? sep) eqn:E.
    + destruct H as [<-|H]; [easy|]. now apply IH.
    + apply Z.eqb_neq in E. destruct (split_on sep r) as [|t0 ts] eqn:Es.
      * destruct H as [<-|[]]. intros [H|[]]. congruence.
      * destruct H as [<-|H].
        -- intros [H|H]; [congruence|]. revert H. apply IH. now left.
        -- apply IH. now right.
Qed.

Lemma split_on_chars sep s t x : In t (split_on sep s) -> In x t -> In x s.
Proof.
  revert t. induction s as [|c r IH]; cbn; intros t H Hx.
  - destruct H as [<-|[]]. easy.
  - destruct (c =? sep).
    + destruct H as [<-|H]; [easy|]. right. eapply IH; eauto.
    + destruct (split_on sep r) as [|t0 ts] eqn:Es.
      * destruct H as [<-|[]]. destruct Hx as [<-|[]]. now left.
      * destruct H as [<-|H].
        -- destruct Hx as [<-|Hx]; [now left|]. right. apply (IH t0); [now left|exact Hx].
        -- right. apply (IH t); [now right|exact Hx].
Qed.

Lemma split_on_nosep sep s : ~ In sep s -> split_on sep s = [s].
Proof.
  induction s as [|c r IH]; cbn; intros H; [reflexivity|].
  destruct (c =? sep) eqn:E.
  - apply Z.eqb_eq in E. exfalso. apply H. now left.
  - rewrite IH; [reflexivity|]. intros Hr. apply H. now right.
Qed.

Lemma split_on_app sep a b :
  ~ In sep a -> split_on sep (a ++ sep :: b) = a :: split_on sep b.
Proof.
  induction a as [|c r IH]; cbn; intros H.
  - now rewrite Z.eqb_refl.
  - destruct (c =? sep) eqn:E.
    + apply Z.eqb_eq in E. exfalso. apply H. now left.
    + rewrite IH; [reflexivity|]. intros Hr. apply H. now right.
Qed.

Lemma join_cons sep t r : r <> [] -> join sep (t :: r) = t ++ sep :: join sep r.
Proof. destruct r; [easy|reflexivity]. Qed.

(** [sep.join(ts).split(sep) == ts] for a non-empty list of separator-free strings *)
Lemma split_join sep ts :
  ts <> [] -> (forall t, In t ts -> ~ In sep t) -> split_on sep (join sep ts) = ts.
Proof.
  induction ts as [|t r IH]; intros Hne Hs; [easy|].
  destruct r as [|t' r'].
  - cbn. apply split_on_nosep. apply Hs. now left.
  - rewrite join_cons by easy. rewrite split_on_app by (apply Hs; now left).
    f_equal. apply IH; [easy|]. intros x Hx. apply Hs. now right.
Qed.

(** the exception the property makes: the empty list is written as the empty
    field and read back as the single empty token *)
Lemma split_join_nil sep : split_on sep (join sep []) = [[]].
Proof. reflexivity. Qed.

Lemma join_single_empty sep : join sep [[]] = join sep [].
Proof. reflexivity. Qed.

Lemma join_split sep s : join sep (split_on sep s) = s.
Proof.
  induction s as [|c r IH]; cbn; [reflexivity|].
  destruct (c =? sep) eqn:E.
  - apply Z.eqb_eq in E. subst c.
    rewrite join_cons by apply split_on_nonempty. cbn. now rewrite IH.
  - pose proof (split_on_nonempty sep r) as Hne.
    destruct (split_on sep r) as [|t ts]; [easy|].
    destruct ts as [|t' ts'].
    + cbn in *. now rewrite IH.
    + rewrite join_cons by easy. rewrite join_cons in IH by easy.
      rewrite <- app_comm_cons. now rewrite IH.
Qed.

Lemma join_chars sep ts x : In x (join sep ts) -> x = sep \/ exists t, In t ts /\ In x t.
Proof.
  induction ts as [|t r IH]; cbn; [easy|].
  destruct r as [|t' r'].
  - intros H. right. exists t. split; [now left|exact H].
  - intros H. apply in_app_iff in H as [H|[H|H]].
    + right. exists t. split; [now left|exact H].
    + now left.
    + destruct (IH H) as [E|(u & Hu & Hx)]; [now left|]. right. exists u. split; [now right|exact Hx].
Qed.

(** ** strip *)
Lemma lstrip_c_id c s : ~ In c s -> lstrip_c c s = s.
Proof.
  destruct s as [|x r]; cbn; intros H; [reflexivity|].
  destruct (x =? c) eqn:E; [|reflexivity]. apply Z.eqb_eq in E. exfalso. apply H. now left.
Qed.

Lemma lstrip_c_hd c x r : x <> c -> lstrip_c c (x :: r) = x :: r.
Proof. intros H. cbn. apply Z.eqb_neq in H. now rewrite H. Qed.

Lemma rstrip_c_id c s : ~ In c s -> rstrip_c c s = s.
Proof.
  induction s as [|x r IH]; cbn; intros H; [reflexivity|].
  rewrite IH by (intros Hr; apply H; now right).
  destruct (x =? c) eqn:E; [|reflexivity]. apply Z.eqb_eq in E. exfalso. apply H. now left.
Qed.

Lemma rstrip_c_snoc c s : ~ In c s -> rstrip_c c (s ++ [c]) = s.
Proof.
  induction s as [|x r IH]; cbn; intros H.
  - now rewrite Z.eqb_refl.
  - rewrite IH by (intros Hr; apply H; now right).
    destruct (x =? c) eqn:E; [|reflexivity]. apply Z.eqb_eq in E. exfalso. apply H. now left.
Qed.

Lemma lstrip_c_incl c s x : In x (lstrip_c c s) -> In x s.
Proof.
  induction s as [|y r IH]; cbn; [easy|].
  destruct (y =? c); [|easy]. intros H. right. now apply IH.
Qed.

Lemma rstrip_c_incl c s x : In x (rstrip_c c s) -> In x s.
Proof.
  induction s as [|y r IH]; cbn; [easy|].
  destruct ((y =? c) && is_nil (rstrip_c c r)); [easy|].
  intros [H|H]; [now left|]. right. now apply IH.
Qed.

Lemma strip_c_incl c s x : In x (strip_c c s) -> In x s.
Proof. unfold strip_c. intros H. apply rstrip_c_incl in H. now apply lstrip_c_incl in H. Qed.

(** ** universal newlines and lines *)
Lemma univ_nl_no_cr s : ~ In CR (univ_nl s).
Proof.
  (* strong induction through the two-step recursion *)
  assert (H : forall n s, (length s <= n)%nat -> ~ In CR (univ_nl s)).
  { induction n as [|n IH]; intros [|c r] Hl; cbn in *; try easy; try lia.
    destruct (c =? CR) eqn:E.
    - intros [H|H]; [discriminate H|].
      destruct r as [|d r']; [easy|]. destruct (d =? LF).
      + revert H. apply IH. cbn in *. lia.
      + revert H. apply IH. cbn in *. lia.
    - apply Z.eqb_neq in E. intros [H|H]; [congruence|]. revert H. apply IH. lia. }
  now apply (H (length s)).
Qed.

Lemma univ_nl_id s : ~ In CR s -> univ_nl s = s.
Proof.
  induction s as [|c r IH]; cbn; intros H; [reflexivity|].
  destruct (c =? CR) eqn:E.
  - apply Z.eqb_eq in E. exfalso. apply H. now left.
  - rewrite IH; [reflexivity|]. intros Hr. apply H. now right.
Qed.

Lemma split_lines_concat s : concat (split_lines s) = s.
Proof.
  induction s as [|c r IH]; cbn; [reflexivity|].
  destruct (c =? LF) eqn:E.
  - apply Z.eqb_eq in E. subst. cbn. now rewrite IH.
  - destruct (split_lines r) as [|l ls]; cbn in *.
    + now rewrite <- IH.
    + now rewrite <- IH.
Qed.

Lemma split_lines_app_full b rest :
  ~ In LF b -> split_lines ((b ++ [LF]) ++ rest) = (b ++ [LF]) :: split_lines rest.
Proof.
  induction b as [|c r IH]; cbn; intros H.
  - reflexivity.
  - destruct (c =? LF) eqn:E.
    + apply Z.eqb_eq in E. exfalso. apply H. now left.
    + cbn in IH. rewrite IH; [reflexivity|]. intros Hr. apply H. now right.
Qed.

Lemma split_lines_open l : open_line l -> split_lines l = [l].
Proof.
  intros [Hne Hlf]. induction l as [|c r IH]; [easy|].
  cbn. destruct (c =? LF) eqn:E.
  - apply Z.eqb_eq in E. exfalso. apply Hlf. now left.
  - destruct r as [|d r']; [reflexivity|].
    rewrite IH; [reflexivity|easy|]. intros Hr. apply Hlf. now right.
Qed.

Lemma split_lines_full_lines ls :
  (forall l, In l ls -> full_line l) -> split_lines (concat ls) = ls.
Proof.
  induction ls as [|l r IH]; intros H; [reflexivity|].
  destruct (H l (or_introl eq_refl)) as (b & -> & Hb).
  cbn [concat]. rewrite split_lines_app_full by exact Hb. f_equal.
  apply IH. intros x Hx. apply H. now right.
Qed.

(** shape of what [split_lines] returns: every line but the last is full, the
    last is full or open *)
Lemma split_lines_shape s :
  match rev (split_lines s) with
  | [] => s = []
  | last :: front => (full_line last \/ open_line last) /\ forall l, In l front -> full_line l
  end.
Proof.
  induction s as [|c r IH]; [reflexivity|].
  cbn [split_lines]. destruct (c =? LF) eqn:E.
  - apply Z.eqb_eq in E. subst c. cbn [rev].
    destruct (rev (split_lines r)) as [|last front] eqn:Er.
    + cbn. split; [left; exists []; split; [reflexivity|easy]|easy].
    + cbn. destruct IH as [Hl Hf]. split; [exact Hl|].
      intros l Hl'. apply in_app_iff in Hl' as [Hl'|[<-|[]]]; [now apply Hf|].
      exists []. split; [reflexivity|easy].
  - apply Z.eqb_neq in E. destruct (split_lines r) as [|l ls] eqn:Es.
    + cbn. split; [|easy]. right. split; [easy|]. intros [H|[]]. congruence.
    + cbn [rev] in *.
      assert (Hc : forall x, full_line x -> full_line (c :: x)).
      { intros x (b & -> & Hb). exists (c :: b). split; [reflexivity|].
        intros [H|H]; [congruence|contradiction]. }
      destruct (rev ls) as [|last front] eqn:Er.
      * cbn in *. destruct IH as [[Hl|[Hne Hlf]] _]; (split; [|easy]).
        -- left. now apply Hc.
        -- right. split; [easy|]. intros [H|H]; [congruence|contradiction].
      * cbn in *. destruct IH as [Hl Hf]. split; [exact Hl|].
        intros x Hx. apply in_app_iff in Hx as [Hx|[<-|[]]].
        -- apply Hf. apply in_app_iff. now left.
        -- apply Hc. apply Hf. apply in_app_iff. right. now left.
Qed.

Lemma split_lines_chars s l x : In l (split_lines s) -> In x l -> In x s.
Proof.
  intros Hl Hx. rewrite <- (split_lines_concat s). apply in_concat. eauto.
Qed.

Lemma file_lines_of_full ls :
  (forall l, In l ls -> full_line l /\ ~ In CR l) -> file_lines (concat ls) = ls.
Proof.
  intros H. unfold file_lines. rewrite univ_nl_id.
  - apply split_lines_full_lines. intros l Hl. now apply H.
  - intros Hx. apply in_concat in Hx as (l & Hl & Hx). now apply (H l Hl).
Qed.
