(** Proofs about the run-metadata model ([Attrs.v]). *)
From Coq Require Import String.
From Coq Require Import ZArith List Bool Lia DecimalZ.
From PV Require Import BinFmt Attrs.
Import ListNotations.
Open Scope Z_scope.

(** * Strings *)
Lemma eqb_str_eq a b : eqb_str a b = true <-> a = b.
Proof.
  revert b. induction a as [|x a IH]; intros [|y b]; cbn; try (split; congruence).
  rewrite andb_true_iff, Z.eqb_eq, IH. split; [intros [-> ->]; reflexivity|].
  intros H; inversion H; auto.
Qed.

Lemma eqb_str_refl a : eqb_str a a = true.
Proof. now apply eqb_str_eq. Qed.

(** * [split] *)
Lemma split_on_nonempty sp k s : split_on sp k s <> [].
Proof.
  revert k. induction s as [|c r IH]; intros k; cbn; [discriminate|].
  destruct k; [|apply IH].
  destruct (is_prefix sp (c :: r)); [discriminate|].
  destruct (split_on sp 0 r); discriminate.
Qed.

Lemma split_on_skip sp (l b : str) : split_on sp (length l) (l ++ b) = split_on sp 0 b.
Proof. induction l as [|x l IH]; cbn; [destruct b; reflexivity|exact IH]. Qed.

(** no separator starts inside [a] when [a] is followed by [t] *)
Definition nosep_before (a t : str) : Prop :=
  forall a1 a2, a = a1 ++ a2 -> a2 <> [] -> is_prefix sep (a2 ++ t) = false.

Lemma nosep_before_tail c a t : nosep_before (c :: a) t -> nosep_before a t.
Proof. intros H a1 a2 E N. apply (H (c :: a1) a2); [now rewrite E|exact N]. Qed.

Lemma split_app a t :
  nosep_before a t ->
  split sep (a ++ t) = match split sep t with e :: es => (a ++ e) :: es | [] => [a] end.
Proof.
  unfold split. induction a as [|c a IH]; intros H.
  - cbn [app]. destruct (split_on sep 0 t) eqn:E; [|reflexivity].
    now apply split_on_nonempty in E.
  - pose proof (H [] (c :: a) eq_refl ltac:(discriminate)) as Hp.
    cbn [app] in *. cbn [split_on]. rewrite Hp.
    rewrite (IH (nosep_before_tail _ _ _ H)).
    destruct (split_on sep 0 t); reflexivity.
Qed.

Lemma split_sep_head b : split sep (sep ++ b) = [] :: split sep b.
Proof. reflexivity. Qed.

(** an entry that can be followed by nothing or by a space without creating a separator *)
Definition clean (e : str) : Prop := forall t, hd SP t = SP -> nosep_before e t.

Lemma clean_nil : clean [].
Proof. intros t _ a1 a2 E N. destruct a1; destruct a2; cbn in E; congruence. Qed.

Lemma suffix_of_spaces n (a1 a2 : str) : repeat SP n = a1 ++ a2 -> a2 = repeat SP (length a2).
Proof.
  intros E. apply Forall_eq_repeat.
  assert (F : Forall (eq SP) (a1 ++ a2)) by (rewrite <- E; apply Forall_forall; intros x Hx;
    symmetry; now apply repeat_spec in Hx).
  apply Forall_app in F. tauto.
Qed.

Lemma spaces_no_sep m t : hd SP t = SP -> (m <> 0)%nat -> is_prefix sep (repeat SP m ++ t) = false.
Proof.
  intros Ht Hm. destruct m as [|[|m]]; [congruence| |reflexivity].
  destruct t as [|t0 t]; [reflexivity|]. cbn in Ht. subst t0. reflexivity.
Qed.

Lemma clean_pad v n : sep_free v = true -> clean (v ++ repeat SP n).
Proof.
  intros Hv t Ht. induction v as [|c r IH]; intros a1 a2 E N.
  - cbn [app] in E. pose proof (suffix_of_spaces _ _ _ E) as Ea. rewrite Ea.
    apply spaces_no_sep; [exact Ht|]. destruct a2; [congruence|cbn; discriminate].
  - cbn [sep_free] in Hv. apply andb_true_iff in Hv as [Hc Hr].
    apply negb_true_iff in Hc.
    destruct a1 as [|x a1].
    + cbn [app] in E. subst a2. clear IH N Hr.
      unfold sep, SP, BAR in *.
      destruct r as [|d [|e r]]; cbn [is_prefix app] in Hc |- *.
      * destruct (32 =? c); [|reflexivity]. cbn [andb].
        destruct n; cbn [repeat app].
        -- destruct t as [|t0 t]; [reflexivity|]. cbn in Ht. subst t0. reflexivity.
        -- reflexivity.
      * destruct (32 =? c); [|reflexivity]. cbn [andb] in *.
        destruct (124 =? d); [|reflexivity]. cbn [andb] in *. discriminate.
      * exact Hc.
    + cbn [app] in E. inversion E; subst x. apply (IH Hr a1 a2); assumption.
Qed.

(** left-nested accumulation, as the code builds it *)
Definition joinl (first : str) (rest : list str) : str :=
  fold_left (fun acc e => acc ++ sep ++ e) rest first.

Lemma joinl_flat first rest :
  joinl first rest = first ++ concat (map (fun e => sep ++ e) rest).
Proof.
  unfold joinl. revert first. induction rest as [|e r IH]; intros first; cbn.
  - now rewrite app_nil_r.
  - rewrite IH. now rewrite <- !app_assoc.
Qed.

Lemma split_join first rest :
  clean first -> Forall clean rest -> split sep (joinl first rest) = first :: rest.
Proof.
  rewrite joinl_flat. revert first. induction rest as [|e r IH]; intros first Hf Hr.
  - cbn. rewrite split_app by (apply Hf; reflexivity). cbn. now rewrite app_nil_r.
  - inversion Hr as [|? ? He Hr']; subst. cbn [map concat].
    rewrite split_app by (apply Hf; reflexivity).
    rewrite <- app_assoc, split_sep_head, (IH e He Hr'). now rewrite app_nil_r.
Qed.

(** * [rstrip] and padding *)
Lemma rstrip_spaces n : rstrip (repeat SP n) = [].
Proof. induction n as [|n IH]; cbn; [reflexivity|]. now rewrite IH. Qed.

Lemma rstrip_app_spaces s n : rstrip (s ++ repeat SP n) = rstrip s.
Proof.
  induction s as [|c s IH]; cbn [app]; [cbn; apply rstrip_spaces|].
  cbn [rstrip]. now rewrite IH.
Qed.

Lemma rstrip_pad w s : rstrip (pad w s) = rstrip s.
Proof. apply rstrip_app_spaces. Qed.

Lemma rstrip_id s : last s 0 <> SP -> rstrip s = s.
Proof.
  induction s as [|c s IH]; [reflexivity|]. intros H. cbn [rstrip].
  destruct s as [|d s].
  - cbn in *. destruct (c =? SP) eqn:E; [apply Z.eqb_eq in E; congruence|reflexivity].
  - rewrite IH by exact H. reflexivity.
Qed.

Lemma pad_never_truncates w s : exists n, pad w s = s ++ repeat SP n /\ (len (pad w s) = Z.max w (len s)).
Proof.
  unfold pad, len. eexists; split; [reflexivity|].
  rewrite app_length, repeat_length. lia.
Qed.

(** * [str(int)] *)
Lemma digits_inj u v : digits u = digits v -> u = v.
Proof.
  revert v. induction u; intros v H; destruct v; cbn in H; try discriminate; try reflexivity;
    inversion H; f_equal; auto.
Qed.

Lemma digits_no_minus u : hd 0 (digits u) <> 45.
Proof. destruct u; cbn; discriminate. Qed.

Lemma str_of_Z_inj n m : str_of_Z n = str_of_Z m -> n = m.
Proof.
  unfold str_of_Z. intros H.
  assert (E : Z.to_int n = Z.to_int m).
  { destruct (Z.to_int n) as [u|u], (Z.to_int m) as [v|v].
    - f_equal. now apply digits_inj.
    - exfalso. apply (digits_no_minus u). now rewrite H.
    - exfalso. apply (digits_no_minus v). now rewrite <- H.
    - f_equal. inversion H. now apply digits_inj. }
  rewrite <- (DecimalZ.of_to n), <- (DecimalZ.of_to m). now rewrite E.
Qed.

(** * Association lists *)
Lemma lookup_app {V} k (a b : list (str * V)) :
  lookup k (a ++ b) = match lookup k a with Some v => Some v | None => lookup k b end.
Proof.
  induction a as [|kv a IH]; cbn; [reflexivity|].
  destruct (eqb_str k (fst kv)); [reflexivity|exact IH].
Qed.

Lemma lookup_map {V W} k (f : str -> V -> W) (a : list (str * V)) :
  lookup k (map (fun kv => (fst kv, f (fst kv) (snd kv))) a) =
  match lookup k a with Some v => Some (f k v) | None => None end.
Proof.
  induction a as [|kv a IH]; cbn; [reflexivity|].
  destruct (eqb_str k (fst kv)) eqn:E; [|exact IH].
  apply eqb_str_eq in E. now subst.
Qed.

Lemma lookup_old_only k (new o : attrs) :
  lookup k (map (fun kv => (fst kv, snd kv ++ sep ++ []))
                (filter (fun kv => negb (has_key (fst kv) new)) o)) =
  if has_key k new then None
  else match lookup k o with Some v => Some (v ++ sep ++ []) | None => None end.
Proof.
  induction o as [|kv o IH]; cbn [filter map lookup]; [now destruct (has_key k new)|].
  destruct (eqb_str k (fst kv)) eqn:E.
  - apply eqb_str_eq in E. subst k.
    destruct (has_key (fst kv) new) eqn:Hn; cbn [negb].
    + exact IH.
    + cbn [map lookup fst snd].
      match goal with |- (if ?b then _ else _) = _ =>
        replace b with true by (symmetry; apply eqb_str_refl) end.
      reflexivity.
  - destruct (negb (has_key (fst kv) new)); [|exact IH].
    cbn [map lookup fst snd].
    match goal with |- (if ?b then _ else _) = _ => replace b with false by (symmetry; exact E) end.
    exact IH.
Qed.

(** one accumulation step, key by key *)
Lemma accumulate_get o new k :
  has_key k new || has_key k o = true ->
  get (accumulate (Some o) new) k = get o k ++ sep ++ get new k.
Proof.
  unfold accumulate, get. rewrite lookup_app.
  rewrite (lookup_map k (fun k' v => get o k' ++ sep ++ v)). unfold get.
  rewrite lookup_old_only. unfold has_key. unfold attrs, str in *.
  destruct (lookup k new); [reflexivity|].
  destruct (lookup k o); [reflexivity|discriminate].
Qed.

Lemma accumulate_has_key o new k :
  has_key k (accumulate (Some o) new) = has_key k new || has_key k o.
Proof.
  unfold accumulate. unfold has_key at 1. rewrite lookup_app.
  rewrite (lookup_map k (fun k' v => get o k' ++ sep ++ v)).
  rewrite lookup_old_only. unfold has_key. unfold attrs, str in *.
  destruct (lookup k new); [reflexivity|].
  destruct (lookup k o); reflexivity.
Qed.

(** * Chains *)
Definition keys_sub (c c0 : call) : Prop :=
  forall k, has_key k (new_attrs c) = true -> has_key k (new_attrs c0) = true.

Lemma joinl_snoc first done x : joinl first (done ++ [x]) = joinl first done ++ sep ++ x.
Proof. unfold joinl. now rewrite fold_left_app. Qed.

Lemma chain_inv rest : forall c0 done A,
  (forall k, has_key k A = has_key k (new_attrs c0)) ->
  (forall k, has_key k A = true -> get A k = joinl (entry k c0) (map (entry k) done)) ->
  (forall c, In c rest -> keys_sub c c0) ->
  exists A', chain (Some A) rest = Some A' /\
    (forall k, has_key k A' = has_key k (new_attrs c0)) /\
    (forall k, has_key k A' = true ->
               get A' k = joinl (entry k c0) (map (entry k) (done ++ rest))).
Proof.
  induction rest as [|c rest IH]; intros c0 done A Hk Hg Hs.
  - exists A. rewrite app_nil_r. auto.
  - cbn [chain]. unfold attributes.
    assert (Hk' : forall k, has_key k (accumulate (Some A) (new_attrs c)) = has_key k (new_attrs c0)).
    { intros k. rewrite accumulate_has_key, Hk.
      destruct (has_key k (new_attrs c)) eqn:E; [|reflexivity].
      cbn. symmetry. apply (Hs c (or_introl eq_refl)). exact E. }
    destruct (IH c0 (done ++ [c]) (accumulate (Some A) (new_attrs c))) as (A' & HA' & Hk2 & Hg2).
    + exact Hk'.
    + intros k Hin. rewrite accumulate_get.
      * rewrite map_app. cbn [map]. rewrite joinl_snoc. rewrite Hg; [reflexivity|].
        rewrite Hk, <- Hk'. exact Hin.
      * rewrite <- accumulate_has_key. exact Hin.
    + intros c' Hc'. apply Hs. now right.
    + exists A'. rewrite <- app_assoc in Hg2. auto.
Qed.

Lemma get_has_key a k : has_key k a = true -> lookup k a = Some (get a k).
Proof. unfold has_key, get. destruct (lookup k a); [reflexivity|discriminate]. Qed.

(** after a chain whose later calls bring no key the first call did not have,
    every attribute is the first call's entry followed by [' | ' ++ entry]
    for every later call *)
Lemma chain_joined c0 rest :
  (forall c, In c rest -> keys_sub c c0) ->
  exists A, chain None (c0 :: rest) = Some A /\
    forall k, has_key k (new_attrs c0) = true ->
      lookup k A = Some (joinl (entry k c0) (map (entry k) rest)).
Proof.
  intros Hs. cbn [chain]. unfold attributes at 1. cbn [accumulate].
  destruct (chain_inv rest c0 [] (new_attrs c0)) as (A & HA & Hk & Hg).
  - reflexivity.
  - intros k _. reflexivity.
  - exact Hs.
  - exists A. split; [exact HA|]. intros k Hin.
    rewrite <- Hk in Hin. rewrite (get_has_key _ _ Hin). f_equal. now apply Hg.
Qed.

(** entries are clean when the raw values are separator free *)
Lemma entry_clean k c : sep_free (raw_str k c) = true -> clean (entry k c).
Proof.
  unfold entry, raw_str, get, new_attrs.
  rewrite (lookup_map k (fun _ v => format_ (width c) v)).
  destruct (lookup k (raw c)) as [f|]; [|intros _; apply clean_nil].
  intros H. unfold format_, pad. now apply clean_pad.
Qed.

Lemma entry_rstrip k c : rstrip (entry k c) = rstrip (raw_str k c).
Proof.
  unfold entry, raw_str, get, new_attrs.
  rewrite (lookup_map k (fun _ v => format_ (width c) v)).
  destruct (lookup k (raw c)) as [f|]; [|reflexivity].
  apply rstrip_pad.
Qed.

Lemma entry_missing k c : has_key k (new_attrs c) = false -> entry k c = [].
Proof. unfold entry, get, has_key. now destruct (lookup k (new_attrs c)). Qed.

Lemma entry_present k c f :
  lookup k (raw c) = Some f -> entry k c = format_ (width c) f.
Proof.
  intros H. unfold entry, get, new_attrs.
  rewrite (lookup_map k (fun _ v => format_ (width c) v)), H. reflexivity.
Qed.

Theorem entries_general c0 rest k :
  (forall c, In c rest -> keys_sub c c0) ->
  (forall c, In c (c0 :: rest) -> sep_free (raw_str k c) = true) ->
  has_key k (new_attrs c0) = true ->
  exists A v, chain None (c0 :: rest) = Some A /\ lookup k A = Some v /\
    split sep v = map (entry k) (c0 :: rest) /\
    entries v = map (fun c => rstrip (raw_str k c)) (c0 :: rest) /\
    length (entries v) = length (c0 :: rest).
Proof.
  intros Hs Hv Hk. destruct (chain_joined c0 rest Hs) as (A & HA & HL).
  exists A, (joinl (entry k c0) (map (entry k) rest)).
  assert (S : split sep (joinl (entry k c0) (map (entry k) rest)) = map (entry k) (c0 :: rest)).
  { apply split_join.
    - apply entry_clean, Hv. now left.
    - apply Forall_forall. intros e He. apply in_map_iff in He as (c & <- & Hc).
      apply entry_clean, Hv. now right. }
  assert (E : entries (joinl (entry k c0) (map (entry k) rest)) =
              map (fun c => rstrip (raw_str k c)) (c0 :: rest)).
  { unfold entries. rewrite S, map_map. apply map_ext. intros c. apply entry_rstrip. }
  repeat split; auto. rewrite E. now rewrite map_length.
Qed.

(** * Key sets *)
Lemma has_key_map {V} k (g : str * V -> str) (l : list (str * V)) :
  has_key k (map (fun kv => (fst kv, g kv)) l) = existsb (eqb_str k) (map fst l).
Proof.
  unfold has_key. induction l as [|kv l IH]; cbn; [reflexivity|].
  destruct (eqb_str k (fst kv)); [reflexivity|exact IH].
Qed.

Lemma raw_keys c : map fst (raw c) = keys_of (c_family c).
Proof. unfold raw. destruct (c_family c); reflexivity. Qed.

Lemma has_key_new k c : has_key k (new_attrs c) = existsb (eqb_str k) (keys_of (c_family c)).
Proof. unfold new_attrs. rewrite has_key_map. now rewrite raw_keys. Qed.

Lemma existsb_eqb_In k l : existsb (eqb_str k) l = true <-> In k l.
Proof.
  rewrite existsb_exists. split.
  - intros (x & Hx & E). apply eqb_str_eq in E. now subst.
  - intros H. exists k. split; [exact H|apply eqb_str_refl].
Qed.

Lemma wh_keys_incl : incl wh_keys ndl_keys.
Proof.
  assert (B : forallb (fun x => existsb (eqb_str x) ndl_keys) wh_keys = true) by (vm_compute; reflexivity).
  intros x Hx. rewrite forallb_forall in B. apply existsb_eqb_In. now apply B.
Qed.

Lemma keys_sub_same c c0 : c_family c = c_family c0 -> keys_sub c c0.
Proof. intros E k. rewrite !has_key_new, E. auto. Qed.

Lemma keys_sub_ndl c c0 : c_family c0 = FamNdl -> keys_sub c c0.
Proof.
  intros E k. rewrite !has_key_new, E, !existsb_eqb_In. cbn [keys_of].
  destruct (c_family c); cbn [keys_of]; [auto|apply wh_keys_incl].
Qed.

Lemma lookup_In {V} k (l : list (str * V)) v : lookup k l = Some v -> exists kv, In kv l /\ snd kv = v.
Proof.
  induction l as [|kv l IH]; cbn; [discriminate|].
  destruct (eqb_str k (fst kv)).
  - intros H. inversion H. exists kv. auto.
  - intros H. destruct (IH H) as (x & Hx & E). exists x. auto.
Qed.

Lemma values_ok_raw_str c k : values_ok c = true -> sep_free (raw_str k c) = true.
Proof.
  unfold values_ok, raw_str. intros H. rewrite forallb_forall in H.
  destruct (lookup k (raw c)) as [f|] eqn:E; [|reflexivity].
  apply lookup_In in E as (kv & Hin & <-). now apply H.
Qed.

(** ** constant key set *)
Theorem entries_same_family c0 rest k :
  (forall c, In c rest -> c_family c = c_family c0) ->
  (forall c, In c (c0 :: rest) -> values_ok c = true) ->
  In k (keys_of (c_family c0)) ->
  exists A v, chain None (c0 :: rest) = Some A /\ lookup k A = Some v /\
    split sep v = map (entry k) (c0 :: rest) /\
    entries v = map (fun c => rstrip (raw_str k c)) (c0 :: rest) /\
    length (entries v) = length (c0 :: rest).
Proof.
  intros Hf Hv Hk. apply entries_general.
  - intros c Hc. apply keys_sub_same. now apply Hf.
  - intros c Hc. apply values_ok_raw_str. now apply Hv.
  - rewrite has_key_new. now apply existsb_eqb_In.
Qed.

Lemma lookup_existsb {V} k (l : list (str * V)) :
  (match lookup k l with Some _ => true | None => false end) = existsb (eqb_str k) (map fst l).
Proof.
  induction l as [|kv l IH]; cbn; [reflexivity|].
  destruct (eqb_str k (fst kv)); [reflexivity|exact IH].
Qed.

Lemma raw_str_missing k c : ~ In k (keys_of (c_family c)) -> raw_str k c = [].
Proof.
  intros Hn. unfold raw_str. pose proof (lookup_existsb k (raw c)) as L.
  destruct (lookup k (raw c)); [|reflexivity].
  exfalso. apply Hn. rewrite <- raw_keys. apply existsb_eqb_In. now rewrite <- L.
Qed.

(** ** differing key sets: an ndl-family call first, then calls of either family *)
Theorem entries_ndl_first c0 rest k :
  c_family c0 = FamNdl ->
  (forall c, In c (c0 :: rest) -> values_ok c = true) ->
  In k ndl_keys ->
  (exists A v, chain None (c0 :: rest) = Some A /\ lookup k A = Some v /\
    split sep v = map (entry k) (c0 :: rest) /\
    entries v = map (fun c => rstrip (raw_str k c)) (c0 :: rest) /\
    length (entries v) = length (c0 :: rest)) /\
  (forall c, c_family c = FamWh -> ~ In k wh_keys -> entry k c = [] /\ raw_str k c = []).
Proof.
  intros Hf Hv Hk. split.
  - apply entries_general.
    + intros c Hc. now apply keys_sub_ndl.
    + intros c Hc. apply values_ok_raw_str. now apply Hv.
    + rewrite has_key_new, Hf. now apply existsb_eqb_In.
  - intros c Hc Hn. split.
    + apply entry_missing. rewrite has_key_new, Hc. cbn [keys_of]. apply not_true_is_false.
      rewrite existsb_eqb_In. exact Hn.
    + apply raw_str_missing. now rewrite Hc.
Qed.

(** * [number_events] *)
Lemma window_length (es : list event) start stop :
  0 <= start <= stop ->
  Z.of_nat (length (window es start stop)) =
  Z.min (Z.min (stop - start) (Z.of_nat (length es)))
        (Z.of_nat (length es) - Z.min start (Z.of_nat (length es))).
Proof.
  intros H. unfold window. rewrite firstn_length, skipn_length. lia.
Qed.

Lemma chunk_total_spec (es : list event) epf j :
  1 <= epf -> chunk_total es epf j = Z.min (Z.of_nat (length es)) (Z.of_nat j * epf).
Proof.
  intros He. induction j as [|j IH]; [cbn; lia|].
  cbn [chunk_total]. rewrite IH.
  assert (Hx : 0 <= Z.of_nat j * epf) by (apply Z.mul_nonneg_nonneg; lia).
  rewrite window_length by lia.
  replace (Z.of_nat (S j) * epf) with (Z.of_nat j * epf + epf) by lia.
  replace ((Z.of_nat j + 1) * epf - Z.of_nat j * epf) with epf by lia.
  lia.
Qed.

Lemma loop_count_spec lines : loop_count lines = true_count lines.
Proof.
  unfold loop_count, true_count.
  assert (G : forall (l : list event) a, fold_left (fun n _ => n + 1) l a = a + Z.of_nat (length l)).
  { induction l as [|x l IH]; intros a; cbn [fold_left length]; [lia|]. rewrite IH. lia. }
  now rewrite G.
Qed.

Lemma true_count_sum lines :
  true_count lines = fold_right (fun l s => Z.max 0 (snd l) + s) 0 lines.
Proof.
  unfold true_count, expand. induction lines as [|l r IH]; [reflexivity|].
  cbn [flat_map fold_right]. rewrite app_length, repeat_length, Nat2Z.inj_add, IH. lia.
Qed.

(** all events are covered by the chunk jobs that reported *)
Definition chunks_ok (i : invocation) : Prop :=
  uses_chunks i = true ->
  1 <= i_epf i /\ true_count (i_lines i) <= Z.of_nat (i_jobs i) * i_epf i.

Lemma number_events_true i :
  chunks_ok i -> number_events i = Some (true_count (i_lines i)).
Proof.
  unfold chunks_ok, number_events. destruct (uses_chunks i).
  - intros H. destruct (H eq_refl) as [He Hj].
    rewrite chunk_total_spec by exact He. unfold count_events, true_count in *.
    rewrite Z.min_l by exact Hj. now rewrite Z.eqb_refl.
  - intros _. now rewrite loop_count_spec.
Qed.

Definition the_call (i : invocation) : call := mk_call i (true_count (i_lines i)).

Lemma calls_of_true is :
  (forall i, In i is -> chunks_ok i) -> calls_of is = Some (map the_call is).
Proof.
  induction is as [|i r IH]; intros H; [reflexivity|].
  cbn [calls_of map]. unfold call_of. rewrite number_events_true by (apply H; now left).
  rewrite IH by (intros x Hx; apply H; now right). reflexivity.
Qed.

(** chain level, for learner invocations: the first invocation is of the ndl
    family, or all are of the same family *)
Definition families_ok (i0 : invocation) (rest : list invocation) : Prop :=
  fam_of (i_learner i0) = FamNdl \/
  forall i, In i rest -> fam_of (i_learner i) = fam_of (i_learner i0).

Theorem run_chain_entries i0 rest k :
  (forall i, In i (i0 :: rest) -> chunks_ok i) ->
  families_ok i0 rest ->
  (forall i, In i (i0 :: rest) -> sep_free (raw_str k (the_call i)) = true) ->
  In k (keys_of (fam_of (i_learner i0))) ->
  exists A v, run_chain None (i0 :: rest) = Some A /\ lookup k A = Some v /\
    entries v = map (fun i => rstrip (raw_str k (the_call i))) (i0 :: rest) /\
    length (entries v) = length (i0 :: rest).
Proof.
  intros Hc Hf Hv Hk. unfold run_chain. rewrite calls_of_true by exact Hc.
  cbn [map].
  destruct (entries_general (the_call i0) (map the_call rest) k) as (A & v & HA & HL & _ & HE & HN).
  - intros c Hin. apply in_map_iff in Hin as (i & <- & Hi).
    destruct Hf as [Hf|Hf].
    + now apply keys_sub_ndl.
    + apply keys_sub_same. cbn. now apply Hf.
  - intros c [<-|Hin]; [apply Hv; now left|].
    apply in_map_iff in Hin as (i & <- & Hi). apply Hv. now right.
  - rewrite has_key_new. apply existsb_eqb_In. exact Hk.
  - exists A, v. repeat split; auto.
    + rewrite HE. change (the_call i0 :: map the_call rest) with (map the_call (i0 :: rest)).
      now rewrite map_map.
    + rewrite HN. cbn [length]. now rewrite map_length.
Qed.

Lemma no_space_sep_free s : ~ In SP s -> sep_free s = true.
Proof.
  induction s as [|c r IH]; intros H; [reflexivity|].
  cbn [sep_free]. rewrite IH by (intro; apply H; now right).
  rewrite andb_true_r. apply negb_true_iff. cbn [app]. unfold sep. cbn [is_prefix].
  destruct (SP =? c) eqn:E; [|reflexivity]. apply Z.eqb_eq in E. exfalso. apply H. now left.
Qed.

Lemma no_space_rstrip s : ~ In SP s -> rstrip s = s.
Proof.
  induction s as [|c r IH]; intros H; [reflexivity|].
  cbn [rstrip]. rewrite IH by (intro; apply H; now right).
  destruct r; [|reflexivity].
  destruct (c =? SP) eqn:E; [|reflexivity]. apply Z.eqb_eq in E. exfalso. apply H. now left.
Qed.

Lemma digits_no_space u : ~ In SP (digits u).
Proof. unfold SP. induction u; cbn; try tauto; intros [H|H]; try discriminate; auto. Qed.

Lemma str_of_Z_no_space n : ~ In SP (str_of_Z n).
Proof.
  unfold str_of_Z. destruct (Z.to_int n); [apply digits_no_space|].
  intros [H|H]; [discriminate|now apply digits_no_space in H].
Qed.

Lemma raw_str_number_events c : raw_str (lit "number_events") c = str_of_Z (c_number_events c).
Proof. unfold raw_str, raw. destruct (c_family c); reflexivity. Qed.

Lemma number_events_key f : In (lit "number_events") (keys_of f).
Proof. destruct f; cbn; tauto. Qed.

Theorem number_events_entries i0 rest :
  (forall i, In i (i0 :: rest) -> chunks_ok i) ->
  families_ok i0 rest ->
  exists A v, run_chain None (i0 :: rest) = Some A /\
    lookup (lit "number_events") A = Some v /\
    entries v = map (fun i => str_of_Z (true_count (i_lines i))) (i0 :: rest) /\
    (forall i, true_count (i_lines i) = fold_right (fun l s => Z.max 0 (snd l) + s) 0 (i_lines i)) /\
    (forall n m, str_of_Z n = str_of_Z m -> n = m).
Proof.
  intros Hc Hf.
  destruct (run_chain_entries i0 rest (lit "number_events") Hc Hf) as (A & v & HA & HL & HE & _).
  - intros i _. rewrite raw_str_number_events. apply no_space_sep_free, str_of_Z_no_space.
  - apply number_events_key.
  - exists A, v. repeat split; auto.
    + rewrite HE. apply map_ext. intros i. rewrite raw_str_number_events.
      cbn. apply no_space_rstrip, str_of_Z_no_space.
    + intros i. apply true_count_sum.
    + apply str_of_Z_inj.
Qed.

(** * Arguments recorded by the parallel Rescorla-Wagner learner *)
Definition param_table : list (str * (invocation -> str)) :=
  [ (lit "alpha", i_alpha); (lit "betas", i_betas); (lit "lambda", i_lambda);
    (lit "method", i_method); (lit "event_path", i_path) ].

(** [ndl.ndl] with an [alpha] that is a Python float or int *)
Definition rw_par (i : invocation) : Prop :=
  i_learner i = LNdl /\ i_alpha_kind i <> AOther.

Lemma rw_par_recorded i n key field :
  rw_par i -> In (key, field) param_table -> raw_str key (mk_call i n) = field i.
Proof.
  intros [Hl Hk] Hin. unfold raw_str, raw, mk_call. cbn [c_family]. rewrite Hl. cbn [fam_of].
  assert (Ha : alpha_is_num i = true).
  { unfold alpha_is_num. rewrite Hl. destruct (i_alpha_kind i); congruence. }
  cbn in Hin.
  repeat (destruct Hin as [Hin|Hin]; [inversion Hin; subst; clear Hin|]); try contradiction.
  - cbn. unfold alpha_str. cbn. now rewrite Ha.
  - reflexivity.
  - reflexivity.
  - cbn. unfold method_of. now rewrite Hl.
  - reflexivity.
Qed.

Lemma param_key_ndl key field : In (key, field) param_table -> In key ndl_keys.
Proof.
  cbn. intros H. repeat (destruct H as [H|H]; [inversion H; subst; cbn; tauto|]). contradiction.
Qed.

Lemma chain_some cs : forall a, exists A, chain (Some a) cs = Some A.
Proof. induction cs as [|c r IH]; intros a; cbn; [eauto|apply IH]. Qed.

Lemma run_chain_defined i0 rest :
  (forall i, In i (i0 :: rest) -> chunks_ok i) -> exists A, run_chain None (i0 :: rest) = Some A.
Proof.
  intros Hc. unfold run_chain. rewrite calls_of_true by exact Hc. cbn [map chain]. apply chain_some.
Qed.

Theorem parameters_entries i0 rest :
  (forall i, In i (i0 :: rest) ->
     rw_par i /\ chunks_ok i /\
     forall key field, In (key, field) param_table -> sep_free (field i) = true) ->
  exists A, run_chain None (i0 :: rest) = Some A /\
    forall key field, In (key, field) param_table ->
      exists v, lookup key A = Some v /\
        entries v = map (fun i => rstrip (field i)) (i0 :: rest) /\
        length (entries v) = length (i0 :: rest).
Proof.
  intros H.
  assert (Hc : forall i, In i (i0 :: rest) -> chunks_ok i) by (intros i Hi; apply H; exact Hi).
  assert (Hl0 : i_learner i0 = LNdl) by (destruct (H i0 (or_introl eq_refl)) as [[Hl _] _]; exact Hl).
  assert (Hf : families_ok i0 rest) by (left; now rewrite Hl0).
  destruct (run_chain_defined i0 rest Hc) as (A & HA). exists A. split; [exact HA|].
  intros key field Hin.
  destruct (run_chain_entries i0 rest key Hc Hf) as (A' & v & HA' & HL & HE & HN).
  - intros i Hi. destruct (H i Hi) as (Hr & _ & Hs). unfold the_call.
    rewrite (rw_par_recorded i _ key field Hr Hin). now apply (Hs key field).
  - rewrite Hl0. cbn [fam_of keys_of]. now apply (param_key_ndl key field).
  - rewrite HA in HA'. inversion HA'; subst A'. exists v. repeat split; auto.
    rewrite HE. apply map_ext_in. intros i Hi. unfold the_call.
    destruct (H i Hi) as (Hr & _). now rewrite (rw_par_recorded i _ key field Hr Hin).
Qed.

(** * Every attribute value is a string of valid code points *)
Lemma valid_app a b : valid_str (a ++ b) = valid_str a && valid_str b.
Proof. apply forallb_app. Qed.

Lemma valid_spaces n : valid_str (repeat SP n) = true.
Proof. induction n; cbn; auto. Qed.

Lemma valid_get o k : attrs_valid o = true -> valid_str (get o k) = true.
Proof.
  unfold attrs_valid, get. intros H. rewrite forallb_forall in H.
  destruct (lookup k o) eqn:E; [|reflexivity].
  apply lookup_In in E as (kv & Hin & <-). now apply H.
Qed.

Lemma new_attrs_valid c : inputs_valid c = true -> attrs_valid (new_attrs c) = true.
Proof.
  unfold inputs_valid, attrs_valid, new_attrs. rewrite !forallb_forall. intros H kv Hin.
  apply in_map_iff in Hin as (x & <- & Hx). cbn [snd]. unfold format_, pad.
  rewrite valid_app, valid_spaces, andb_true_r. now apply H.
Qed.

Lemma accumulate_valid o new :
  attrs_valid o = true -> attrs_valid new = true -> attrs_valid (accumulate (Some o) new) = true.
Proof.
  intros Ho Hn. unfold accumulate, attrs_valid. rewrite forallb_app. apply andb_true_iff. split.
  - apply forallb_forall. intros kv Hin. apply in_map_iff in Hin as (x & <- & Hx). cbn [snd].
    unfold attrs_valid in Hn. rewrite forallb_forall in Hn. pose proof (Hn x Hx) as Hv.
    rewrite !valid_app, (valid_get o _ Ho). cbn. exact Hv.
  - apply forallb_forall. intros kv Hin. apply in_map_iff in Hin as (x & <- & Hx). cbn [snd].
    apply filter_In in Hx as [Hx _]. unfold attrs_valid in Ho. rewrite forallb_forall in Ho.
    pose proof (Ho x Hx) as Hv. rewrite !valid_app. cbn. rewrite !andb_true_r. exact Hv.
Qed.

Theorem chain_valid cs : forall start A,
  match start with Some a => attrs_valid a = true | None => True end ->
  (forall c, In c cs -> inputs_valid c = true) ->
  chain start cs = Some A -> attrs_valid A = true.
Proof.
  induction cs as [|c r IH]; intros start A Hs Hc HA.
  - cbn in HA. subst start. exact Hs.
  - cbn [chain] in HA. apply (IH (Some (attributes c start)) A); [|intros x Hx; apply Hc; now right|exact HA].
    unfold attributes. pose proof (new_attrs_valid c (Hc c (or_introl eq_refl))) as Hn.
    destruct start as [o|]; [now apply accumulate_valid|exact Hn].
Qed.

(** * Concrete chains: non-vacuity and the cases in which the code does not
    produce one entry per call *)
Definition ex_env (date : string) : env :=
  {| e_date := lit date; e_cpu := lit "0.037394055999999676"; e_wall := lit "0.04550566499983688";
     e_host := lit "vm"; e_user := lit "root"; e_pyndl := lit "1.2.3"; e_numpy := lit "2.5.3";
     e_pandas := lit "3.0.6"; e_xarray := lit "2026.7.0"; e_cython := lit "3.3.0" |}.

Definition ex_inv (l : learner) (path : string) (freqs : list Z) (epf : Z) (jobs : nat)
           (ak : alpha_kind) (alpha betas lambda method : string) : invocation :=
  {| i_learner := l; i_path := lit path;
     i_lines := map (fun f => (([1; 2], [3]) : event, f)) freqs;
     i_epf := epf; i_jobs := jobs; i_numpy := false;
     i_alpha_kind := ak; i_alpha := lit alpha; i_betas := lit betas; i_lambda := lit lambda;
     i_method := lit method; i_env := ex_env "2026-09-30 20:33:02" |}.

(** ndl (threading) -> dict_ndl on a file with a frequency column -> ndl (openmp) *)
Definition ex_chain : list invocation :=
  [ ex_inv LNdl "/data/e1.tab.gz" [1; 1; 1] 2 3 AFloat "0.1" "(0.1, 0.2)" "1.0" "threading";
    ex_inv LDictNdl "/data/e2.tab.gz" [3; 2] 10 0 AFloat
           "defaultdict(<function dict_ndl.<locals>.<lambda> at 0x7f>, {'a': 0.5})" "(0.1, 0.2)" "2.0" "";
    ex_inv LNdl "/data/e2.tab.gz" [3; 2] 2 4 AFloat "0.25" "(0.1, 0.2)" "3" "openmp" ].

Definition ex_entries (k : string) (r : option attrs) : list str :=
  match r with Some A => entries (get A (lit k)) | None => [] end.

Lemma chunks_ok_dec i :
  (if uses_chunks i then (1 <=? i_epf i) && (true_count (i_lines i) <=? Z.of_nat (i_jobs i) * i_epf i)
   else true) = true -> chunks_ok i.
Proof.
  unfold chunks_ok. destruct (uses_chunks i); [|discriminate].
  rewrite andb_true_iff, Z.leb_le, Z.leb_le. auto.
Qed.

Lemma ex_chain_ok :
  (forall i, In i ex_chain -> chunks_ok i /\ values_ok (the_call i) = true) /\
  ex_entries "number_events" (run_chain None ex_chain) = [lit "3"; lit "5"; lit "5"] /\
  ex_entries "alpha" (run_chain None ex_chain) = [lit "0.1"; lit "varying"; lit "0.25"] /\
  ex_entries "method" (run_chain None ex_chain) = [lit "threading"; lit "None"; lit "openmp"] /\
  ex_entries "event_path" (run_chain None ex_chain) =
    [lit "/data/e1.tab.gz"; lit "/data/e2.tab.gz"; lit "/data/e2.tab.gz"] /\
  ex_entries "function" (run_chain None ex_chain) =
    [lit "pyndl.ndl.ndl"; lit "pyndl.ndl.dict_ndl"; lit "pyndl.ndl.ndl"].
Proof.
  split.
  - intros i [<-|[<-|[<-|[]]]]; (split; [apply chunks_ok_dec|]; vm_compute; reflexivity).
  - repeat split; vm_compute; reflexivity.
Qed.

(** a key that appears for the first time in the third call (two Widrow-Hoff
    calls, then an ndl-family call) has two entries after three calls *)
Definition late_key_chain : list invocation :=
  [ ex_inv LDictWh "" [1; 1] 10 0 AFloat "" "" "0.1" "";
    ex_inv LDictWh "" [1; 1] 10 0 AFloat "" "" "0.2" "";
    ex_inv LDictNdl "" [1; 1] 10 0 AFloat "defaultdict(<function>, {})" "(0.1, 0.1)" "1.0" "" ].

Lemma late_key_refuted :
  exists is, length is = 3%nat /\
    (forall i, In i is -> chunks_ok i /\ values_ok (the_call i) = true) /\
    ex_entries "alpha" (run_chain None is) = [[]; lit "varying"] /\
    ex_entries "lambda" (run_chain None is) = [lit "0.1"; lit "0.2"; lit "1.0"].
Proof.
  exists late_key_chain. split; [reflexivity|]. split.
  - intros i [<-|[<-|[<-|[]]]]; (split; [apply chunks_ok_dec|]; vm_compute; reflexivity).
  - split; vm_compute; reflexivity.
Qed.

(** [ndl.ndl] with an alpha that is neither a Python float nor an int (e.g.
    numpy.float32(0.5)) trains with it but records 'varying' *)
Lemma alpha_not_python_number_refuted :
  exists i, i_learner i = LNdl /\ chunks_ok i /\ values_ok (the_call i) = true /\
    i_alpha i = lit "0.5" /\
    ex_entries "alpha" (run_chain None [i]) = [lit "varying"].
Proof.
  exists (ex_inv LNdl "/data/e1.tab.gz" [1; 1; 1] 2 3 AOther "0.5" "(0.1, 0.2)" "1.0" "threading").
  split; [reflexivity|]. split; [apply chunks_ok_dec; vm_compute; reflexivity|].
  repeat split; vm_compute; reflexivity.
Qed.

(** [dict_ndl] never records a float alpha: it has replaced it by a defaultdict *)
Lemma dict_ndl_float_alpha_is_varying i n :
  i_learner i = LDictNdl -> i_alpha_kind i = AFloat ->
  raw_str (lit "alpha") (mk_call i n) = lit "varying".
Proof.
  intros Hl Hk. unfold raw_str, raw, mk_call. cbn [c_family]. rewrite Hl. cbn.
  unfold alpha_str. cbn. unfold alpha_is_num. now rewrite Hl, Hk.
Qed.

(** weights that carry no attributes ([attrs = {}], e.g. a hand-made
    DataArray) give two entries after one call, the first one empty *)
Lemma attrless_start_two_entries :
  exists i, chunks_ok i /\ values_ok (the_call i) = true /\
    ex_entries "date" (run_chain (Some []) [i]) = [[]; lit "2026-09-30 20:33:02"].
Proof.
  exists (ex_inv LNdl "/data/e1.tab.gz" [1; 1; 1] 2 3 AFloat "0.5" "(0.1, 0.2)" "1.0" "openmp").
  split; [apply chunks_ok_dec; vm_compute; reflexivity|].
  split; vm_compute; reflexivity.
Qed.

(** the hypothesis on the values is needed: a path that contains ' | ' *)
Lemma separator_in_path_refuted :
  exists i, chunks_ok i /\
    ex_entries "event_path" (run_chain None [i]) = [lit "/data/a"; lit "b.tab.gz"].
Proof.
  exists (ex_inv LNdl "/data/a | b.tab.gz" [1; 1; 1] 2 3 AFloat "0.5" "(0.1, 0.2)" "1.0" "openmp").
  split; [apply chunks_ok_dec|]; vm_compute; reflexivity.
Qed.

(** [sep_free] says: ' | ' does not occur in the value followed by a space *)
Lemma sep_free_spec v : sep_free v = negb (occurs sep (v ++ [SP])).
Proof.
  induction v as [|c r IH]; [reflexivity|].
  cbn [sep_free app occurs]. rewrite IH, negb_orb. reflexivity.
Qed.

Lemma split_join_padded : forall (v : str * nat) (vs : list (str * nat)),
  let padn := fun p : str * nat => fst p ++ repeat SP (snd p) in
  (forall p, In p (v :: vs) -> sep_free (fst p) = true) ->
  split sep (joinl (padn v) (map padn vs)) = map padn (v :: vs).
Proof.
  intros v vs padn H. apply split_join.
  - apply clean_pad, H. now left.
  - apply Forall_forall. intros e He. apply in_map_iff in He as (p & <- & Hp).
    apply clean_pad, H. now right.
Qed.
