(** Property-style statements about the structure of the chunk readers in /repo's current source (GenSrc.v is
    rewritten by tools/py2coq.py on every run).  Only [exact lemma] and [Print Assumptions]. *)
From Coq Require Import ZArith List Bool Lia.
From PV Require Import Bytes BinFmt.
From PVGen Require Import GenSrc SrcFmtShapeProofs.
Import ListNotations.
Open Scope Z_scope.

(** every function of ndl_parallel.pyx that opens a chunk performs the header check the model's [k_parse] /
    [hdr_error] describe (magic against MAGIC_NUMBER, then version against CURRENT_VERSION, each with its own error
    code) directly after [fopen], and [read_binary_file] starts with the decision of [py_read] *)
Theorem SRC_fmt_every_reader_checks_the_header :
  0 < fmt_k_kernels_src /\ fmt_k_canonical_header_checks_src = fmt_k_kernels_src /\
  fmt_py_reader_header_canonical_src = true.
Proof. exact src_every_kernel_checks_the_header. Qed.
Print Assumptions SRC_fmt_every_reader_checks_the_header.

(** every [fread] of the kernels and every [read] of the Python reader moves words of the width [to_bytes] writes *)
Theorem SRC_fmt_word_widths_agree :
  Forall (fun w => w = fmt_shape_to_bytes_width_src) (fmt_k_fread_widths_src ++ fmt_py_read_widths_src) /\
  fmt_k_fread_widths_src <> [] /\ fmt_py_read_widths_src <> [].
Proof. exact src_word_widths_agree. Qed.
Print Assumptions SRC_fmt_word_widths_agree.

(** each kernel starts with two id buffers of the capacity the re-allocation model [k_read_ids] starts from *)
Theorem SRC_fmt_initial_capacities_are_model :
  Forall (fun c => c = INITIAL_CAP) fmt_k_initial_caps_src /\
  Z.of_nat (length fmt_k_initial_caps_src) = 2 * fmt_k_kernels_src.
Proof. exact src_initial_capacities_are_model. Qed.
Print Assumptions SRC_fmt_initial_capacities_are_model.
